// Package ntlmc is an independent NTLMSSP client (type 1 and type 3 messages,
// NTLMv2 response) written from MS-NLMP on top of crypto/hmac, crypto/md5 and
// x/crypto/md4. It shares no code with go-ntlm, which the verifier under test uses.
package ntlmc

import (
	"crypto/hmac"
	"crypto/md5"
	"encoding/binary"
	"errors"
	"strings"
	"unicode/utf16"

	"golang.org/x/crypto/md4"
)

const (
	flagUnicode    = 0x00000001
	flagRequestTgt = 0x00000004
	flagNTLM       = 0x00000200
	flagAlwaysSign = 0x00008000
	flagExtSess    = 0x00080000
	flagTargetInfo = 0x00800000
	flag128        = 0x20000000
	flag56         = 0x80000000
)

var sig = []byte("NTLMSSP\x00")

func utf16le(s string) []byte {
	u := utf16.Encode([]rune(s))
	b := make([]byte, 2*len(u))
	for i, c := range u {
		binary.LittleEndian.PutUint16(b[2*i:], c)
	}
	return b
}

// Negotiate builds a type 1 message (no domain / workstation / version).
func Negotiate() []byte {
	b := make([]byte, 32)
	copy(b, sig)
	binary.LittleEndian.PutUint32(b[8:], 1)
	binary.LittleEndian.PutUint32(b[12:], flagUnicode|flagRequestTgt|flagNTLM|flagAlwaysSign|flagExtSess|flag128|flag56)
	return b
}

// Challenge is the part of a type 2 message a client needs.
type Challenge struct {
	ServerChallenge []byte
	TargetInfo      []byte
	Flags           uint32
}

// ParseChallenge decodes a type 2 message.
func ParseChallenge(b []byte) (*Challenge, error) {
	if len(b) < 48 || string(b[:8]) != string(sig) || binary.LittleEndian.Uint32(b[8:]) != 2 {
		return nil, errors.New("not a challenge message")
	}
	c := &Challenge{ServerChallenge: append([]byte{}, b[24:32]...), Flags: binary.LittleEndian.Uint32(b[20:])}
	l := int(binary.LittleEndian.Uint16(b[40:]))
	o := int(binary.LittleEndian.Uint32(b[44:]))
	if l > 0 {
		if o+l > len(b) {
			return nil, errors.New("target info outside message")
		}
		c.TargetInfo = append([]byte{}, b[o:o+l]...)
	}
	return c, nil
}

func hmacMD5(key, data []byte) []byte {
	h := hmac.New(md5.New, key)
	h.Write(data)
	return h.Sum(nil)
}

// NTOWFv2 = HMAC_MD5(MD4(UNICODE(password)), UNICODE(UPPER(user)+domain)).
func NTOWFv2(user, password, domain string) []byte {
	h := md4.New()
	h.Write(utf16le(password))
	return hmacMD5(h.Sum(nil), utf16le(strings.ToUpper(user)+domain))
}

// AuthParams describes a type 3 message.
type AuthParams struct {
	User            string // name put in the UserName field
	KeyUser         string // user whose password keys the response ("" = User)
	Password        string
	Domain          string
	ServerChallenge []byte
	TargetInfo      []byte
	ClientChallenge []byte // 8 bytes
	Timestamp       []byte // 8 bytes
}

// Authenticate builds a type 3 message with an NTLMv2 response.
func Authenticate(p AuthParams) []byte {
	ku := p.KeyUser
	if ku == "" {
		ku = p.User
	}
	key := NTOWFv2(ku, p.Password, p.Domain)
	cc := p.ClientChallenge
	if cc == nil {
		cc = []byte{1, 2, 3, 4, 5, 6, 7, 8}
	}
	ts := p.Timestamp
	if ts == nil {
		ts = make([]byte, 8)
	}
	temp := []byte{1, 1, 0, 0, 0, 0, 0, 0}
	temp = append(temp, ts...)
	temp = append(temp, cc...)
	temp = append(temp, 0, 0, 0, 0)
	temp = append(temp, p.TargetInfo...)
	temp = append(temp, 0, 0, 0, 0)
	proof := hmacMD5(key, append(append([]byte{}, p.ServerChallenge...), temp...))
	nt := append(proof, temp...)
	lm := append(hmacMD5(key, append(append([]byte{}, p.ServerChallenge...), cc...)), cc...)
	return Type3(lm, nt, utf16le(p.Domain), utf16le(p.User), utf16le("WS"), nil, flagUnicode|flagNTLM|flagExtSess|flagTargetInfo|flag128|flag56)
}

// Field is a security buffer (len, maxlen, offset) that can be overridden.
type Field struct {
	Len, MaxLen uint16
	Offset      uint32
}

// Type3 lays out a type 3 message: 6 security buffers, flags, payload.
func Type3(lm, nt, domain, user, ws, key []byte, flags uint32) []byte {
	b, _ := Type3Fields(lm, nt, domain, user, ws, key, flags, nil)
	return b
}

// Type3Fields is Type3 with optional overrides of the six security buffers
// (index 0..5: lm, nt, domain, user, workstation, session key); it also returns
// the honest fields.
func Type3Fields(lm, nt, domain, user, ws, key []byte, flags uint32, override map[int]Field) ([]byte, []Field) {
	const hdr = 64
	b := make([]byte, hdr)
	copy(b, sig)
	binary.LittleEndian.PutUint32(b[8:], 3)
	parts := [][]byte{lm, nt, domain, user, ws, key}
	off := uint32(hdr)
	var fields []Field
	for i, p := range parts {
		f := Field{uint16(len(p)), uint16(len(p)), off}
		fields = append(fields, f)
		if o, ok := override[i]; ok {
			f = o
		}
		binary.LittleEndian.PutUint16(b[12+8*i:], f.Len)
		binary.LittleEndian.PutUint16(b[14+8*i:], f.MaxLen)
		binary.LittleEndian.PutUint32(b[16+8*i:], f.Offset)
		off += uint32(len(p))
	}
	binary.LittleEndian.PutUint32(b[60:], flags)
	for _, p := range parts {
		b = append(b, p...)
	}
	return b, fields
}
