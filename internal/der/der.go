// Package der is a minimal independent DER encoder/decoder for
// KDC-PROXY-MESSAGE (MS-KKDCP 2.2.2), with explicit tags as the Kerberos ASN.1
// module prescribes.
package der

import "errors"

// TLV encodes tag, definite length, value.
func TLV(tag byte, v []byte) []byte {
	return append(append([]byte{tag}, Len(len(v))...), v...)
}

// Len encodes a definite length in the shortest form.
func Len(n int) []byte {
	switch {
	case n < 0x80:
		return []byte{byte(n)}
	case n < 0x100:
		return []byte{0x81, byte(n)}
	case n < 0x10000:
		return []byte{0x82, byte(n >> 8), byte(n)}
	case n < 0x1000000:
		return []byte{0x83, byte(n >> 16), byte(n >> 8), byte(n)}
	}
	return []byte{0x84, byte(n >> 24), byte(n >> 16), byte(n >> 8), byte(n)}
}

// TLVLong encodes tag, length in the long form with n length octets (BER allows it, DER only when it is the
// shortest form), value.
func TLVLong(tag byte, v []byte, n int) []byte {
	out := []byte{tag, 0x80 | byte(n)}
	for i := n - 1; i >= 0; i-- {
		out = append(out, byte(len(v)>>(8*uint(i))))
	}
	return append(out, v...)
}

// KdcProxyMessageLong is KdcProxyMessage (message and realm) with every length in the long form with n octets.
func KdcProxyMessageLong(msg []byte, realm string, n int) []byte {
	body := TLVLong(0xA0, TLVLong(0x04, msg, n), n)
	body = append(body, TLVLong(0xA1, TLVLong(0x1B, []byte(realm), n), n)...)
	return TLVLong(0x30, body, n)
}

// KdcProxyMessageForms is KdcProxyMessage (message and realm in proper DER) where the lengths of the outer
// SEQUENCE, the [0] wrapper and the OCTET STRING are written in the long form with seqN / wrapN / octN length
// octets (0 = shortest form).
func KdcProxyMessageForms(msg []byte, realm string, seqN, wrapN, octN int) []byte {
	tlv := func(tag byte, v []byte, n int) []byte {
		if n == 0 {
			return TLV(tag, v)
		}
		return TLVLong(tag, v, n)
	}
	body := tlv(0xA0, tlv(0x04, msg, octN), wrapN)
	body = append(body, TLV(0xA1, TLV(0x1B, []byte(realm)))...)
	return tlv(0x30, body, seqN)
}

// KdcProxyMessage encodes SEQUENCE { [0] OCTET STRING, [1] GeneralString OPTIONAL, [2] INTEGER OPTIONAL }.
func KdcProxyMessage(msg []byte, realm string, withRealm bool, flags int, withFlags bool) []byte {
	body := TLV(0xA0, TLV(0x04, msg))
	if withRealm {
		body = append(body, TLV(0xA1, TLV(0x1B, []byte(realm)))...)
	}
	if withFlags {
		body = append(body, TLV(0xA2, TLV(0x02, []byte{byte(flags)}))...)
	}
	return TLV(0x30, body)
}

func readTLV(b []byte) (tag byte, v, rest []byte, err error) {
	if len(b) < 2 {
		return 0, nil, nil, errors.New("short")
	}
	tag = b[0]
	l := int(b[1])
	o := 2
	if l&0x80 != 0 {
		n := l & 0x7f
		if n == 0 || n > 4 || len(b) < 2+n {
			return 0, nil, nil, errors.New("bad length")
		}
		l = 0
		for i := 0; i < n; i++ {
			l = l<<8 | int(b[2+i])
		}
		o = 2 + n
		// DER: the shortest form only
		if b[2] == 0 || l < 0x80 {
			return 0, nil, nil, errors.New("length not in its shortest form")
		}
	}
	if len(b) < o+l {
		return 0, nil, nil, errors.New("truncated")
	}
	return tag, b[o : o+l], b[o+l:], nil
}

// ParseKdcProxyMessage decodes a response: returns the kerb-message.
func ParseKdcProxyMessage(b []byte) ([]byte, error) {
	tag, v, rest, err := readTLV(b)
	if err != nil || tag != 0x30 || len(rest) != 0 {
		return nil, errors.New("not a single SEQUENCE")
	}
	tag, v0, _, err := readTLV(v)
	if err != nil || tag != 0xA0 {
		return nil, errors.New("no [0] element")
	}
	tag, msg, r2, err := readTLV(v0)
	if err != nil || tag != 0x04 || len(r2) != 0 {
		return nil, errors.New("[0] is not an OCTET STRING")
	}
	return msg, nil
}
