// Package tsgu is an independent MS-TSGU packet codec used by the oracles. It
// shares no code with the repository's encoder/decoder.
package tsgu

import (
	"encoding/binary"
	"fmt"
	"unicode/utf16"
)

const (
	TypeHandshakeReq   = 0x1
	TypeHandshakeResp  = 0x2
	TypeExtAuth        = 0x3
	TypeTunnelCreate   = 0x4
	TypeTunnelResp     = 0x5
	TypeTunnelAuth     = 0x6
	TypeTunnelAuthResp = 0x7
	TypeChannelCreate  = 0x8
	TypeChannelResp    = 0x9
	TypeData           = 0xA
	TypeServiceMsg     = 0xB
	TypeReauth         = 0xC
	TypeKeepalive      = 0xD
	TypeCloseChannel   = 0x10
	TypeCloseResp      = 0x11
)

// MS-TSGU / Win32 status codes named by the properties.
const (
	StatusOK                 = 0
	ECapabilityMismatch      = 0x800759E9 // E_PROXY_CAPABILITYMISMATCH
	ECookieAuthDenied        = 0x800759F8 // E_PROXY_COOKIE_AUTHENTICATION_ACCESS_DENIED
	ERAPAccessDenied         = 0x800759DA // E_PROXY_RAP_ACCESSDENIED
	EInternalError           = 0x800759D8 // E_PROXY_INTERNALERROR
	ErrorAccessDenied        = 0x00000005
	ExtAuthSC         uint16 = 0x1
	ExtAuthPAA        uint16 = 0x2
	ExtAuthNTLM       uint16 = 0x4
)

// Packet frames a body: type(2) reserved(2) length(4, including the header).
func Packet(typ uint16, body []byte) []byte {
	return RawPacket(typ, 0, uint32(len(body)+8), body)
}

// RawPacket frames a body with an arbitrary reserved word and length field.
func RawPacket(typ, reserved uint16, length uint32, body []byte) []byte {
	b := make([]byte, 8, 8+len(body))
	binary.LittleEndian.PutUint16(b[0:], typ)
	binary.LittleEndian.PutUint16(b[2:], reserved)
	binary.LittleEndian.PutUint32(b[4:], length)
	return append(b, body...)
}

// UTF16 encodes s as UTF-16LE without terminator.
func UTF16(s string) []byte {
	u := utf16.Encode([]rune(s))
	b := make([]byte, 2*len(u))
	for i, c := range u {
		binary.LittleEndian.PutUint16(b[2*i:], c)
	}
	return b
}

// UTF16Z encodes s as UTF-16LE with a terminating NUL, as Windows clients send it.
func UTF16Z(s string) []byte { return append(UTF16(s), 0, 0) }

// Units encodes raw UTF-16 code units.
func Units(u ...uint16) []byte {
	b := make([]byte, 2*len(u))
	for i, c := range u {
		binary.LittleEndian.PutUint16(b[2*i:], c)
	}
	return b
}

func Handshake(major, minor byte, clientVersion, extAuth uint16) []byte {
	b := []byte{major, minor, 0, 0, 0, 0}
	binary.LittleEndian.PutUint16(b[2:], clientVersion)
	binary.LittleEndian.PutUint16(b[4:], extAuth)
	return Packet(TypeHandshakeReq, b)
}

// TunnelCreateRaw: capsFlags(4) fieldsPresent(2) reserved(2) [cbCookie(2) cookie].
func TunnelCreateRaw(caps uint32, fields uint16, cookieLen int, cookie []byte, withCookie bool) []byte {
	b := make([]byte, 8)
	binary.LittleEndian.PutUint32(b[0:], caps)
	binary.LittleEndian.PutUint16(b[4:], fields)
	if withCookie {
		var l [2]byte
		binary.LittleEndian.PutUint16(l[:], uint16(cookieLen))
		b = append(append(b, l[:]...), cookie...)
	}
	return Packet(TypeTunnelCreate, b)
}

// TunnelCreate with a PAA cookie string (NUL terminated UTF-16) or without one.
func TunnelCreate(cookie string, withCookie bool) []byte {
	if !withCookie {
		return TunnelCreateRaw(0x3F, 0, 0, nil, false)
	}
	c := UTF16Z(cookie)
	return TunnelCreateRaw(0x3F, 1, len(c), c, true)
}

// TunnelAuth in the layout the gateway under test reads: cbClientName(2) name.
func TunnelAuth(name string) []byte {
	n := UTF16Z(name)
	b := make([]byte, 2)
	binary.LittleEndian.PutUint16(b, uint16(len(n)))
	return Packet(TypeTunnelAuth, append(b, n...))
}

// ChannelCreateRaw: numResources(1) numAlt(1) port(2) protocol(2) cbName(2) name.
func ChannelCreateRaw(nres, nalt byte, port, proto uint16, nameLen int, name []byte) []byte {
	b := make([]byte, 8)
	b[0], b[1] = nres, nalt
	binary.LittleEndian.PutUint16(b[2:], port)
	binary.LittleEndian.PutUint16(b[4:], proto)
	binary.LittleEndian.PutUint16(b[6:], uint16(nameLen))
	return Packet(TypeChannelCreate, append(b, name...))
}

func ChannelCreate(host string, port uint16) []byte {
	n := UTF16Z(host)
	return ChannelCreateRaw(1, 0, port, 3, len(n), n)
}

func Data(payload []byte) []byte {
	b := make([]byte, 2, 2+len(payload))
	binary.LittleEndian.PutUint16(b, uint16(len(payload)))
	return Packet(TypeData, append(b, payload...))
}

// DataRaw: a data packet whose inner length field is arbitrary.
func DataRaw(cbLen uint16, payload []byte) []byte {
	b := make([]byte, 2, 2+len(payload))
	binary.LittleEndian.PutUint16(b, cbLen)
	return Packet(TypeData, append(b, payload...))
}

func Keepalive() []byte { return Packet(TypeKeepalive, nil) }

func CloseChannel() []byte { return Packet(TypeCloseChannel, []byte{0, 0, 0, 0}) }

// Pkt is a decoded packet.
type Pkt struct {
	Type     uint16
	Reserved uint16
	Length   uint32
	Body     []byte
	Raw      []byte
}

// Split decodes a byte stream into packets using the length fields only. rest
// holds trailing bytes that do not form a whole packet; err is set when a
// length field is smaller than the header.
func Split(stream []byte) (pkts []Pkt, rest []byte, err error) {
	for len(stream) >= 8 {
		l := binary.LittleEndian.Uint32(stream[4:])
		if l < 8 {
			return pkts, stream, fmt.Errorf("length field %d < 8", l)
		}
		if uint64(l) > uint64(len(stream)) {
			break
		}
		pkts = append(pkts, Pkt{
			Type:     binary.LittleEndian.Uint16(stream[0:]),
			Reserved: binary.LittleEndian.Uint16(stream[2:]),
			Length:   l,
			Body:     stream[8:l],
			Raw:      stream[:l],
		})
		stream = stream[l:]
	}
	return pkts, stream, nil
}

// Resp is the decoded form of a server packet, as far as the properties need.
type Resp struct {
	Type       uint16
	Status     uint32
	HasStatus  bool
	Fields     uint16
	Major      byte
	Minor      byte
	ServerVer  uint16
	ExtAuth    uint16
	TunnelID   uint32
	Caps       uint32
	Redir      uint32
	Timeout    uint32
	ChannelID  uint32
	Payload    []byte // data packets
	WellFormed bool
	Why        string // why not well-formed
}

// ParseResp decodes a server packet and checks that the body carries exactly
// the optional fields its mask announces.
func ParseResp(p Pkt) Resp {
	r := Resp{Type: p.Type}
	b := p.Body
	bad := func(f string, a ...any) Resp { r.Why = fmt.Sprintf(f, a...); return r }
	if int(p.Length) != len(p.Raw) {
		return bad("length field %d != %d bytes", p.Length, len(p.Raw))
	}
	switch p.Type {
	case TypeHandshakeResp:
		if len(b) != 10 {
			return bad("handshake response body %d != 10", len(b))
		}
		r.Status, r.HasStatus = binary.LittleEndian.Uint32(b), true
		r.Major, r.Minor = b[4], b[5]
		r.ServerVer = binary.LittleEndian.Uint16(b[6:])
		r.ExtAuth = binary.LittleEndian.Uint16(b[8:])
	case TypeTunnelResp:
		if len(b) < 10 {
			return bad("tunnel response body %d < 10", len(b))
		}
		r.ServerVer = binary.LittleEndian.Uint16(b)
		r.Status, r.HasStatus = binary.LittleEndian.Uint32(b[2:]), true
		r.Fields = binary.LittleEndian.Uint16(b[6:])
		o := 10
		if r.Fields&^0x3 != 0 {
			return bad("tunnel response announces fields %#x this decoder does not expect", r.Fields)
		}
		if r.Fields&1 != 0 {
			if len(b) < o+4 {
				return bad("tunnel id announced but missing")
			}
			r.TunnelID = binary.LittleEndian.Uint32(b[o:])
			o += 4
		}
		if r.Fields&2 != 0 {
			if len(b) < o+4 {
				return bad("caps announced but missing")
			}
			r.Caps = binary.LittleEndian.Uint32(b[o:])
			o += 4
		}
		if o != len(b) {
			return bad("tunnel response has %d bytes beyond the announced fields", len(b)-o)
		}
	case TypeTunnelAuthResp:
		if len(b) < 8 {
			return bad("tunnel auth response body %d < 8", len(b))
		}
		r.Status, r.HasStatus = binary.LittleEndian.Uint32(b), true
		r.Fields = binary.LittleEndian.Uint16(b[4:])
		o := 8
		if r.Fields&^0x3 != 0 {
			return bad("tunnel auth response announces fields %#x this decoder does not expect", r.Fields)
		}
		if r.Fields&1 != 0 {
			if len(b) < o+4 {
				return bad("redirect flags announced but missing")
			}
			r.Redir = binary.LittleEndian.Uint32(b[o:])
			o += 4
		}
		if r.Fields&2 != 0 {
			if len(b) < o+4 {
				return bad("idle timeout announced but missing")
			}
			r.Timeout = binary.LittleEndian.Uint32(b[o:])
			o += 4
		}
		if o != len(b) {
			return bad("tunnel auth response has %d bytes beyond the announced fields", len(b)-o)
		}
	case TypeChannelResp, TypeCloseResp:
		if len(b) < 8 {
			return bad("channel response body %d < 8", len(b))
		}
		r.Status, r.HasStatus = binary.LittleEndian.Uint32(b), true
		r.Fields = binary.LittleEndian.Uint16(b[4:])
		o := 8
		if r.Fields&^0x1 != 0 {
			return bad("channel response announces fields %#x this decoder does not expect", r.Fields)
		}
		if r.Fields&1 != 0 {
			if len(b) < o+4 {
				return bad("channel id announced but missing")
			}
			r.ChannelID = binary.LittleEndian.Uint32(b[o:])
			o += 4
		}
		if o != len(b) {
			return bad("channel response has %d bytes beyond the announced fields", len(b)-o)
		}
	case TypeData:
		if len(b) < 2 {
			return bad("data packet body %d < 2", len(b))
		}
		l := int(binary.LittleEndian.Uint16(b))
		if l != len(b)-2 {
			return bad("data packet payload-length field %d != %d bytes carried", l, len(b)-2)
		}
		r.Payload = b[2:]
	case TypeKeepalive:
		if len(b) != 0 {
			return bad("keepalive with body")
		}
	default:
		return bad("unexpected server packet type %#x", p.Type)
	}
	r.WellFormed = true
	return r
}
