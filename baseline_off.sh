#!/bin/sh
# Runs the repository's own test suite with the verif guard OFF (no -tags verif).
cd /repo || exit 2
export GOFLAGS=-mod=mod GOPROXY=off GOSUMDB=off GOTOOLCHAIN=local
go test -mod=mod -json -vet=off -count=1 -timeout 25m ./...
