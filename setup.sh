#!/bin/sh
# Builds the verification framework from files on disk only (offline).
set -e
cd /verif
export GOFLAGS=-mod=mod GOPROXY=off GOSUMDB=off GOTOOLCHAIN=local
mkdir -p bin .build evidence replays
cp /repo/go.sum go.sum 2>/dev/null || true
go build -o bin/overlaygen ./tools/overlaygen
go build -o bin/verif ./cmd/verif
# warm the build cache (plain and -race worker) so the first check is fast
./bin/verif build
echo "setup ok"
