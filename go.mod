module verif

go 1.22

require (
	github.com/bolkedebruin/rdpgw v0.0.0
	github.com/prometheus/client_golang v1.19.0
	github.com/prometheus/client_model v0.6.0
	golang.org/x/crypto v0.32.0
)

require (
	github.com/beorn7/perks v1.0.1 // indirect
	github.com/cespare/xxhash/v2 v2.2.0 // indirect
	github.com/coreos/go-oidc/v3 v3.9.0 // indirect
	github.com/go-jose/go-jose/v3 v3.0.4 // indirect
	github.com/go-jose/go-jose/v4 v4.0.5 // indirect
	github.com/golang/protobuf v1.5.4 // indirect
	github.com/google/uuid v1.6.0 // indirect
	github.com/gorilla/websocket v1.5.1 // indirect
	github.com/patrickmn/go-cache v2.1.0+incompatible // indirect
	github.com/prometheus/common v0.50.0 // indirect
	github.com/prometheus/procfs v0.13.0 // indirect
	golang.org/x/net v0.23.0 // indirect
	golang.org/x/oauth2 v0.18.0 // indirect
	golang.org/x/sys v0.29.0 // indirect
	google.golang.org/appengine v1.6.8 // indirect
	google.golang.org/protobuf v1.33.0 // indirect
)

replace github.com/bolkedebruin/rdpgw => /repo

replace github.com/msteinert/pam/v2 => ./shim/pam

replace github.com/patrickmn/go-cache => ./shim/go-cache
