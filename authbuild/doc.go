// Package authbuild exists only so that cmd/auth of the repository can be
// built with the pure-Go PAM stand-in (the image has no PAM headers):
//
//	cd /verif/authbuild && go build -o <out> github.com/bolkedebruin/rdpgw/cmd/auth
package authbuild

import _ "github.com/bolkedebruin/rdpgw/shared/auth"
