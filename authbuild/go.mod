module authbuild

go 1.22

require github.com/bolkedebruin/rdpgw v0.0.0

replace github.com/bolkedebruin/rdpgw => /repo

replace github.com/msteinert/pam/v2 => ../shim/pam
