#!/bin/sh
# validates MANIFEST.json and every evidence file against the schemas
python3-vt - <<'PY'
import json,jsonschema,glob,sys
ok=True
try:
    jsonschema.validate(json.load(open('/verif/MANIFEST.json')),json.load(open('/root/.vp/MANIFEST.schema.json')))
except Exception as e:
    ok=False; print('MANIFEST',str(e)[:300])
for f in sorted(glob.glob('/verif/evidence/*.json')):
    try:
        jsonschema.validate(json.load(open(f)),json.load(open('/root/.vp/EVIDENCE.schema.json')))
    except Exception as e:
        ok=False; print(f,str(e)[:300])
print('valid' if ok else 'INVALID')
sys.exit(0 if ok else 1)
PY
