// Command verif is the driver behind /verif/check: it regenerates the overlay
// from /repo's working tree, rebuilds the worker with the verif tag, runs the
// property's exploration on up to 16 shards, merges the reports, matches
// violations against known_findings.json, re-executes every new violation from
// its replay file before believing it, writes the evidence file and prints the
// KNOWN-FINDING / VIOLATION lines.
package main

import (
	"encoding/json"
	"fmt"
	"os"
	"os/exec"
	"path/filepath"
	"sort"
	"strconv"
	"strings"
	"sync"
	"time"
)

const root = "/verif"

type violation struct {
	Sig    string         `json:"sig"`
	Detail string         `json:"detail"`
	Count  int            `json:"count"`
	Replay map[string]any `json:"replay"`
}

type report struct {
	Property    string           `json:"property"`
	Stats       map[string]int64 `json:"stats"`
	OutcomeSet  map[string]int64 `json:"outcome_set"`
	Samples     []any            `json:"samples"`
	Violations  []violation      `json:"violations"`
	Exhaustive  bool             `json:"exhaustive"`
	Capped      []string         `json:"capped"`
	Notes       []string         `json:"notes"`
	Rule        string           `json:"rule"`
	Assumptions []string         `json:"assumptions"`
	Bounds      map[string]any   `json:"bounds"`
	WallS       float64          `json:"wall_s"`
	InfraError  string           `json:"infra_error"`
}

type finding struct {
	Property string `json:"property"`
	Status   string `json:"status"` // known | fixed
	Sig      string `json:"sig"`    // exact signature, or prefix ending in *
	What     string `json:"what"`
	Commit   string `json:"commit,omitempty"`
}

type propSpec struct {
	Race          bool
	Shards        int
	QuickBudget   time.Duration
	ThoroughBudget time.Duration
	Binaries      bool // needs the real rdpgw / rdpgw-auth binaries
}

var specs = map[string]propSpec{
	"C09": {Race: true},
	"C05": {Binaries: true, Shards: 11},
	"C10": {Binaries: true},
	"C18": {Binaries: true},
	"C01": {Binaries: true},
	"C11": {Binaries: true},
	"C02": {Binaries: true},
	"C03": {Binaries: true},
	"C04": {Binaries: true},
	"C12": {Binaries: true},
	"C15": {Binaries: true},
	"C16": {Binaries: true},
	"C17": {Binaries: true},
	"C13": {Binaries: true},
	"C20": {Binaries: true},
	"C06": {Binaries: true},
	"C07": {Binaries: true},
}

func spec(id string) propSpec {
	s, ok := specs[id]
	if !ok {
		s = propSpec{}
	}
	if s.Shards == 0 {
		s.Shards = 16
	}
	if s.QuickBudget == 0 {
		s.QuickBudget = 150 * time.Second
	}
	if s.ThoroughBudget == 0 {
		s.ThoroughBudget = 25 * time.Minute
	}
	return s
}

func fatal(format string, a ...any) {
	fmt.Fprintf(os.Stderr, "verif: infrastructure error: "+format+"\n", a...)
	os.Exit(2)
}

func goEnv() []string {
	env := os.Environ()
	env = append(env, "GOFLAGS=-mod=mod", "GOPROXY=off", "GOSUMDB=off", "GOTOOLCHAIN=local", "GONOSUMDB=*", "GONOSUMCHECK=1")
	return env
}

func run(dir string, env []string, name string, args ...string) (string, error) {
	cmd := exec.Command(name, args...)
	cmd.Dir = dir
	cmd.Env = env
	out, err := cmd.CombinedOutput()
	return string(out), err
}

func main() {
	if len(os.Args) < 2 {
		fmt.Fprintln(os.Stderr, "usage: verif check <ID> [quick|thorough] | verif replay <file> | verif build")
		os.Exit(2)
	}
	switch os.Args[1] {
	case "check":
		if len(os.Args) < 3 {
			fatal("check needs a property id")
		}
		tier := os.Getenv("VERIF_TIER")
		if len(os.Args) > 3 {
			tier = os.Args[3]
		}
		if tier != "thorough" {
			tier = "quick"
		}
		os.Exit(check(os.Args[2], tier))
	case "replay":
		if len(os.Args) < 3 {
			fatal("replay needs a file")
		}
		os.Exit(replay(os.Args[2]))
	case "build":
		bd := filepath.Join(root, ".build", "setup")
		build(bd, false)
		build(bd, true)
	default:
		fatal("unknown command %s", os.Args[1])
	}
}

// build regenerates the overlay from /repo's working tree and builds the worker.
func build(bd string, race bool) string {
	ov := filepath.Join(bd, "overlay")
	os.MkdirAll(ov, 0o755)
	if out, err := run(root, goEnv(), filepath.Join(root, "bin", "overlaygen"), "-repo", "/repo", "-out", ov); err != nil {
		fatal("overlaygen: %v\n%s", err, out)
	}
	bin := filepath.Join(bd, "worker")
	args := []string{"build", "-overlay", filepath.Join(ov, "overlay.json"), "-tags", "verif,verifoverlay", "-o", bin}
	if race {
		bin += "-race"
		args = []string{"build", "-race", "-overlay", filepath.Join(ov, "overlay.json"), "-tags", "verif,verifoverlay", "-o", bin}
	}
	args = append(args, "./worker")
	if out, err := run(root, goEnv(), "go", args...); err != nil {
		// the repository does not compile with the hooks on: not a property verdict
		fatal("building worker from /repo's working tree failed: %v\n%s", err, out)
	}
	return bin
}

// buildBinaries builds the real gateway (from /repo's working tree, untouched
// dependencies, no overlay, no tag) and the real rdpgw-auth (with the pure-Go
// PAM stand-in, because the image has no PAM headers).
func buildBinaries(bd string) (string, string) {
	gw := filepath.Join(bd, "rdpgw")
	if out, err := run("/repo", goEnv(), "go", "build", "-o", gw, "./cmd/rdpgw"); err != nil {
		fatal("building cmd/rdpgw from /repo's working tree failed: %v\n%s", err, out)
	}
	au := filepath.Join(bd, "rdpgw-auth")
	os.WriteFile(filepath.Join(root, "authbuild", "go.sum"), mustRead("/repo/go.sum"), 0o644)
	if out, err := run(filepath.Join(root, "authbuild"), goEnv(), "go", "build", "-o", au, "github.com/bolkedebruin/rdpgw/cmd/auth"); err != nil {
		fatal("building cmd/auth failed: %v\n%s", err, out)
	}
	return gw, au
}

func mustRead(p string) []byte {
	b, err := os.ReadFile(p)
	if err != nil {
		fatal("%v", err)
	}
	return b
}

func loadFindings() []finding {
	b, err := os.ReadFile(filepath.Join(root, "known_findings.json"))
	if err != nil {
		return nil
	}
	var doc struct {
		Findings []finding `json:"findings"`
	}
	if err := json.Unmarshal(b, &doc); err != nil {
		fatal("known_findings.json: %v", err)
	}
	return doc.Findings
}

func matchSig(pat, sig string) bool {
	if strings.HasSuffix(pat, "*") {
		return strings.HasPrefix(sig, strings.TrimSuffix(pat, "*"))
	}
	return pat == sig
}

func check(id, tier string) int {
	t0 := time.Now()
	sp := spec(id)
	seed, _ := strconv.ParseInt(os.Getenv("VERIF_SEED"), 10, 64)
	bd := filepath.Join(root, ".build", id)
	if tier != "quick" {
		// a build directory per tier: the quick and the thorough command of one property may run at the same time
		bd += "-" + tier
	}
	os.RemoveAll(filepath.Join(bd, "out"))
	os.RemoveAll(filepath.Join(bd, "tmp")) // worker scratch of earlier runs
	os.MkdirAll(filepath.Join(bd, "out"), 0o755)
	bin := build(bd, sp.Race)
	gwBin, authBin := "", ""
	if sp.Binaries {
		gwBin, authBin = buildBinaries(bd)
	}
	budget := sp.QuickBudget
	if tier == "thorough" {
		budget = sp.ThoroughBudget
	}
	n := sp.Shards
	runShards := func(sub string) []string {
		var wg sync.WaitGroup
		outs := make([]string, n)
		errs := make([]string, n)
		os.MkdirAll(filepath.Join(bd, sub), 0o755)
		for i := 0; i < n; i++ {
			wg.Add(1)
			go func(i int) {
				defer wg.Done()
				of := filepath.Join(bd, sub, fmt.Sprintf("shard%d.json", i))
				outs[i] = of
				env := append(goEnv(), "GOMAXPROCS=1", "VERIF_BUILD_DIR="+bd, "VERIF_RDPGW="+gwBin, "VERIF_RDPGW_AUTH="+authBin)
				if sp.Race {
					env = append(env, "GORACE=halt_on_error=0 exitcode=0 history_size=2 log_path="+filepath.Join(bd, sub, fmt.Sprintf("race%d", i)))
				}
				cmd := exec.Command(bin, "-prop", id, "-tier", tier, "-shard", fmt.Sprintf("%d/%d", i, n), "-seed", fmt.Sprint(seed), "-out", of, "-budget", budget.String())
				cmd.Dir = root
				cmd.Env = env
				out, err := cmd.CombinedOutput()
				if err != nil {
					errs[i] = fmt.Sprintf("shard %d: %v\n%s", i, err, tail(string(out), 4000))
				}
			}(i)
		}
		wg.Wait()
		for _, e := range errs {
			if e != "" {
				fatal("worker failed: %s", e)
			}
		}
		return outs
	}
	outs := runShards("out")
	// merge
	merged := report{Property: id, Stats: map[string]int64{}, OutcomeSet: map[string]int64{}, Exhaustive: true}
	vmap := map[string]*violation{}
	var vorder []string
	for i, of := range outs {
		b, err := os.ReadFile(of)
		if err != nil {
			fatal("shard %d wrote no report: %v", i, err)
		}
		var r report
		if err := json.Unmarshal(b, &r); err != nil {
			fatal("shard %d report: %v", i, err)
		}
		if r.InfraError != "" {
			fatal("shard %d: %s", i, r.InfraError)
		}
		for k, v := range r.Stats {
			merged.Stats[k] += v
		}
		for k, v := range r.OutcomeSet {
			merged.OutcomeSet[k] += v
		}
		if len(merged.Samples) < 8 {
			for _, s := range r.Samples {
				if len(merged.Samples) < 8 {
					merged.Samples = append(merged.Samples, s)
				}
			}
		}
		if !r.Exhaustive {
			merged.Exhaustive = false
		}
		for _, c := range r.Capped {
			merged.Capped = append(merged.Capped, fmt.Sprintf("shard %d: %s", i, c))
		}
		if i == 0 {
			merged.Rule, merged.Assumptions, merged.Bounds, merged.Notes = r.Rule, r.Assumptions, r.Bounds, r.Notes
		}
		for _, v := range r.Violations {
			v := v
			if p, ok := vmap[v.Sig]; ok {
				p.Count += v.Count
			} else {
				vmap[v.Sig] = &v
				vorder = append(vorder, v.Sig)
			}
		}
	}
	sort.Strings(vorder)
	findings := loadFindings()
	var lines []string
	nviol := 0
	var unrepro []string
	var knownHit []string
	var rerun, rerun3 map[string]bool
	knownAgg := map[int]*[2]int{}
	var knownOrder []int
	rdir := filepath.Join(root, "replays", id)
	os.RemoveAll(rdir)
	for _, sig := range vorder {
		v := vmap[sig]
		known := false
		for fi, f := range findings {
			if f.Property == id && f.Status == "known" && matchSig(f.Sig, sig) {
				known = true
				if knownAgg[fi] == nil {
					knownAgg[fi] = &[2]int{}
					knownOrder = append(knownOrder, fi)
				}
				knownAgg[fi][0]++
				knownAgg[fi][1] += v.Count
				knownHit = append(knownHit, sig)
				break
			}
		}
		if known {
			continue
		}
		os.MkdirAll(rdir, 0o755)
		rf := filepath.Join(rdir, fmt.Sprintf("%d.json", nviol+len(unrepro)+1))
		os.Remove(rf)
		doc := map[string]any{"property": id, "sig": sig, "detail": v.Detail, "count": v.Count, "replay": v.Replay}
		b, _ := json.MarshalIndent(doc, "", " ")
		os.WriteFile(rf, b, 0o644)
		// re-execute 5 times from the replay file before believing it
		okRuns := 0
		if v.Replay != nil && v.Replay["noreplay"] == nil {
			alt, _ := v.Replay["alt_sig"].(string)
			var rw sync.WaitGroup
			oks := make([]bool, 5)
			for k := 0; k < 5; k++ {
				rw.Add(1)
				go func(k int) {
					defer rw.Done()
					oks[k] = replaySig(bin, sp, id, rf, k, sig, alt)
				}(k)
			}
			rw.Wait()
			for _, o := range oks {
				if o {
					okRuns++
				}
			}
		} else {
			// no single-case replay exists for this violation: run the whole check a second
			// time and believe the violation only if it shows up again
			if rerun == nil {
				rerun = rerunSigs(runShards, "out2")
			}
			if rerun[sig] {
				okRuns = 5
			}
		}
		nondet := ""
		if okRuns > 0 && okRuns < 5 && v.Replay != nil && v.Replay["noreplay"] == nil && v.Replay["min_repro"] == nil {
			// the same single case fails in some replays and passes in others: every replay runs the same
			// deterministic harness on the same input, so the code under test itself behaves differently from run
			// to run (map iteration order, real goroutines, randomness). Ten more replays; believed when at
			// least 3 of the 15 show it.
			alt, _ := v.Replay["alt_sig"].(string)
			more := 0
			var rw sync.WaitGroup
			oks := make([]bool, 10)
			for k := 0; k < 10; k++ {
				rw.Add(1)
				go func(k int) {
					defer rw.Done()
					oks[k] = replaySig(bin, sp, id, rf, 5+k, sig, alt)
				}(k)
			}
			rw.Wait()
			for _, o := range oks {
				if o {
					more++
				}
			}
			if okRuns+more >= 3 {
				nondet = fmt.Sprintf("nondeterministic in the code under test: %d of 15 replays of the same case", okRuns+more)
				okRuns = 5
			}
		}
		historyDependent := false
		if okRuns == 0 && v.Replay != nil && v.Replay["noreplay"] == nil {
			// the case does not fail when executed alone in a fresh process. It may depend on what the
			// same worker executed before it (state surviving from one case to the next is exactly what
			// some properties exclude): believe it if the same signature shows up again in two further
			// complete runs of the check, which repeat every worker's whole sequence.
			if rerun == nil {
				rerun = rerunSigs(runShards, "out2")
			}
			if rerun3 == nil {
				rerun3 = rerunSigs(runShards, "out3")
			}
			if rerun[sig] && rerun3[sig] {
				okRuns = 5
				historyDependent = true
			}
		}
		need := 5
		if f, ok := v.Replay["min_repro"].(float64); ok && f >= 1 {
			need = int(f)
		}
		if okRuns < need {
			unrepro = append(unrepro, fmt.Sprintf("%s (%d/5 replays)", sig, okRuns))
			lines = append(lines, fmt.Sprintf("UNREPRODUCED: property=%s sig=%s reproduced in %d of 5 replays of %s (not counted as a violation; see the evidence file)", id, sig, okRuns, rf))
			continue
		}
		nviol++
		if historyDependent {
			doc["history_dependent"] = "does not fail when this case runs alone in a fresh process; failed in three complete runs of the check: replay with ./check " + id + " " + tier
			b, _ := json.MarshalIndent(doc, "", " ")
			os.WriteFile(rf, b, 0o644)
			lines = append(lines, fmt.Sprintf("VIOLATION property=%s replay=%s sig=%s [depends on the cases the worker ran before it] %s", id, rf, sig, oneline(v.Detail, 300)))
			continue
		}
		if nondet != "" {
			lines = append(lines, fmt.Sprintf("VIOLATION property=%s replay=%s sig=%s [%s] %s", id, rf, sig, nondet, oneline(v.Detail, 300)))
			continue
		}
		lines = append(lines, fmt.Sprintf("VIOLATION property=%s replay=%s sig=%s %s", id, rf, sig, oneline(v.Detail, 300)))
	}
	for _, fi := range knownOrder {
		f := findings[fi]
		lines = append(lines, fmt.Sprintf("KNOWN-FINDING: property=%s %s — %s (%d signatures, %d executions)", id, f.Sig, f.What, knownAgg[fi][0], knownAgg[fi][1]))
	}
	// evidence
	distinct := merged.Stats["distinct"]
	if distinct == 0 {
		distinct = int64(len(merged.OutcomeSet))
	}
	states := merged.Stats["states"]
	if states == 0 {
		states = distinct
	}
	execs := merged.Stats["executions"]
	trans := merged.Stats["transitions"]
	if trans == 0 {
		trans = execs
	}
	cov := map[string]any{
		"states":                        states,
		"transitions":                   trans,
		"traces_validated_against_impl": execs,
		"evaluations":                   execs,
		"distinct_nontrivial":           distinct,
		"distinct_outcomes":             len(merged.OutcomeSet),
		"rule":                          merged.Rule,
		"samples":                       merged.Samples,
		"exhaustive":                    merged.Exhaustive,
		"bounds":                        merged.Bounds,
		"caps_hit":                      merged.Capped,
		"stats":                         merged.Stats,
		"shards":                        n,
		"known_findings_reproduced":     knownHit,
		"unreproduced":                  unrepro,
		"explanation":                   "every execution counted here ran the real rdpgw code built from /repo's working tree (verif overlay); no separate model exists, so traces_validated_against_impl equals the executions explored",
	}
	if merged.Samples == nil {
		cov["samples"] = []any{"(no sample recorded)"}
	}
	ev := map[string]any{
		"property_id": id,
		"tier":        tier,
		"seed":        seed,
		"level":       "model_checking",
		"coverage":    cov,
		"assumptions": merged.Assumptions,
		"wall_s":      time.Since(t0).Seconds(),
		"violations":  nviol,
	}
	os.MkdirAll(filepath.Join(root, "evidence"), 0o755)
	b, _ := json.MarshalIndent(ev, "", " ")
	if err := os.WriteFile(filepath.Join(root, "evidence", id+".json"), b, 0o644); err != nil {
		fatal("%v", err)
	}
	for _, l := range lines {
		fmt.Println(l)
	}
	fmt.Printf("%s %s: executions=%d states=%d transitions=%d distinct_outcomes=%d exhaustive=%v violations=%d known=%d wall=%.1fs\n",
		id, tier, execs, states, trans, len(merged.OutcomeSet), merged.Exhaustive, nviol, len(knownHit), time.Since(t0).Seconds())
	if nviol > 0 {
		return 1
	}
	return 0
}

// rerunSigs runs all shards again into the given output directory and returns the violation signatures seen.
func rerunSigs(runShards func(string) []string, dir string) map[string]bool {
	out := map[string]bool{}
	for _, of := range runShards(dir) {
		var r report
		if b, err := os.ReadFile(of); err == nil && json.Unmarshal(b, &r) == nil {
			for _, v2 := range r.Violations {
				out[v2.Sig] = true
			}
		}
	}
	return out
}

func replaySig(bin string, sp propSpec, id, rf string, k int, sig, alt string) bool {
	of := fmt.Sprintf("%s.out%d", rf, k)
	defer os.Remove(of)
	defer func() {
		m, _ := filepath.Glob(fmt.Sprintf("%s.race%d.*", rf, k))
		for _, f := range m {
			os.Remove(f)
		}
	}()
	bd := filepath.Dir(bin)
	env := append(goEnv(), "GOMAXPROCS=1", "VERIF_BUILD_DIR="+bd, "VERIF_RDPGW="+filepath.Join(bd, "rdpgw"), "VERIF_RDPGW_AUTH="+filepath.Join(bd, "rdpgw-auth"))
	if sp.Race {
		env = append(env, "GORACE=halt_on_error=0 exitcode=0 history_size=2 log_path="+fmt.Sprintf("%s.race%d", rf, k))
	}
	cmd := exec.Command(bin, "-prop", id, "-replay", rf, "-out", of)
	cmd.Dir = root
	cmd.Env = env
	cmd.CombinedOutput()
	b, err := os.ReadFile(of)
	if err != nil {
		return false
	}
	var r report
	if json.Unmarshal(b, &r) != nil {
		return false
	}
	for _, v := range r.Violations {
		if v.Sig == sig || (alt != "" && v.Sig == alt) {
			return true
		}
	}
	return false
}

func replay(file string) int {
	b, err := os.ReadFile(file)
	if err != nil {
		fatal("%v", err)
	}
	var doc struct {
		Property string `json:"property"`
		Sig      string `json:"sig"`
	}
	if err := json.Unmarshal(b, &doc); err != nil {
		fatal("%v", err)
	}
	sp := spec(doc.Property)
	bd := filepath.Join(root, ".build", doc.Property)
	bin := build(bd, sp.Race)
	env := append(goEnv(), "GOMAXPROCS=1")
	cmd := exec.Command(bin, "-prop", doc.Property, "-replay", file)
	cmd.Dir = root
	cmd.Env = env
	cmd.Stdout = os.Stdout
	cmd.Stderr = os.Stderr
	if err := cmd.Run(); err != nil {
		return 2
	}
	return 0
}

func tail(s string, n int) string {
	if len(s) > n {
		return s[len(s)-n:]
	}
	return s
}

func oneline(s string, n int) string {
	s = strings.ReplaceAll(s, "\n", " ")
	if len(s) > n {
		s = s[:n] + "..."
	}
	return s
}
