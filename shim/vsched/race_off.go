//go:build !race

package vsched

import "unsafe"

// RaceEnabled reports whether this is a -race build.
const RaceEnabled = false

func raceThreadEnd(x *Exec) {}
func raceJoinAll(x *Exec)   {}

func Release(p unsafe.Pointer) {}
func Acquire(p unsafe.Pointer) {}

func WriteRange(p unsafe.Pointer, n int) {}
func ReadRange(p unsafe.Pointer, n int)  {}
