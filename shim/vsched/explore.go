package vsched

import (
	"fmt"
	"time"
)

// Violation is one property violation found in one execution.
type Violation struct {
	Sig    string // stable signature (scenario/kind/site), used for de-duplication and known-finding matching
	Detail string
}

// RunResult is what a scenario reports for one execution.
type RunResult struct {
	X          *Exec
	Outcome    string // canonical observation, used to count distinct outcomes
	Violations []Violation
}

// Found is a de-duplicated violation with its first (fewest-preemption) schedule.
type Found struct {
	Violation
	Choices     []int
	Preemptions int
	Count       int
}

// Explorer is the iterative-context-bounding stateless DFS.
type Explorer struct {
	Bound    int // preemption bound (or deviation bound when AllSwitchesCost)
	// AllSwitchesCost: every non-default choice costs 1, also when the running
	// thread had blocked (deviation bounding). False: only preemptions cost
	// (iterative context bounding; switches at blocking points are free).
	AllSwitchesCost bool
	Shard    int
	NShards  int
	Deadline time.Time
	MaxExecs int
	RunOne   func(prefix []int) RunResult

	Execs      int
	Decisions  int // total decision points seen
	Steps      int // total scheduling points executed (transitions)
	Outcomes   map[string]int
	Found      map[string]*Found
	FoundOrder []string
	Capped     string
	MaxDec     int
	rootAlt    int
	Sample     []int
	SampleLog  string
}

func (ex *Explorer) cost(ds []Decision, upto int) int {
	n := 0
	for i := 0; i < upto && i < len(ds); i++ {
		if (ds[i].CurEnabled || ex.AllSwitchesCost) && ds[i].Chosen != 0 {
			n++
		}
	}
	return n
}

// Explore runs the DFS from the empty prefix.
func (ex *Explorer) Explore() error {
	if ex.Outcomes == nil {
		ex.Outcomes = map[string]int{}
	}
	if ex.Found == nil {
		ex.Found = map[string]*Found{}
	}
	if ex.NShards <= 0 {
		ex.NShards = 1
	}
	type frame struct{ prefix []int }
	stack := []frame{{nil}}
	for len(stack) > 0 {
		f := stack[len(stack)-1]
		stack = stack[:len(stack)-1]
		if ex.Capped != "" {
			break
		}
		if ex.MaxExecs > 0 && ex.Execs >= ex.MaxExecs {
			ex.Capped = fmt.Sprintf("max-execs %d", ex.MaxExecs)
			break
		}
		if !ex.Deadline.IsZero() && ex.Execs%64 == 0 && time.Now().After(ex.Deadline) {
			ex.Capped = "deadline"
			break
		}
		isRoot := len(f.prefix) == 0
		if isRoot && ex.Shard != 0 {
			// every shard runs the root execution to enumerate level-1
			// alternatives, but only shard 0 counts / checks it
		}
		r := ex.RunOne(f.prefix)
		x := r.X
		if x.Abort != "" && x.Abort != "max-steps" {
			return fmt.Errorf("infrastructure: %s (prefix %v)", x.Abort, f.prefix)
		}
		if len(x.Decisions) < len(f.prefix) {
			return fmt.Errorf("infrastructure: prefix-divergence: %d decisions for prefix of %d %v", len(x.Decisions), len(f.prefix), f.prefix)
		}
		count := !(isRoot && ex.Shard != 0)
		if count {
			ex.Execs++
			ex.Decisions += len(x.Decisions)
			ex.Steps += x.Steps
			if len(x.Decisions) > ex.MaxDec {
				ex.MaxDec = len(x.Decisions)
			}
			ex.Outcomes[r.Outcome]++
			if ex.Sample == nil {
				ex.Sample = x.Choices()
			}
			for _, v := range r.Violations {
				fo := ex.Found[v.Sig]
				if fo == nil {
					fo = &Found{Violation: v, Choices: x.Choices(), Preemptions: ex.cost(x.Decisions, len(x.Decisions))}
					ex.Found[v.Sig] = fo
					ex.FoundOrder = append(ex.FoundOrder, v.Sig)
				}
				fo.Count++
			}
		}
		// children, pushed in reverse so that the leftmost is explored first
		var kids []frame
		for i := len(f.prefix); i < len(x.Decisions); i++ {
			d := x.Decisions[i]
			cost := ex.cost(x.Decisions, i)
			if d.CurEnabled || ex.AllSwitchesCost {
				cost++
			}
			if cost > ex.Bound {
				continue
			}
			for alt := 1; alt < d.N; alt++ {
				if isRoot {
					k := ex.rootAlt
					ex.rootAlt++
					if k%ex.NShards != ex.Shard {
						continue
					}
				}
				p := make([]int, i+1)
				for j := 0; j < i; j++ {
					p[j] = x.Decisions[j].Chosen
				}
				p[i] = alt
				kids = append(kids, frame{p})
			}
		}
		for i := len(kids) - 1; i >= 0; i-- {
			stack = append(stack, kids[i])
		}
	}
	return nil
}
