//go:build race

package vsched

import (
	"runtime"
	"unsafe"
)

// RaceEnabled reports whether this is a -race build.
const RaceEnabled = true

var joinWord int

// thread -> controller edge at the end of every thread, so that the
// controller's per-execution re-initialisation of process-wide state is ordered
// after everything the threads of the previous execution did.
func raceThreadEnd(x *Exec) { runtime.RaceReleaseMerge(unsafe.Pointer(&joinWord)) }
func raceJoinAll(x *Exec)   { runtime.RaceAcquire(unsafe.Pointer(&joinWord)) }

// Release/Acquire expose happens-before annotations to the shims (pipes carry a
// writer->reader edge, like the runtime gives real sockets; vsync locks carry
// unlock->lock edges).
func Release(p unsafe.Pointer) { runtime.RaceReleaseMerge(p) }
func Acquire(p unsafe.Pointer) { runtime.RaceAcquire(p) }
