//go:build race

package vsched

import (
	"runtime"
	"unsafe"
)

// RaceEnabled reports whether this is a -race build.
const RaceEnabled = true

var joinWord int

// thread -> controller edge at the end of every thread, so that the
// controller's per-execution re-initialisation of process-wide state is ordered
// after everything the threads of the previous execution did.
func raceThreadEnd(x *Exec) { runtime.RaceReleaseMerge(unsafe.Pointer(&joinWord)) }
func raceJoinAll(x *Exec)   { runtime.RaceAcquire(unsafe.Pointer(&joinWord)) }

// Release/Acquire expose happens-before annotations to the shims (pipes carry a
// writer->reader edge, like the runtime gives real sockets; vsync locks carry
// unlock->lock edges).
func Release(p unsafe.Pointer) { runtime.RaceReleaseMerge(p) }
func Acquire(p unsafe.Pointer) { runtime.RaceAcquire(p) }

// WriteRange / ReadRange tell the race runtime that the calling thread wrote /
// read n bytes at p: the network shim uses them where the Go runtime annotates
// real socket reads (the kernel writes the caller's buffer) and writes.
func WriteRange(p unsafe.Pointer, n int) { runtime.RaceWriteRange(p, n) }
func ReadRange(p unsafe.Pointer, n int)  { runtime.RaceReadRange(p, n) }
