// Package vsched is a cooperative, fully controlled scheduler for goroutines of
// the code under test, plus the bookkeeping a stateless DFS explorer needs.
//
// Exactly one "thread" (a goroutine created through Go) runs at a time. Every
// hooked operation calls Point *before* it takes effect; Point decides which
// thread runs next (replaying a prefix of recorded choices, afterwards always
// choice 0 of the canonical order: running thread first when still enabled,
// then ascending thread ids) and hands over.
//
// The hand-over is a spin on a plain word inside //go:norace functions with
// runtime.Gosched(): the race detector does not see it, so a -race build of the
// same explorer still reports conflicting accesses that are not ordered by real
// synchronisation of the code under test, for every enumerated schedule.
// Run workers with GOMAXPROCS=1.
package vsched

import (
	"time"
	"fmt"
	"runtime"
	"runtime/debug"
	"strings"
)

const (
	stNew = iota
	stReady
	stDone
)

// Thread is one scheduled goroutine.
type Thread struct {
	ID      int
	Name    string
	run     int // plain word: 1 = this thread may run
	state   int
	enabled func() bool
	Desc    string // description of the pending operation
	idle    bool   // pending op is WaitIdle
	killed  bool
	Panic   string // non-empty if the thread body panicked
	PanicAt string // stack of the panic
	exited  bool
	Daemon  bool // harness-side helper: does not count as "gateway thread"
}

// Decision is one scheduling decision with at least two candidates.
type Decision struct {
	N          int  // number of candidates
	Chosen     int  // index chosen (0 = default)
	CurEnabled bool // the running thread was still enabled (so alt != 0 is a preemption)
	Cands      []int
}

// Blocked describes a thread that had not finished at quiescence.
type Blocked struct {
	ID     int
	Name   string
	Desc   string
	Daemon bool
}

// Timer is something that can fire at quiescence (a deadline).
type Timer struct {
	Due  int64 // virtual nanoseconds; earliest fires first
	Fire func()
	Name string
	dead bool
	// Never: armed further away than the harness horizon; it stays pending (Stop reports it as such) and does
	// not fire: a wait of years is, within any execution, a wait for ever.
	Never bool
}

// Exec is one controlled execution.
type Exec struct {
	threads   []*Thread
	cur       *Thread
	ctlRun    int // controller's word
	prefix    []int
	Decisions []Decision
	Steps     int
	MaxSteps  int
	dead      bool
	timers    []*Timer
	Now       int64 // virtual clock (ns), advanced when timers fire
	TimerLog  []string
	Blocked   []Blocked
	Abort     string // "max-steps", "prefix-divergence"
	Log       []string
	LogOn     bool
	exitedCnt int
	OnQuiesce func() bool // harness hook run at quiescence before timers; return true if it enabled something
	// RoundRobin: the canonical order of the candidates after the running thread
	// is cyclic, starting behind the thread that ran last, instead of ascending
	// ids. The default schedule then advances symmetric clients in lockstep, so
	// interactions between them are few deviations away.
	RoundRobin bool
	lastID     int
}

var e *Exec

// Active reports whether an execution is in progress (shims fall back to
// pass-through behaviour otherwise).
//
//go:norace
func Active() bool { return e != nil && !e.dead }

// Cur returns the current execution (nil when none).
//
//go:norace
func Cur() *Exec { return e }

// CurThread returns id and name of the running thread.
//
//go:norace
func CurThread() (int, string) {
	if e == nil || e.cur == nil {
		return -1, ""
	}
	return e.cur.ID, e.cur.Name
}

//go:norace
func (x *Exec) logf(format string, a ...any) {
	if x.LogOn {
		x.Log = append(x.Log, fmt.Sprintf(format, a...))
	}
}

// Logf appends to the execution's event log when logging is on.
//
//go:norace
func Logf(format string, a ...any) {
	if e != nil && e.LogOn {
		id := -1
		if e.cur != nil {
			id = e.cur.ID
		}
		e.Log = append(e.Log, fmt.Sprintf("t%d: ", id)+fmt.Sprintf(format, a...))
	}
}

// Run executes body as thread 0 under the scheduler, replaying prefix at the
// decision points and taking choice 0 afterwards, until quiescence with no
// timers left. It returns the execution record.
//
//go:norace
func Run(prefix []int, maxSteps int, logOn bool, setup func(x *Exec), body func()) *Exec {
	x := &Exec{prefix: prefix, MaxSteps: maxSteps, LogOn: logOn}
	e = x
	if setup != nil {
		setup(x)
	}
	t := x.newThread("main", body)
	for _, b := range background {
		bt := x.newThread("init:"+b.name, b.f)
		bt.Daemon = true
	}
	// hand over to thread 0 and wait until the execution is quiescent
	x.cur = t
	t.run = 1
	x.controllerWait()
	for {
		// quiescent: nobody enabled.
		if x.Abort != "" {
			break
		}
		if x.OnQuiesce != nil && x.OnQuiesce() {
			if nt := x.pick(nil); nt != nil {
				x.cur = nt
				nt.run = 1
				x.controllerWait()
				continue
			}
		}
		if !x.fireTimer() {
			break
		}
		nt := x.pick(nil)
		if nt == nil {
			continue // timer enabled nothing; try next
		}
		x.cur = nt
		nt.run = 1
		x.controllerWait()
	}
	for _, t := range x.threads {
		if t.state != stDone {
			x.Blocked = append(x.Blocked, Blocked{t.ID, t.Name, t.Desc, t.Daemon})
		}
	}
	return x
}

// BlockedNow lists the threads that are not finished and not the caller, with what they wait for (to be used
// by the harness thread right after WaitIdle).
//
//go:norace
func (x *Exec) BlockedNow() []Blocked {
	var out []Blocked
	for _, t := range x.threads {
		if t.state != stDone && t != x.cur {
			out = append(out, Blocked{t.ID, t.Name, t.Desc, t.Daemon})
		}
	}
	return out
}

// Finish kills every thread that is still blocked; call it after all
// observations have been taken. Deferred functions of killed threads run with
// the shims in pass-through mode.
//
//go:norace
func (x *Exec) Finish() {
	x.dead = true
	for _, t := range x.threads {
		if t.state != stDone && !t.exited {
			t.killed = true
			t.run = 1
		}
	}
	spins := 0
	var f0 time.Time
	for {
		all := true
		for _, t := range x.threads {
			if !t.exited {
				all = false
			}
		}
		if all {
			break
		}
		runtime.Gosched()
		spins++
		if spins&0xFF == 0xFF {
			if f0.IsZero() {
				f0 = time.Now()
			} else if time.Since(f0) > StuckAfter {
				x.stuck()
			}
		}
	}
	raceJoinAll(x)
	if e == x {
		e = nil
	}
}

// StuckAfter is how long one thread may run without reaching a scheduling point before OnStuck is
// called. Steps between scheduling points take microseconds; a thread that is still running after this
// long is in a loop that contains no synchronisation, I/O or channel operation at all (a busy loop),
// which the controller can neither preempt nor end.
var StuckAfter = 30 * time.Second

// OnStuck is called (by the controller) with the name of the spinning thread, its last scheduling point and
// a dump of all goroutine stacks; it must not return.
var OnStuck func(thread, lastPoint, stacks string)

//go:norace
func (x *Exec) stuck() {
	name, last := "?", "?"
	if x.cur != nil {
		name, last = x.cur.Name, x.cur.Desc
	}
	buf := make([]byte, 1<<20)
	buf = buf[:runtime.Stack(buf, true)]
	if OnStuck != nil {
		OnStuck(name, last, string(buf))
	}
	panic("vsched: thread " + name + " runs without reaching a scheduling point (last: " + last + ")")
}

//go:norace
func (x *Exec) controllerWait() {
	var t0 time.Time
	for n := 0; x.ctlRun == 0; n++ {
		runtime.Gosched()
		if n&0xFF == 0xFF {
			if t0.IsZero() {
				t0 = time.Now()
			} else if time.Since(t0) > StuckAfter {
				x.stuck()
			}
		}
	}
	x.ctlRun = 0
	raceJoinAll(x)
}

//go:norace
func (x *Exec) fireTimer() bool {
	var best *Timer
	for _, tm := range x.timers {
		if tm.dead || tm.Never {
			continue
		}
		if best == nil || tm.Due < best.Due {
			best = tm
		}
	}
	if best == nil {
		return false
	}
	best.dead = true
	if best.Due > x.Now {
		x.Now = best.Due
	}
	x.TimerLog = append(x.TimerLog, best.Name)
	x.logf("timer fires: %s", best.Name)
	best.Fire()
	return true
}

// AddTimer registers a deadline that fires at quiescence (earliest first).
//
//go:norace
func AddTimer(due int64, name string, fire func()) *Timer {
	if e == nil || e.dead {
		return nil
	}
	tm := &Timer{Due: due, Fire: fire, Name: name}
	e.timers = append(e.timers, tm)
	return tm
}

// Pending reports whether the timer has neither fired nor been cancelled.
//
//go:norace
func (tm *Timer) Pending() bool { return tm != nil && !tm.dead }

// SpawnAtFire starts f as a new thread from a timer's Fire function (which runs in the controller, at
// quiescence): the thread is runnable, the controller picks it next.
//
//go:norace
func SpawnAtFire(name string, f func()) {
	if e == nil || e.dead {
		go f()
		return
	}
	e.newThread(name, f)
}

// Cancel a timer.
//
//go:norace
func (tm *Timer) Cancel() {
	if tm != nil {
		tm.dead = true
	}
}

//go:norace
func (x *Exec) newThread(name string, body func()) *Thread {
	t := &Thread{ID: len(x.threads), Name: name, state: stReady}
	t.enabled = alwaysEnabled
	t.Desc = "start"
	x.threads = append(x.threads, t)
	go threadMain(x, t, body)
	return t
}

func alwaysEnabled() bool { return true }

//go:norace
func threadMain(x *Exec, t *Thread, body func()) {
	defer threadExit(x, t)
	t.wait(x)
	runBody(x, t, body)
}

//go:norace
func threadExit(x *Exec, t *Thread) {
	// runs on normal return, after recovered panic, and after Goexit (kill)
	raceThreadEnd(x)
	t.state = stDone
	t.exited = true
	if t.killed || x.dead {
		return
	}
	x.logf("t%d(%s) exits", t.ID, t.Name)
	x.yieldFrom(t, true)
}

func runBody(x *Exec, t *Thread, body func()) {
	defer func() {
		if r := recover(); r != nil {
			recordPanic(x, t, r)
		}
	}()
	body()
}

//go:norace
func recordPanic(x *Exec, t *Thread, r any) {
	t.Panic = fmt.Sprint(r)
	t.PanicAt = string(debug.Stack())
	x.logf("t%d(%s) PANIC %v", t.ID, t.Name, r)
}

//go:norace
func (t *Thread) wait(x *Exec) {
	for t.run == 0 {
		runtime.Gosched()
	}
	t.run = 0
	if t.killed {
		runtime.Goexit()
	}
}

// Go starts f as a new scheduled thread. The spawn itself is a scheduling
// point of the parent (after the child became runnable).
//
//go:norace
func Go(name string, f func()) {
	if e == nil || e.dead {
		if e == nil && !MainStarted {
			// a goroutine the code under test starts while its packages are initialised lives as long as the
			// process: every controlled execution gets its own instance (a thread that starts with the
			// execution), and the real one serves whatever runs outside executions
			background = append(background, bg{name, f})
		}
		go f()
		return
	}
	x := e
	x.newThread(name, f)
	Point("spawn "+name, alwaysEnabled)
}

type bg struct {
	name string
	f    func()
}

var background []bg

// MainStarted is set by the harness when main begins: go statements of the code under test that ran before
// it ran during package initialisation.
var MainStarted bool

// GoDaemon is Go for harness-side helper threads.
//
//go:norace
func GoDaemon(name string, f func()) {
	if e == nil || e.dead {
		go f()
		return
	}
	x := e
	t := x.newThread(name, f)
	t.Daemon = true
	Point("spawn "+name, alwaysEnabled)
}

// Point is a scheduling point: the calling (running) thread announces an
// operation that may proceed once enabled() holds.
//
//go:norace
func Point(desc string, enabled func() bool) {
	x := e
	if x == nil || x.dead {
		return
	}
	t := x.cur
	if t == nil || t.killed {
		return
	}
	t.enabled = enabled
	t.Desc = desc
	t.idle = false
	x.yieldFrom(t, false)
}

// Fine switches on statement-level scheduling points: packages rewritten with the overlay's "fine" rule call
// Yield before every statement of every function body. Straight-line code (no locks, I/O or channels) is
// otherwise executed atomically by a cooperative scheduler, so two executions of such a function never
// interleave and state they share is never observed mixed up.
var Fine bool

// Yield is a scheduling point that is always enabled; a no-op unless Fine is set and an execution is active.
//
//go:norace
func Yield(site string) {
	if !Fine {
		return
	}
	x := e
	if x == nil || x.dead || x.cur == nil {
		return
	}
	Point("stmt "+site, yieldEnabled)
}

func yieldEnabled() bool { return true }

// AwaitTimers blocks the caller until every pending timer (deadline) has fired: the caller is not idle, so the
// execution becomes quiescent and the timers fire one after the other, earliest first.
//
//go:norace
func AwaitTimers() {
	x := e
	if x == nil || x.dead {
		return
	}
	Point("await-timers", func() bool {
		for _, tm := range x.timers {
			if !tm.dead && !tm.Never {
				return false
			}
		}
		return true
	})
}

// WaitIdle blocks the caller until no other thread is enabled.
//
//go:norace
func WaitIdle() {
	x := e
	if x == nil || x.dead {
		return
	}
	t := x.cur
	if t == nil || t.killed {
		return
	}
	t.Desc = "wait-idle"
	t.idle = true
	t.enabled = alwaysEnabled
	x.yieldFrom(t, false)
	t.idle = false
}

// yieldFrom picks the next thread and hands over; returns when t runs again.
//
//go:norace
func (x *Exec) yieldFrom(t *Thread, exiting bool) {
	// every yield releases to the controller's word (threads never acquire it,
	// so this creates thread->controller edges only, never thread->thread)
	raceThreadEnd(x)
	x.Steps++
	if x.MaxSteps > 0 && x.Steps > x.MaxSteps && x.Abort == "" {
		x.Abort = "max-steps"
	}
	var next *Thread
	if x.Abort == "" {
		if exiting {
			next = x.pick(nil)
		} else {
			next = x.pick(t)
		}
	}
	if next == t && !exiting {
		x.logf("t%d(%s): %s", t.ID, t.Name, t.Desc)
		return
	}
	if next == nil {
		// quiescence (or abort): wake the controller. The controller reads the
		// state of the code under test through hooks, so it gets a
		// thread->controller edge (threads never acquire it: no thread->thread edge).
		x.cur = nil
		x.ctlRun = 1
	} else {
		x.cur = next
		next.run = 1
	}
	if exiting {
		return
	}
	t.wait(x)
	x.logf("t%d(%s): %s", t.ID, t.Name, t.Desc)
}

// pick computes the candidate list in canonical order and applies the
// recorded / default choice. cur is the yielding thread (nil if it cannot
// continue).
//
//go:norace
func (x *Exec) pick(cur *Thread) *Thread {
	var cands []*Thread
	curEn := false
	if cur != nil && cur.state != stDone && !cur.idle && cur.enabled() {
		cands = append(cands, cur)
		curEn = true
	}
	n := len(x.threads)
	start := 0
	if x.RoundRobin && n > 0 {
		start = (x.lastID + 1) % n
	}
	for k := 0; k < n; k++ {
		t := x.threads[(start+k)%n]
		if t == cur && curEn {
			continue
		}
		if t.state == stDone || t.idle {
			continue
		}
		if t.enabled() {
			cands = append(cands, t)
		}
	}
	if len(cands) == 0 {
		// only idle waiters can run: lowest id first
		for _, t := range x.threads {
			if t.state != stDone && t.idle {
				return t
			}
		}
		return nil
	}
	if len(cands) == 1 {
		x.lastID = cands[0].ID
		return cands[0]
	}
	idx := 0
	k := len(x.Decisions)
	if k < len(x.prefix) {
		idx = x.prefix[k]
		if idx < 0 || idx >= len(cands) {
			x.Abort = fmt.Sprintf("prefix-divergence at decision %d: choice %d of %d", k, idx, len(cands))
			return nil
		}
	}
	ids := make([]int, len(cands))
	for i, c := range cands {
		ids[i] = c.ID
	}
	x.Decisions = append(x.Decisions, Decision{N: len(cands), Chosen: idx, CurEnabled: curEn, Cands: ids})
	x.lastID = cands[idx].ID
	return cands[idx]
}

// Choose is a decision of the schedule that is not a choice between threads: n alternatives, 0 the default.
// Taking another alternative counts like a preemption.
//
//go:norace
func Choose(n int) int {
	x := e
	if x == nil || x.dead || n <= 1 {
		return 0
	}
	idx := 0
	k := len(x.Decisions)
	if k < len(x.prefix) {
		idx = x.prefix[k]
		if idx < 0 || idx >= n {
			x.Abort = fmt.Sprintf("prefix-divergence at decision %d: choice %d of %d", k, idx, n)
			idx = 0
		}
	}
	x.Decisions = append(x.Decisions, Decision{N: n, Chosen: idx, CurEnabled: true})
	return idx
}

// Choices returns the choice list of this execution.
//
//go:norace
func (x *Exec) Choices() []int {
	c := make([]int, len(x.Decisions))
	for i, d := range x.Decisions {
		c[i] = d.Chosen
	}
	return c
}

// Panics lists thread panics "name: value".
//
//go:norace
func (x *Exec) Panics() []ThreadPanic {
	var out []ThreadPanic
	for _, t := range x.threads {
		if t.Panic != "" {
			out = append(out, ThreadPanic{t.ID, t.Name, t.Panic, t.PanicAt})
		}
	}
	return out
}

// ThreadPanic is a recorded panic of one thread.
type ThreadPanic struct {
	ID    int
	Name  string
	Value string
	Stack string
}

// Site returns the innermost stack frame function whose name contains one of
// the given substrings (used to name the call site of a panic).
func (p ThreadPanic) Site(subs ...string) string {
	lines := strings.Split(p.Stack, "\n")
	seenPanic := false
	for _, l := range lines {
		if strings.HasPrefix(l, "panic(") {
			seenPanic = true
			continue
		}
		if !seenPanic || strings.HasPrefix(l, "\t") || strings.HasPrefix(l, " ") {
			continue
		}
		for _, s := range subs {
			if strings.Contains(l, s) {
				if i := strings.LastIndex(l, "("); i > 0 {
					l = l[:i]
				}
				return l
			}
		}
	}
	return ""
}

// Threads returns a description of all threads (id, name, done).
//
//go:norace
func (x *Exec) Threads() []string {
	var out []string
	for _, t := range x.threads {
		out = append(out, fmt.Sprintf("t%d %s done=%v", t.ID, t.Name, t.state == stDone))
	}
	return out
}
