package vsched

import (
	"reflect"
	"time"
	"unsafe"
)

// Channel operations of the code under test are scheduling points, and inside
// a controlled execution the channel's content is modelled (it lives in the
// execution, not in the real channel, so goroutines of the process that are
// not threads of the execution never see it): a buffered channel has a queue
// of at most cap(ch) values; on an unbuffered channel a send offers its value
// and blocks until a receiver took it, a receive is enabled while an untaken
// offer exists. Every value carries the send->receive happens-before edge for
// the race detector. Closing is performed on the real channel too, so code
// outside the overlay (context, net/http) sees it; a receive also completes
// when the real channel yields a value or is closed (a value put there before
// the execution began or by code outside the overlay, context cancellation).

type offer struct {
	v     any
	taken bool
	hb    int
}

type chanState struct {
	offers []*offer
	buf    []*offer
	closed bool
}

// The states live in a slice searched linearly (an execution has a handful of channels): the runtime's map
// functions report to the race detector on behalf of their caller, which would make the shim's own
// bookkeeping look like a race of the code under test.
type chanEntry struct {
	p    uintptr
	st   *chanState
	keep any // the channel itself: its address is not reused while the execution knows it
}

var (
	chanOwner  *Exec
	chanStates []chanEntry
)

//go:norace
func stateOf(ch any) *chanState {
	if chanOwner != e {
		chanOwner = e
		chanStates = nil
	}
	p := reflect.ValueOf(ch).Pointer()
	for i := range chanStates {
		if chanStates[i].p == p {
			return chanStates[i].st
		}
	}
	st := &chanState{}
	chanStates = append(chanStates, chanEntry{p, st, ch})
	return st
}

//go:norace
func (st *chanState) untaken() *offer {
	for _, o := range st.offers {
		if !o.taken {
			return o
		}
	}
	return nil
}

//go:norace
func (st *chanState) drop(o *offer) {
	for i, x := range st.offers {
		if x == o {
			st.offers = append(st.offers[:i], st.offers[i+1:]...)
			return
		}
	}
}

// ChanSend is `ch <- v` as a scheduling point.
//
//go:norace
func ChanSend[C ~chan T | ~chan<- T, T any](ch C, v T) {
	if !Active() {
		if e == nil {
			(chan<- T)(ch) <- v // no controlled execution: the real operation
			return
		}
		select { // an execution is being torn down: never block a thread that is being ended
		case (chan<- T)(ch) <- v:
		default:
		}
		return
	}
	if ch == nil {
		Point("chan-send(nil)", func() bool { return !Active() })
		return
	}
	st := stateOf(ch)
	if cap(ch) == 0 {
		o := &offer{v: v}
		Release(unsafe.Pointer(&o.hb))
		st.offers = append(st.offers, o)
		Point("chan-send", func() bool { return o.taken || st.closed || !Active() })
		if !o.taken {
			st.drop(o)
			if st.closed {
				panic("send on closed channel")
			}
		}
		return
	}
	Point("chan-send", func() bool { return len(st.buf) < cap(ch) || st.closed || !Active() })
	if !Active() {
		return
	}
	if st.closed {
		panic("send on closed channel")
	}
	o := &offer{v: v}
	Release(unsafe.Pointer(&o.hb))
	st.buf = append(st.buf, o)
}

// ChanClose is close(ch).
//
//go:norace
func ChanClose[C ~chan T | ~chan<- T, T any](ch C) {
	if Active() && ch != nil {
		stateOf(ch).closed = true
	}
	close((chan<- T)(ch))
	if Active() {
		Point("chan-close", alwaysEnabled)
	}
}

// recvReady reports whether a receive on ch can complete now; for a value that came off the real channel
// it keeps the value in *got.
//
//go:norace
func recvReady[T any](ch <-chan T, st *chanState, got *recvd[T]) bool {
	if got.have {
		return true
	}
	if cap(ch) == 0 && st.untaken() != nil {
		return true
	}
	if len(st.buf) > 0 {
		return true
	}
	// nothing modelled to receive: the real channel may be closed, or a sender outside the overlay may wait
	select {
	case v, ok := <-ch:
		got.have, got.v, got.ok = true, v, ok
		return true
	default:
	}
	return false
}

type recvd[T any] struct {
	have bool
	v    T
	ok   bool
}

//go:norace
func recvTake[T any](ch <-chan T, st *chanState, got *recvd[T]) (T, bool) {
	if got.have {
		return got.v, got.ok
	}
	if o := st.untaken(); cap(ch) == 0 && o != nil {
		o.taken = true
		st.drop(o)
		Acquire(unsafe.Pointer(&o.hb))
		v, _ := o.v.(T)
		return v, true
	}
	if len(st.buf) > 0 {
		o := st.buf[0]
		st.buf = st.buf[1:]
		Acquire(unsafe.Pointer(&o.hb))
		v, _ := o.v.(T)
		return v, true
	}
	var zero T
	return zero, false
}

// ChanRecv2 is `v, ok := <-ch` as a scheduling point.
//
//go:norace
func ChanRecv2[C ~chan T | ~<-chan T, T any](ch C) (T, bool) {
	var zero T
	if !Active() {
		if e == nil {
			v, ok := <-(<-chan T)(ch)
			return v, ok
		}
		select {
		case v, ok := <-(<-chan T)(ch):
			return v, ok
		default:
			return zero, false
		}
	}
	if ch == nil {
		Point("chan-recv(nil)", func() bool { return !Active() })
		return zero, false
	}
	st := stateOf(ch)
	var got recvd[T]
	Point("chan-recv", func() bool { return recvReady((<-chan T)(ch), st, &got) || !Active() })
	return recvTake((<-chan T)(ch), st, &got)
}

// ChanRecv is `<-ch` as a scheduling point.
//
//go:norace
func ChanRecv[C ~chan T | ~<-chan T, T any](ch C) T {
	v, _ := ChanRecv2[C, T](ch)
	return v
}

// SelCase is one communication clause of a select statement.
type SelCase interface {
	ready() bool
	commit()
	tryReal() bool
}

// RecvC is `case v, ok := <-ch`.
type RecvC[T any] struct {
	ch  <-chan T
	st  *chanState
	got recvd[T]
	Val T
	Ok  bool
}

//go:norace
func RecvCase[C ~chan T | ~<-chan T, T any](ch C) *RecvC[T] {
	c := &RecvC[T]{ch: (<-chan T)(ch)}
	if ch != nil && Active() {
		c.st = stateOf(ch)
	}
	return c
}

//go:norace
func (c *RecvC[T]) ready() bool {
	if c.ch == nil || c.st == nil {
		return false
	}
	return recvReady(c.ch, c.st, &c.got)
}

func (c *RecvC[T]) tryReal() bool {
	if c.ch == nil {
		return false
	}
	select {
	case c.Val, c.Ok = <-c.ch:
		return true
	default:
		return false
	}
}

//go:norace
func (c *RecvC[T]) commit() { c.Val, c.Ok = recvTake(c.ch, c.st, &c.got) }

// SendC is `case ch <- v`.
type SendC[T any] struct {
	ch chan<- T
	st *chanState
	v  T
	o  *offer
}

//go:norace
func SendCase[C ~chan T | ~chan<- T, T any](ch C, v T) *SendC[T] {
	c := &SendC[T]{ch: (chan<- T)(ch), v: v}
	if ch != nil && Active() {
		c.st = stateOf(ch)
		if cap(ch) == 0 {
			c.o = &offer{v: v}
			Release(unsafe.Pointer(&c.o.hb))
			c.st.offers = append(c.st.offers, c.o)
		}
	}
	return c
}

//go:norace
func (c *SendC[T]) ready() bool {
	if c.ch == nil || c.st == nil {
		return false
	}
	if c.st.closed {
		return true
	}
	if c.o != nil {
		return c.o.taken
	}
	return len(c.st.buf) < cap(c.ch)
}

//go:norace
func (c *SendC[T]) commit() {
	if c.st.closed {
		panic("send on closed channel")
	}
	if c.o == nil {
		o := &offer{v: c.v}
		Release(unsafe.Pointer(&o.hb))
		c.st.buf = append(c.st.buf, o)
	}
}

func (c *SendC[T]) tryReal() bool {
	if c.ch == nil {
		return false
	}
	select {
	case c.ch <- c.v:
		return true
	default:
		return false
	}
}

//go:norace
func (c *SendC[T]) withdraw() {
	if c.o != nil && !c.o.taken {
		c.st.drop(c.o)
	}
}

// Select is a select statement: it blocks until a clause can proceed (or takes the default clause at once)
// and returns the index of the clause taken, -1 for default. When several clauses can proceed the choice is a
// decision of the schedule (the runtime picks one at random).
//
//go:norace
func Select(hasDefault bool, cases ...SelCase) int {
	if !Active() {
		// outside a controlled execution the statement works on the real channels
		for {
			for i, c := range cases {
				if c.tryReal() {
					return i
				}
			}
			if hasDefault || e != nil {
				return -1
			}
			time.Sleep(200 * time.Microsecond)
		}
	}
	anyReady := func() bool {
		for _, c := range cases {
			if c.ready() {
				return true
			}
		}
		return false
	}
	Point("select", func() bool { return hasDefault || anyReady() || !Active() })
	var rdy []int
	for i, c := range cases {
		if c.ready() {
			rdy = append(rdy, i)
		}
	}
	pick := -1
	if len(rdy) > 0 {
		pick = rdy[Choose(len(rdy))]
	}
	for i, c := range cases {
		if s, ok := c.(interface{ withdraw() }); ok && i != pick {
			s.withdraw()
		}
	}
	if pick >= 0 {
		cases[pick].commit()
	}
	return pick
}

// ChanLen is len(ch) for a channel whose content is modelled.
//
//go:norace
func ChanLen[C ~chan T | ~chan<- T | ~<-chan T, T any](ch C) int {
	if !Active() || ch == nil {
		return len(ch)
	}
	return len(stateOf(ch).buf) + len(ch)
}
