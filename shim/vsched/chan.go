package vsched

// ChanSend is `ch <- v` as a scheduling point (buffered channels only: the
// operation is enabled while the buffer has room, then performed for real so
// that the race detector sees the channel's own happens-before edge).
//
//go:norace
func ChanSend[C ~chan T | ~chan<- T, T any](ch C, v T) {
	if !Active() {
		select {
		case (chan<- T)(ch) <- v:
		default:
		}
		return
	}
	if cap(ch) == 0 {
		panic("vsched: unbuffered channel operations are not modelled")
	}
	Point("chan-send", func() bool { return len(ch) < cap(ch) || !Active() })
	if !Active() && len(ch) >= cap(ch) {
		return
	}
	(chan<- T)(ch) <- v
}

// ChanRecv is `<-ch` as a scheduling point.
//
//go:norace
func ChanRecv[C ~chan T | ~<-chan T, T any](ch C) T {
	var zero T
	if !Active() {
		select {
		case v := <-(<-chan T)(ch):
			return v
		default:
			return zero
		}
	}
	if cap(ch) == 0 {
		panic("vsched: unbuffered channel operations are not modelled")
	}
	Point("chan-recv", func() bool { return len(ch) > 0 || !Active() })
	if len(ch) == 0 {
		return zero
	}
	return <-(<-chan T)(ch)
}
