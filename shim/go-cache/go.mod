module github.com/patrickmn/go-cache

go 1.20
