package cache

import (
	"encoding/gob"
	"fmt"
	"io"
	"os"
	"time"

	"verif/shim/vclock"
	sync "verif/shim/vsync"
)

type Item struct {
	Object     interface{}
	Expiration int64
}

// Returns true if the item has expired.
func (item Item) Expired() bool {
	if item.Expiration == 0 {
		return false
	}
	return vclock.Now().UnixNano() > item.Expiration
}

const (
	// For use with functions that take an expiration time.
	NoExpiration time.Duration = -1
	// For use with functions that take an expiration time. Equivalent to
	// passing in the same expiration duration as was given to New() or
	// NewFrom() when the cache was created (e.g. 5 minutes.)
	DefaultExpiration time.Duration = 0
)

type Cache struct {
	*cache
	// If this is confusing, see the comment at the bottom of New()
}

type cache struct {
	defaultExpiration time.Duration
	items             map[string]Item
	mu                sync.RWMutex
	onEvicted         func(string, interface{})
	janitor           *janitor
}

// Add an item to the cache, replacing any existing item. If the duration is 0
// (DefaultExpiration), the cache's default expiration time is used. If it is -1
// (NoExpiration), the item never expires.
func (c *cache) Set(k string, x interface{}, d time.Duration) {
	// "Inlining" of set
	var e int64
	if d == DefaultExpiration {
		d = c.defaultExpiration
	}
	if d > 0 {
		e = vclock.Now().Add(d).UnixNano()
	}
	c.mu.Lock()
	c.items[k] = Item{
		Object:     x,
		Expiration: e,
	}
	// TODO: Calls to mu.Unlock are currently not deferred because defer
	// adds ~200 ns (as of go1.)
	c.mu.Unlock()
}

func (c *cache) set(k string, x interface{}, d time.Duration) {
	var e int64
	if d == DefaultExpiration {
		d = c.defaultExpiration
	}
	if d > 0 {
		e = vclock.Now().Add(d).UnixNano()
	}
	c.items[k] = Item{
		Object:     x,
		Expiration: e,
	}
}

// Add an item to the cache, replacing any existing item, using the default
// expiration.
func (c *cache) SetDefault(k string, x interface{}) {
	c.Set(k, x, DefaultExpiration)
}

// Add an item to the cache only if an item doesn't already exist for the given
// key, or if the existing item has expired. Returns an error otherwise.
func (c *cache) Add(k string, x interface{}, d time.Duration) error {
	c.mu.Lock()
	_, found := c.get(k)
	if found {
		c.mu.Unlock()
		return fmt.Errorf("Item %s already exists", k)
	}
	c.set(k, x, d)
	c.mu.Unlock()
	return nil
}

// Set a new value for the cache key only if it already exists, and the existing
// item hasn't expired. Returns an error otherwise.
func (c *cache) Replace(k string, x interface{}, d time.Duration) error {
	c.mu.Lock()
	_, found := c.get(k)
	if !found {
		c.mu.Unlock()
		return fmt.Errorf("Item %s doesn't exist", k)
	}
	c.set(k, x, d)
	c.mu.Unlock()
	return nil
}

// Get an item from the cache. Returns the item or nil, and a bool indicating
// whether the key was found.
func (c *cache) Get(k string) (interface{}, bool) {
	c.mu.RLock()
	// "Inlining" of get and Expired
	item, found := c.items[k]
	if !found {
		c.mu.RUnlock()
		return nil, false
	}
	if item.Expiration > 0 {
		if vclock.Now().UnixNano() > item.Expiration {
			c.mu.RUnlock()
			return nil, false
		}
	}
	c.mu.RUnlock()
	return item.Object, true
}

// GetWithExpiration returns an item and its expiration time from the cache.
// It returns the item or nil, the expiration time if one is set (if the item
// never expires a zero value for time.Time is returned), and a bool indicating
// whether the key was found.
func (c *cache) GetWithExpiration(k string) (interface{}, time.Time, bool) {
	c.mu.RLock()
	// "Inlining" of get and Expired
	item, found := c.items[k]
	if !found {
		c.mu.RUnlock()
		return nil, time.Time{}, false
	}

	if item.Expiration > 0 {
		if vclock.Now().UnixNano() > item.Expiration {
			c.mu.RUnlock()
			return nil, time.Time{}, false
		}

		// Return the item and the expiration time
		c.mu.RUnlock()
		return item.Object, time.Unix(0, item.Expiration), true
	}

	// If expiration <= 0 (i.e. no expiration time set) then return the item
	// and a zeroed time.Time
	c.mu.RUnlock()
	return item.Object, time.Time{}, true
}

func (c *cache) get(k string) (interface{}, bool) {
	item, found := c.items[k]
	if !found {
		return nil, false
	}
	// "Inlining" of Expired
	if item.Expiration > 0 {
		if vclock.Now().UnixNano() > item.Expiration {
			return nil, false
		}
	}
	return item.Object, true
}

// Increment an item of type int, int8, int16, int32, int64, uintptr, uint,
// uint8, uint32, or uint64, float32 or float64 by n. Returns an error if the
// item's value is not an integer, if it was not found, or if it is not
// possible to increment it by n. To retrieve the incremented value, use one
// of the specialized methods, e.g. IncrementInt64.
func (c *cache) Increment(k string, n int64) error {
	c.mu.Lock()
	v, found := c.items[k]
	if !found || v.Expired() {
		c.mu.Unlock()
		return fmt.Errorf("Item %s not found", k)
	}
	switch v.Object.(type) {
	case int:
		v.Object = v.Object.(int) + int(n)
	case int8:
		v.Object = v.Object.(int8) + int8(n)
	case int16:
		v.Object = v.Object.(int16) + int16(n)
	case int32:
		v.Object = v.Object.(int32) + int32(n)
	case int64:
		v.Object = v.Object.(int64) + n
	case uint:
		v.Object = v.Object.(uint) + uint(n)
	case uintptr:
		v.Object = v.Object.(uintptr) + uintptr(n)
	case uint8:
		v.Object = v.Object.(uint8) + uint8(n)
	case uint16:
		v.Object = v.Object.(uint16) + uint16(n)
	case uint32:
		v.Object = v.Object.(uint32) + uint32(n)
	case uint64:
		v.Object = v.Object.(uint64) + uint64(n)
	case float32:
		v.Object = v.Object.(float32) + float32(n)
	case float64:
		v.Object = v.Object.(float64) + float64(n)
	default:
		c.mu.Unlock()
		return fmt.Errorf("The value for %s is not an integer", k)
	}
	c.items[k] = v
	c.mu.Unlock()
	return nil
}

// Increment an item of type float32 or float64 by n. Returns an error if the
// item's value is not floating point, if it was not found, or if it is not
// possible to increment it by n. Pass a negative number to decrement the
// value. To retrieve the incremented value, use one of the specialized methods,
// e.g. IncrementFloat64.
func (c *cache) IncrementFloat(k string, n float64) error {
	c.mu.Lock()
	v, found := c.items[k]
	if !found || v.Expired() {
		c.mu.Unlock()
		return fmt.Errorf("Item %s not found", k)
	}
	switch v.Object.(type) {
	case float32:
		v.Object = v.Object.(float32) + float32(n)
	case float64:
		v.Object = v.Object.(float64) + n
	default:
		c.mu.Unlock()
		return fmt.Errorf("The value for %s does not have type float32 or float64", k)
	}
	c.items[k] = v
	c.mu.Unlock()
	return nil
}

// Increment an item of type int by n. Returns an error if the item's value is
// not an int, or if it was not found. If there is no error, the incremented
// value is returned.
func (c *cache) IncrementInt(k string, n int) (int, error) {
	c.mu.Lock()
	v, found := c.items[k]
	if !found || v.Expired() {
		c.mu.Unlock()
		return 0, fmt.Errorf("Item %s not found", k)
	}
	rv, ok := v.Object.(int)
	if !ok {
		c.mu.Unlock()
		return 0, fmt.Errorf("The value for %s is not an int", k)
	}
	nv := rv + n
	v.Object = nv
	c.items[k] = v
	c.mu.Unlock()
	return nv, nil
}

// Increment an item of type int8 by n. Returns an error if the item's value is
// not an int8, or if it was not found. If there is no error, the incremented
// value is returned.
func (c *cache) IncrementInt8(k string, n int8) (int8, error) {
	c.mu.Lock()
	v, found := c.items[k]
	if !found || v.Expired() {
		c.mu.Unlock()
		return 0, fmt.Errorf("Item %s not found", k)
	}
	rv, ok := v.Object.(int8)
	if !ok {
		c.mu.Unlock()
		return 0, fmt.Errorf("The value for %s is not an int8", k)
	}
	nv := rv + n
	v.Object = nv
	c.items[k] = v
	c.mu.Unlock()
	return nv, nil
}

// Increment an item of type int16 by n. Returns an error if the item's value is
// not an int16, or if it was not found. If there is no error, the incremented
// value is returned.
func (c *cache) IncrementInt16(k string, n int16) (int16, error) {
	c.mu.Lock()
	v, found := c.items[k]
	if !found || v.Expired() {
		c.mu.Unlock()
		return 0, fmt.Errorf("Item %s not found", k)
	}
	rv, ok := v.Object.(int16)
	if !ok {
		c.mu.Unlock()
		return 0, fmt.Errorf("The value for %s is not an int16", k)
	}
	nv := rv + n
	v.Object = nv
	c.items[k] = v
	c.mu.Unlock()
	return nv, nil
}

// Increment an item of type int32 by n. Returns an error if the item's value is
// not an int32, or if it was not found. If there is no error, the incremented
// value is returned.
func (c *cache) IncrementInt32(k string, n int32) (int32, error) {
	c.mu.Lock()
	v, found := c.items[k]
	if !found || v.Expired() {
		c.mu.Unlock()
		return 0, fmt.Errorf("Item %s not found", k)
	}
	rv, ok := v.Object.(int32)
	if !ok {
		c.mu.Unlock()
		return 0, fmt.Errorf("The value for %s is not an int32", k)
	}
	nv := rv + n
	v.Object = nv
	c.items[k] = v
	c.mu.Unlock()
	return nv, nil
}

// Increment an item of type int64 by n. Returns an error if the item's value is
// not an int64, or if it was not found. If there is no error, the incremented
// value is returned.
func (c *cache) IncrementInt64(k string, n int64) (int64, error) {
	c.mu.Lock()
	v, found := c.items[k]
	if !found || v.Expired() {
		c.mu.Unlock()
		return 0, fmt.Errorf("Item %s not found", k)
	}
	rv, ok := v.Object.(int64)
	if !ok {
		c.mu.Unlock()
		return 0, fmt.Errorf("The value for %s is not an int64", k)
	}
	nv := rv + n
	v.Object = nv
	c.items[k] = v
	c.mu.Unlock()
	return nv, nil
}

// Increment an item of type uint by n. Returns an error if the item's value is
// not an uint, or if it was not found. If there is no error, the incremented
// value is returned.
func (c *cache) IncrementUint(k string, n uint) (uint, error) {
	c.mu.Lock()
	v, found := c.items[k]
	if !found || v.Expired() {
		c.mu.Unlock()
		return 0, fmt.Errorf("Item %s not found", k)
	}
	rv, ok := v.Object.(uint)
	if !ok {
		c.mu.Unlock()
		return 0, fmt.Errorf("The value for %s is not an uint", k)
	}
	nv := rv + n
	v.Object = nv
	c.items[k] = v
	c.mu.Unlock()
	return nv, nil
}

// Increment an item of type uintptr by n. Returns an error if the item's value
// is not an uintptr, or if it was not found. If there is no error, the
// incremented value is returned.
func (c *cache) IncrementUintptr(k string, n uintptr) (uintptr, error) {
	c.mu.Lock()
	v, found := c.items[k]
	if !found || v.Expired() {
		c.mu.Unlock()
		return 0, fmt.Errorf("Item %s not found", k)
	}
	rv, ok := v.Object.(uintptr)
	if !ok {
		c.mu.Unlock()
		return 0, fmt.Errorf("The value for %s is not an uintptr", k)
	}
	nv := rv + n
	v.Object = nv
	c.items[k] = v
	c.mu.Unlock()
	return nv, nil
}

// Increment an item of type uint8 by n. Returns an error if the item's value
// is not an uint8, or if it was not found. If there is no error, the
// incremented value is returned.
func (c *cache) IncrementUint8(k string, n uint8) (uint8, error) {
	c.mu.Lock()
	v, found := c.items[k]
	if !found || v.Expired() {
		c.mu.Unlock()
		return 0, fmt.Errorf("Item %s not found", k)
	}
	rv, ok := v.Object.(uint8)
	if !ok {
		c.mu.Unlock()
		return 0, fmt.Errorf("The value for %s is not an uint8", k)
	}
	nv := rv + n
	v.Object = nv
	c.items[k] = v
	c.mu.Unlock()
	return nv, nil
}

// Increment an item of type uint16 by n. Returns an error if the item's value
// is not an uint16, or if it was not found. If there is no error, the
// incremented value is returned.
func (c *cache) IncrementUint16(k string, n uint16) (uint16, error) {
	c.mu.Lock()
	v, found := c.items[k]
	if !found || v.Expired() {
		c.mu.Unlock()
		return 0, fmt.Errorf("Item %s not found", k)
	}
	rv, ok := v.Object.(uint16)
	if !ok {
		c.mu.Unlock()
		return 0, fmt.Errorf("The value for %s is not an uint16", k)
	}
	nv := rv + n
	v.Object = nv
	c.items[k] = v
	c.mu.Unlock()
	return nv, nil
}

// Increment an item of type uint32 by n. Returns an error if the item's value
// is not an uint32, or if it was not found. If there is no error, the
// incremented value is returned.
func (c *cache) IncrementUint32(k string, n uint32) (uint32, error) {
	c.mu.Lock()
	v, found := c.items[k]
	if !found || v.Expired() {
		c.mu.Unlock()
		return 0, fmt.Errorf("Item %s not found", k)
	}
	rv, ok := v.Object.(uint32)
	if !ok {
		c.mu.Unlock()
		return 0, fmt.Errorf("The value for %s is not an uint32", k)
	}
	nv := rv + n
	v.Object = nv
	c.items[k] = v
	c.mu.Unlock()
	return nv, nil
}

// Increment an item of type uint64 by n. Returns an error if the item's value
// is not an uint64, or if it was not found. If there is no error, the
// incremented value is returned.
func (c *cache) IncrementUint64(k string, n uint64) (uint64, error) {
	c.mu.Lock()
	v, found := c.items[k]
	if !found || v.Expired() {
		c.mu.Unlock()
		return 0, fmt.Errorf("Item %s not found", k)
	}
	rv, ok := v.Object.(uint64)
	if !ok {
		c.mu.Unlock()
		return 0, fmt.Errorf("The value for %s is not an uint64", k)
	}
	nv := rv + n
	v.Object = nv
	c.items[k] = v
	c.mu.Unlock()
	return nv, nil
}

// Increment an item of type float32 by n. Returns an error if the item's value
// is not an float32, or if it was not found. If there is no error, the
// incremented value is returned.
func (c *cache) IncrementFloat32(k string, n float32) (float32, error) {
	c.mu.Lock()
	v, found := c.items[k]
	if !found || v.Expired() {
		c.mu.Unlock()
		return 0, fmt.Errorf("Item %s not found", k)
	}
	rv, ok := v.Object.(float32)
	if !ok {
		c.mu.Unlock()
		return 0, fmt.Errorf("The value for %s is not an float32", k)
	}
	nv := rv + n
	v.Object = nv
	c.items[k] = v
	c.mu.Unlock()
	return nv, nil
}

// Increment an item of type float64 by n. Returns an error if the item's value
// is not an float64, or if it was not found. If there is no error, the
// incremented value is returned.
func (c *cache) IncrementFloat64(k string, n float64) (float64, error) {
	c.mu.Lock()
	v, found := c.items[k]
	if !found || v.Expired() {
		c.mu.Unlock()
		return 0, fmt.Errorf("Item %s not found", k)
	}
	rv, ok := v.Object.(float64)
	if !ok {
		c.mu.Unlock()
		return 0, fmt.Errorf("The value for %s is not an float64", k)
	}
	nv := rv + n
	v.Object = nv
	c.items[k] = v
	c.mu.Unlock()
	return nv, nil
}

// Decrement an item of type int, int8, int16, int32, int64, uintptr, uint,
// uint8, uint32, or uint64, float32 or float64 by n. Returns an error if the
// item's value is not an integer, if it was not found, or if it is not
// possible to decrement it by n. To retrieve the decremented value, use one
// of the specialized methods, e.g. DecrementInt64.
func (c *cache) Decrement(k string, n int64) error {
	// TODO: Implement Increment and Decrement more cleanly.
	// (Cannot do Increment(k, n*-1) for uints.)
	c.mu.Lock()
	v, found := c.items[k]
	if !found || v.Expired() {
		c.mu.Unlock()
		return fmt.Errorf("Item not found")
	}
	switch v.Object.(type) {
	case int:
		v.Object = v.Object.(int) - int(n)
	case int8:
		v.Object = v.Object.(int8) - int8(n)
	case int16:
		v.Object = v.Object.(int16) - int16(n)
	case int32:
		v.Object = v.Object.(int32) - int32(n)
	case int64:
		v.Object = v.Object.(int64) - n
	case uint:
		v.Object = v.Object.(uint) - uint(n)
	case uintptr:
		v.Object = v.Object.(uintptr) - uintptr(n)
	case uint8:
		v.Object = v.Object.(uint8) - uint8(n)
	case uint16:
		v.Object = v.Object.(uint16) - uint16(n)
	case uint32:
		v.Object = v.Object.(uint32) - uint32(n)
	case uint64:
		v.Object = v.Object.(uint64) - uint64(n)
	case float32:
		v.Object = v.Object.(float32) - float32(n)
	case float64:
		v.Object = v.Object.(float64) - float64(n)
	default:
		c.mu.Unlock()
		return fmt.Errorf("The value for %s is not an integer", k)
	}
	c.items[k] = v
	c.mu.Unlock()
	return nil
}

// Decrement an item of type float32 or float64 by n. Returns an error if the
// item's value is not floating point, if it was not found, or if it is not
// possible to decrement it by n. Pass a negative number to decrement the
// value. To retrieve the decremented value, use one of the specialized methods,
// e.g. DecrementFloat64.
func (c *cache) DecrementFloat(k string, n float64) error {
	c.mu.Lock()
	v, found := c.items[k]
	if !found || v.Expired() {
		c.mu.Unlock()
		return fmt.Errorf("Item %s not found", k)
	}
	switch v.Object.(type) {
	case float32:
		v.Object = v.Object.(float32) - float32(n)
	case float64:
		v.Object = v.Object.(float64) - n
	default:
		c.mu.Unlock()
		return fmt.Errorf("The value for %s does not have type float32 or float64", k)
	}
	c.items[k] = v
	c.mu.Unlock()
	return nil
}

// Decrement an item of type int by n. Returns an error if the item's value is
// not an int, or if it was not found. If there is no error, the decremented
// value is returned.
func (c *cache) DecrementInt(k string, n int) (int, error) {
	c.mu.Lock()
	v, found := c.items[k]
	if !found || v.Expired() {
		c.mu.Unlock()
		return 0, fmt.Errorf("Item %s not found", k)
	}
	rv, ok := v.Object.(int)
	if !ok {
		c.mu.Unlock()
		return 0, fmt.Errorf("The value for %s is not an int", k)
	}
	nv := rv - n
	v.Object = nv
	c.items[k] = v
	c.mu.Unlock()
	return nv, nil
}

// Decrement an item of type int8 by n. Returns an error if the item's value is
// not an int8, or if it was not found. If there is no error, the decremented
// value is returned.
func (c *cache) DecrementInt8(k string, n int8) (int8, error) {
	c.mu.Lock()
	v, found := c.items[k]
	if !found || v.Expired() {
		c.mu.Unlock()
		return 0, fmt.Errorf("Item %s not found", k)
	}
	rv, ok := v.Object.(int8)
	if !ok {
		c.mu.Unlock()
		return 0, fmt.Errorf("The value for %s is not an int8", k)
	}
	nv := rv - n
	v.Object = nv
	c.items[k] = v
	c.mu.Unlock()
	return nv, nil
}

// Decrement an item of type int16 by n. Returns an error if the item's value is
// not an int16, or if it was not found. If there is no error, the decremented
// value is returned.
func (c *cache) DecrementInt16(k string, n int16) (int16, error) {
	c.mu.Lock()
	v, found := c.items[k]
	if !found || v.Expired() {
		c.mu.Unlock()
		return 0, fmt.Errorf("Item %s not found", k)
	}
	rv, ok := v.Object.(int16)
	if !ok {
		c.mu.Unlock()
		return 0, fmt.Errorf("The value for %s is not an int16", k)
	}
	nv := rv - n
	v.Object = nv
	c.items[k] = v
	c.mu.Unlock()
	return nv, nil
}

// Decrement an item of type int32 by n. Returns an error if the item's value is
// not an int32, or if it was not found. If there is no error, the decremented
// value is returned.
func (c *cache) DecrementInt32(k string, n int32) (int32, error) {
	c.mu.Lock()
	v, found := c.items[k]
	if !found || v.Expired() {
		c.mu.Unlock()
		return 0, fmt.Errorf("Item %s not found", k)
	}
	rv, ok := v.Object.(int32)
	if !ok {
		c.mu.Unlock()
		return 0, fmt.Errorf("The value for %s is not an int32", k)
	}
	nv := rv - n
	v.Object = nv
	c.items[k] = v
	c.mu.Unlock()
	return nv, nil
}

// Decrement an item of type int64 by n. Returns an error if the item's value is
// not an int64, or if it was not found. If there is no error, the decremented
// value is returned.
func (c *cache) DecrementInt64(k string, n int64) (int64, error) {
	c.mu.Lock()
	v, found := c.items[k]
	if !found || v.Expired() {
		c.mu.Unlock()
		return 0, fmt.Errorf("Item %s not found", k)
	}
	rv, ok := v.Object.(int64)
	if !ok {
		c.mu.Unlock()
		return 0, fmt.Errorf("The value for %s is not an int64", k)
	}
	nv := rv - n
	v.Object = nv
	c.items[k] = v
	c.mu.Unlock()
	return nv, nil
}

// Decrement an item of type uint by n. Returns an error if the item's value is
// not an uint, or if it was not found. If there is no error, the decremented
// value is returned.
func (c *cache) DecrementUint(k string, n uint) (uint, error) {
	c.mu.Lock()
	v, found := c.items[k]
	if !found || v.Expired() {
		c.mu.Unlock()
		return 0, fmt.Errorf("Item %s not found", k)
	}
	rv, ok := v.Object.(uint)
	if !ok {
		c.mu.Unlock()
		return 0, fmt.Errorf("The value for %s is not an uint", k)
	}
	nv := rv - n
	v.Object = nv
	c.items[k] = v
	c.mu.Unlock()
	return nv, nil
}

// Decrement an item of type uintptr by n. Returns an error if the item's value
// is not an uintptr, or if it was not found. If there is no error, the
// decremented value is returned.
func (c *cache) DecrementUintptr(k string, n uintptr) (uintptr, error) {
	c.mu.Lock()
	v, found := c.items[k]
	if !found || v.Expired() {
		c.mu.Unlock()
		return 0, fmt.Errorf("Item %s not found", k)
	}
	rv, ok := v.Object.(uintptr)
	if !ok {
		c.mu.Unlock()
		return 0, fmt.Errorf("The value for %s is not an uintptr", k)
	}
	nv := rv - n
	v.Object = nv
	c.items[k] = v
	c.mu.Unlock()
	return nv, nil
}

// Decrement an item of type uint8 by n. Returns an error if the item's value is
// not an uint8, or if it was not found. If there is no error, the decremented
// value is returned.
func (c *cache) DecrementUint8(k string, n uint8) (uint8, error) {
	c.mu.Lock()
	v, found := c.items[k]
	if !found || v.Expired() {
		c.mu.Unlock()
		return 0, fmt.Errorf("Item %s not found", k)
	}
	rv, ok := v.Object.(uint8)
	if !ok {
		c.mu.Unlock()
		return 0, fmt.Errorf("The value for %s is not an uint8", k)
	}
	nv := rv - n
	v.Object = nv
	c.items[k] = v
	c.mu.Unlock()
	return nv, nil
}

// Decrement an item of type uint16 by n. Returns an error if the item's value
// is not an uint16, or if it was not found. If there is no error, the
// decremented value is returned.
func (c *cache) DecrementUint16(k string, n uint16) (uint16, error) {
	c.mu.Lock()
	v, found := c.items[k]
	if !found || v.Expired() {
		c.mu.Unlock()
		return 0, fmt.Errorf("Item %s not found", k)
	}
	rv, ok := v.Object.(uint16)
	if !ok {
		c.mu.Unlock()
		return 0, fmt.Errorf("The value for %s is not an uint16", k)
	}
	nv := rv - n
	v.Object = nv
	c.items[k] = v
	c.mu.Unlock()
	return nv, nil
}

// Decrement an item of type uint32 by n. Returns an error if the item's value
// is not an uint32, or if it was not found. If there is no error, the
// decremented value is returned.
func (c *cache) DecrementUint32(k string, n uint32) (uint32, error) {
	c.mu.Lock()
	v, found := c.items[k]
	if !found || v.Expired() {
		c.mu.Unlock()
		return 0, fmt.Errorf("Item %s not found", k)
	}
	rv, ok := v.Object.(uint32)
	if !ok {
		c.mu.Unlock()
		return 0, fmt.Errorf("The value for %s is not an uint32", k)
	}
	nv := rv - n
	v.Object = nv
	c.items[k] = v
	c.mu.Unlock()
	return nv, nil
}

// Decrement an item of type uint64 by n. Returns an error if the item's value
// is not an uint64, or if it was not found. If there is no error, the
// decremented value is returned.
func (c *cache) DecrementUint64(k string, n uint64) (uint64, error) {
	c.mu.Lock()
	v, found := c.items[k]
	if !found || v.Expired() {
		c.mu.Unlock()
		return 0, fmt.Errorf("Item %s not found", k)
	}
	rv, ok := v.Object.(uint64)
	if !ok {
		c.mu.Unlock()
		return 0, fmt.Errorf("The value for %s is not an uint64", k)
	}
	nv := rv - n
	v.Object = nv
	c.items[k] = v
	c.mu.Unlock()
	return nv, nil
}

// Decrement an item of type float32 by n. Returns an error if the item's value
// is not an float32, or if it was not found. If there is no error, the
// decremented value is returned.
func (c *cache) DecrementFloat32(k string, n float32) (float32, error) {
	c.mu.Lock()
	v, found := c.items[k]
	if !found || v.Expired() {
		c.mu.Unlock()
		return 0, fmt.Errorf("Item %s not found", k)
	}
	rv, ok := v.Object.(float32)
	if !ok {
		c.mu.Unlock()
		return 0, fmt.Errorf("The value for %s is not an float32", k)
	}
	nv := rv - n
	v.Object = nv
	c.items[k] = v
	c.mu.Unlock()
	return nv, nil
}

// Decrement an item of type float64 by n. Returns an error if the item's value
// is not an float64, or if it was not found. If there is no error, the
// decremented value is returned.
func (c *cache) DecrementFloat64(k string, n float64) (float64, error) {
	c.mu.Lock()
	v, found := c.items[k]
	if !found || v.Expired() {
		c.mu.Unlock()
		return 0, fmt.Errorf("Item %s not found", k)
	}
	rv, ok := v.Object.(float64)
	if !ok {
		c.mu.Unlock()
		return 0, fmt.Errorf("The value for %s is not an float64", k)
	}
	nv := rv - n
	v.Object = nv
	c.items[k] = v
	c.mu.Unlock()
	return nv, nil
}

// Delete an item from the cache. Does nothing if the key is not in the cache.
func (c *cache) Delete(k string) {
	c.mu.Lock()
	v, evicted := c.delete(k)
	c.mu.Unlock()
	if evicted {
		c.onEvicted(k, v)
	}
}

func (c *cache) delete(k string) (interface{}, bool) {
	if c.onEvicted != nil {
		if v, found := c.items[k]; found {
			delete(c.items, k)
			return v.Object, true
		}
	}
	delete(c.items, k)
	return nil, false
}

type keyAndValue struct {
	key   string
	value interface{}
}

// Delete all expired items from the cache.
func (c *cache) DeleteExpired() {
	var evictedItems []keyAndValue
	now := vclock.Now().UnixNano()
	c.mu.Lock()
	for k, v := range c.items {
		// "Inlining" of expired
		if v.Expiration > 0 && now > v.Expiration {
			ov, evicted := c.delete(k)
			if evicted {
				evictedItems = append(evictedItems, keyAndValue{k, ov})
			}
		}
	}
	c.mu.Unlock()
	for _, v := range evictedItems {
		c.onEvicted(v.key, v.value)
	}
}

// Sets an (optional) function that is called with the key and value when an
// item is evicted from the cache. (Including when it is deleted manually, but
// not when it is overwritten.) Set to nil to disable.
func (c *cache) OnEvicted(f func(string, interface{})) {
	c.mu.Lock()
	c.onEvicted = f
	c.mu.Unlock()
}

// Write the cache's items (using Gob) to an io.Writer.
//
// NOTE: This method is deprecated in favor of c.Items() and NewFrom() (see the
// documentation for NewFrom().)
func (c *cache) Save(w io.Writer) (err error) {
	enc := gob.NewEncoder(w)
	defer func() {
		if x := recover(); x != nil {
			err = fmt.Errorf("Error registering item types with Gob library")
		}
	}()
	c.mu.RLock()
	defer c.mu.RUnlock()
	for _, v := range c.items {
		gob.Register(v.Object)
	}
	err = enc.Encode(&c.items)
	return
}

// Save the cache's items to the given filename, creating the file if it
// doesn't exist, and overwriting it if it does.
//
// NOTE: This method is deprecated in favor of c.Items() and NewFrom() (see the
// documentation for NewFrom().)
func (c *cache) SaveFile(fname string) error {
	fp, err := os.Create(fname)
	if err != nil {
		return err
	}
	err = c.Save(fp)
	if err != nil {
		fp.Close()
		return err
	}
	return fp.Close()
}

// Add (Gob-serialized) cache items from an io.Reader, excluding any items with
// keys that already exist (and haven't expired) in the current cache.
//
// NOTE: This method is deprecated in favor of c.Items() and NewFrom() (see the
// documentation for NewFrom().)
func (c *cache) Load(r io.Reader) error {
	dec := gob.NewDecoder(r)
	items := map[string]Item{}
	err := dec.Decode(&items)
	if err == nil {
		c.mu.Lock()
		defer c.mu.Unlock()
		for k, v := range items {
			ov, found := c.items[k]
			if !found || ov.Expired() {
				c.items[k] = v
			}
		}
	}
	return err
}

// Load and add cache items from the given filename, excluding any items with
// keys that already exist in the current cache.
//
// NOTE: This method is deprecated in favor of c.Items() and NewFrom() (see the
// documentation for NewFrom().)
func (c *cache) LoadFile(fname string) error {
	fp, err := os.Open(fname)
	if err != nil {
		return err
	}
	err = c.Load(fp)
	if err != nil {
		fp.Close()
		return err
	}
	return fp.Close()
}

// Copies all unexpired items in the cache into a new map and returns it.
func (c *cache) Items() map[string]Item {
	c.mu.RLock()
	defer c.mu.RUnlock()
	m := make(map[string]Item, len(c.items))
	now := vclock.Now().UnixNano()
	for k, v := range c.items {
		// "Inlining" of Expired
		if v.Expiration > 0 {
			if now > v.Expiration {
				continue
			}
		}
		m[k] = v
	}
	return m
}

// Returns the number of items in the cache. This may include items that have
// expired, but have not yet been cleaned up.
func (c *cache) ItemCount() int {
	c.mu.RLock()
	n := len(c.items)
	c.mu.RUnlock()
	return n
}

// Delete all items from the cache.
func (c *cache) Flush() {
	c.mu.Lock()
	c.items = map[string]Item{}
	c.mu.Unlock()
}

type janitor struct {
	Interval time.Duration
	stop     chan bool
}

func (j *janitor) Run(c *cache) {
	ticker := time.NewTicker(j.Interval)
	for {
		select {
		case <-ticker.C:
			c.DeleteExpired()
		case <-j.stop:
			ticker.Stop()
			return
		}
	}
}

func stopJanitor(c *Cache) {
	c.janitor.stop <- true
}

func runJanitor(c *cache, ci time.Duration) {
	j := &janitor{
		Interval: ci,
		stop:     make(chan bool),
	}
	c.janitor = j
	go j.Run(c)
}

func newCache(de time.Duration, m map[string]Item) *cache {
	if de == 0 {
		de = -1
	}
	c := &cache{
		defaultExpiration: de,
		items:             m,
	}
	return c
}

func newCacheWithJanitor(de time.Duration, ci time.Duration, m map[string]Item) *Cache {
	c := newCache(de, m)
	// This trick ensures that the janitor goroutine (which--granted it
	// was enabled--is running DeleteExpired on c forever) does not keep
	// the returned C object from being garbage collected. When it is
	// garbage collected, the finalizer stops the janitor goroutine, after
	// which c can be collected.
	C := &Cache{c}
	if ci > 0 {
		// verif copy: the janitor goroutine (a real timer outside the controlled
		// scheduler) is not started; expiry is still enforced on every Get
		_ = ci
	}
	return C
}

// Return a new cache with a given default expiration duration and cleanup
// interval. If the expiration duration is less than one (or NoExpiration),
// the items in the cache never expire (by default), and must be deleted
// manually. If the cleanup interval is less than one, expired items are not
// deleted from the cache before calling c.DeleteExpired().
func New(defaultExpiration, cleanupInterval time.Duration) *Cache {
	items := make(map[string]Item)
	return newCacheWithJanitor(defaultExpiration, cleanupInterval, items)
}

// Return a new cache with a given default expiration duration and cleanup
// interval. If the expiration duration is less than one (or NoExpiration),
// the items in the cache never expire (by default), and must be deleted
// manually. If the cleanup interval is less than one, expired items are not
// deleted from the cache before calling c.DeleteExpired().
//
// NewFrom() also accepts an items map which will serve as the underlying map
// for the cache. This is useful for starting from a deserialized cache
// (serialized using e.g. gob.Encode() on c.Items()), or passing in e.g.
// make(map[string]Item, 500) to improve startup performance when the cache
// is expected to reach a certain minimum size.
//
// Only the cache's methods synchronize access to this map, so it is not
// recommended to keep any references to the map around after creating a cache.
// If need be, the map can be accessed at a later point using c.Items() (subject
// to the same caveat.)
//
// Note regarding serialization: When using e.g. gob, make sure to
// gob.Register() the individual types stored in the cache before encoding a
// map retrieved with c.Items(), and to register those same types before
// decoding a blob containing an items map.
func NewFrom(defaultExpiration, cleanupInterval time.Duration, items map[string]Item) *Cache {
	return newCacheWithJanitor(defaultExpiration, cleanupInterval, items)
}
