// Package pam is a pure-Go stand-in for github.com/msteinert/pam/v2 (the image
// has no PAM headers, so the real cgo package does not build). The harness
// drives cmd/auth through it; the stub consults a user table given in the
// environment variable VERIF_PAM_USERS ("user:password,user:password").
package pam

import (
	"errors"
	"os"
	"strings"
)

type Style int

const (
	PromptEchoOff Style = 1
	PromptEchoOn  Style = 2
	ErrorMsg      Style = 3
	TextInfo      Style = 4
)

type Flags int

type ConversationFunc func(Style, string) (string, error)

type Transaction struct {
	user string
	conv ConversationFunc
}

func StartFunc(service, user string, handler func(Style, string) (string, error)) (*Transaction, error) {
	if service == "" {
		return nil, errors.New("pam: no service")
	}
	return &Transaction{user: user, conv: handler}, nil
}

func (t *Transaction) End() error { return nil }

func (t *Transaction) Authenticate(f Flags) error {
	pw, err := t.conv(PromptEchoOff, "Password: ")
	if err != nil {
		return err
	}
	for _, e := range strings.Split(os.Getenv("VERIF_PAM_USERS"), ",") {
		kv := strings.SplitN(e, ":", 2)
		if len(kv) == 2 && kv[0] == t.user && kv[0] != "" {
			if kv[1] == pw {
				return nil
			}
			return errors.New("pam: authentication failure")
		}
	}
	return errors.New("pam: user unknown")
}

func (t *Transaction) AcctMgmt(f Flags) error { return nil }
