// Package vtime stands in for package time in cmd/rdpgw/security (import
// rewritten by the overlay generator): everything is an alias of time, except
// that Now (and Since / Until) follow the harness clock of vclock. Token expiry
// is therefore judged against a clock the harness can advance.
package vtime

import (
	"time"

	"verif/shim/vclock"
)

func Now() time.Time                  { return vclock.Now() }
func Since(t time.Time) time.Duration { return vclock.Now().Sub(t) }
func Until(t time.Time) time.Duration { return t.Sub(vclock.Now()) }

// After and Sleep follow the harness clock too: they end when the harness clock (real time plus the offset the
// harness added) has passed the deadline, so a harness that lets virtual time pass (vclock.Advance) makes
// time-outs in the code under test fire without waiting for them in real time.
func After(d time.Duration) <-chan time.Time {
	ch := make(chan time.Time, 1)
	deadline := vclock.Now().Add(d)
	go func() {
		for vclock.Now().Before(deadline) {
			rem := deadline.Sub(vclock.Now())
			if rem > 5*time.Millisecond {
				rem = 5 * time.Millisecond
			}
			time.Sleep(rem)
		}
		ch <- vclock.Now()
	}()
	return ch
}

func Sleep(d time.Duration) { <-After(d) }
