// Package vtime stands in for package time in cmd/rdpgw/security (import
// rewritten by the overlay generator): everything is an alias of time, except
// that Now (and Since / Until) follow the harness clock of vclock. Token expiry
// is therefore judged against a clock the harness can advance.
package vtime

import (
	"time"

	"verif/shim/vclock"
)

func Now() time.Time                  { return vclock.Now() }
func Since(t time.Time) time.Duration { return vclock.Now().Sub(t) }
func Until(t time.Time) time.Duration { return t.Sub(vclock.Now()) }
