// Package vtime stands in for package time in cmd/rdpgw/security (import
// rewritten by the overlay generator): everything is an alias of time, except
// that Now (and Since / Until) follow the harness clock of vclock. Token expiry
// is therefore judged against a clock the harness can advance.
package vtime

import (
	"time"

	"verif/shim/vclock"
	"verif/shim/vsched"
)

func Now() time.Time                  { return vclock.Now() }
func Since(t time.Time) time.Duration { return vclock.Now().Sub(t) }
func Until(t time.Time) time.Duration { return t.Sub(vclock.Now()) }

// After and Sleep follow the harness clock too: they end when the harness clock (real time plus the offset the
// harness added) has passed the deadline, so a harness that lets virtual time pass (vclock.Advance) makes
// time-outs in the code under test fire without waiting for them in real time.
func After(d time.Duration) <-chan time.Time {
	if vsched.Active() {
		return NewTimer(d).C
	}
	ch := make(chan time.Time, 1)
	deadline := vclock.Now().Add(d)
	go func() {
		for vclock.Now().Before(deadline) {
			rem := deadline.Sub(vclock.Now())
			if rem > 5*time.Millisecond {
				rem = 5 * time.Millisecond
			}
			time.Sleep(rem)
		}
		ch <- vclock.Now()
	}()
	return ch
}

func Sleep(d time.Duration) {
	if vsched.Active() {
		vsched.ChanRecv(NewTimer(d).C)
		return
	}
	<-After(d)
}

// Timer stands in for time.Timer. Inside a controlled execution (vsched) it is a deadline of the execution: it
// fires when nothing else can move (earliest deadline first), the function of AfterFunc then runs as a thread of
// its own, exactly as the runtime would run it in a goroutine of its own. Outside a controlled execution it is
// a real timer.
// Horizon: timers, sleeps and AfterFuncs armed for longer than this do not fire inside a controlled execution.
var Horizon = 366 * 24 * time.Hour

type Timer struct {
	C  <-chan time.Time
	c  chan time.Time
	f  func()
	vt *vsched.Timer
	rt *time.Timer
}

func (t *Timer) arm(d time.Duration) {
	if !vsched.Active() {
		if t.f != nil {
			t.rt = time.AfterFunc(d, t.f)
		} else {
			t.rt = time.AfterFunc(d, func() {
				select {
				case t.c <- vclock.Now():
				default:
				}
			})
		}
		return
	}
	due := vclock.Now().Add(d).UnixNano()
	if d > Horizon {
		// a wait beyond the horizon never ends inside an execution (a duration multiplied by its unit twice
		// is 63 years; no deadline of the gateway is longer than hours)
		t.vt = vsched.AddTimer(due, "timer-beyond-horizon", func() {})
		if t.vt != nil {
			t.vt.Never = true
		}
		return
	}
	if t.f != nil {
		f := t.f
		t.vt = vsched.AddTimer(due, "timer-func", func() { vsched.SpawnAtFire("timer-func", f) })
		return
	}
	t.vt = vsched.AddTimer(due, "timer", func() {
		select {
		case t.c <- vclock.Now():
		default:
		}
	})
}

func (t *Timer) disarm() bool {
	switch {
	case t.vt != nil:
		was := t.vt.Pending()
		t.vt.Cancel()
		t.vt = nil
		return was
	case t.rt != nil:
		return t.rt.Stop()
	}
	return false
}

func AfterFunc(d time.Duration, f func()) *Timer {
	t := &Timer{f: f}
	t.arm(d)
	return t
}

func NewTimer(d time.Duration) *Timer {
	c := make(chan time.Time, 1)
	t := &Timer{C: c, c: c}
	t.arm(d)
	return t
}

func (t *Timer) Stop() bool { return t.disarm() }

func (t *Timer) Reset(d time.Duration) bool {
	was := t.disarm()
	t.arm(d)
	return was
}
