// Package vsync stands in for package sync in the packages of the code under
// test whose goroutines are explored: Lock is a scheduling point that is enabled
// only while the lock is free (so blocking is modelled, never spun on), and
// lock/unlock carry the happens-before edge the race detector expects.
// Unlock is not a scheduling point: a preemption right after an unlock is
// equivalent to one before the thread's next visible operation, and the race
// oracle is happens-before based, not interleaving based.
// Outside a controlled execution the operations are no-ops (the worker is
// single-threaded there).
package vsync

import (
	"sync"
	"unsafe"

	"verif/shim/vsched"
)

type (
	Once      = sync.Once
	WaitGroup = sync.WaitGroup
	Map       = sync.Map
	Locker    = sync.Locker
	Cond      = sync.Cond
)

var NewCond = sync.NewCond

// Mutex replaces sync.Mutex.
type Mutex struct {
	locked bool
	owner  *vsched.Exec
	hb     int
}

//go:norace
func (m *Mutex) fresh() {
	if x := vsched.Cur(); m.owner != x {
		m.owner = x
		m.locked = false
	}
}

//go:norace
func (m *Mutex) free() bool { m.fresh(); return !m.locked }

//go:norace
func (m *Mutex) Lock() {
	if !vsched.Active() {
		return
	}
	vsched.Point("lock", m.free)
	if !vsched.Active() {
		return
	}
	m.fresh()
	m.locked = true
	vsched.Acquire(unsafe.Pointer(&m.hb))
}

//go:norace
func (m *Mutex) TryLock() bool {
	if !vsched.Active() {
		return true
	}
	vsched.Point("trylock", always)
	m.fresh()
	if m.locked {
		return false
	}
	m.locked = true
	vsched.Acquire(unsafe.Pointer(&m.hb))
	return true
}

//go:norace
func (m *Mutex) Unlock() {
	if !vsched.Active() {
		return
	}
	m.fresh()
	if !m.locked {
		panic("vsync: unlock of unlocked mutex")
	}
	vsched.Release(unsafe.Pointer(&m.hb))
	m.locked = false
}

func always() bool { return true }

// RWMutex replaces sync.RWMutex.
type RWMutex struct {
	writer  bool
	readers int
	owner   *vsched.Exec
	// happens-before edges as sync.RWMutex has them: a writer's unlock orders
	// later lockers of both kinds (wHB); readers' unlocks order later writers
	// only (rHB). There is no reader->reader edge.
	wHB int
	rHB int
}

//go:norace
func (m *RWMutex) fresh() {
	if x := vsched.Cur(); m.owner != x {
		m.owner = x
		m.writer = false
		m.readers = 0
	}
}

//go:norace
func (m *RWMutex) wfree() bool { m.fresh(); return !m.writer && m.readers == 0 }

//go:norace
func (m *RWMutex) rfree() bool { m.fresh(); return !m.writer }

//go:norace
func (m *RWMutex) Lock() {
	if !vsched.Active() {
		return
	}
	vsched.Point("wlock", m.wfree)
	if !vsched.Active() {
		return
	}
	m.fresh()
	m.writer = true
	vsched.Acquire(unsafe.Pointer(&m.wHB))
	vsched.Acquire(unsafe.Pointer(&m.rHB))
}

//go:norace
func (m *RWMutex) Unlock() {
	if !vsched.Active() {
		return
	}
	m.fresh()
	vsched.Release(unsafe.Pointer(&m.wHB))
	m.writer = false
}

//go:norace
func (m *RWMutex) RLock() {
	if !vsched.Active() {
		return
	}
	vsched.Point("rlock", m.rfree)
	if !vsched.Active() {
		return
	}
	m.fresh()
	m.readers++
	vsched.Acquire(unsafe.Pointer(&m.wHB))
}

//go:norace
func (m *RWMutex) RUnlock() {
	if !vsched.Active() {
		return
	}
	m.fresh()
	vsched.Release(unsafe.Pointer(&m.rHB))
	if m.readers > 0 {
		m.readers--
	}
}

func (m *RWMutex) RLocker() Locker { return rlocker{m} }

type rlocker struct{ m *RWMutex }

func (r rlocker) Lock()   { r.m.RLock() }
func (r rlocker) Unlock() { r.m.RUnlock() }

// Pool replaces sync.Pool with a deterministic LIFO free list whose Get and Put
// are scheduling points (Put: right after the object became available), so the
// explorer can hand a just-released object to another thread while the releasing
// thread still uses it. Each pooled object carries the put->get happens-before
// edge sync.Pool has, and no more.
type Pool struct {
	New   func() any
	items []pooled
	owner *vsched.Exec
}

type pooled struct {
	v  any
	hb *int
}

//go:norace
func (p *Pool) fresh() {
	if x := vsched.Cur(); p.owner != x {
		p.owner = x
		p.items = nil
	}
}

//go:norace
func (p *Pool) Get() any {
	if vsched.Active() {
		vsched.Point("pool-get", always)
	}
	p.fresh()
	if n := len(p.items); n > 0 {
		it := p.items[n-1]
		p.items = p.items[:n-1]
		vsched.Acquire(unsafe.Pointer(it.hb))
		return it.v
	}
	if p.New != nil {
		return p.New()
	}
	return nil
}

//go:norace
func (p *Pool) Put(v any) {
	if v == nil {
		return
	}
	p.fresh()
	hb := new(int)
	vsched.Release(unsafe.Pointer(hb))
	p.items = append(p.items, pooled{v, hb})
	if vsched.Active() {
		vsched.Point("pool-put", always)
	}
}
