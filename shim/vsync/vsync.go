// Package vsync stands in for package sync in the packages of the code under
// test whose goroutines are explored: Lock is a scheduling point that is enabled
// only while the lock is free (so blocking is modelled, never spun on), and
// lock/unlock carry the happens-before edge the race detector expects.
// Unlock is not a scheduling point: a preemption right after an unlock is
// equivalent to one before the thread's next visible operation, and the race
// oracle is happens-before based, not interleaving based.
// Outside a controlled execution the operations are no-ops (the worker is
// single-threaded there).
package vsync

import (
	"sync"
	"unsafe"

	"verif/shim/vsched"
)

type (
	Map    = sync.Map
	Locker = sync.Locker
	Cond   = sync.Cond
)

// WaitGroup replaces sync.WaitGroup: Wait is a scheduling point that is enabled once the counter is zero.
// Outside a controlled execution it is the real thing.
type WaitGroup struct {
	real  sync.WaitGroup
	n     int
	owner *vsched.Exec
	hb    int
}

//go:norace
func (w *WaitGroup) fresh() {
	if x := vsched.Cur(); w.owner != x {
		w.owner, w.n = x, 0
	}
}

//go:norace
func (w *WaitGroup) Add(d int) {
	if !vsched.Active() {
		w.real.Add(d)
		return
	}
	w.fresh()
	w.n += d
	if w.n < 0 {
		panic("sync: negative WaitGroup counter")
	}
	if d < 0 {
		vsched.Release(unsafe.Pointer(&w.hb))
	}
}

func (w *WaitGroup) Done() { w.Add(-1) }

//go:norace
func (w *WaitGroup) Wait() {
	if !vsched.Active() {
		w.real.Wait()
		return
	}
	w.fresh()
	vsched.Point("waitgroup-wait", func() bool { return w.n == 0 || !vsched.Active() })
	vsched.Acquire(unsafe.Pointer(&w.hb))
}

// Go is WaitGroup.Go of newer Go versions.
func (w *WaitGroup) Go(f func()) {
	w.Add(1)
	vsched.Go("waitgroup-go", func() { defer w.Done(); f() })
}

// Once replaces sync.Once: a second caller waits (as a blocked thread) until the first caller's function
// has returned.
type Once struct {
	real    sync.Once
	state   int // 0 not run, 1 running, 2 done
	owner   *vsched.Exec
	hb      int
	everRun bool
}

//go:norace
func (o *Once) Do(f func()) {
	if !vsched.Active() {
		o.real.Do(func() { o.everRun = true; f() })
		return
	}
	if o.everRun {
		return // done before this execution began (process-wide state)
	}
	if o.owner != vsched.Cur() {
		o.owner, o.state = vsched.Cur(), 0
	}
	vsched.Point("once-do", always)
	switch o.state {
	case 2:
		vsched.Acquire(unsafe.Pointer(&o.hb))
		return
	case 1:
		vsched.Point("once-wait", func() bool { return o.state == 2 || !vsched.Active() })
		vsched.Acquire(unsafe.Pointer(&o.hb))
		return
	}
	o.state = 1
	defer func() {
		o.state = 2
		vsched.Release(unsafe.Pointer(&o.hb))
	}()
	f()
}

var NewCond = sync.NewCond

// Mutex replaces sync.Mutex.
type Mutex struct {
	locked bool
	owner  *vsched.Exec
	hb     int
}

//go:norace
func (m *Mutex) fresh() {
	if x := vsched.Cur(); m.owner != x {
		m.owner = x
		m.locked = false
	}
}

//go:norace
func (m *Mutex) free() bool { m.fresh(); return !m.locked }

//go:norace
func (m *Mutex) Lock() {
	if !vsched.Active() {
		return
	}
	vsched.Point("lock", m.free)
	if !vsched.Active() {
		return
	}
	m.fresh()
	m.locked = true
	vsched.Acquire(unsafe.Pointer(&m.hb))
}

//go:norace
func (m *Mutex) TryLock() bool {
	if !vsched.Active() {
		return true
	}
	vsched.Point("trylock", always)
	m.fresh()
	if m.locked {
		return false
	}
	m.locked = true
	vsched.Acquire(unsafe.Pointer(&m.hb))
	return true
}

//go:norace
func (m *Mutex) Unlock() {
	if !vsched.Active() {
		return
	}
	m.fresh()
	if !m.locked {
		panic("vsync: unlock of unlocked mutex")
	}
	vsched.Release(unsafe.Pointer(&m.hb))
	m.locked = false
}

func always() bool { return true }

// RWMutex replaces sync.RWMutex.
type RWMutex struct {
	writer  bool
	readers int
	owner   *vsched.Exec
	// happens-before edges as sync.RWMutex has them: a writer's unlock orders
	// later lockers of both kinds (wHB); readers' unlocks order later writers
	// only (rHB). There is no reader->reader edge.
	wHB int
	rHB int
}

//go:norace
func (m *RWMutex) fresh() {
	if x := vsched.Cur(); m.owner != x {
		m.owner = x
		m.writer = false
		m.readers = 0
	}
}

//go:norace
func (m *RWMutex) wfree() bool { m.fresh(); return !m.writer && m.readers == 0 }

//go:norace
func (m *RWMutex) rfree() bool { m.fresh(); return !m.writer }

//go:norace
func (m *RWMutex) Lock() {
	if !vsched.Active() {
		return
	}
	vsched.Point("wlock", m.wfree)
	if !vsched.Active() {
		return
	}
	m.fresh()
	m.writer = true
	vsched.Acquire(unsafe.Pointer(&m.wHB))
	vsched.Acquire(unsafe.Pointer(&m.rHB))
}

//go:norace
func (m *RWMutex) Unlock() {
	if !vsched.Active() {
		return
	}
	m.fresh()
	vsched.Release(unsafe.Pointer(&m.wHB))
	m.writer = false
}

//go:norace
func (m *RWMutex) RLock() {
	if !vsched.Active() {
		return
	}
	vsched.Point("rlock", m.rfree)
	if !vsched.Active() {
		return
	}
	m.fresh()
	m.readers++
	vsched.Acquire(unsafe.Pointer(&m.wHB))
}

//go:norace
func (m *RWMutex) RUnlock() {
	if !vsched.Active() {
		return
	}
	m.fresh()
	vsched.Release(unsafe.Pointer(&m.rHB))
	if m.readers > 0 {
		m.readers--
	}
}

func (m *RWMutex) RLocker() Locker { return rlocker{m} }

type rlocker struct{ m *RWMutex }

func (r rlocker) Lock()   { r.m.RLock() }
func (r rlocker) Unlock() { r.m.RUnlock() }

// Pool replaces sync.Pool with a deterministic LIFO free list whose Get and Put
// are scheduling points (Put: right after the object became available), so the
// explorer can hand a just-released object to another thread while the releasing
// thread still uses it. Each pooled object carries the put->get happens-before
// edge sync.Pool has, and no more.
type Pool struct {
	New   func() any
	items []pooled
	owner *vsched.Exec
}

type pooled struct {
	v  any
	hb *int
}

//go:norace
func (p *Pool) fresh() {
	if x := vsched.Cur(); p.owner != x {
		p.owner = x
		p.items = nil
	}
}

//go:norace
func (p *Pool) Get() any {
	if vsched.Active() {
		vsched.Point("pool-get", always)
	}
	p.fresh()
	if n := len(p.items); n > 0 {
		it := p.items[n-1]
		p.items = p.items[:n-1]
		vsched.Acquire(unsafe.Pointer(it.hb))
		return it.v
	}
	if p.New != nil {
		return p.New()
	}
	return nil
}

//go:norace
func (p *Pool) Put(v any) {
	if v == nil {
		return
	}
	p.fresh()
	hb := new(int)
	vsched.Release(unsafe.Pointer(hb))
	p.items = append(p.items, pooled{v, hb})
	if vsched.Active() {
		vsched.Point("pool-put", always)
	}
}
