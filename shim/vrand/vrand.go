// Package vrand stands in for math/rand in cmd/rdpgw/web (round-robin host
// selection): the harness decides every "random" pick, so the choice becomes an
// enumerated input instead of uncontrolled nondeterminism.
package vrand

import "math/rand"

// Choice is the value the next Intn calls return (modulo n). Negative: fall
// back to real randomness (outside the harness).
var Choice = -1

// Calls counts Intn calls (so a check can tell that the seam is still in use).
var Calls int

type Source = rand.Source

func NewSource(seed int64) Source { return rand.NewSource(seed) }

type Rand struct{ r *rand.Rand }

func New(src Source) *Rand { return &Rand{rand.New(src)} }

func (r *Rand) Intn(n int) int {
	Calls++
	if Choice >= 0 {
		return Choice % n
	}
	return r.r.Intn(n)
}

func (r *Rand) Int63() int64 { return r.r.Int63() }
func (r *Rand) Int() int     { return r.r.Int() }

func Intn(n int) int {
	Calls++
	if Choice >= 0 {
		return Choice % n
	}
	return rand.Intn(n)
}
