// Package vnet stands in for package net in the files of the code under test
// that dial out (import rewritten by the overlay generator). Every exported
// identifier of net is re-exported by alias (alias_gen.go); Dial and
// DialTimeout consult a per-execution table and log every attempt. Connections
// are in-memory pipes whose blocking operations are scheduling points of
// vsched.
package vnet

import (
	"errors"
	"fmt"
	"io"
	"net"
	"os"
	"syscall"
	"time"
	"unsafe"
	"verif/shim/vclock"

	"verif/shim/vsched"
)

type half struct {
	segs    [][]byte
	wclosed bool // writer side closed: EOF after the queue is drained
	rclosed bool // reader side closed: writes fail
	sync    int  // address for race annotations (writer -> reader edge)
}

type addr struct{ network, s string }

func (a addr) Network() string { return a.network }
func (a addr) String() string  { return a.s }

// PipeConn is one end of an in-memory duplex connection.
type PipeConn struct {
	Name        string
	rd, wr      *half
	closed      bool
	ClosedBy    string // name of the thread that called Close
	Stream      bool   // true: a Read may return bytes of several writes (TCP); false: one write per Read (datagram-like)
	NoEOF       bool   // datagram sockets: the peer going away is not observable (no EOF)
	PostRead    bool   // a scheduling point lies between the return of a Read and the caller's next step
	MaxDatagram int    // > 0: a Write of more bytes fails with EMSGSIZE (UDP: 65507)
	Window      int    // > 0: a Write blocks while that many bytes written by this end are still unread by the peer (a peer that stopped reading, buffers full)
	// ClockDeadlines: the code that sets deadlines on this connection takes its time from the harness clock, so a
	// deadline that lies in the past of that clock when it is set has expired: reads and writes fail at once, as
	// on a real socket (without it a deadline only fires when nothing else can move)
	ClockDeadlines bool
	rPast, wPast   bool
	timedOut       bool
	timer          *vsched.Timer
	wTimedOut      bool
	wtimer         *vsched.Timer
	Written        []byte // every byte this end wrote
	Writes         []int  // size of each Write call
	Reads          int
	local          addr
	remote         addr
}

// NewPipe creates a connected pair. Names are used in scheduling-point
// descriptions and in quiescence reports.
//
//go:norace
func NewPipe(nameA, nameB string, stream bool) (*PipeConn, *PipeConn) {
	ab, ba := &half{}, &half{}
	a := &PipeConn{Name: nameA, rd: ba, wr: ab, Stream: stream, local: addr{"tcp", nameA}, remote: addr{"tcp", nameB}}
	b := &PipeConn{Name: nameB, rd: ab, wr: ba, Stream: stream, local: addr{"tcp", nameB}, remote: addr{"tcp", nameA}}
	return a, b
}

// SetAddrs overrides the addresses reported by LocalAddr / RemoteAddr.
func (c *PipeConn) SetAddrs(local, remote string) {
	c.local = addr{"tcp", local}
	c.remote = addr{"tcp", remote}
}

//go:norace
func (c *PipeConn) readable() bool {
	return len(c.rd.segs) > 0 || (c.rd.wclosed && !c.NoEOF) || c.closed || c.timedOut || !vsched.Active()
}

// Read implements net.Conn.
//
//go:norace
func (c *PipeConn) Read(p []byte) (int, error) {
	if c.rPast && !c.closed {
		vsched.Point("read "+c.Name, always)
		return 0, os.ErrDeadlineExceeded
	}
	vsched.Point("read "+c.Name, c.readable)
	c.Reads++
	if c.closed {
		return 0, net.ErrClosed
	}
	if len(c.rd.segs) > 0 {
		vsched.Acquire(unsafe.Pointer(&c.rd.sync))
		if len(p) == 0 {
			return 0, nil
		}
		n := 0
		for len(c.rd.segs) > 0 && n < len(p) {
			s := c.rd.segs[0]
			k := copyBytes(p[n:], s)
			n += k
			if k < len(s) {
				c.rd.segs[0] = s[k:]
			} else {
				c.rd.segs = c.rd.segs[1:]
			}
			if !c.Stream {
				break
			}
		}
		if n > 0 {
			// like a real socket read: the caller's buffer was written by this thread
			vsched.WriteRange(unsafe.Pointer(&p[0]), n)
		}
		if c.PostRead && n > 0 {
			// the thread may be descheduled between the system call's return and its next
			// instruction: without this point, state shared between two readers (a buffer
			// hoisted out of the reading function, say) could never be observed mixed up
			vsched.Point("read-return "+c.Name, always)
		}
		return n, nil
	}
	if c.rd.wclosed && !c.NoEOF {
		vsched.Acquire(unsafe.Pointer(&c.rd.sync))
		return 0, io.EOF
	}
	if c.timedOut {
		return 0, os.ErrDeadlineExceeded
	}
	return 0, net.ErrClosed // execution over
}

// copyBytes is copy() without the race instrumentation of runtime.slicecopy
// mattering: callers establish the writer->reader edge first.
func copyBytes(dst, src []byte) int { return copy(dst, src) }

// Write implements net.Conn. One Write is atomic with respect to other
// writers, as in Go's network layer; the scheduling point lies before it.
//
//go:norace
func (c *PipeConn) Write(p []byte) (int, error) {
	if c.Window > 0 {
		vsched.Point("write "+c.Name, c.writable)
	} else {
		vsched.Point("write "+c.Name, always)
	}
	if c.closed {
		return 0, net.ErrClosed
	}
	if c.wr.rclosed && !c.NoEOF {
		return 0, &net.OpError{Op: "write", Net: "tcp", Err: os.NewSyscallError("write", syscall.EPIPE)}
	}
	if !vsched.Active() {
		return 0, net.ErrClosed
	}
	if c.wPast {
		return 0, os.ErrDeadlineExceeded
	}
	if c.Window > 0 && c.wTimedOut && c.pendingOut() >= c.Window {
		return 0, os.ErrDeadlineExceeded
	}
	if c.MaxDatagram > 0 && len(p) > c.MaxDatagram {
		return 0, &net.OpError{Op: "write", Net: "udp", Err: os.NewSyscallError("sendto", syscall.EMSGSIZE)}
	}
	b := make([]byte, len(p))
	if len(p) > 0 {
		// like a real socket write: the caller's buffer was read by this thread
		vsched.ReadRange(unsafe.Pointer(&p[0]), len(p))
	}
	copyBytes(b, p)
	c.wr.segs = append(c.wr.segs, b)
	c.Written = append(c.Written, b...)
	c.Writes = append(c.Writes, len(p))
	vsched.Release(unsafe.Pointer(&c.wr.sync))
	vsched.Logf("  wrote %d bytes on %s", len(p), c.Name)
	return len(p), nil
}

func always() bool { return true }

// writable: there is room in the send window, or the write would fail / the execution is over.
//
//go:norace
func (c *PipeConn) writable() bool {
	if c.closed || c.wr.rclosed || c.wTimedOut || !vsched.Active() {
		return true
	}
	return c.pendingOut() < c.Window
}

//go:norace
func (c *PipeConn) pendingOut() int {
	n := 0
	for _, s := range c.wr.segs {
		n += len(s)
	}
	return n
}

// Close implements net.Conn.
//
//go:norace
func (c *PipeConn) Close() error {
	vsched.Point("close "+c.Name, always)
	if c.closed {
		return net.ErrClosed
	}
	c.closed = true
	_, c.ClosedBy = vsched.CurThread()
	c.wr.wclosed = true
	c.rd.rclosed = true
	c.timer.Cancel()
	vsched.Release(unsafe.Pointer(&c.wr.sync))
	return nil
}

// CloseWrite half-closes (peer sees EOF) without a scheduling point.
//
//go:norace
func (c *PipeConn) CloseWrite() error {
	c.wr.wclosed = true
	return nil
}

// PeerDrained reports whether the other end has read everything this end wrote.
//
//go:norace
func (c *PipeConn) PeerDrained() bool { return len(c.wr.segs) == 0 || c.wr.rclosed }

// IsClosed reports whether this end was closed.
//
//go:norace
func (c *PipeConn) IsClosed() bool { return c.closed }

// PeerClosed reports whether the other end closed (EOF pending for this reader).
//
//go:norace
func (c *PipeConn) PeerClosed() bool { return c.rd.wclosed }

// Pending returns (and removes) everything queued for this end's reader,
// without a scheduling point. Harness use, after quiescence.
//
//go:norace
func (c *PipeConn) Pending() []byte {
	var out []byte
	for _, s := range c.rd.segs {
		out = append(out, s...)
	}
	c.rd.segs = nil
	return out
}

// PendingLen is the number of bytes queued for this end's reader.
//
//go:norace
func (c *PipeConn) PendingLen() int {
	n := 0
	for _, s := range c.rd.segs {
		n += len(s)
	}
	return n
}

func (c *PipeConn) LocalAddr() net.Addr  { return c.local }
func (c *PipeConn) RemoteAddr() net.Addr { return c.remote }

// SetDeadline: a non-zero deadline becomes a timer that fires at quiescence
// (earliest first) and makes pending and future reads fail with a timeout.
//
//go:norace
func (c *PipeConn) SetDeadline(t time.Time) error {
	c.SetWriteDeadline(t)
	return c.SetReadDeadline(t)
}

//go:norace
func (c *PipeConn) SetReadDeadline(t time.Time) error {
	c.timer.Cancel()
	c.timer = nil
	c.timedOut = false
	c.rPast = c.ClockDeadlines && !t.IsZero() && t.Before(vclock.Now())
	if !t.IsZero() {
		cc := c
		c.timer = vsched.AddTimer(t.UnixNano(), "deadline "+c.Name, func() { cc.timedOut = true })
	}
	return nil
}

// SetWriteDeadline matters only for connections with a send window: a Write that is blocked when the deadline
// fires (at quiescence, like every timer) fails with os.ErrDeadlineExceeded and writes nothing.
//
//go:norace
func (c *PipeConn) SetWriteDeadline(t time.Time) error {
	c.wtimer.Cancel()
	c.wtimer = nil
	c.wTimedOut = false
	c.wPast = c.ClockDeadlines && !t.IsZero() && t.Before(vclock.Now())
	if !t.IsZero() && c.Window > 0 {
		cc := c
		c.wtimer = vsched.AddTimer(t.UnixNano(), "write deadline "+c.Name, func() { cc.wTimedOut = true })
	}
	return nil
}

// DialRec is one logged dial attempt.
type DialRec struct {
	Network string
	Address string
	Thread  string
	Err     string
}

// Net is the per-execution network: a dial table and a log.
type Net struct {
	Dials []DialRec
	// OnDial decides a dial. Returning (nil, nil) means connection refused.
	OnDial func(network, address string) (net.Conn, error)
}

var cur *Net

// Install sets the network used by Dial / DialTimeout (nil removes it).
func Install(n *Net) { cur = n }

var errRefused = &net.OpError{Op: "dial", Net: "tcp", Err: os.NewSyscallError("connect", syscall.ECONNREFUSED)}

//go:norace
func dial(network, address string) (net.Conn, error) {
	n := cur
	if n == nil {
		return nil, errors.New("vnet: no network installed")
	}
	vsched.Point("dial "+network+" "+address, always)
	_, th := vsched.CurThread()
	rec := DialRec{Network: network, Address: address, Thread: th}
	var c net.Conn
	var err error
	if n.OnDial != nil {
		c, err = n.OnDial(network, address)
	}
	if c == nil && err == nil {
		err = errRefused
	}
	if err != nil {
		rec.Err = err.Error()
		c = nil
	}
	n.Dials = append(n.Dials, rec)
	vsched.Logf("  dial %s %s -> err=%v", network, address, err)
	return c, err
}

// Dial replaces net.Dial.
func Dial(network, address string) (net.Conn, error) { return dial(network, address) }

// DialTimeout replaces net.DialTimeout.
func DialTimeout(network, address string, timeout time.Duration) (net.Conn, error) {
	return dial(network, address)
}

func (d DialRec) String() string { return fmt.Sprintf("%s %s err=%q", d.Network, d.Address, d.Err) }
