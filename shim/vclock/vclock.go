// Package vclock is the harness-controlled clock used by the copy of go-cache
// (expiry of OAuth state values, NTLM contexts, legacy tunnel pairing): real
// time plus an offset the harness advances.
package vclock

import (
	"sync/atomic"
	"time"
)

var offset atomic.Int64

// Now is time.Now plus the harness offset.
func Now() time.Time { return time.Now().Add(time.Duration(offset.Load())) }

// Advance moves the clock forward.
func Advance(d time.Duration) { offset.Add(int64(d)) }

// Reset removes the offset.
func Reset() { offset.Store(0) }
