package main

import (
	"fmt"
	"net/http"
	"strings"

	"github.com/bolkedebruin/rdpgw/cmd/rdpgw/protocol"

	"verif/internal/tsgu"
	"verif/shim/vsched"
)

// C17 — authentication capability negotiation follows the configured requirements.

func init() { props["C17"] = c17 }

// c17Prelude: an earlier tunnel (another connection id) goes through a whole session and ends with an orderly
// channel close; the observed handshake then meets a gateway that is not in its initial state.
func c17Prelude(token bool) func(w *World, h http.Handler, gw *protocol.Gateway) {
	return func(w *World, h http.Handler, gw *protocol.Gateway) {
		id := NewIdentity("bob", "10.0.0.2", "10.0.0.2:50000")
		c, ok := w.OpenTunnel("ws", h, gw, "conn-0", "10.0.0.2:50000", id, nil)
		if !ok {
			return
		}
		hs, tc := tsgu.Handshake(1, 0, 0, 0), tsgu.TunnelCreate("", false)
		if token {
			hs, tc = tsgu.Handshake(1, 0, 0, tsgu.ExtAuthPAA), tsgu.TunnelCreate("ok|"+hostA+":3389|10.0.0.2|bob", true)
		}
		for _, p := range [][]byte{hs, tc, tsgu.TunnelAuth("pc"), tsgu.ChannelCreate(hostA, 3389), tsgu.Data([]byte("x")), tsgu.CloseChannel()} {
			c.SendSegment(p)
			vsched.WaitIdle()
		}
		c.CloseClient()
		vsched.WaitIdle()
	}
}

// kind is proc | ws | legacy, optionally followed by "+coalesced" (handshake and tunnel create arrive in one
// transport read) and / or "+after-session" (handler level only: see c17Prelude).
func c17One(token, sc bool, major, minor byte, ver, ext uint16, kind string, rep *Report) (viol string, detail string, obs string) {
	base := strings.SplitN(kind, "+", 2)[0]
	coalesced := strings.Contains(kind, "+coalesced")
	cfg := c01Cfg(token, sc, base)
	if strings.Contains(kind, "+after-session") && base != "proc" && !sc {
		cfg.Prelude = c17Prelude(token)
	}
	// "+authenticated": the request carries an identity that an HTTP-level scheme has already confirmed
	cfg.Authenticated = strings.Contains(kind, "+authenticated")
	tc := tsgu.TunnelCreate("ok|"+hostA+":3389|10.0.0.1|alice", true)
	segs := []Seg{{Bytes: tsgu.Handshake(major, minor, ver, ext)}, {Bytes: tc}}
	if coalesced {
		segs = []Seg{{Bytes: append(append([]byte{}, tsgu.Handshake(major, minor, ver, ext)...), tc...)}}
	}
	res := RunSeq(cfg, segs)
	rep.add("executions", 1)
	rep.add("transitions", int64(res.StepsRun))
	if res.Abort != "" {
		infra("C17: aborted: %s", res.Abort)
	}
	if len(res.Panics) > 0 {
		return "panic", res.Panics[0].Value, "panic"
	}
	if coalesced && res.Opened && len(res.Steps) == 1 {
		// both packets were one read: the first response answers the handshake, the rest belongs to the tunnel create
		o := res.Steps[0]
		first, rest := o, o
		if len(o.Resps) > 0 {
			first.Resps, rest.Resps = o.Resps[:1], o.Resps[1:]
		}
		first.Dials, first.BackendNew = nil, nil
		first.Ended = o.Ended && len(o.Resps) <= 1 && false
		res.Steps = []StepObs{first, rest}
	}
	if !res.Opened || len(res.Steps) != 2 {
		return "no-transport", "", ""
	}
	var srv uint16
	if sc {
		srv |= tsgu.ExtAuthSC
	}
	if token {
		srv |= tsgu.ExtAuthPAA
	}
	want := (srv == 0 && ext == 0) || srv&ext != 0
	s0, s1 := res.Steps[0], res.Steps[1]
	obs = s0.String() + "| " + s1.String()
	if len(s0.Resps) != 1 || s0.Resps[0].Type != tsgu.TypeHandshakeResp {
		return "not-exactly-one-handshake-response", obs, obs
	}
	r := tsgu.ParseResp(s0.Resps[0])
	if !r.WellFormed {
		return "malformed-handshake-response", r.Why, obs
	}
	if want {
		switch {
		case r.Status != 0:
			return "refused-although-capabilities-match", obs, obs
		case r.ExtAuth != srv:
			return "advertised-capabilities-differ-from-enabled", fmt.Sprintf("advertised %#x enabled %#x", r.ExtAuth, srv), obs
		case r.Major != major || r.Minor != minor:
			return "version-bytes-not-echoed", fmt.Sprintf("sent %d.%d got %d.%d", major, minor, r.Major, r.Minor), obs
		case s0.Ended:
			return "tunnel-ended-after-successful-handshake", obs, obs
		}
		if len(s1.Resps) != 1 || s1.Resps[0].Type != tsgu.TypeTunnelResp {
			return "tunnel-create-not-answered-after-successful-handshake", obs, obs
		}
		return "", "", obs
	}
	switch {
	case r.Status == 0:
		return "accepted-although-capabilities-do-not-match", obs, obs
	case r.Status != tsgu.ECapabilityMismatch:
		return "wrong-status-for-capability-mismatch", fmt.Sprintf("%#x", r.Status), obs
	case !s1.Ended && !s0.Ended:
		return "tunnel-not-ended-after-capability-mismatch", obs, obs
	case len(s1.Resps) > 0 || len(s1.Dials) > 0:
		return "answer-after-capability-mismatch", obs, obs
	}
	// "the tunnel ends": every connection of the tunnel is closed by the gateway
	for _, h := range res.World.Handlers {
		if h.RW.Hijacked && !h.Srv.IsClosed() {
			return "tunnel-connection-left-open-after-capability-mismatch", h.Name, obs
		}
	}
	return "", "", obs
}

func c17(env *Env, rep *Report) {
	rep.Rule = "for all 4 server settings of {cookie auth, smart-card auth}: every one of the 65536 client extended-auth values (x version byte pairs (1,0),(0,0),(255,255) in thorough), and all 65536 version byte pairs for client values {0,1,2,3,4,0xFFFF} (quick: for client value 2 only); " +
		"each is one execution of the real Processor: HANDSHAKE then a well-formed TUNNEL_CREATE; the handshake must succeed iff both sides are empty or intersect, advertise exactly the enabled mechanisms, echo the version bytes; on failure status E_PROXY_CAPABILITYMISMATCH, tunnel ended, TUNNEL_CREATE unanswered. " +
		"A sample of the same cases runs over the websocket and legacy handlers, with the handshake and the tunnel create arriving in one transport read, and after an earlier tunnel went through a whole session ending in an orderly close (non-initial gateway state), and with a request identity that an HTTP-level scheme has already authenticated. distinct_nontrivial = distinct (setting, client value, version) cases evaluated."
	rep.Assumptions = append(rep.Assumptions, "processor level over a message pipe (one packet per read); client version word fixed to 0")
	type cse struct {
		token, sc    bool
		major, minor byte
		ext          uint16
		kind         string
	}
	if env.Replay != nil {
		rp := env.Replay
		g := func(k string) int { f, _ := rp[k].(float64); return int(f) }
		b := func(k string) bool { v, _ := rp[k].(bool); return v }
		kind, _ := rp["kind"].(string)
		v, d, obs := c17One(b("token"), b("sc"), byte(g("major")), byte(g("minor")), 0, uint16(g("ext")), kind, rep)
		fmt.Println("observed:", obs, "verdict:", v, d)
		if v != "" {
			sig := "C17/" + v
			if kind != "proc" {
				sig += "/" + kind
			}
			rep.violate(sig, d, rp)
		}
		return
	}
	n := 0
	distinct := 0
	run := func(c cse) {
		n++
		if !env.mine(n) {
			return
		}
		distinct++
		v, d, obs := c17One(c.token, c.sc, c.major, c.minor, 0, c.ext, c.kind, rep)
		if len(obs) > 0 {
			// outcome class: setting + verdict shape, not the raw bytes
			rep.outcome(fmt.Sprintf("token=%v sc=%v match=%v kind=%s", c.token, c.sc, v == "" && (c.ext != 0 || (!c.token && !c.sc)), c.kind))
		}
		if v != "" {
			sig := "C17/" + v
			if c.kind != "proc" {
				sig += "/" + c.kind
			}
			rep.violate(sig, fmt.Sprintf("token=%v smartcard=%v client ext=%#x version=%d.%d transport=%s: %s", c.token, c.sc, c.ext, c.major, c.minor, c.kind, d),
				map[string]any{"engine": "enum", "token": c.token, "sc": c.sc, "major": int(c.major), "minor": int(c.minor), "ext": int(c.ext), "kind": c.kind})
		}
		if distinct%50000 == 1 {
			rep.sample(map[string]any{"token": c.token, "smartcard": c.sc, "client_ext": c.ext, "version": []int{int(c.major), int(c.minor)}, "transport": c.kind, "observation": obs, "verdict": v})
		}
	}
	for _, token := range []bool{false, true} {
		for _, sc := range []bool{false, true} {
			vers := [][2]byte{{1, 0}}
			if env.thorough() {
				vers = append(vers, [2]byte{0, 0}, [2]byte{255, 255})
			}
			for _, v := range vers {
				for ext := 0; ext < 65536; ext++ {
					run(cse{token, sc, v[0], v[1], uint16(ext), "proc"})
				}
			}
			exts := []uint16{2}
			if env.thorough() {
				exts = []uint16{0, 1, 2, 3, 4, 0xFFFF}
			}
			for _, ext := range exts {
				for vv := 0; vv < 65536; vv++ {
					run(cse{token, sc, byte(vv >> 8), byte(vv), ext, "proc"})
				}
			}
			for _, kind := range []string{"ws", "legacy", "proc+coalesced", "ws+coalesced", "legacy+coalesced", "ws+after-session", "legacy+after-session", "ws+coalesced+after-session", "proc+authenticated", "ws+authenticated", "legacy+authenticated"} {
				for ext := 0; ext < 65536; ext += 257 {
					run(cse{token, sc, 1, 0, uint16(ext), kind})
				}
				for ext := 0; ext < 16; ext++ {
					run(cse{token, sc, 7, 9, uint16(ext), kind})
				}
			}
		}
	}
	if gwBin() != "" {
		bindCaps(rep, "C17", env)
	}
	rep.add("distinct", int64(distinct))
	rep.add("states", int64(distinct))
}
