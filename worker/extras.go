package main

import (
	"fmt"
	"strings"

	"verif/internal/tsgu"

	"verif/shim/vsched"
)

// Concurrency scenarios that several properties share: each property registers the scenarios it judges
// (with its own oracle); the property's check runs them after its own parts, and a recorded schedule is
// replayed by scenario name.

type concExtra struct {
	sc    ConcScenario
	bound [2]int // quick, thorough
	check func(sc ConcScenario) func(res *ConcResult, races []RaceReport) (string, []vsched.Violation)
}

var concExtras = map[string]func() []concExtra{}

func runConcExtras(env *Env, rep *Report, prop string) int {
	mk := concExtras[prop]
	if mk == nil {
		return 0
	}
	n := 0
	var names []string
	for _, x := range mk() {
		names = append(names, fmt.Sprintf("%s (bound %d)", x.sc.Name, x.bound[map[bool]int{false: 0, true: 1}[env.thorough()]]))
	}
	rep.Rule += " Plus concurrency scenarios with real tokens / real callbacks, two tunnels or requests at the same time, every schedule up to the deviation bound with statement-level scheduling points where the scenario says so: " + strings.Join(names, ", ") + "."
	for i, x := range mk() {
		if env.Part != "" && !strings.Contains(x.sc.Name, env.Part) {
			continue
		}
		// scenarios are small: distribute whole scenarios over the shards
		if !env.mine(i) {
			continue
		}
		e2 := *env
		e2.Shard, e2.NShards = 0, 1
		b := x.bound[0]
		if env.thorough() {
			b = x.bound[1]
		}
		before := rep.Stats["executions"]
		exploreConc(&e2, rep, x.sc, b, nil, x.check(x.sc))
		n += int(rep.Stats["executions"] - before)
	}
	return n
}

func replayConcExtra(env *Env, rep *Report, prop string) bool {
	mk := concExtras[prop]
	name, _ := env.Replay["scenario"].(string)
	if mk == nil || name == "" {
		return false
	}
	for _, x := range mk() {
		if x.sc.Name == name {
			replayConc(rep, x.sc, env.Replay, nil, x.check(x.sc))
			return true
		}
	}
	return false
}

func expectFor(prop string) func(sc ConcScenario) func(res *ConcResult, races []RaceReport) (string, []vsched.Violation) {
	return func(sc ConcScenario) func(res *ConcResult, races []RaceReport) (string, []vsched.Violation) {
		return expectCheck(prop, sc)
	}
}

// tokenScenario: two websocket tunnels with real tokens (minted by security.GeneratePAAToken, checked by the
// real security callbacks; the identity provider's answer is a scheduling point and every statement of the
// security package is one), set up at the same time.
func tokenScenario(name string, gw GwCfg, plans ...TunnelPlan) ConcScenario {
	for i := range plans {
		if plans[i].Kind == "" {
			plans[i].Kind = "ws"
		}
		if plans[i].Script == nil {
			plans[i].Script = []string{"data:x", "drop"}
		}
	}
	return ConcScenario{Name: name, Deviation: true, RoundRobin: true, RealCookie: true, Fine: true, Gw: gw, Plans: plans, MaxSteps: 60000}
}

// c17ConcCheck: every tunnel's handshake is answered for what that tunnel itself sent.
func c17ConcCheck(sc ConcScenario) func(res *ConcResult, races []RaceReport) (string, []vsched.Violation) {
	return func(res *ConcResult, races []RaceReport) (string, []vsched.Violation) {
		var v []vsched.Violation
		add := func(k, d string) { v = append(v, vsched.Violation{Sig: "C17/" + k + "/" + sc.Name, Detail: d}) }
		for _, p := range res.X.Panics() {
			add("panic:"+shortFn(panicSite(p)), p.Value)
		}
		var o []string
		for _, t := range res.Tunnels {
			hs := t.Plan.Handshake
			major, minor := hs[8], hs[9]
			ext := uint16(hs[12]) | uint16(hs[13])<<8
			who := fmt.Sprintf("tunnel %s (version %d.%d, offers %#x)", t.Plan.ConnID, major, minor, ext)
			if t.HS == nil {
				add("handshake-not-answered", who)
				continue
			}
			match := ext&tsgu.ExtAuthPAA != 0 // the gateway of these scenarios enables cookie authentication only
			o = append(o, fmt.Sprintf("%s:%#x/%d.%d/%#x", t.Plan.ConnID, t.HS.Status, t.HS.Major, t.HS.Minor, t.HS.ExtAuth))
			switch {
			case match && t.HS.Status != 0:
				add("refused-although-capabilities-match", fmt.Sprintf("%s: status %#x", who, t.HS.Status))
			case !match && t.HS.Status != tsgu.ECapabilityMismatch:
				add("accepted-although-capabilities-do-not-match", fmt.Sprintf("%s: status %#x", who, t.HS.Status))
			case match && (t.HS.Major != major || t.HS.Minor != minor):
				add("version-bytes-not-echoed", fmt.Sprintf("%s: answered %d.%d", who, t.HS.Major, t.HS.Minor))
			case match && t.HS.ExtAuth != tsgu.ExtAuthPAA:
				add("advertised-capabilities-differ-from-enabled", fmt.Sprintf("%s: advertised %#x", who, t.HS.ExtAuth))
			case match && t.SetupFailed != "":
				add("tunnel-not-served-after-successful-handshake", who+": "+t.SetupFailed)
			}
		}
		return strings.Join(o, " "), v
	}
}

func init() {
	// C17: two handshakes at the same time are each answered for what they themselves offered
	concExtras["C17"] = func() []concExtra {
		var out []concExtra
		type hv struct {
			major, minor byte
			ext          uint16
		}
		for k, pair := range [][2]hv{{{1, 2, tsgu.ExtAuthPAA}, {7, 9, tsgu.ExtAuthPAA}}, {{1, 0, 0}, {7, 9, tsgu.ExtAuthPAA}}, {{7, 9, tsgu.ExtAuthPAA}, {1, 0, tsgu.ExtAuthSC}}, {{3, 4, tsgu.ExtAuthPAA | tsgu.ExtAuthSC}, {1, 0, 0}}} {
			for _, kinds := range [][2]string{{"ws", "ws"}, {"legacy", "ws"}} {
				var plans []TunnelPlan
				for i, h := range pair {
					id := []string{"A", "B"}[i]
					plans = append(plans, TunnelPlan{Kind: kinds[i], ConnID: id, User: "user-" + id, IP: fmt.Sprintf("10.0.%d.1", i+1), Host: "host-" + id + ".example:3389", Script: []string{"data:x", "drop"},
						Handshake: tsgu.Handshake(h.major, h.minor, 0, h.ext)})
				}
				out = append(out, concExtra{ConcScenario{Name: fmt.Sprintf("two-handshakes/%d/%s+%s", k, kinds[0], kinds[1]), Deviation: true, RoundRobin: true, Plans: plans}, [2]int{1, 2}, c17ConcCheck})
			}
		}
		return out
	}
	// C10: two writers on one client connection (the relay and the packet loop), judged for panics
	concExtras["C10"] = func() []concExtra {
		var out []concExtra
		for _, kind := range []string{"ws", "legacy"} {
			for k, script := range [][]string{
				{"data:abc", "hostsay:h1", "ka", "hostsay:h2", "ka", "close", "idle"},
				{"hostsay:h1", "data:abc", "hostsay:h2", "bad", "hostsay:h3", "idle"},
				{"hostsay:h1", "ka", "ping", "hostsay:h2", "drop", "hostsay:h3", "idle"},
			} {
				out = append(out, concExtra{ConcScenario{Name: fmt.Sprintf("two-writers/%s/%d", kind, k),
					Plans: []TunnelPlan{{Kind: kind, ConnID: "A", User: "ua", IP: "10.0.0.1", Host: "ha.example:3389", Script: script, Chunks: [][]byte{[]byte("host-bytes")}}}}, [2]int{1, 2}, panicCheck("C10")})
			}
		}
		return out
	}
	// C11: two tunnels end at the same time
	concExtras["C11"] = func() []concExtra {
		var out []concExtra
		for _, kinds := range [][2]string{{"ws", "ws"}, {"ws", "legacy"}, {"legacy", "legacy"}} {
			for _, ends := range [][2]string{{"drop", "drop"}, {"close", "drop"}, {"bad", "close"}} {
				var plans []TunnelPlan
				for i := 0; i < 2; i++ {
					id := []string{"A", "B"}[i]
					plans = append(plans, TunnelPlan{Kind: kinds[i], ConnID: id, User: "u" + id, IP: fmt.Sprintf("10.0.%d.1", i+1), Host: "h" + id + ".example:3389", Script: []string{"data:abc", "barrier", ends[i], "idle"}})
				}
				sc := ConcScenario{Name: fmt.Sprintf("two-end-together/%s+%s/%s+%s", kinds[0], kinds[1], ends[0], ends[1]), RoundRobin: true, Deviation: true, Plans: plans}
				out = append(out, concExtra{sc, [2]int{1, 2}, c11Check})
			}
		}
		return out
	}
	// C01: a websocket that presents the connection identifier of another, live websocket tunnel is a tunnel of
	// its own: what it sends without having been authorised reaches nobody's host
	concExtras["C01"] = func() []concExtra {
		a := TunnelPlan{Kind: "ws", ConnID: "SAME", User: "bob", IP: "10.0.0.2", Host: "hb.example:3389", Script: []string{"data:[bob-1]", "wait:intruder-done", "ka", "data:[bob-2]", "settle", "drop"}}
		var out []concExtra
		for _, stage := range []string{"open", "hs"} {
			b := TunnelPlan{Kind: "ws", ConnID: "SAME", User: "eve", IP: "10.0.0.9", Host: "hx.example:3389", StopAt: stage, Script: []string{"data:INTRUDER", "settle", "signal:intruder-done", "settle", "data:INTRUDER-2", "settle", "drop"}}
			out = append(out, concExtra{ConcScenario{Name: "same-connection-id-on-two-websockets/intruder-after-" + stage, Deviation: true, Plans: []TunnelPlan{a, b}}, [2]int{1, 2}, c01SameIDCheck})
		}
		return out
	}
	// C08: what was received before an outbound channel is re-opened, or before the client leaves, is processed
	concExtras["C08"] = func() []concExtra {
		var out []concExtra
		for _, n := range []int{1, 8, 9, 13} {
			sc := ConcScenario{Name: fmt.Sprintf("legacy/outbound-channel-re-opened-inside-a-packet/cut=%d", n), Deviation: true,
				Plans: []TunnelPlan{{Kind: "legacy", ConnID: "A", User: "ua", IP: "10.0.0.1", Host: "ha.example:3389", StopAt: "open",
					Script: []string{fmt.Sprintf("part1:hs:%d", n), "settle", "reopen-out", "settle", fmt.Sprintf("part2:hs:%d", n), "expect:hs", "send:tc", "expect:tc", "send:ta", "expect:ta", "send:cc", "expect:cc", "data:abc", "settle", "drop"}}}}
			out = append(out, concExtra{sc, [2]int{1, 2}, c08DeliveredCheck("abc")})
		}
		out = append(out, concExtra{ConcScenario{Name: "legacy/first-body-bytes-arrive-with-the-request-head", InPreload: true,
			Plans: []TunnelPlan{{Kind: "legacy", ConnID: "A", User: "ua", IP: "10.0.0.1", Host: "ha.example:3389", Script: []string{"data:hello ", "data:world", "settle", "drop", "idle"}}}}, [2]int{1, 2}, c08DeliveredCheck("hello world")})
		for _, kind := range []string{"ws", "legacy"} {
			sc := ConcScenario{Name: kind + "/client-leaves-right-after-its-last-packets",
				Plans: []TunnelPlan{{Kind: kind, ConnID: "A", User: "ua", IP: "10.0.0.1", Host: "ha.example:3389", Script: []string{"data:hello ", "data:world", "drop", "idle"}}}}
			out = append(out, concExtra{sc, [2]int{1, 2}, c08DeliveredCheck("hello world")})
		}
		return out
	}
	open := func(hosts ...string) GwCfg {
		return GwCfg{TokenAuth: true, HostSelection: "roundrobin", Hosts: hosts, VerifyIP: true}
	}
	// C02: what the identity provider says about one token never decides about another
	concExtras["C02"] = func() []concExtra {
		var out []concExtra
		for _, order := range []int{0, 1} {
			good := TunnelPlan{ConnID: "G", User: "alice", IP: "10.0.0.1", Host: "ha.example:3389"}
			same := TunnelPlan{ConnID: "R", User: "alice", IP: "10.0.0.1", Host: "hb.example:3389", AccessToken: "at-alice~2", Revoked: true, Expect: "deny-tc"}
			other := TunnelPlan{ConnID: "R", User: "mallory", IP: "10.0.0.9", Host: "hb.example:3389", Revoked: true, Expect: "deny-tc"}
			for k, bad := range []TunnelPlan{same, other} {
				plans := []TunnelPlan{good, bad}
				if order == 1 {
					plans = []TunnelPlan{bad, good}
				}
				nm := []string{"same-user-second-token-revoked", "other-user-token-revoked"}[k]
				out = append(out, concExtra{tokenScenario(fmt.Sprintf("tokens/%s/order=%d", nm, order), open("ha.example:3389", "hb.example:3389"), plans...), [2]int{1, 2}, expectFor("C02")})
			}
		}
		return out
	}
	// C12: a connection file may be used more than once, and two files of one login at the same time
	concExtras["C12"] = func() []concExtra {
		a := TunnelPlan{ConnID: "A", User: "alice", IP: "10.0.0.1", Host: "ha.example:3389"}
		b := TunnelPlan{ConnID: "B", User: "alice", IP: "10.0.0.1", Host: "ha.example:3389"}
		c := TunnelPlan{ConnID: "C", User: "alice", IP: "10.0.0.1", Host: "hb.example:3389"}
		return []concExtra{
			{tokenScenario("tokens/one-file-used-by-two-tunnels", open("ha.example:3389", "hb.example:3389"), a, b), [2]int{1, 2}, expectFor("C12")},
			{tokenScenario("tokens/two-files-of-one-login", open("ha.example:3389", "hb.example:3389"), a, c), [2]int{1, 2}, expectFor("C12")},
		}
	}
	// C04: the address recorded in the presented token decides, whatever another tunnel presents at the same time
	concExtras["C04"] = func() []concExtra {
		var out []concExtra
		for _, order := range []int{0, 1} {
			own := TunnelPlan{ConnID: "O", User: "alice", IP: "10.0.0.2", Host: "ha.example:3389"}
			foreign := TunnelPlan{ConnID: "F", User: "alice", IP: "10.0.0.2", CookieIP: "10.0.0.1", Host: "ha.example:3389", Expect: "deny-cc"}
			plans := []TunnelPlan{own, foreign}
			if order == 1 {
				plans = []TunnelPlan{foreign, own}
			}
			out = append(out, concExtra{tokenScenario(fmt.Sprintf("tokens/token-of-another-address-next-to-an-own-one/order=%d", order), open("ha.example:3389"), plans...), [2]int{1, 2}, expectFor("C04")})
		}
		return out
	}
	// C03: the host list of one user never serves another user's request
	concExtras["C03"] = func() []concExtra {
		var out []concExtra
		gw := open("{{ preferred_username }}-pc.example:3389")
		for _, order := range []int{0, 1} {
			thief := TunnelPlan{ConnID: "T", User: "alice", IP: "10.0.0.1", Host: "bob-pc.example:3389", Expect: "deny-cc"}
			owner := TunnelPlan{ConnID: "W", User: "bob", IP: "10.0.0.2", Host: "bob-pc.example:3389"}
			plans := []TunnelPlan{thief, owner}
			if order == 1 {
				plans = []TunnelPlan{owner, thief}
			}
			out = append(out, concExtra{tokenScenario(fmt.Sprintf("tokens/per-user-host-list/order=%d", order), gw, plans...), [2]int{1, 2}, expectFor("C03")})
		}
		// two websocket tunnels presenting the same connection identifier at the same time are two tunnels
		a := TunnelPlan{ConnID: "SAME", User: "bob", IP: "10.0.0.2", Host: "bob-pc.example:3389", Script: []string{"data:x", "settle", "drop"}}
		b := TunnelPlan{ConnID: "SAME", User: "alice", IP: "10.0.0.1", Host: "bob-pc.example:3389", Expect: "deny-cc"}
		sc := tokenScenario("tokens/same-connection-id-on-two-websockets", gw, a, b)
		sc.RoundRobin = false
		out = append(out, concExtra{sc, [2]int{1, 2}, expectFor("C03")})
		return out
	}
}

func panicCheck(prop string) func(sc ConcScenario) func(res *ConcResult, races []RaceReport) (string, []vsched.Violation) {
	return func(sc ConcScenario) func(res *ConcResult, races []RaceReport) (string, []vsched.Violation) {
		return func(res *ConcResult, races []RaceReport) (string, []vsched.Violation) {
			var v []vsched.Violation
			for _, p := range res.X.Panics() {
				v = append(v, vsched.Violation{Sig: prop + "/panic:" + shortFn(panicSite(p)) + "/" + sc.Name, Detail: fmt.Sprintf("thread %s: %s", p.Name, p.Value)})
			}
			return fmt.Sprintf("panics=%d resps=%v", len(v), res.Tunnels[0].Resps), v
		}
	}
}

func c01SameIDCheck(sc ConcScenario) func(res *ConcResult, races []RaceReport) (string, []vsched.Violation) {
	return func(res *ConcResult, races []RaceReport) (string, []vsched.Violation) {
		var v []vsched.Violation
		add := func(k, d string) { v = append(v, vsched.Violation{Sig: "C01/" + k + "/" + sc.Name, Detail: d}) }
		for _, p := range res.X.Panics() {
			add("panic:"+shortFn(panicSite(p)), p.Value)
		}
		a, b := res.Tunnels[0], res.Tunnels[1]
		var all []byte
		for i := range res.World.Backends {
			all = append(all, res.World.BackendBytes(i)...)
		}
		if strings.Contains(string(all), "INTRUDER") {
			add("relay-without-authorization", fmt.Sprintf("a host received %q: the second websocket never created a tunnel, it only presented the first one's connection identifier", all))
		}
		if len(res.World.Net.Dials) > 1 {
			add("connection-without-authorization", fmt.Sprintf("%d connections to hosts, only the first websocket was authorised", len(res.World.Net.Dials)))
		}
		if a.SetupFailed != "" || !strings.Contains(string(a.BackendGot), "[bob-1]") || !strings.Contains(string(a.BackendGot), "[bob-2]") {
			add("authorised-tunnel-disturbed-by-a-websocket-with-its-identifier", fmt.Sprintf("setup=%q, its host received %q", a.SetupFailed, a.BackendGot))
		}
		return fmt.Sprintf("A=%q host=%q B=%v", a.SetupFailed, a.BackendGot, b.Resps), v
	}
}

func c08DeliveredCheck(want string) func(sc ConcScenario) func(res *ConcResult, races []RaceReport) (string, []vsched.Violation) {
	return func(sc ConcScenario) func(res *ConcResult, races []RaceReport) (string, []vsched.Violation) {
		return func(res *ConcResult, races []RaceReport) (string, []vsched.Violation) {
			var v []vsched.Violation
			add := func(k, d string) { v = append(v, vsched.Violation{Sig: "C08/" + k + "/" + sc.Name, Detail: d}) }
			for _, p := range res.X.Panics() {
				add("panic:"+shortFn(panicSite(p)), p.Value)
			}
			t := res.Tunnels[0]
			if t.SetupFailed != "" {
				add("packets-not-processed", "setup: "+t.SetupFailed)
			} else if string(t.BackendGot) != want {
				add("complete-packets-not-processed", fmt.Sprintf("the client sent DATA packets carrying %q (complete, in order) before it left; its host received %q", want, t.BackendGot))
			}
			return fmt.Sprintf("setup=%q host=%q", t.SetupFailed, t.BackendGot), v
		}
	}
}
