package main

import (
	"fmt"
	"strings"

	"verif/shim/vsched"
)

// Concurrency scenarios that several properties share: each property registers the scenarios it judges
// (with its own oracle); the property's check runs them after its own parts, and a recorded schedule is
// replayed by scenario name.

type concExtra struct {
	sc    ConcScenario
	bound [2]int // quick, thorough
	check func(sc ConcScenario) func(res *ConcResult, races []RaceReport) (string, []vsched.Violation)
}

var concExtras = map[string]func() []concExtra{}

func runConcExtras(env *Env, rep *Report, prop string) int {
	mk := concExtras[prop]
	if mk == nil {
		return 0
	}
	n := 0
	var names []string
	for _, x := range mk() {
		names = append(names, fmt.Sprintf("%s (bound %d)", x.sc.Name, x.bound[map[bool]int{false: 0, true: 1}[env.thorough()]]))
	}
	rep.Rule += " Plus concurrency scenarios with real tokens / real callbacks, two tunnels or requests at the same time, every schedule up to the deviation bound with statement-level scheduling points where the scenario says so: " + strings.Join(names, ", ") + "."
	for i, x := range mk() {
		if env.Part != "" && !strings.Contains(x.sc.Name, env.Part) {
			continue
		}
		// scenarios are small: distribute whole scenarios over the shards
		if !env.mine(i) {
			continue
		}
		e2 := *env
		e2.Shard, e2.NShards = 0, 1
		b := x.bound[0]
		if env.thorough() {
			b = x.bound[1]
		}
		before := rep.Stats["executions"]
		exploreConc(&e2, rep, x.sc, b, nil, x.check(x.sc))
		n += int(rep.Stats["executions"] - before)
	}
	return n
}

func replayConcExtra(env *Env, rep *Report, prop string) bool {
	mk := concExtras[prop]
	name, _ := env.Replay["scenario"].(string)
	if mk == nil || name == "" {
		return false
	}
	for _, x := range mk() {
		if x.sc.Name == name {
			replayConc(rep, x.sc, env.Replay, nil, x.check(x.sc))
			return true
		}
	}
	return false
}

func expectFor(prop string) func(sc ConcScenario) func(res *ConcResult, races []RaceReport) (string, []vsched.Violation) {
	return func(sc ConcScenario) func(res *ConcResult, races []RaceReport) (string, []vsched.Violation) {
		return expectCheck(prop, sc)
	}
}

// tokenScenario: two websocket tunnels with real tokens (minted by security.GeneratePAAToken, checked by the
// real security callbacks; the identity provider's answer is a scheduling point and every statement of the
// security package is one), set up at the same time.
func tokenScenario(name string, gw GwCfg, plans ...TunnelPlan) ConcScenario {
	for i := range plans {
		if plans[i].Kind == "" {
			plans[i].Kind = "ws"
		}
		if plans[i].Script == nil {
			plans[i].Script = []string{"data:x", "drop"}
		}
	}
	return ConcScenario{Name: name, Deviation: true, RoundRobin: true, RealCookie: true, Fine: true, Gw: gw, Plans: plans, MaxSteps: 60000}
}

func init() {
	open := func(hosts ...string) GwCfg {
		return GwCfg{TokenAuth: true, HostSelection: "roundrobin", Hosts: hosts, VerifyIP: true}
	}
	// C02: what the identity provider says about one token never decides about another
	concExtras["C02"] = func() []concExtra {
		var out []concExtra
		for _, order := range []int{0, 1} {
			good := TunnelPlan{ConnID: "G", User: "alice", IP: "10.0.0.1", Host: "ha.example:3389"}
			same := TunnelPlan{ConnID: "R", User: "alice", IP: "10.0.0.1", Host: "hb.example:3389", AccessToken: "at-alice~2", Revoked: true, Expect: "deny-tc"}
			other := TunnelPlan{ConnID: "R", User: "mallory", IP: "10.0.0.9", Host: "hb.example:3389", Revoked: true, Expect: "deny-tc"}
			for k, bad := range []TunnelPlan{same, other} {
				plans := []TunnelPlan{good, bad}
				if order == 1 {
					plans = []TunnelPlan{bad, good}
				}
				nm := []string{"same-user-second-token-revoked", "other-user-token-revoked"}[k]
				out = append(out, concExtra{tokenScenario(fmt.Sprintf("tokens/%s/order=%d", nm, order), open("ha.example:3389", "hb.example:3389"), plans...), [2]int{1, 2}, expectFor("C02")})
			}
		}
		return out
	}
	// C12: a connection file may be used more than once, and two files of one login at the same time
	concExtras["C12"] = func() []concExtra {
		a := TunnelPlan{ConnID: "A", User: "alice", IP: "10.0.0.1", Host: "ha.example:3389"}
		b := TunnelPlan{ConnID: "B", User: "alice", IP: "10.0.0.1", Host: "ha.example:3389"}
		c := TunnelPlan{ConnID: "C", User: "alice", IP: "10.0.0.1", Host: "hb.example:3389"}
		return []concExtra{
			{tokenScenario("tokens/one-file-used-by-two-tunnels", open("ha.example:3389", "hb.example:3389"), a, b), [2]int{1, 2}, expectFor("C12")},
			{tokenScenario("tokens/two-files-of-one-login", open("ha.example:3389", "hb.example:3389"), a, c), [2]int{1, 2}, expectFor("C12")},
		}
	}
	// C04: the address recorded in the presented token decides, whatever another tunnel presents at the same time
	concExtras["C04"] = func() []concExtra {
		var out []concExtra
		for _, order := range []int{0, 1} {
			own := TunnelPlan{ConnID: "O", User: "alice", IP: "10.0.0.2", Host: "ha.example:3389"}
			foreign := TunnelPlan{ConnID: "F", User: "alice", IP: "10.0.0.2", CookieIP: "10.0.0.1", Host: "ha.example:3389", Expect: "deny-cc"}
			plans := []TunnelPlan{own, foreign}
			if order == 1 {
				plans = []TunnelPlan{foreign, own}
			}
			out = append(out, concExtra{tokenScenario(fmt.Sprintf("tokens/token-of-another-address-next-to-an-own-one/order=%d", order), open("ha.example:3389"), plans...), [2]int{1, 2}, expectFor("C04")})
		}
		return out
	}
	// C03: the host list of one user never serves another user's request
	concExtras["C03"] = func() []concExtra {
		var out []concExtra
		gw := open("{{ preferred_username }}-pc.example:3389")
		for _, order := range []int{0, 1} {
			thief := TunnelPlan{ConnID: "T", User: "alice", IP: "10.0.0.1", Host: "bob-pc.example:3389", Expect: "deny-cc"}
			owner := TunnelPlan{ConnID: "W", User: "bob", IP: "10.0.0.2", Host: "bob-pc.example:3389"}
			plans := []TunnelPlan{thief, owner}
			if order == 1 {
				plans = []TunnelPlan{owner, thief}
			}
			out = append(out, concExtra{tokenScenario(fmt.Sprintf("tokens/per-user-host-list/order=%d", order), gw, plans...), [2]int{1, 2}, expectFor("C03")})
		}
		// two websocket tunnels presenting the same connection identifier at the same time are two tunnels
		a := TunnelPlan{ConnID: "SAME", User: "bob", IP: "10.0.0.2", Host: "bob-pc.example:3389", Script: []string{"data:x", "settle", "drop"}}
		b := TunnelPlan{ConnID: "SAME", User: "alice", IP: "10.0.0.1", Host: "bob-pc.example:3389", Expect: "deny-cc"}
		sc := tokenScenario("tokens/same-connection-id-on-two-websockets", gw, a, b)
		sc.RoundRobin = false
		out = append(out, concExtra{sc, [2]int{1, 2}, expectFor("C03")})
		return out
	}
}
