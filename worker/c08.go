package main

import (
	"bytes"
	"fmt"
	"strings"
	"verif/shim/vclock"

	"verif/internal/tsgu"
)

// C08 — packet boundaries come from length fields, not from transport segmentation.

func init() { props["C08"] = c08 }

type c08Session struct {
	Name string
	Pkts [][]byte
}

func c08Sessions() []c08Session {
	ck := "ok|" + hostA + ":3389|10.0.0.1|alice"
	base := [][]byte{
		tsgu.Handshake(1, 0, 0, tsgu.ExtAuthPAA),
		tsgu.TunnelCreate(ck, true),
		tsgu.TunnelAuth("client1"),
		tsgu.ChannelCreate(hostA, 3389),
		tsgu.Data([]byte("first-payload")),
		tsgu.Keepalive(),
		tsgu.Data([]byte("second")),
		tsgu.CloseChannel(),
	}
	big := make([]byte, 5000)
	for i := range big {
		big[i] = byte(i * 7)
	}
	longCookie := ck + "|" // refused? no: extra field makes TableCookie refuse; use padding inside user instead
	_ = longCookie
	lc := "ok|" + hostA + ":3389|10.0.0.1|" + strings.Repeat("u", 1500)
	s := []c08Session{
		{"canonical", base},
		{"unknown-in-middle", [][]byte{base[0], base[1], tsgu.Packet(0xB, []byte{1, 2, 3, 4}), base[2], base[3], base[4], base[7]}},
		{"big-data", [][]byte{base[0], base[1], base[2], base[3], tsgu.Data(big), base[4], base[7]}},
		{"long-cookie", [][]byte{base[0], tsgu.TunnelCreate(lc, true), base[2], base[3], base[4], base[7]}},
	}
	// 24 data packets of 4000 bytes: coalesced they exceed 64 KiB in one transport unit
	bulk := [][]byte{base[0], base[1], base[2], base[3]}
	for i := 0; i < 24; i++ {
		bulk = append(bulk, tsgu.Data(pattern(4000, byte(i))))
	}
	bulk = append(bulk, base[7])
	s = append(s, c08Session{"bulk-96k", bulk})
	return s
}

type c08Out struct {
	resps   string
	backend []byte
	ended   bool
	panics  []string
	opened  bool
}

func c08Run(kind string, segs []Seg, rep *Report) c08Out {
	cfg := c01Cfg(true, false, kind)
	res := RunSeq(cfg, segs)
	rep.add("executions", 1)
	rep.add("transitions", int64(res.StepsRun))
	if res.Abort != "" {
		infra("C08: execution aborted: %s", res.Abort)
	}
	var o c08Out
	o.opened = res.Opened
	var sb strings.Builder
	for _, st := range res.Steps {
		for _, p := range st.Resps {
			r := tsgu.ParseResp(p)
			fmt.Fprintf(&sb, "%#x/%#x ", p.Type, r.Status)
		}
		o.backend = append(o.backend, st.BackendNew...)
		o.ended = st.Ended
	}
	o.resps = sb.String()
	for _, p := range res.Panics {
		o.panics = append(o.panics, shortFn(panicSite(p))+": "+p.Value)
	}
	return o
}

// segmentations of a stream given cut positions
func cutStream(stream []byte, cuts []int) [][]byte {
	var out [][]byte
	prev := 0
	for _, c := range cuts {
		if c <= prev || c >= len(stream) {
			continue
		}
		out = append(out, stream[prev:c])
		prev = c
	}
	out = append(out, stream[prev:])
	return out
}

func c08(env *Env, rep *Report) {
	sessions := c08Sessions()
	rep.Rule = "the byte stream of 4 packet sessions (canonical 8 packets; unknown packet in the middle; 5000-byte data packet; 1.5 KiB cookie) is delivered to the real websocket and legacy handlers under every segmentation of the enumerated families: " +
		"every single cut position, every pair of cut positions (all pairs for streams <= 400 bytes; otherwise positions within 12 bytes of a packet boundary or header end, and every 509th), every coalescing of adjacent packets (2^(n-1) compositions), compositions combined with one cut, " +
		"each both paced (gateway reads each segment separately) and in a burst (segments are queued before the gateway reads; on legacy the chunk reader may merge them); a patient client whose reads all straddle a packet boundary, four seconds apart on the gateway's clock; unframeable streams (length field 0..7, packet never completed then EOF) must end the tunnel without a further answer. " +
		"Oracle: differential against the one-packet-per-segment run: same responses, same bytes at the host, same end. distinct_nontrivial = distinct (session, transport, segmentation) cases."
	rep.Assumptions = append(rep.Assumptions,
		"websocket: a segment is one binary message (fragmented websocket frames are reassembled by gorilla and are exercised separately as 2- and 3-frame messages); legacy: a segment is one HTTP chunk in one TCP write",
		"the legacy preamble consumed by Drain() is sent as its own write and awaited before the packet stream starts",
		"table cookie checker (JWT path is C02's)")
	if env.Replay != nil {
		c08Replay(env, rep, sessions)
		return
	}
	cases := 0
	distinct := map[string]bool{}
	for _, kind := range []string{"ws", "legacy"} {
		for _, ss := range sessions {
			var stream []byte
			var bounds []int
			for _, p := range ss.Pkts {
				stream = append(stream, p...)
				bounds = append(bounds, len(stream))
			}
			// reference: one packet per segment, paced
			var refSegs []Seg
			for _, p := range ss.Pkts {
				refSegs = append(refSegs, Seg{Bytes: p})
			}
			ref := c08Run(kind, refSegs, rep)
			if !ref.opened || len(ref.panics) > 0 {
				rep.violate("C08/reference-run-failed/"+kind+"/"+ss.Name, fmt.Sprintf("opened=%v panics=%v", ref.opened, ref.panics), map[string]any{"noreplay": true})
				continue
			}
			rep.sample(map[string]any{"session": ss.Name, "transport": kind, "stream_bytes": len(stream), "reference_responses": ref.resps, "host_bytes": len(ref.backend)})
			check := func(family string, parts [][]byte, burst bool) {
				cases++
				if !env.mine(cases) {
					return
				}
				var segs []Seg
				var lens []string
				for i, p := range parts {
					segs = append(segs, Seg{Bytes: p, NoWait: burst && i < len(parts)-1})
					lens = append(lens, fmt.Sprint(len(p)))
				}
				got := c08Run(kind, segs, rep)
				mode := "paced"
				if burst {
					mode = "burst"
				}
				distinct[kind+ss.Name+family+mode+strings.Join(lens, ",")] = true
				rep.outcome(fmt.Sprintf("%s %s %s", kind, ss.Name, got.resps))
				rp := map[string]any{"engine": "seqx", "transport": kind, "session": ss.Name, "segments": lens, "burst": burst}
				for _, p := range got.panics {
					rep.violate("C08/panic/"+strings.SplitN(p, ":", 2)[0]+"/"+kind+"/"+family+"/"+mode, fmt.Sprintf("%s session=%s segments=%v: %s", kind, ss.Name, lens, p), rp)
				}
				if got.resps != ref.resps || !bytes.Equal(got.backend, ref.backend) || got.ended != ref.ended {
					rep.violate("C08/segmentation-changes-behaviour/"+kind+"/"+family+"/"+mode,
						fmt.Sprintf("%s session=%s segment sizes=%v %s: responses %q (reference %q), host bytes %d (reference %d), ended %v (reference %v)",
							kind, ss.Name, lens, mode, got.resps, ref.resps, len(got.backend), len(ref.backend), got.ended, ref.ended), rp)
				}
			}
			// cut positions of interest
			var pos []int
			if len(stream) <= 400 {
				for i := 1; i < len(stream); i++ {
					pos = append(pos, i)
				}
			} else {
				mark := map[int]bool{}
				prev := 0
				for _, b := range bounds {
					for d := -12; d <= 12; d++ {
						mark[b+d] = true
						mark[prev+8+d] = true
					}
					prev = b
				}
				for i := 509; i < len(stream); i += 509 {
					mark[i] = true
				}
				for i := 1; i < len(stream); i++ {
					if mark[i] {
						pos = append(pos, i)
					}
				}
			}
			if ss.Name == "bulk-96k" {
				// too long for the cut families: groupings of the data packets only
				for _, burst := range []bool{false, true} {
					for _, per := range []int{24, 17, 12, 8, 3} {
						var cuts []int
						for i := 3; i < len(bounds)-1; i++ {
							if i == 3 || (i-3)%per == 0 {
								cuts = append(cuts, bounds[i])
							}
						}
						check("coalesce", cutStream(stream, cuts), burst)
					}
					check("coalesce", cutStream(stream, nil), burst)
					check("one-cut", cutStream(stream, []int{65536}), burst)
					check("two-cuts", cutStream(stream, []int{65535, 65545}), burst)
				}
				continue
			}
			for _, burst := range []bool{false, true} {
				// every single cut
				for i := 1; i < len(stream); i++ {
					check("one-cut", cutStream(stream, []int{i}), burst)
				}
				// every pair of cuts from pos (thorough: all; quick: pairs where the first cut is within 12 of a boundary/header or every 7th)
				for ai, a := range pos {
					for bi := ai + 1; bi < len(pos); bi++ {
						if !env.thorough() && (ai*31+bi)%5 != 0 {
							continue
						}
						check("two-cuts", cutStream(stream, []int{a, pos[bi]}), burst)
					}
				}
				// compositions: coalesce adjacent packets
				n := len(ss.Pkts)
				for mask := 0; mask < 1<<(n-1); mask++ {
					var cuts []int
					for i := 0; i < n-1; i++ {
						if mask&(1<<i) != 0 {
							cuts = append(cuts, bounds[i])
						}
					}
					check("coalesce", cutStream(stream, cuts), burst)
					// composition + one extra cut inside each packet (middle and header end)
					if mask%3 == 0 || env.thorough() {
						prev := 0
						for _, b := range bounds {
							for _, extra := range []int{prev + 3, prev + 8, (prev + b) / 2} {
								if extra > prev && extra < b {
									cs := append(append([]int{}, cuts...), extra)
									sortInts(cs)
									check("coalesce+cut", cutStream(stream, cs), burst)
								}
							}
							prev = b
						}
					}
				}
			}
			// unframeable streams after a valid prefix of k packets
			for k := 0; k <= 4 && k < len(ss.Pkts); k++ {
				var pre []Seg
				for _, p := range ss.Pkts[:k] {
					pre = append(pre, Seg{Bytes: p})
				}
				for l := 0; l < 8; l++ {
					cases++
					if !env.mine(cases) {
						continue
					}
					badp := tsgu.RawPacket(tsgu.TypeData, 0, uint32(l), []byte{1, 0, 0x41})
					segs := append(append([]Seg{}, pre...), Seg{Bytes: badp}, Seg{Bytes: ss.Pkts[0]}, Seg{Bytes: ss.Pkts[0]})
					c08Unframeable(kind, ss.Name, fmt.Sprintf("length-field-%d-after-%d-packets", l, k), segs, k, rep)
				}
				cases++
				if env.mine(cases) {
					half := ss.Pkts[k][:len(ss.Pkts[k])-1]
					segs := append(append([]Seg{}, pre...), Seg{Bytes: half}, Seg{Action: "close"})
					c08Unframeable(kind, ss.Name, fmt.Sprintf("incomplete-then-eof-after-%d-packets", k), segs, k, rep)
				}
			}
		}
		// a patient client whose reads never end on a packet boundary (every segment holds the second half of one
		// packet and the first half of the next), four seconds apart on the gateway's clock: every packet is
		// complete within one step, the session lasts longer than any per-packet allowance
		for si, ss := range sessions {
			cases++
			if !env.mine(cases) {
				continue
			}
			var refSegs, segs []Seg
			var carry []byte
			for _, p := range ss.Pkts {
				refSegs = append(refSegs, Seg{Bytes: p}, Seg{Action: "clock+4s"})
				h := len(p) / 2
				segs = append(segs, Seg{Bytes: append(append([]byte{}, carry...), p[:h]...)}, Seg{Action: "clock+4s"})
				carry = p[h:]
			}
			segs = append(segs, Seg{Bytes: carry})
			vclock.Reset()
			ref := c08Run(kind, refSegs, rep)
			vclock.Reset()
			got := c08Run(kind, segs, rep)
			vclock.Reset()
			distinct[fmt.Sprintf("%s/%d/slow-misaligned", kind, si)] = true
			if got.resps != ref.resps || !bytes.Equal(got.backend, ref.backend) || got.ended != ref.ended || len(got.panics) > 0 {
				rep.violate("C08/segmentation-changes-behaviour/slow-misaligned/"+kind, fmt.Sprintf("session %s, every read straddles a packet boundary, 4 s between reads: %q (one packet per read at the same pace: %q), host bytes %d (reference %d), ended %v (reference %v) panics=%v", ss.Name, got.resps, ref.resps, len(got.backend), len(ref.backend), got.ended, ref.ended, got.panics),
					map[string]any{"noreplay": true})
			}
		}
		// websocket messages sent as 2 and 3 frames
		if kind == "ws" {
			ss := sessions[0]
			var refSegs []Seg
			for _, p := range ss.Pkts {
				refSegs = append(refSegs, Seg{Bytes: p})
			}
			ref := c08Run(kind, refSegs, rep)
			// an empty binary message before / between / after whole packets
			for at := 0; at <= len(refSegs); at++ {
				cases++
				if !env.mine(cases) {
					continue
				}
				segs := append(append(append([]Seg{}, refSegs[:at]...), Seg{Bytes: []byte{}}), refSegs[at:]...)
				got := c08Run(kind, segs, rep)
				if got.resps != ref.resps || !bytes.Equal(got.backend, ref.backend) || got.ended != ref.ended || len(got.panics) > 0 {
					rep.violate("C08/empty-message-changes-behaviour/ws", fmt.Sprintf("empty websocket message before packet %d: %q (reference %q), host bytes %d (reference %d), ended %v (reference %v) panics=%v", at, got.resps, ref.resps, len(got.backend), len(ref.backend), got.ended, ref.ended, got.panics),
						map[string]any{"noreplay": true})
				}
			}
			for pi, p := range ss.Pkts {
				for a := 1; a < len(p); a++ {
					cases++
					if !env.mine(cases) {
						continue
					}
					segs := append([]Seg{}, refSegs...)
					segs[pi] = Seg{Frags: [][]byte{p[:a], p[a:]}}
					got := c08Run(kind, segs, rep)
					// ... and with an empty binary message between the two parts (a read that returns no bytes
					// and no error is a degenerate segment, not the end of the stream)
					segs2 := append([]Seg{}, refSegs[:pi]...)
					segs2 = append(segs2, Seg{Bytes: p[:a], NoWait: true}, Seg{Bytes: []byte{}, NoWait: true}, Seg{Bytes: p[a:]})
					segs2 = append(segs2, refSegs[pi+1:]...)
					got2 := c08Run(kind, segs2, rep)
					if got2.resps != ref.resps || !bytes.Equal(got2.backend, ref.backend) || got2.ended != ref.ended || len(got2.panics) > 0 {
						rep.violate("C08/empty-message-changes-behaviour/ws", fmt.Sprintf("packet %d cut at %d with an empty websocket message in between: %q (reference %q), host bytes %d (reference %d), ended %v (reference %v) panics=%v", pi, a, got2.resps, ref.resps, len(got2.backend), len(ref.backend), got2.ended, ref.ended, got2.panics),
							map[string]any{"noreplay": true})
					}
					if got.resps != ref.resps || !bytes.Equal(got.backend, ref.backend) || len(got.panics) > 0 {
						rep.violate("C08/ws-fragmented-message-changes-behaviour", fmt.Sprintf("packet %d as frames %d+%d: %q vs %q panics=%v", pi, a, len(p)-a, got.resps, ref.resps, got.panics),
							map[string]any{"noreplay": true})
					}
				}
			}
		}
	}
	rep.add("distinct", int64(len(distinct)))
	rep.add("states", int64(len(distinct)))
}

func sortInts(a []int) {
	for i := 1; i < len(a); i++ {
		for j := i; j > 0 && a[j] < a[j-1]; j-- {
			a[j], a[j-1] = a[j-1], a[j]
		}
	}
}

// c08Unframeable: after the garbage nothing may be answered, relayed or dialled, and the tunnel must end.
func c08Unframeable(kind, session, what string, segs []Seg, k int, rep *Report) {
	cfg := c01Cfg(true, false, kind)
	res := RunSeq(cfg, segs)
	rep.add("executions", 1)
	rep.add("transitions", int64(res.StepsRun))
	rp := map[string]any{"noreplay": true}
	for _, p := range res.Panics {
		rep.violate("C08/panic/"+shortFn(panicSite(p))+"/"+kind+"/unframeable", fmt.Sprintf("%s %s %s: %s", kind, session, what, p.Value), rp)
	}
	if !res.Opened || len(res.Steps) < len(segs) {
		return
	}
	after := 0
	for i := k; i < len(res.Steps); i++ {
		after += len(res.Steps[i].Resps) + len(res.Steps[i].Dials) + len(res.Steps[i].BackendNew)
	}
	last := res.Steps[len(res.Steps)-1]
	if after > 0 {
		rep.violate("C08/unframeable-stream-misparsed/"+kind, fmt.Sprintf("%s %s %s: %d answers/dials/relayed bytes after the unframeable bytes", kind, session, what, after), rp)
	}
	if !last.Ended {
		rep.violate("C08/unframeable-stream-does-not-end-tunnel/"+kind+"/"+strings.SplitN(what, "-after-", 2)[0], fmt.Sprintf("%s %s %s: tunnel still open", kind, session, what), rp)
	}
	rep.outcome(fmt.Sprintf("%s unframeable ended=%v after=%d", kind, last.Ended, after))
}

func c08Replay(env *Env, rep *Report, sessions []c08Session) {
	rp := env.Replay
	kind, _ := rp["transport"].(string)
	name, _ := rp["session"].(string)
	burst, _ := rp["burst"].(bool)
	for _, ss := range sessions {
		if ss.Name != name {
			continue
		}
		var stream []byte
		var refSegs []Seg
		for _, p := range ss.Pkts {
			stream = append(stream, p...)
			refSegs = append(refSegs, Seg{Bytes: p})
		}
		ref := c08Run(kind, refSegs, rep)
		var segs []Seg
		off := 0
		ls, _ := rp["segments"].([]any)
		for i, l := range ls {
			n := 0
			fmt.Sscan(fmt.Sprint(l), &n)
			segs = append(segs, Seg{Bytes: stream[off : off+n], NoWait: burst && i < len(ls)-1})
			off += n
		}
		got := c08Run(kind, segs, rep)
		fmt.Printf("reference: %q host=%d ended=%v\nobserved:  %q host=%d ended=%v panics=%v\n", ref.resps, len(ref.backend), ref.ended, got.resps, len(got.backend), got.ended, got.panics)
		mode := "paced"
		if burst {
			mode = "burst"
		}
		for _, p := range got.panics {
			for _, fam := range []string{"one-cut", "two-cuts", "coalesce", "coalesce+cut"} {
				rep.violate("C08/panic/"+strings.SplitN(p, ":", 2)[0]+"/"+kind+"/"+fam+"/"+mode, p, rp)
			}
		}
		if got.resps != ref.resps || !bytes.Equal(got.backend, ref.backend) || got.ended != ref.ended {
			for _, fam := range []string{"one-cut", "two-cuts", "coalesce", "coalesce+cut"} {
				rep.violate("C08/segmentation-changes-behaviour/"+kind+"/"+fam+"/"+mode, "replay", rp)
			}
		}
	}
}
