package main

import (
	"fmt"
	"net/http"
	"runtime"
	"strings"

	"verif/internal/tsgu"
	"verif/shim/vsched"
)

// C10 part (j): a client that keeps a packet incomplete, one fragment at a time. The gateway may wait for the
// rest for ever; what it holds for the waiting must not grow with the number of fragments in a way that ends
// the process: the depth of the reader's call stack is observed after 10, 200 and 2000 fragments (a stack that
// grows with every fragment is exhausted by a patient client: a stack overflow cannot be recovered from, it
// ends the process and every tunnel in it).
func c10Fragments(rep *Report) int {
	n := 0
	for _, kind := range []string{"ws", "legacy"} {
		for _, frag := range []string{"empty", "one-byte-of-a-huge-packet"} {
			if kind == "legacy" && frag == "empty" {
				continue // an empty HTTP chunk ends the chunked stream
			}
			n++
			depth := map[int]int{}
			name := fmt.Sprintf("incomplete-packet-in-many-fragments/%s/%s", kind, frag)
			curScenario = name
			unlock := func() {}
			if frag != "empty" {
				if hugeFound() {
					continue
				}
				unlock = hugeLock()
			}
			var m0, m1 runtime.MemStats
			runtime.ReadMemStats(&m0)
			reserved := uint64(0)
			x := vsched.Run(nil, 400000, false, nil, func() {
				w := NewWorld()
				gw := NewGateway(GwCfg{HostSelection: "any"})
				h := http.Handler(http.HandlerFunc(gw.HandleGatewayProtocol))
				c, ok := w.OpenTunnel(kind, h, gw, "conn-frag", "10.0.0.1:50000", NewIdentity("alice", "10.0.0.1", "10.0.0.1:50000"), nil)
				if !ok {
					return
				}
				if frag != "empty" {
					// a header that announces a packet of nearly 4 GiB
					c.SendSegment([]byte{byte(tsgu.TypeData), 0, 0, 0, 0xf0, 0xff, 0xff, 0xff})
					vsched.WaitIdle()
					// the announcement alone must not make the gateway reserve what it announces
					runtime.ReadMemStats(&m1)
					if g := m1.TotalAlloc - m0.TotalAlloc; g > 256<<20 {
						reserved = g
						c.CloseClient()
						return
					}
				}
				sent := 0
				for _, upto := range []int{10, 200, 2000} {
					for ; sent < upto; sent++ {
						if frag == "empty" {
							c.SendSegment(nil)
						} else {
							c.SendSegment([]byte{'x'})
						}
						if sent%50 == 49 {
							vsched.WaitIdle()
						}
					}
					vsched.WaitIdle()
					depth[upto] = readerDepth()
				}
				c.CloseClient()
			})
			rep.add("executions", 1)
			rep.add("transitions", int64(x.Steps))
			for _, p := range x.Panics() {
				rep.violate("C10/panic:"+shortFn(panicSite(p))+"/"+name, p.Value, map[string]any{"noreplay": true})
			}
			x.Finish()
			unlock()
			if reserved > 0 {
				hugeSetFound()
				rep.violate("C10/memory-reserved-by-announced-length/"+name, fmt.Sprintf("an 8-byte header announcing a packet of nearly 4 GiB made the gateway allocate %d MiB for this one connection", reserved>>20), map[string]any{"noreplay": true})
				continue
			}
			rep.outcome(fmt.Sprintf("j %s %s depth=%v", kind, frag, depth[10] == depth[2000]))
			if depth[2000] > depth[10]+5 && depth[200] > depth[10] {
				rep.violate("C10/call-stack-grows-with-every-fragment-of-an-incomplete-packet/"+kind+"/"+frag,
					fmt.Sprintf("frames of the gateway's reader (deepest goroutine in package protocol) after 10 / 200 / 2000 fragments: %d / %d / %d (the trace is capped at 100): a client that goes on exhausts the stack, which ends the process", depth[10], depth[200], depth[2000]),
					map[string]any{"noreplay": true})
			}
		}
	}
	return n
}

// readerDepth: the largest number of frames inside the gateway's protocol package on any goroutine's stack.
func readerDepth() int {
	buf := make([]byte, 8<<20)
	buf = buf[:runtime.Stack(buf, true)]
	max := 0
	for _, g := range strings.Split(string(buf), "\n\n") {
		if k := strings.Count(g, "github.com/bolkedebruin/rdpgw/cmd/rdpgw/protocol."); k > max {
			max = k
		}
	}
	return max
}
