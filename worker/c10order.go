package main

import (
	"fmt"
	"net/http"
	"strings"

	"verif/shim/vsched"
)

// C10 part (e): every ordering of legacy RDG_IN_DATA / RDG_OUT_DATA requests
// (same and different connection ids), and websocket upgrades with odd
// headers, against the real handler in process.

type reqSpec struct {
	Method string
	ID     string
	WS     bool
	Bytes  string // sent on the connection afterwards
}

func c10OrderCases() [][]reqSpec {
	in := func(id string) reqSpec { return reqSpec{Method: "RDG_IN_DATA", ID: id, Bytes: "preamble"} }
	out := func(id string) reqSpec { return reqSpec{Method: "RDG_OUT_DATA", ID: id} }
	ws := func(id string) reqSpec { return reqSpec{Method: "RDG_OUT_DATA", ID: id, WS: true} }
	base := []reqSpec{in("X"), out("X"), in("Y"), out("Y"), ws("X"), in(""), out(""), {Method: "GET", ID: "X"}, {Method: "RDG_FOO", ID: "X"}}
	var out2 [][]reqSpec
	for _, a := range base {
		out2 = append(out2, []reqSpec{a})
		for _, b := range base {
			out2 = append(out2, []reqSpec{a, b})
			for _, c := range []reqSpec{in("X"), out("X"), ws("X"), in("Y")} {
				out2 = append(out2, []reqSpec{a, b, c})
			}
		}
	}
	return out2
}

func c10OrderRun(seq []reqSpec, rep *Report) (viol, detail string) {
	cfg := c01Cfg(true, false, "legacy")
	probe := ""
	x := vsched.Run(nil, 40000, false, nil, func() {
		w := NewWorld()
		w.Accept = func(string) bool { return true }
		gw := NewGateway(cfg.Gw)
		h := handlerOf(gw)
		var clients []*HandlerRun
		for i, r := range seq {
			hd := http.Header{}
			if r.ID != "" {
				hd.Set("Rdg-Connection-Id", "conn-"+r.ID)
			}
			if r.WS {
				for k, v := range wsHeaders("") {
					hd[k] = v
				}
			}
			id := NewIdentity("alice", "10.0.0.1", "10.0.0.1:50000")
			hr := w.Serve(fmt.Sprintf("r%d", i), h, r.Method, hd, "10.0.0.1:50000", id)
			clients = append(clients, hr)
			vsched.WaitIdle()
			if r.Bytes != "" {
				hr.Client.Write([]byte(r.Bytes))
				vsched.WaitIdle()
				// a handshake packet as one chunk
				pk := c10Canonical()[0]
				hr.Client.Write(append(append([]byte(fmt.Sprintf("%x\r\n", len(pk))), pk...), '\r', '\n'))
				vsched.WaitIdle()
			}
		}
		// liveness: a fresh well-formed legacy tunnel is still served
		id2 := NewIdentity("bob", "10.0.0.2", "10.0.0.2:50000")
		c2, ok := w.OpenTunnel("legacy", h, gw, "conn-probe", "10.0.0.2:50000", id2, nil)
		if !ok {
			probe = "probe tunnel not opened"
		} else {
			c2.SendSegment(c10Canonical()[0])
			vsched.WaitIdle()
			c2.Absorb()
			if len(c2.NewPackets()) != 1 {
				probe = "probe handshake unanswered"
			}
			c2.CloseClient()
		}
		for _, hr := range clients {
			hr.Client.Close()
		}
	})
	rep.add("executions", 1)
	rep.add("transitions", int64(x.Steps))
	defer x.Finish()
	for _, p := range x.Panics() {
		return "panic:" + shortFn(panicSite(p)), fmt.Sprintf("thread %s: %s", p.Name, p.Value)
	}
	if x.Abort != "" {
		return "step-cap-exceeded", x.Abort
	}
	if probe != "" {
		return "other-clients-no-longer-served", probe
	}
	return "", ""
}

func c10Order(env *Env, rep *Report) int {
	n := 0
	for i, seq := range c10OrderCases() {
		if !env.mine(i) {
			continue
		}
		n++
		var names []string
		for _, r := range seq {
			s := r.Method + "(" + r.ID + ")"
			if r.WS {
				s = "WS" + s
			}
			names = append(names, s)
		}
		v, d := c10OrderRun(seq, rep)
		rep.outcome("e order len=" + fmt.Sprint(len(seq)) + " verdict=" + v)
		if v != "" {
			rep.violate("C10/"+v+"/request-ordering", strings.Join(names, " ")+": "+d, map[string]any{"noreplay": true})
		}
		if n%60 == 1 {
			rep.sample(map[string]any{"part": "e (request orderings)", "requests": names, "verdict": v})
		}
	}
	rep.Notes = append(rep.Notes, "part e: legacy IN/OUT/websocket request orderings with same and different connection ids")
	return n
}
