package main

import (
	"fmt"
	"net/http"
	"strings"
	"time"
	"verif/shim/vclock"

	"github.com/bolkedebruin/rdpgw/cmd/rdpgw/protocol"

	"verif/internal/tsgu"
	"verif/shim/vsched"
)

// C01: "at most one such connection per tunnel" on the legacy transport: a
// second RDG_IN_DATA request with the connection id of a tunnel that already
// has an inbound channel must not get a packet loop of its own.
func c01DoubleIn(rep *Report) {
	for _, when := range []string{"before-first-byte-of-in1", "after-preamble-of-in1", "after-session-of-in1", "after-in1-closed-its-channel", "after-in1-sent-a-protocol-error", "after-in1-dropped", "six-minutes-into-the-session-of-in1"} {
		cfg := c01Cfg(true, false, "legacy")
		var dials, okResps int
		var in2Accepted bool
		vclock.Reset()
		x := vsched.Run(nil, 40000, false, nil, func() {
			w := NewWorld()
			w.Accept = cfg.Accept
			gw := NewGateway(cfg.Gw)
			h := handlerOf(gw)
			id := NewIdentity("alice", "10.0.0.1", "10.0.0.1:50000")
			hd := http.Header{"Rdg-Connection-Id": {"conn-1"}}
			out := w.Serve("out-1", h, "RDG_OUT_DATA", hd, "10.0.0.1:50000", id)
			oc := &TunnelClient{Kind: "legacy", Conn: out.Client}
			if !oc.ReadHTTPHead() {
				return
			}
			vsched.WaitIdle()
			oc.Absorb()
			oc.stream = nil // the 10 seed bytes are not packets
			openIn := func(name string) *TunnelClient {
				in := w.Serve(name, h, "RDG_IN_DATA", hd, "10.0.0.1:50001", id)
				vsched.WaitIdle()
				ic := &TunnelClient{Kind: "legacy", Conn: out.Client, In: in.Client}
				head := string(in.Client.Pending())
				if name == "in-2" && strings.HasPrefix(head, "HTTP/1.1 200") {
					in2Accepted = true
				}
				return ic
			}
			session := func(c *TunnelClient) {
				c.In.Write([]byte("preamble"))
				vsched.WaitIdle()
				for _, p := range [][]byte{tsgu.Handshake(1, 0, 0, tsgu.ExtAuthPAA), tsgu.TunnelCreate("ok|"+hostA+":3389|10.0.0.1|alice", true), tsgu.TunnelAuth("pc"), tsgu.ChannelCreate(hostA, 3389)} {
					c.SendSegment(p)
					vsched.WaitIdle()
				}
			}
			in1 := openIn("in-1")
			var in2 *TunnelClient
			switch when {
			case "before-first-byte-of-in1":
				in2 = openIn("in-2")
				session(in1)
			case "after-preamble-of-in1":
				in1.In.Write([]byte("preamble"))
				vsched.WaitIdle()
				in2 = openIn("in-2")
				for _, p := range [][]byte{tsgu.Handshake(1, 0, 0, tsgu.ExtAuthPAA), tsgu.TunnelCreate("ok|"+hostA+":3389|10.0.0.1|alice", true), tsgu.TunnelAuth("pc"), tsgu.ChannelCreate(hostA, 3389)} {
					in1.SendSegment(p)
					vsched.WaitIdle()
				}
			case "after-in1-closed-its-channel", "after-in1-sent-a-protocol-error", "after-in1-dropped":
				// the tunnel has ended (its connection id is still remembered): a lone new inbound request for it
				// gets no packet loop, no answers and no connection
				session(in1)
				switch when {
				case "after-in1-closed-its-channel":
					in1.SendSegment(tsgu.Data([]byte("first")))
					vsched.WaitIdle()
					in1.SendSegment(tsgu.CloseChannel())
				case "after-in1-sent-a-protocol-error":
					in1.SendSegment(tsgu.Handshake(1, 0, 0, tsgu.ExtAuthPAA))
				default:
					in1.In.Close()
				}
				vsched.WaitIdle()
				in2 = openIn("in-2")
			case "six-minutes-into-the-session-of-in1":
				// the tunnel is alive for longer than the gateway's connection cache remembers an entry by default
				// (five minutes): after four minutes the client re-sends its outbound request (which the gateway
				// takes as the tunnel's new outbound channel and which renews the entry), two minutes later a
				// second inbound request arrives
				session(in1)
				vclock.Advance(4 * time.Minute)
				out2 := w.Serve("out-1b", h, "RDG_OUT_DATA", hd, "10.0.0.1:50002", id)
				oc2 := &TunnelClient{Kind: "legacy", Conn: out2.Client}
				oc2.ReadHTTPHead()
				vsched.WaitIdle()
				oc2.Absorb()
				oc.Absorb()
				pre, _, _ := tsgu.Split(oc.stream)
				for _, p := range pre {
					if r := tsgu.ParseResp(p); r.HasStatus && r.Status == 0 {
						okResps++
					}
				}
				oc = oc2
				oc.stream = nil
				vclock.Advance(2 * time.Minute)
				in2 = openIn("in-2")
				in2.Conn = out2.Client
			default:
				session(in1)
				in2 = openIn("in-2")
			}
			session(in2)
			oc.Absorb()
			pk, _, _ := tsgu.Split(oc.stream)
			for _, p := range pk {
				if r := tsgu.ParseResp(p); r.HasStatus && r.Status == 0 {
					okResps++
				}
			}
			dials = len(w.Net.Dials)
		})
		rep.add("executions", 1)
		rep.add("transitions", int64(x.Steps))
		for _, p := range x.Panics() {
			rep.violate("C01/panic:"+shortFn(panicSite(p))+"/legacy-second-inbound", p.Value, map[string]any{"noreplay": true})
		}
		x.Finish()
		vclock.Reset()
		rep.outcome(fmt.Sprintf("legacy second inbound %s: dials=%d ok=%d in2accepted=%v", when, dials, okResps, in2Accepted))
		wantOK := 4
		if when == "after-in1-closed-its-channel" {
			wantOK = 5 // the close request of the first session is answered with success too
		}
		ended := strings.HasPrefix(when, "after-in1-closed") || strings.HasPrefix(when, "after-in1-sent") || strings.HasPrefix(when, "after-in1-dropped")
		if ended && in2Accepted {
			rep.violate("C01/inbound-request-answered-with-success-after-the-tunnel-ended/"+when, "a new RDG_IN_DATA request for the connection id of a tunnel that has ended was answered with 200 (the answer that accepts an inbound channel)", map[string]any{"noreplay": true})
		}
		if dials > 1 || okResps > wantOK {
			rep.violate("C01/second-packet-loop-on-one-legacy-tunnel/"+when, fmt.Sprintf("second RDG_IN_DATA with the same connection id %s: %d backend connections, %d success responses (one session gives 1 and %d), second request accepted=%v", when, dials, okResps, wantOK, in2Accepted), map[string]any{"noreplay": true})
		}
	}
}

// c01ReusePrelude opens a legacy tunnel with the connection id the observed tunnel will use, takes it
// through the whole authorization sequence (and one data packet), and leaves it open or closed.
func c01ReusePrelude(end, connID string) func(w *World, h http.Handler, gw *protocol.Gateway) {
	return func(w *World, h http.Handler, gw *protocol.Gateway) {
		id := NewIdentity("alice", "10.0.0.1", "10.0.0.1:50000")
		c, ok := w.OpenTunnel("legacy", h, gw, connID, "10.0.0.1:50000", id, nil)
		if !ok {
			return
		}
		vsched.WaitIdle()
		for _, p := range [][]byte{tsgu.Handshake(1, 0, 0, tsgu.ExtAuthPAA), tsgu.TunnelCreate("ok|"+hostA+":3389|10.0.0.1|alice", true), tsgu.TunnelAuth("pc"), tsgu.ChannelCreate(hostA, 3389), tsgu.Data([]byte("first-tunnel"))} {
			c.SendSegment(p)
			vsched.WaitIdle()
		}
		switch end {
		case "closed":
			c.SendSegment(tsgu.CloseChannel())
			vsched.WaitIdle()
		case "dropped":
			c.CloseClient()
			vsched.WaitIdle()
		}
	}
}

// c01Reuse: a connection that presents the connection id of an earlier legacy tunnel (still open, closed
// in order, or dropped) is a tunnel of its own: it has to complete the whole sequence itself before
// anything it sends is relayed or answered with success.
func c01Reuse(env *Env, rep *Report, alpha []sym, depth int) int {
	n, distinct := 0, 0
	na := len(alpha)
	for _, pre := range []string{"open/conn-1", "closed/conn-1", "dropped/conn-1", "open/conn-0", "closed/conn-0"} {
		end, preID := strings.Split(pre, "/")[0], strings.Split(pre, "/")[1]
		for _, kind := range []string{"ws", "legacy"} {
			if kind == "legacy" && end == "open" && preID == "conn-1" {
				continue // a second legacy pair on a live legacy tunnel is part (4)
			}
			var hists [][]int
			for d := 1; d <= depth; d++ {
				tot := 1
				for i := 0; i < d; i++ {
					tot *= na
				}
				for idx := 0; idx < tot; idx++ {
					h := make([]int, d)
					v := idx
					for i := d - 1; i >= 0; i-- {
						h[i] = v % na
						v /= na
					}
					hists = append(hists, h)
				}
			}
			good := c01Good(alpha, true)
			for pos := 0; pos <= len(good); pos++ {
				for si := 0; si < na; si++ {
					h := append(append(append([]int{}, good[:pos]...), si), good[pos:]...)
					hists = append(hists, h)
				}
			}
			for _, h := range hists {
				n++
				if !env.mine(n) {
					continue
				}
				distinct++
				segs := make([]Seg, len(h))
				for i, x := range h {
					segs[i] = Seg{Name: alpha[x].Name, Bytes: alpha[x].Bytes}
				}
				cfg := c01Cfg(true, false, kind)
				cfg.Prelude = c01ReusePrelude(end, preID)
				res := RunSeq(cfg, segs)
				rep.add("executions", 1)
				rep.add("transitions", int64(res.StepsRun))
				if res.Abort != "" {
					infra("C01 reuse: execution aborted: %s", res.Abort)
				}
				var viols []string
				for _, p := range res.Panics {
					viols = append(viols, "panic:"+shortFn(panicSite(p)))
				}
				if res.Opened {
					m := &c01Monitor{Token: true, Phase: "INIT"}
					for i, o := range res.Steps {
						viols = append(viols, m.step(alpha[h[i]], o)...)
					}
				}
				rep.outcome(fmt.Sprintf("reuse %s/%s opened=%v viols=%d", end, kind, res.Opened, len(viols)))
				for _, v := range viols {
					var obs []string
					for _, o := range res.Steps {
						obs = append(obs, o.String())
					}
					what := "connection-id-of-an-earlier-legacy-tunnel"
					if preID != "conn-1" {
						what = "after-an-earlier-tunnel"
					}
					rep.violate("C01/"+v+"/"+what+"/"+kind, fmt.Sprintf("earlier legacy tunnel (connection id "+preID+", this one conn-1) left %s; then %s history=%v obs=%v", end, kind, histNames(alpha, h), obs),
						map[string]any{"noreplay": true})
				}
			}
		}
	}
	return distinct
}

// c01Burst: pipelining. The same history sent without waiting for the answers (all packets available to the
// gateway at once) gives the same responses, connections and relayed bytes as when every answer is awaited:
// what a packet is allowed to do never depends on work the gateway still has in progress for the packet before.
func c01Burst(env *Env, rep *Report, alpha []sym) int {
	n, distinct := 0, 0
	na := len(alpha)
	flat := func(res *SeqResult) string {
		var sb strings.Builder
		dials, bytesN := 0, 0
		for _, o := range res.Steps {
			for _, p := range o.Resps {
				fmt.Fprintf(&sb, "%#x/%#x ", p.Type, tsgu.ParseResp(p).Status)
			}
			dials += len(o.Dials)
			bytesN += len(o.BackendNew)
		}
		ended := len(res.Steps) > 0 && res.Steps[len(res.Steps)-1].Ended
		return fmt.Sprintf("%s| dials=%d host-bytes=%d ended=%v", sb.String(), dials, bytesN, ended)
	}
	for _, kind := range []string{"proc", "ws", "legacy"} {
		good := c01Good(alpha, true)
		var hists [][]int
		// the canonical history with one extra symbol at every position (the extra symbol is pipelined behind its
		// predecessor), and every pair after each canonical prefix
		for pos := 0; pos <= len(good); pos++ {
			for si := 0; si < na; si++ {
				hists = append(hists, append(append(append([]int{}, good[:pos]...), si), good[pos:]...))
			}
		}
		for k := 0; k < len(good); k++ {
			for a := 0; a < na; a++ {
				if alpha[a].Class == "OTHER" {
					continue
				}
				for b := 0; b < na; b++ {
					if alpha[b].Class == "OTHER" {
						continue
					}
					hists = append(hists, append(append([]int{}, good[:k]...), a, b))
				}
			}
		}
		for _, h := range hists {
			n++
			if !env.mine(n) {
				continue
			}
			distinct++
			mk := func(burst bool) []Seg {
				segs := make([]Seg, len(h))
				for i, x := range h {
					segs[i] = Seg{Name: alpha[x].Name, Bytes: alpha[x].Bytes, NoWait: burst && i < len(h)-1}
				}
				return segs
			}
			paced := RunSeq(c01Cfg(true, false, kind), mk(false))
			burst := RunSeq(c01Cfg(true, false, kind), mk(true))
			rep.add("executions", 2)
			rep.add("transitions", int64(paced.StepsRun+burst.StepsRun))
			for _, p := range burst.Panics {
				rep.violate("C01/panic:"+shortFn(panicSite(p))+"/pipelined/"+kind, p.Value, map[string]any{"noreplay": true})
			}
			a, b := flat(paced), flat(burst)
			rep.outcome("pipelined same=" + fmt.Sprint(a == b))
			if a != b && paced.Opened && burst.Opened {
				rep.violate("C01/pipelined-packets-treated-differently/"+kind, fmt.Sprintf("history %v: answers awaited one by one: %s; all packets sent at once: %s", histNames(alpha, h), a, b), map[string]any{"noreplay": true})
			}
		}
	}
	return distinct
}
