package main

import (
	"fmt"
	"net/http"
	"strings"

	"verif/internal/tsgu"
	"verif/shim/vsched"
)

// C01: "at most one such connection per tunnel" on the legacy transport: a
// second RDG_IN_DATA request with the connection id of a tunnel that already
// has an inbound channel must not get a packet loop of its own.
func c01DoubleIn(rep *Report) {
	for _, when := range []string{"before-first-byte-of-in1", "after-preamble-of-in1", "after-session-of-in1"} {
		cfg := c01Cfg(true, false, "legacy")
		var dials, okResps int
		var in2Accepted bool
		x := vsched.Run(nil, 40000, false, nil, func() {
			w := NewWorld()
			w.Accept = cfg.Accept
			gw := NewGateway(cfg.Gw)
			h := handlerOf(gw)
			id := NewIdentity("alice", "10.0.0.1", "10.0.0.1:50000")
			hd := http.Header{"Rdg-Connection-Id": {"conn-1"}}
			out := w.Serve("out-1", h, "RDG_OUT_DATA", hd, "10.0.0.1:50000", id)
			oc := &TunnelClient{Kind: "legacy", Conn: out.Client}
			if !oc.ReadHTTPHead() {
				return
			}
			vsched.WaitIdle()
			oc.Absorb()
			oc.stream = nil // the 10 seed bytes are not packets
			openIn := func(name string) *TunnelClient {
				in := w.Serve(name, h, "RDG_IN_DATA", hd, "10.0.0.1:50001", id)
				vsched.WaitIdle()
				ic := &TunnelClient{Kind: "legacy", Conn: out.Client, In: in.Client}
				head := string(in.Client.Pending())
				if name == "in-2" && strings.HasPrefix(head, "HTTP/1.1 200") {
					in2Accepted = true
				}
				return ic
			}
			session := func(c *TunnelClient) {
				c.In.Write([]byte("preamble"))
				vsched.WaitIdle()
				for _, p := range [][]byte{tsgu.Handshake(1, 0, 0, tsgu.ExtAuthPAA), tsgu.TunnelCreate("ok|"+hostA+":3389|10.0.0.1|alice", true), tsgu.TunnelAuth("pc"), tsgu.ChannelCreate(hostA, 3389)} {
					c.SendSegment(p)
					vsched.WaitIdle()
				}
			}
			in1 := openIn("in-1")
			var in2 *TunnelClient
			switch when {
			case "before-first-byte-of-in1":
				in2 = openIn("in-2")
				session(in1)
			case "after-preamble-of-in1":
				in1.In.Write([]byte("preamble"))
				vsched.WaitIdle()
				in2 = openIn("in-2")
				for _, p := range [][]byte{tsgu.Handshake(1, 0, 0, tsgu.ExtAuthPAA), tsgu.TunnelCreate("ok|"+hostA+":3389|10.0.0.1|alice", true), tsgu.TunnelAuth("pc"), tsgu.ChannelCreate(hostA, 3389)} {
					in1.SendSegment(p)
					vsched.WaitIdle()
				}
			default:
				session(in1)
				in2 = openIn("in-2")
			}
			session(in2)
			oc.Absorb()
			pk, _, _ := tsgu.Split(oc.stream)
			for _, p := range pk {
				if r := tsgu.ParseResp(p); r.HasStatus && r.Status == 0 {
					okResps++
				}
			}
			dials = len(w.Net.Dials)
		})
		rep.add("executions", 1)
		rep.add("transitions", int64(x.Steps))
		for _, p := range x.Panics() {
			rep.violate("C01/panic:"+shortFn(panicSite(p))+"/legacy-second-inbound", p.Value, map[string]any{"noreplay": true})
		}
		x.Finish()
		rep.outcome(fmt.Sprintf("legacy second inbound %s: dials=%d ok=%d in2accepted=%v", when, dials, okResps, in2Accepted))
		if dials > 1 || okResps > 4 {
			rep.violate("C01/second-packet-loop-on-one-legacy-tunnel/"+when, fmt.Sprintf("second RDG_IN_DATA with the same connection id %s: %d backend connections, %d success responses (one session gives 1 and 4), second request accepted=%v", when, dials, okResps, in2Accepted), map[string]any{"noreplay": true})
		}
	}
}
