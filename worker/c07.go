package main

import (
	"fmt"
	"github.com/bolkedebruin/rdpgw/cmd/rdpgw/protocol"
	"strings"
	"verif/internal/tsgu"

	"verif/shim/vsched"
)

// C07 — concurrent tunnels are isolated from each other.

func init() { props["C07"] = c07 }

func c07Plan(kind, id string, n int, end string) TunnelPlan {
	host := fmt.Sprintf("host-%s.example:33%02d", strings.ToLower(id), n)
	chunks := [][]byte{[]byte("<from-host-" + id + "-1>"), []byte("<from-host-" + id + "-2>")}
	total := len(chunks[0]) + len(chunks[1])
	script := []string{"data:[" + id + "-client-1]", "data:[" + id + "-client-2]", fmt.Sprintf("recvbytes:%d", total)}
	if end == "close" {
		script = append(script, "close", "drain")
	} else {
		script = append(script, "drop")
	}
	return TunnelPlan{Kind: kind, ConnID: "conn-" + id, User: "user-" + id, IP: fmt.Sprintf("10.0.%d.1", n), Host: host, Script: script, Chunks: chunks}
}

func c07Scenarios(thorough bool) []ConcScenario {
	var out []ConcScenario
	for _, kinds := range [][2]string{{"ws", "ws"}, {"ws", "legacy"}, {"legacy", "legacy"}} {
		for _, ends := range [][2]string{{"close", "close"}, {"close", "drop"}} {
			out = append(out, ConcScenario{Name: fmt.Sprintf("two-%s+%s-%s+%s", kinds[0], kinds[1], ends[0], ends[1]), Deviation: true,
				Plans: []TunnelPlan{c07Plan(kinds[0], "A", 1, ends[0]), c07Plan(kinds[1], "B", 2, ends[1])}})
		}
	}
	// connections that deliver one write per read: some buffer-sharing interleavings exist only this way
	seg := ConcScenario{Name: "two-legacy+legacy-segmented", Deviation: true, Segmented: true, RoundRobin: true, Plans: []TunnelPlan{c07Plan("legacy", "A", 1, "drop"), c07Plan("legacy", "B", 2, "drop")}}
	for i := range seg.Plans {
		id := []string{"A", "B"}[i]
		seg.Plans[i].Script = []string{"data:[" + id + "-client-1]", "data:[" + id + "-client-2]", "data:[" + id + "-client-3]", "recvbytes:34", "drop"}
	}
	out = append(out, seg)
	// the same with a scheduling point between a read's return and the reader's next step
	pr := seg
	pr.Name = "two-legacy+legacy-read-return"
	pr.PostRead = true
	pr.Plans = append([]TunnelPlan{}, seg.Plans...)
	out = append(out, pr)
	big := ConcScenario{Name: "two-legacy+legacy-large-chunk-read-return", Deviation: true, Segmented: true, RoundRobin: true, PostRead: true, Plans: []TunnelPlan{c07Plan("legacy", "A", 1, "drop"), c07Plan("legacy", "B", 2, "drop")}}
	for i := range big.Plans {
		id := []string{"A", "B"}[i]
		big.Plans[i].Script = []string{"bigdata:[" + id + "-client-big]", "data:[" + id + "-client-2]", "recvbytes:34", "drop"}
	}
	out = append(out, big)
	// connection identifiers that are distinct but look alike (letter case, blanks, non-ASCII characters, a tab):
	// distinct identifiers are distinct tunnels
	for k, pair := range [][2]string{{"Branch-Office-K7", "branch-office-k7"}, {"front desk 12", "frontdesk12"}, {"kiosk-\u21167", "kiosk-7"}, {"loadingbay\t-east", "loadingbay-east"}, {"{1F2E3D4C-AAAA-BBBB-CCCC-000000000001}", "{1f2e3d4c-aaaa-bbbb-cccc-000000000001}"}} {
		for _, kinds := range [][2]string{{"legacy", "legacy"}, {"ws", "legacy"}} {
			pa, pb := c07Plan(kinds[0], "A", 1, "close"), c07Plan(kinds[1], "B", 2, "drop")
			pa.ConnID, pb.ConnID = pair[0], pair[1]
			out = append(out, ConcScenario{Name: fmt.Sprintf("two-%s+%s-similar-ids-%d", kinds[0], kinds[1], k), Deviation: true, Plans: []TunnelPlan{pa, pb}})
		}
	}
	// real tokens checked by the real security callbacks, the identity provider round trip being a scheduling point
	out = append(out, ConcScenario{Name: "two-ws+ws-real-tokens", Deviation: true, RoundRobin: true, RealCookie: true, Plans: []TunnelPlan{c07Plan("ws", "A", 1, "drop"), c07Plan("ws", "B", 2, "drop")}})
	// ... and with a host list that depends on the tunnel's user: the user one tunnel is given must be its own
	uh := ConcScenario{Name: "two-ws+ws-real-tokens-user-hosts", Deviation: true, RoundRobin: true, RealCookie: true,
		Gw: GwCfg{TokenAuth: true, HostSelection: "roundrobin", Hosts: []string{"{{ preferred_username }}-pc.example:3389"}, VerifyIP: true}}
	for i, u := range []string{"alice", "bob"} {
		pl := c07Plan("ws", strings.ToUpper(u[:1]), i+1, "drop")
		pl.User, pl.Host = u, u+"-pc.example:3389"
		uh.Plans = append(uh.Plans, pl)
	}
	out = append(out, uh)
	// ... and behind web.EnrichContext as in main.go, both clients presenting the SAME web session cookie (the
	// session of a web login: a shared cookie jar, a portal in front) from different addresses: the identity a request is
	// given is its own
	sh := ConcScenario{Name: "two-ws+legacy-real-tokens-one-session-cookie", Deviation: true, RoundRobin: true, RealCookie: true, Enrich: true,
		Gw: GwCfg{TokenAuth: true, HostSelection: "roundrobin", Hosts: []string{"{{ preferred_username }}-pc.example:3389"}, VerifyIP: true}}
	for i, u := range []string{"alice", "bob"} {
		pl := c07Plan([]string{"ws", "legacy"}[i], strings.ToUpper(u[:1]), i+1, "drop")
		pl.User, pl.Host = u, u+"-pc.example:3389"
		pl.SessionCookie = "shared"
		sh.Plans = append(sh.Plans, pl)
	}
	out = append(out, sh)
	seq := uh
	seq.Name = "two-ws+ws-real-tokens-user-hosts-one-after-the-other"
	seq.RoundRobin = false
	out = append(out, seq)
	prw := ConcScenario{Name: "two-ws+ws-read-return", Deviation: true, PostRead: true, Plans: []TunnelPlan{c07Plan("ws", "A", 1, "drop"), c07Plan("ws", "B", 2, "drop")}}
	out = append(out, prw)
	// the gateway is configured with an idle timeout (minutes; nobody is idle that long here)
	for _, kinds := range [][2]string{{"ws", "legacy"}, {"legacy", "legacy"}, {"legacy", "ws"}} {
		out = append(out, ConcScenario{Name: fmt.Sprintf("two-%s+%s-idle-timeout-configured", kinds[0], kinds[1]), Deviation: true, RoundRobin: true, IdleTimeout: 30,
			Plans: []TunnelPlan{c07Plan(kinds[0], "A", 1, "close"), c07Plan(kinds[1], "B", 2, "drop")}})
	}
	// a legacy client whose inbound request was accepted and that has not sent a byte yet, next to a tunnel that
	// goes through a whole session
	for _, kind := range []string{"ws", "legacy"} {
		silent := TunnelPlan{Kind: "legacy", ConnID: "conn-S", User: "user-S", IP: "10.0.9.1", Host: "host-s.example:3309", StopAt: "accepted", Script: []string{"wait:other-done", "drop"}}
		full := c07Plan(kind, "B", 2, "close")
		full.Script = append(full.Script, "signal:other-done")
		out = append(out, ConcScenario{Name: "silent-accepted-legacy-client-next-to-" + kind, Deviation: true, Plans: []TunnelPlan{silent, full}})
	}
	// many tunnels at the same time (the default schedule advances them in lockstep, so all of them are in the same
	// phase together): each behaves as when it is alone. One schedule each.
	for _, n := range []int{17, 64} {
		many := ConcScenario{Name: fmt.Sprintf("many-%d-in-lockstep", n), Deviation: true, RoundRobin: true, MaxSteps: 400000}
		for i := 0; i < n; i++ {
			kind, end := "ws", "close"
			if i%3 == 1 {
				kind = "legacy"
			}
			if i%2 == 1 {
				end = "drop"
			}
			pl := c07Plan(kind, fmt.Sprintf("T%02d", i), i+1, end)
			// all tunnels stay until every one of them has its channel and its bytes
			pl.Script = append(append([]string{}, pl.Script[:3]...), append([]string{"barrier"}, pl.Script[3:]...)...)
			many.Plans = append(many.Plans, pl)
		}
		out = append(out, many)
	}
	if thorough {
		out = append(out, ConcScenario{Name: "three-ws+legacy+ws", Deviation: true,
			Plans: []TunnelPlan{c07Plan("ws", "A", 1, "close"), c07Plan("legacy", "B", 2, "close"), c07Plan("ws", "C", 3, "drop")}})
	}
	return out
}

func c07Obs(t *TunnelObs) string {
	return fmt.Sprintf("resps=%v client=%q host=%q dialled=%v setup=%q stream=%q", t.Resps, t.ClientData, t.BackendGot, t.Dialled, t.SetupFailed, t.StreamErr)
}

func c07Check(sc ConcScenario, alone []string) func(res *ConcResult, races []RaceReport) (string, []vsched.Violation) {
	return func(res *ConcResult, races []RaceReport) (string, []vsched.Violation) {
		var v []vsched.Violation
		add := func(k, d string) { v = append(v, vsched.Violation{Sig: "C07/" + k + "/" + sc.Name, Detail: d}) }
		for _, p := range res.X.Panics() {
			add("panic:"+shortFn(panicSite(p)), p.Value)
		}
		var o []string
		for i, t := range res.Tunnels {
			got := c07Obs(t)
			o = append(o, got)
			if got != alone[i] {
				kind := "tunnel-behaves-differently-next-to-another"
				id := strings.TrimPrefix(t.Plan.ConnID, "conn-")
				for _, other := range res.Tunnels {
					oid := strings.TrimPrefix(other.Plan.ConnID, "conn-")
					if oid != id && (strings.Contains(string(t.ClientData), "host-"+oid) || strings.Contains(string(t.BackendGot), "["+oid+"-client")) {
						kind = "bytes-of-another-tunnel-delivered"
					}
				}
				add(kind, fmt.Sprintf("tunnel %s alone: %s\nnext to the others: %s", t.Plan.ConnID, alone[i], got))
			}
		}
		// snapshot check of tunnels still registered (none should be: all ended)
		return strings.Join(o, " | "), v
	}
}

// pairing: legacy IN with another connection id must not attach to an existing OUT
func c07Pairing(rep *Report) {
	cfg := c01Cfg(true, false, "legacy")
	var got string
	x := vsched.Run(nil, 20000, false, nil, func() {
		w := NewWorld()
		w.Accept = func(string) bool { return true }
		gw := NewGateway(cfg.Gw)
		h := handlerOf(gw)
		idA := NewIdentity("ua", "10.0.0.1", "10.0.0.1:40000")
		cA, ok := w.OpenTunnel("legacy", h, gw, "conn-X", "10.0.0.1:40000", idA, nil)
		if !ok {
			got = "setup"
			return
		}
		// a second client: OUT with id Y never sent; IN with id Y only
		idB := NewIdentity("ub", "10.0.0.2", "10.0.0.2:40000")
		hd := map[string][]string{"Rdg-Connection-Id": {"conn-Y"}}
		in := w.Serve("in-conn-Y", h, "RDG_IN_DATA", hd, "10.0.0.2:40000", idB)
		vsched.WaitIdle()
		in.Client.Write([]byte("preamble"))
		vsched.WaitIdle()
		cB := &TunnelClient{Kind: "legacy", Conn: in.Client, In: in.Client}
		cB.SendSegment(c10Canonical()[0])
		vsched.WaitIdle()
		cA.Absorb()
		if n := len(cA.NewPackets()); n != 0 {
			got = fmt.Sprintf("packets of the IN with id Y were answered on the OUT with id X (%d packets)", n)
		}
		cA.CloseClient()
		in.Client.Close()
	})
	rep.add("executions", 1)
	rep.add("transitions", int64(x.Steps))
	for _, p := range x.Panics() {
		got = "panic: " + p.Value
	}
	x.Finish()
	rep.outcome("pairing: " + got)
	if got != "" {
		rep.violate("C07/legacy-pairing-across-connection-ids", got, map[string]any{"noreplay": true})
	}
}

// c07Registry: histories of tunnels coming and going, one after the other, with the registry of live tunnels
// observed after every step: it holds exactly the live tunnels, each with its own user, connection id and phase
// (open A, open B, close A, open C, close B, close C and the other orders of closing).
func c07Registry(rep *Report) {
	type step struct {
		op, id string
	}
	hists := [][]step{
		{{"open", "A"}, {"open", "B"}, {"close", "A"}, {"open", "C"}, {"close", "B"}, {"close", "C"}},
		{{"open", "A"}, {"open", "B"}, {"close", "A"}, {"open", "C"}, {"close", "C"}, {"close", "B"}},
		{{"open", "A"}, {"open", "B"}, {"open", "C"}, {"close", "B"}, {"open", "D"}, {"close", "A"}, {"close", "D"}, {"close", "C"}},
		{{"open", "A"}, {"close", "A"}, {"open", "B"}, {"open", "C"}, {"close", "B"}, {"open", "D"}, {"close", "C"}, {"close", "D"}},
	}
	for hi, hist := range hists {
		for _, kinds := range [][]string{{"ws"}, {"legacy"}, {"ws", "legacy"}} {
			var bad string
			x := vsched.Run(nil, 60000, false, nil, func() {
				w := NewWorld()
				w.Accept = func(string) bool { return true }
				gw := NewGateway(GwCfg{TokenAuth: true, CookieCheck: TableCookie, HostSelection: "roundrobin", Hosts: []string{"ha.example:3389", "hb.example:3389", "hc.example:3389", "hd.example:3389"}, VerifyIP: true})
				h := handlerOf(gw)
				live := map[string]*TunnelClient{}
				n := 0
				for si, st := range hist {
					id := st.id
					host := "h" + strings.ToLower(id) + ".example"
					if st.op == "open" {
						kind := kinds[n%len(kinds)]
						n++
						ident := NewIdentity("", "10.0.0."+fmt.Sprint(1+int(id[0]-'A')), "10.0.0."+fmt.Sprint(1+int(id[0]-'A'))+":40000")
						c, ok := w.OpenTunnel(kind, h, gw, "conn-"+id, "10.0.0."+fmt.Sprint(1+int(id[0]-'A'))+":40000", ident, nil)
						if !ok {
							bad = fmt.Sprintf("step %d: tunnel %s not opened", si, id)
							return
						}
						for _, p := range [][]byte{tsgu.Handshake(1, 0, 0, tsgu.ExtAuthPAA), tsgu.TunnelCreate("ok|"+host+":3389|10.0.0."+fmt.Sprint(1+int(id[0]-'A'))+"|user-"+id, true), tsgu.TunnelAuth("pc"), tsgu.ChannelCreate(host, 3389)} {
							c.SendSegment(p)
							vsched.WaitIdle()
						}
						live[id] = c
					} else {
						live[id].CloseClient()
						delete(live, id)
						vsched.WaitIdle()
					}
					// the registry holds exactly the live tunnels
					reg := protocol.VerifConnections()
					seen := map[string]bool{}
					for key, sn := range reg {
						id := strings.TrimPrefix(sn.RDGId, "conn-")
						if live[id] == nil {
							bad = fmt.Sprintf("after step %d (%s %s): registry entry %s belongs to tunnel %s, which is not live", si, st.op, st.id, key, sn.RDGId)
							return
						}
						if seen[id] {
							bad = fmt.Sprintf("after step %d (%s %s): tunnel %s registered twice", si, st.op, st.id, sn.RDGId)
							return
						}
						seen[id] = true
						if sn.UserName != "user-"+id || sn.TargetServer != "h"+strings.ToLower(id)+".example:3389" || sn.Id != key {
							bad = fmt.Sprintf("after step %d (%s %s): entry %s of tunnel %s has user %q target %q id %q", si, st.op, st.id, key, sn.RDGId, sn.UserName, sn.TargetServer, sn.Id)
							return
						}
					}
					for id := range live {
						if !seen[id] {
							bad = fmt.Sprintf("after step %d (%s %s): live tunnel conn-%s is not in the registry (%d entries)", si, st.op, st.id, id, len(reg))
							return
						}
					}
				}
			})
			rep.add("executions", 1)
			rep.add("transitions", int64(x.Steps))
			for _, p := range x.Panics() {
				bad = "panic: " + p.Value
			}
			x.Finish()
			rep.outcome(fmt.Sprintf("registry history %d %v: %v", hi, kinds, bad == ""))
			if bad != "" {
				rep.violate("C07/registry-does-not-hold-exactly-the-live-tunnels", fmt.Sprintf("history %d transports %v: %s", hi, kinds, bad), map[string]any{"noreplay": true})
			}
		}
	}
}

func c07(env *Env, rep *Report) {
	scs := c07Scenarios(env.thorough())
	var names []string
	for _, s := range scs {
		names = append(names, s.Name)
	}
	rep.Rule = "two (thorough: also three) tunnels with distinct connection ids, users, token hosts, client addresses and backends on transports {ws+ws, ws+legacy, legacy+legacy}, each doing setup, two tagged data packets, receiving two tagged host chunks, then close or abrupt drop (" + strings.Join(names, ", ") + "); every schedule of all clients, handlers, relay goroutines and backends up to the deviation bound. " +
		"Oracle (differential non-interference; the scenarios with 17 and 64 simultaneous tunnels run their lockstep schedule only): in every schedule each tunnel's observation (responses, bytes at its client, bytes at its host, dials) equals the observation of that tunnel run alone, and no tagged byte of one tunnel shows up in another. Plus histories of tunnels coming and going one after the other (4 histories x 3 transport mixes) with the registry of live tunnels observed after every step: exactly the live tunnels, each with its own user, target and id. Plus, on the real binary with socket buffer sizes configured: tunnel A relays 12 MiB (the process allocates and collects garbage meanwhile), tunnel B is set up, both hosts talk: A keeps relaying and each side receives only its own bytes. Plus histories across the web side and the tunnel side of one process wired like main.go (one host list for both): every sequence of two (thorough: three) operations of two users from {download, download + tunnel to the own host, download + tunnel asking for the other user's host, refused download}, host selection roundrobin and unsigned with a user placeholder in the list: each operation has the outcome it has in a fresh process. Plus the pairing scenario: a legacy RDG_IN_DATA with another connection id never attaches to an existing RDG_OUT_DATA. distinct_nontrivial = distinct per-schedule observations."
	if env.thorough() {
		rep.Rule += " Thorough tier: every scenario is first explored completely with the bound of the quick tier, then again with the full bound for as long as the time budget lasts (caps_hit names what the budget cut)."
	}
	rep.Assumptions = append(rep.Assumptions, "2-3 tunnels for the interleaving search; 17 and 64 simultaneous tunnels in one lockstep schedule each", "deviation bounding: every departure from the default schedule costs 1")
	bound := 2
	if env.thorough() {
		bound = 3
	}
	rep.Bounds = map[string]any{"deviation_bound": bound}
	prepare := func(sc ConcScenario) []string {
		var alone []string
		for _, p := range sc.Plans {
			gwc := concGwCfg(sc.Plans)
			if sc.Gw.Hosts != nil {
				gwc = sc.Gw
			}
			r := RunConc(ConcScenario{Name: "alone", Plans: []TunnelPlan{p}, Gw: gwc, RealCookie: sc.RealCookie, Enrich: sc.Enrich, Segmented: sc.Segmented, PostRead: sc.PostRead, IdleTimeout: sc.IdleTimeout}, nil, false)
			alone = append(alone, c07Obs(r.Tunnels[0]))
			// the reference observation must itself be a working tunnel: the gateway process has served other
			// tunnels before this one (earlier scenarios, the other tunnel's reference run), and none of
			// that may matter
			if t := r.Tunnels[0]; p.StopAt == "" && (t.SetupFailed != "" || len(t.Dialled) != 1 || t.Dialled[0] != p.Host) {
				rep.violate("C07/tunnel-affected-by-earlier-tunnels-of-the-process/"+sc.Name, fmt.Sprintf("tunnel %s run alone (after other tunnels were served and ended): %s", p.ConnID, c07Obs(t)), map[string]any{"noreplay": true})
			}
			r.X.Finish()
		}
		return alone
	}
	if env.Replay != nil {
		name, _ := env.Replay["scenario"].(string)
		for _, sc := range c07Scenarios(true) {
			if sc.Name == name {
				replayConc(rep, sc, env.Replay, nil, c07Check(sc, prepare(sc)))
			}
		}
		return
	}
	if env.Shard == 0 {
		c07Pairing(rep)
		c07Registry(rep)
		relayWithBuffers(rep, "C07")
	}
	if env.Part == "" {
		c07UserHistories(env, rep)
	}
	// thorough: every scenario first with the bound of the quick tier (complete within minutes), then again with
	// the full bound for as long as the time budget lasts: a scenario late in the list is never left unexplored
	// because an early one used up the budget
	passes := []int{0}
	if env.thorough() {
		passes = []int{-1, 0}
	}
	for pi, delta := range passes {
		for _, sc := range scs {
			if env.Part != "" && !strings.Contains(sc.Name, env.Part) {
				continue
			}
			alone := prepare(sc)
			if env.Shard == 0 && pi == 0 {
				rep.sample(map[string]any{"scenario": sc.Name, "observation_of_each_tunnel_alone": alone})
			}
			b := bound + delta
			if len(sc.Plans) > 2 {
				b = 2
			}
			if strings.HasPrefix(sc.Name, "many-") {
				b = 0
			}
			if strings.Contains(sc.Name, "similar-ids") {
				b-- // what they look for (two identifiers taken for one) shows without an unusual schedule
			}
			if pi == 1 && (len(sc.Plans) > 2 || strings.HasPrefix(sc.Name, "many-")) {
				continue // same bound as in the first pass
			}
			exploreConc(env, rep, sc, b, nil, c07Check(sc, alone))
		}
	}
}
