package main

import (
	"encoding/base64"
	"fmt"

	"github.com/bolkedebruin/rdpgw/cmd/auth/database"
	"github.com/bolkedebruin/rdpgw/shared/auth"

	"verif/internal/ntlmc"
	"verif/shim/vclock"
	"verif/shim/vsched"
)

// C14, two sessions served at the same time (the authentication service is a gRPC server: every call runs in
// a goroutine of its own): what happens in one session never changes the verdict in another. Statement-level
// scheduling points in cmd/auth/ntlm, and one where the user database is asked.

// (the interface is embedded: whatever else the verifier asks its database goes straight through)
type yieldDB struct{ database.Database }

func (d yieldDB) GetPassword(u string) string {
	vsched.Yield("database.GetPassword")
	p := d.Database.GetPassword(u)
	vsched.Yield("database.GetPassword:return")
	return p
}

type c14Step struct {
	kind     string // neg | auth | garbage
	user, pw string
	garbage  string
	wantAuth bool // auth: must be authenticated as user
	wantChal bool // neg: must be answered with a challenge
}

func c14ConcCase(name string, prelude [2][]c14Step, conc [2]c14Step, after [2][]c14Step) fineCase {
	full := "two-sessions-at-once/" + name
	return fineCase{Name: full, Run: func(prefix []int) vsched.RunResult {
		vclock.Reset()
		v := c14NewVerifier()
		v.Database = yieldDB{v.Database}
		names := [2]string{"10.0.0.1:1111", "10.0.0.2:2222"}
		var chal [2]*ntlmc.Challenge
		var viol []vsched.Violation
		add := func(k, d string) { viol = append(viol, vsched.Violation{Sig: "C14/" + k + "/" + full, Detail: d}) }
		do := func(s int, st c14Step, phase string) string {
			var msg string
			switch st.kind {
			case "neg":
				msg = base64.StdEncoding.EncodeToString(ntlmc.Negotiate())
			case "auth":
				p := ntlmc.AuthParams{User: st.user, Password: st.pw, ServerChallenge: make([]byte, 8)}
				if chal[s] != nil {
					p.ServerChallenge, p.TargetInfo = chal[s].ServerChallenge, chal[s].TargetInfo
				}
				msg = base64.StdEncoding.EncodeToString(ntlmc.Authenticate(p))
			case "garbage":
				msg = st.garbage
			}
			var r *auth.NtlmResponse
			var err error
			pan := ""
			func() {
				defer func() {
					if x := recover(); x != nil {
						pan = fmt.Sprint(x)
					}
				}()
				r, err = v.Authenticate(&auth.NtlmRequest{Session: names[s], NtlmMessage: msg})
			}()
			what := fmt.Sprintf("session %d, %s step %s(%s)", s+1, phase, st.kind, st.user)
			if pan != "" {
				add("panic", what+": "+pan)
				return "panic"
			}
			switch st.kind {
			case "neg":
				var ch *ntlmc.Challenge
				if err == nil && r != nil && r.NtlmMessage != "" {
					if raw, e := base64.StdEncoding.DecodeString(r.NtlmMessage); e == nil {
						ch, _ = ntlmc.ParseChallenge(raw)
					}
				}
				if ch == nil {
					add("negotiate-not-answered-with-challenge/next-to-another-session", fmt.Sprintf("%s: err=%v", what, err))
					return "no-challenge"
				}
				chal[s] = ch
				return "challenge"
			case "auth":
				got := r != nil && r.Authenticated
				switch {
				case st.wantAuth && (!got || r.Username != st.user):
					add("honest-client-refused/next-to-another-session", fmt.Sprintf("%s proves the configured password against this session's challenge: authenticated=%v err=%v", what, got, err))
				case !st.wantAuth && got:
					add("authenticated-without-proof/next-to-another-session", fmt.Sprintf("%s: authenticated as %q", what, r.Username))
				}
				return fmt.Sprintf("auth=%v", got)
			}
			if r != nil && r.Authenticated {
				add("authenticated-without-proof/next-to-another-session", what+": an undecodable message was authenticated")
			}
			return "garbage"
		}
		for s := 0; s < 2; s++ {
			for _, st := range prelude[s] {
				do(s, st, "earlier")
			}
		}
		var out [2]string
		x := fineThreads(prefix, func() { out[0] = do(0, conc[0], "concurrent") }, func() { out[1] = do(1, conc[1], "concurrent") })
		viol = append(viol, finePanics("C14", full, x)...)
		var fin []string
		for s := 0; s < 2; s++ {
			for _, st := range after[s] {
				fin = append(fin, do(s, st, "later"))
			}
		}
		x.Finish()
		return vsched.RunResult{X: x, Outcome: fmt.Sprintf("%s|%s|%v", out[0], out[1], fin), Violations: viol}
	}}
}

func init() {
	neg := c14Step{kind: "neg", wantChal: true}
	good := func(u string) c14Step { return c14Step{kind: "auth", user: u, pw: c14DB[u], wantAuth: true} }
	bad := func(u string) c14Step { return c14Step{kind: "auth", user: u, pw: "wrong-password"} }
	junk := func(g string) c14Step { return c14Step{kind: "garbage", garbage: g} }
	fineCases["C14"] = func() []fineCase {
		var out []fineCase
		both := [2][]c14Step{{neg}, {neg}}
		for _, o := range []struct {
			n string
			s c14Step
		}{{"auth-good+auth-good", good("bob")}, {"auth-good+auth-wrong-password", bad("bob")}, {"auth-good+auth-unknown-user", bad("mallory")},
			{"auth-good+not-base64", junk("!!!")}, {"auth-good+short-garbage", junk(base64.StdEncoding.EncodeToString([]byte("NTLMSSP\x00\x03\x00\x00\x00\x18\x00")))},
			{"auth-good+long-garbage", junk(base64.StdEncoding.EncodeToString(make([]byte, 600)))}, {"auth-good+negotiate-again", neg}} {
			out = append(out, c14ConcCase("both-negotiated/"+o.n, both, [2]c14Step{good("alice"), o.s}, [2][]c14Step{nil, nil}))
		}
		out = append(out, c14ConcCase("both-negotiated/auth-wrong+auth-good", both, [2]c14Step{bad("alice"), good("bob")}, [2][]c14Step{nil, nil}))
		// a service that has just started: the first two messages it ever sees arrive together
		out = append(out, c14ConcCase("fresh-service/negotiate+negotiate", [2][]c14Step{nil, nil}, [2]c14Step{neg, neg}, [2][]c14Step{{good("alice")}, {good("bob")}}))
		out = append(out, c14ConcCase("one-negotiated/auth-good+negotiate", [2][]c14Step{{neg}, nil}, [2]c14Step{good("alice"), neg}, [2][]c14Step{nil, {good("bob")}}))
		out = append(out, c14ConcCase("one-negotiated/auth-good+garbage-in-a-session-never-negotiated", [2][]c14Step{{neg}, nil}, [2]c14Step{good("alice"), junk("AAAA")}, [2][]c14Step{nil, {neg, good("bob")}}))
		return out
	}
}
