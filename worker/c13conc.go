package main

import (
	"fmt"
	"net/http"
	"time"

	"github.com/gorilla/sessions"

	"github.com/bolkedebruin/rdpgw/cmd/rdpgw/web"

	"verif/shim/vclock"
	"verif/shim/vsched"
)

// C13 part (4): two browsers log in concurrently. The session store is wrapped
// (verif hook in package web) so that entering Save is a scheduling point: the
// explorer can hold one callback between building the identity and persisting
// it while the other callback runs to completion.

type yieldStore struct{ inner sessions.Store }

func (y yieldStore) Get(r *http.Request, name string) (*sessions.Session, error) {
	return y.inner.Get(r, name)
}
func (y yieldStore) New(r *http.Request, name string) (*sessions.Session, error) {
	return y.inner.New(r, name)
}
func (y yieldStore) Save(r *http.Request, w http.ResponseWriter, s *sessions.Session) error {
	vsched.Point("session-save", func() bool { return true })
	return y.inner.Save(r, w, s)
}

func c13ConcRun(store string, prefix []int) vsched.RunResult {
	vclock.Reset()
	app := NewWebApp(WebCfg{Store: store, HostSelection: "roundrobin", Hosts: []string{"target.example:3389"}})
	web.VerifSetStore(yieldStore{web.VerifStore()})
	now := time.Now()
	users := []string{"victoria-with-a-long-name", "bob"}
	for _, u := range users {
		key := "conc:" + u
		if _, ok := c13IDTokens[key]; !ok {
			c13IDTokens[key] = app.IdP.IDToken(map[string]any{"iss": idpIssuer, "aud": "rdpgw", "sub": "s-" + u, "exp": now.Add(time.Hour).Unix(), "iat": now.Unix(), "preferred_username": u}, false)
		}
		app.IdP.Codes["conc-"+u] = CodeBehaviour{AccessToken: "at-" + u, IDToken: c13IDTokens[key]}
	}
	bs := []*Browser{NewBrowser("10.0.0.1:40000"), NewBrowser("10.0.0.2:40000")}
	done := make([]bool, 2)
	login := func(i int) {
		rec := bs[i].Do(app, "GET", "/connect")
		bs[i].Do(app, "GET", "/callback?state="+StateOf(rec)+"&code=conc-"+users[i])
		done[i] = true
	}
	var obs [2]whoami
	x := vsched.Run(prefix, 5000, false, nil, func() {
		vsched.GoDaemon("browser-W", func() { login(1) })
		login(0)
		vsched.Point("join", func() bool { return done[1] })
		for i := range bs {
			obs[i], _ = c13Who(app, bs[i])
		}
	})
	var v []vsched.Violation
	for _, p := range x.Panics() {
		v = append(v, vsched.Violation{Sig: "C13/panic-in-concurrent-logins/" + store, Detail: p.Value})
	}
	for i, u := range users {
		if len(x.Panics()) == 0 && (!obs[i].Authenticated || obs[i].User != u || obs[i].AccessToken != "at-"+u) {
			v = append(v, vsched.Violation{Sig: "C13/concurrent-login-stores-another-identity/" + store,
				Detail: fmt.Sprintf("browser %d logged in as %q (access token at-%s) but its session restores user=%q authenticated=%v access_token=%q", i, u, u, obs[i].User, obs[i].Authenticated, obs[i].AccessToken)})
		}
	}
	x.Finish()
	return vsched.RunResult{X: x, Outcome: fmt.Sprintf("%s: %q/%q", store, obs[0].User, obs[1].User), Violations: v}
}

func c13Conc(env *Env, rep *Report) int {
	if env.Shard != 0 {
		return 0
	}
	n := 0
	for _, store := range []string{"cookie", "file"} {
		store := store
		ex := &vsched.Explorer{Bound: 2, RunOne: func(p []int) vsched.RunResult { return c13ConcRun(store, p) }, Deadline: env.Deadline}
		if err := ex.Explore(); err != nil {
			infra("C13 concurrent logins: %v", err)
		}
		rep.add("executions", int64(ex.Execs))
		rep.add("transitions", int64(ex.Steps))
		n += ex.Execs
		for o, c := range ex.Outcomes {
			if rep.OutcomeSet == nil {
				rep.OutcomeSet = map[string]int64{}
			}
			rep.OutcomeSet["concurrent "+o] += int64(c)
		}
		for _, sig := range ex.FoundOrder {
			f := ex.Found[sig]
			rep.violate(f.Sig, f.Detail, map[string]any{"engine": "vsched", "store": store, "choices": f.Choices, "concurrent": true})
		}
		rep.sample(map[string]any{"part": "concurrent logins", "store": store, "schedules": ex.Execs, "preemption_bound": 2, "outcomes": len(ex.Outcomes)})
	}
	web.VerifSetStore(nil)
	return n
}
