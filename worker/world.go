package main

import (
	"bufio"
	"bytes"
	"context"
	"encoding/binary"
	"errors"
	"fmt"
	"io"
	"net"
	"net/http"
	"strconv"
	"strings"

	"github.com/bolkedebruin/rdpgw/cmd/rdpgw/identity"
	"github.com/bolkedebruin/rdpgw/cmd/rdpgw/protocol"
	"github.com/bolkedebruin/rdpgw/cmd/rdpgw/security"

	"verif/internal/tsgu"
	"verif/shim/vnet"
	"verif/shim/vsched"
)

// ---------------------------------------------------------------------------
// Backends and the per-execution network
// ---------------------------------------------------------------------------

// Backend is one accepted backend connection.
type Backend struct {
	Addr   string
	Conn   *vnet.PipeConn // backend's end
	GwSide *vnet.PipeConn // gateway's end
}

// World is the closed environment of one execution.
type World struct {
	Net      *vnet.Net
	Backends []*Backend
	// Accept decides whether a dial to addr is accepted; nil accepts nothing.
	Accept func(addr string) bool
	// OnBackend, if set, is called (in the dialling thread) for every accepted
	// backend connection; it may spawn a daemon thread that plays the host.
	OnBackend func(b *Backend)
	Handlers  []*HandlerRun
	// Segmented: client connections deliver one write per read (TCP may do that
	// as well as coalescing; some interleavings only exist this way)
	Segmented bool
	// PostRead: a scheduling point follows every read the gateway does on a client connection
	PostRead bool
	// ClientWindow > 0: the gateway's writes to a client block once that many bytes are unread (a client that
	// stopped reading)
	ClientWindow int
	// InIdentity != nil: the identity attached to the legacy RDG_IN_DATA request (the RDG_OUT_DATA request carries
	// the one passed to OpenTunnel): the two requests of one tunnel are authenticated separately
	InIdentity identity.Identity
	// BackendWindow > 0: the gateway's writes to a remote desktop host block once that many bytes are unread (a
	// host that stopped reading)
	BackendWindow int
	// InPreload: the first bytes of a legacy client's inbound body (its first chunk) arrive in the same segment as
	// the RDG_IN_DATA request head: net/http has read them already when the handler hijacks the connection
	InPreload []byte
	// Flags: named events the client scripts of a scenario signal to and wait for (wait:<name> / signal:<name>)
	Flags map[string]bool
	// Parties / Arrived: the "barrier" script op waits until the scripts of all tunnels of the scenario reached it
	Parties, Arrived int
}

// NewWorld installs a fresh network.
func NewWorld() *World {
	w := &World{Net: &vnet.Net{}}
	w.Net.OnDial = func(network, address string) (net.Conn, error) {
		if w.Accept == nil || !w.Accept(address) {
			return nil, nil
		}
		n := len(w.Backends)
		gwEnd, beEnd := vnet.NewPipe("gw>backend"+strconv.Itoa(n), "backend"+strconv.Itoa(n), true)
		gwEnd.PostRead = w.PostRead
		gwEnd.Window = w.BackendWindow
		b := &Backend{Addr: address, Conn: beEnd, GwSide: gwEnd}
		w.Backends = append(w.Backends, b)
		if w.OnBackend != nil {
			w.OnBackend(b)
		}
		return gwEnd, nil
	}
	vnet.Install(w.Net)
	protocol.VerifResetGlobals()
	return w
}

// BackendBytes returns everything the gateway wrote to backend i.
func (w *World) BackendBytes(i int) []byte {
	if i >= len(w.Backends) {
		return nil
	}
	return w.Backends[i].GwSide.Written
}

// ---------------------------------------------------------------------------
// Gateway construction, wired the way cmd/rdpgw/main.go wires it
// ---------------------------------------------------------------------------

// GwCfg is the slice of the configuration that reaches protocol.Gateway.
type GwCfg struct {
	TokenAuth     bool
	SmartCard     bool
	Redirect      protocol.RedirectFlags
	IdleTimeout   int
	HostSelection string
	Hosts         []string
	VerifyIP      bool
	// CookieCheck overrides security.CheckPAACookie (processor-level checks that
	// do not exercise the JWT path use a table cookie checker that still sets the
	// tunnel fields the way the real one does).
	CookieCheck protocol.CheckPAACookieFunc
}

// NewGateway mirrors main.go lines "gateway confg" .. "gw.CheckHost = ...".
func NewGateway(c GwCfg) *protocol.Gateway {
	security.HostSelection = c.HostSelection
	security.Hosts = c.Hosts
	security.VerifyClientIP = c.VerifyIP
	gw := &protocol.Gateway{
		RedirectFlags: c.Redirect,
		IdleTimeout:   c.IdleTimeout,
		SmartCardAuth: c.SmartCard,
		TokenAuth:     c.TokenAuth,
	}
	if c.TokenAuth {
		if c.CookieCheck != nil {
			gw.CheckPAACookie = c.CookieCheck
		} else {
			gw.CheckPAACookie = security.CheckPAACookie
		}
		gw.CheckHost = security.CheckSession(security.CheckHost)
	} else {
		gw.CheckHost = security.CheckHost
	}
	return gw
}

// NewIdentity builds the identity web.EnrichContext would attach.
func NewIdentity(user, clientIP, remoteAddr string) identity.Identity {
	id := identity.NewUser()
	id.SetUserName(user)
	id.SetAttribute(identity.AttrClientIp, clientIP)
	id.SetAttribute(identity.AttrRemoteAddr, remoteAddr)
	return id
}

// TableCookie is a cookie checker for processor-level checks: cookie text
// "ok:<host>:<ip>:<user>" is accepted and sets the tunnel fields exactly as
// security.CheckPAACookie does; anything else is refused.
func TableCookie(ctx context.Context, cookie string) (bool, error) {
	if !strings.HasPrefix(cookie, "ok|") {
		return false, errors.New("refused")
	}
	f := strings.Split(cookie, "|")
	if len(f) != 4 {
		return false, errors.New("refused")
	}
	t, ok := ctx.Value(protocol.CtxTunnel).(*protocol.Tunnel)
	if !ok {
		return false, errors.New("no tunnel")
	}
	t.TargetServer = f[1]
	t.RemoteAddr = f[2]
	t.User.SetUserName(f[3])
	return true, nil
}

// ---------------------------------------------------------------------------
// Processor-level driver: real Processor over a datagram-like pipe transport
// ---------------------------------------------------------------------------

type pipeTransport struct{ c *vnet.PipeConn }

func (p *pipeTransport) ReadPacket() (int, []byte, error) {
	buf := make([]byte, 1<<17)
	n, err := p.c.Read(buf)
	return n, buf[:n], err
}
func (p *pipeTransport) WritePacket(b []byte) (int, error) { return p.c.Write(b) }
func (p *pipeTransport) Close() error                      { return p.c.Close() }

// ProcRun is a Processor running in its own thread over a message pipe.
type ProcRun struct {
	Client   *vnet.PipeConn // harness end: one Write = one transport read of the gateway
	Tunnel   *protocol.Tunnel
	Proc     *protocol.Processor
	Returned bool
	Err      error
}

// StartProcessor starts Process in a new thread. After Process returns the
// transport is closed, as the deferred Close of the real handlers does.
func StartProcessor(gw *protocol.Gateway, id identity.Identity, remoteAddr string) *ProcRun {
	cl, srv := vnet.NewPipe("client", "gw>client", false)
	tr := &pipeTransport{srv}
	t := protocol.NewVerifTunnel(tr, tr, id, remoteAddr)
	ctx := context.WithValue(context.Background(), protocol.CtxTunnel, t)
	ctx = context.WithValue(ctx, identity.CTXKey, id)
	pr := &ProcRun{Client: cl, Tunnel: t, Proc: protocol.NewProcessor(gw, t)}
	vsched.Go("process", func() {
		pr.Err = pr.Proc.Process(ctx)
		pr.Returned = true
		tr.Close()
	})
	return pr
}

// ---------------------------------------------------------------------------
// Handler-level driver: real HandleGatewayProtocol over hijacked pipes
// ---------------------------------------------------------------------------

type fakeRW struct {
	conn     *vnet.PipeConn
	hdr      http.Header
	Code     int
	Body     bytes.Buffer
	Hijacked bool
	preload  []byte
}

func (w *fakeRW) Header() http.Header { return w.hdr }
func (w *fakeRW) WriteHeader(c int) {
	if w.Code == 0 {
		w.Code = c
	}
}
func (w *fakeRW) Write(b []byte) (int, error) {
	if w.Code == 0 {
		w.Code = 200
	}
	return w.Body.Write(b)
}
func (w *fakeRW) Hijack() (net.Conn, *bufio.ReadWriter, error) {
	w.Hijacked = true
	var rd io.Reader = w.conn
	if len(w.preload) > 0 {
		// bytes of the body that arrived together with the request head sit in the reader net/http hands out
		rd = io.MultiReader(bytes.NewReader(w.preload), w.conn)
	}
	return w.conn, bufio.NewReadWriter(bufio.NewReader(rd), bufio.NewWriter(w.conn)), nil
}

// HandlerRun is one HTTP request being served by the real handler in its own thread.
type HandlerRun struct {
	Name     string
	Client   *vnet.PipeConn // client's end of the TCP connection
	Srv      *vnet.PipeConn
	RW       *fakeRW
	Returned bool
}

// Serve starts h.ServeHTTP for one request in a new thread. When the handler
// returns without having hijacked the connection, the server side closes it
// (the harness speaks one request per connection).
func (w *World) Serve(name string, h http.Handler, method string, hdr http.Header, remoteAddr string, id identity.Identity) *HandlerRun {
	cl, srv := vnet.NewPipe(name+":client", name+":gw", !w.Segmented)
	srv.SetAddrs("10.9.9.9:443", remoteAddr)
	srv.PostRead = w.PostRead
	srv.Window = w.ClientWindow
	r, _ := http.NewRequest("GET", "http://gw.example/remoteDesktopGateway/", nil)
	r.Method = method
	r.RemoteAddr = remoteAddr
	r.RequestURI = "/remoteDesktopGateway/"
	for k, v := range hdr {
		r.Header[k] = v
	}
	if id != nil {
		r = identity.AddToRequestCtx(id, r)
	}
	rw := &fakeRW{conn: srv, hdr: http.Header{}}
	if w.InPreload != nil && method == "RDG_IN_DATA" {
		rw.preload = w.InPreload
	}
	hr := &HandlerRun{Name: name, Client: cl, Srv: srv, RW: rw}
	w.Handlers = append(w.Handlers, hr)
	vsched.Go("handler:"+name, func() {
		h.ServeHTTP(rw, r)
		hr.Returned = true
		if !rw.Hijacked {
			// what net/http does with a handler that returns on a connection it still owns: the response the
			// handler set (or 200 when it set none) with its body, then - the request methods of the gateway
			// protocol carry no usable framing for a second request - the connection is closed
			code := rw.Code
			if code == 0 {
				code = 200
			}
			srv.Write([]byte(fmt.Sprintf("HTTP/1.1 %d %s\r\nContent-Length: %d\r\n\r\n", code, http.StatusText(code), rw.Body.Len())))
			srv.Write(rw.Body.Bytes())
			srv.Close()
		}
	})
	return hr
}

func wsHeaders(connID string) http.Header {
	h := http.Header{}
	h.Set("Connection", "Upgrade")
	h.Set("Upgrade", "websocket")
	h.Set("Sec-WebSocket-Version", "13")
	h.Set("Sec-WebSocket-Key", "dGhlIHNhbXBsZSBub25jZQ==")
	if connID != "" {
		h.Set("Rdg-Connection-Id", connID)
	}
	return h
}

// TunnelClient is the client side of one tunnel over either transport.
type TunnelClient struct {
	Kind string // "ws" | "legacy" | "proc"
	// ws / proc: one connection. legacy: out + in.
	Conn       *vnet.PipeConn
	In         *vnet.PipeConn
	rbuf       []byte // unparsed bytes received on Conn
	stream     []byte // de-framed packet bytes received so far
	Pkts       []tsgu.Pkt
	consumed   int
	Closed     bool // server closed (EOF or ws close frame)
	CloseFrame bool
	HTTPHead   string
	FrameErr   string
	Seed       []byte
}

// readMore blocks for at least one more byte from the server; false on EOF / error.
func (c *TunnelClient) readMore() bool {
	buf := make([]byte, 1<<16)
	n, err := c.Conn.Read(buf)
	if n > 0 {
		c.rbuf = append(c.rbuf, buf[:n]...)
	}
	if err != nil {
		c.Closed = true
		return n > 0
	}
	return true
}

// ReadHTTPHead reads the response head (until the blank line).
func (c *TunnelClient) ReadHTTPHead() bool {
	for {
		if i := bytes.Index(c.rbuf, []byte("\r\n\r\n")); i >= 0 {
			c.HTTPHead = string(c.rbuf[:i+4])
			c.rbuf = c.rbuf[i+4:]
			return true
		}
		if !c.readMore() {
			return false
		}
	}
}

// Absorb takes whatever the server has sent so far (no blocking, no scheduling
// point) and de-frames it. Call after WaitIdle or after the execution.
func (c *TunnelClient) Absorb() {
	if p := c.Conn.Pending(); len(p) > 0 {
		c.rbuf = append(c.rbuf, p...)
	}
	if c.Conn.PeerClosed() {
		c.Closed = true
	}
	// legacy: the gateway ends a tunnel by closing the inbound connection
	if c.In != nil && c.In.PeerClosed() {
		c.Closed = true
	}
	c.deframe()
}

func (c *TunnelClient) deframe() {
	switch c.Kind {
	case "ws":
		for {
			if len(c.rbuf) < 2 {
				return
			}
			b0, b1 := c.rbuf[0], c.rbuf[1]
			l := int(b1 & 0x7f)
			o := 2
			if l == 126 {
				if len(c.rbuf) < 4 {
					return
				}
				l = int(binary.BigEndian.Uint16(c.rbuf[2:]))
				o = 4
			} else if l == 127 {
				if len(c.rbuf) < 10 {
					return
				}
				l = int(binary.BigEndian.Uint64(c.rbuf[2:]))
				o = 10
			}
			if b1&0x80 != 0 {
				c.FrameErr = "masked frame from server"
				return
			}
			if len(c.rbuf) < o+l {
				return
			}
			payload := c.rbuf[o : o+l]
			op := b0 & 0x0f
			switch op {
			case 2, 0:
				if b0&0x80 == 0 || op == 0 {
					c.FrameErr = "fragmented message from server"
				}
				// one websocket message must be exactly one packet
				pk, rest, err := tsgu.Split(payload)
				if err != nil || len(rest) != 0 || len(pk) != 1 {
					c.FrameErr = "websocket message of " + strconv.Itoa(len(payload)) + " bytes is not exactly one packet"
				}
				c.stream = append(c.stream, payload...)
			case 8:
				c.Closed = true
				c.CloseFrame = true
			case 9, 10:
			default:
				c.FrameErr = "unexpected opcode " + strconv.Itoa(int(op))
			}
			c.rbuf = c.rbuf[o+l:]
		}
	default:
		c.stream = append(c.stream, c.rbuf...)
		c.rbuf = nil
	}
}

// Packets returns all packets received so far plus undecodable trailing bytes.
func (c *TunnelClient) Packets() ([]tsgu.Pkt, []byte, error) {
	return tsgu.Split(c.stream)
}

// NewPackets returns the packets that arrived since the previous call.
func (c *TunnelClient) NewPackets() []tsgu.Pkt {
	all, _, _ := tsgu.Split(c.stream)
	out := all[c.consumed:]
	c.consumed = len(all)
	return out
}

// RecvPacket blocks until one more packet is available; nil when the server
// ended the stream.
func (c *TunnelClient) RecvPacket() *tsgu.Pkt {
	for {
		c.deframe()
		all, _, _ := tsgu.Split(c.stream)
		if len(all) > c.consumed {
			p := all[c.consumed]
			c.consumed++
			return &p
		}
		if c.Closed {
			return nil
		}
		if !c.readMore() {
			c.deframe()
			all, _, _ = tsgu.Split(c.stream)
			if len(all) > c.consumed {
				p := all[c.consumed]
				c.consumed++
				return &p
			}
			return nil
		}
	}
}

func wsFrame(opcode byte, fin bool, payload []byte) []byte {
	var b []byte
	b0 := opcode
	if fin {
		b0 |= 0x80
	}
	b = append(b, b0)
	switch {
	case len(payload) < 126:
		b = append(b, 0x80|byte(len(payload)))
	case len(payload) < 65536:
		b = append(b, 0x80|126, byte(len(payload)>>8), byte(len(payload)))
	default:
		b = append(b, 0x80|127)
		var l [8]byte
		binary.BigEndian.PutUint64(l[:], uint64(len(payload)))
		b = append(b, l[:]...)
	}
	mask := [4]byte{0x11, 0x22, 0x33, 0x44}
	b = append(b, mask[:]...)
	for i, x := range payload {
		b = append(b, x^mask[i%4])
	}
	return b
}

// SendSegment sends bytes of the packet stream as one transport unit: one
// binary websocket message / one HTTP chunk / one processor-level read.
func (c *TunnelClient) SendSegment(b []byte) {
	switch c.Kind {
	case "ws":
		c.Conn.Write(wsFrame(2, true, b))
	case "legacy":
		c.In.Write(append(append([]byte(strconv.FormatInt(int64(len(b)), 16)+"\r\n"), b...), '\r', '\n'))
	default:
		c.Conn.Write(b)
	}
}

// SendFragments sends one websocket message as several frames (ws only).
func (c *TunnelClient) SendFragments(parts ...[]byte) {
	for i, p := range parts {
		op := byte(0)
		if i == 0 {
			op = 2
		}
		c.Conn.Write(wsFrame(op, i == len(parts)-1, p))
	}
}

// CloseClient drops the client's connection(s).
func (c *TunnelClient) CloseClient() {
	c.Conn.Close()
	if c.In != nil {
		c.In.Close()
	}
}

// OpenTunnel opens a tunnel of the given kind against h (handler level) or gw
// (processor level) and returns once the transport is established. ok=false
// means the gateway did not accept the transport.
func (w *World) OpenTunnel(kind string, h http.Handler, gw *protocol.Gateway, connID, remoteAddr string, id identity.Identity, extra http.Header) (*TunnelClient, bool) {
	switch kind {
	case "proc":
		pr := StartProcessor(gw, id, remoteAddr)
		return &TunnelClient{Kind: "proc", Conn: pr.Client}, true
	case "ws":
		hd := wsHeaders(connID)
		for k, v := range extra {
			hd[k] = v
		}
		hr := w.Serve("ws-"+connID, h, "RDG_OUT_DATA", hd, remoteAddr, id)
		c := &TunnelClient{Kind: "ws", Conn: hr.Client}
		if !c.ReadHTTPHead() || !strings.HasPrefix(c.HTTPHead, "HTTP/1.1 101") {
			return c, false
		}
		return c, true
	case "legacy":
		hd := http.Header{}
		hd.Set("Rdg-Connection-Id", connID)
		for k, v := range extra {
			hd[k] = v
		}
		out := w.Serve("out-"+connID, h, "RDG_OUT_DATA", hd, remoteAddr, id)
		c := &TunnelClient{Kind: "legacy", Conn: out.Client}
		if !c.ReadHTTPHead() || !strings.HasPrefix(c.HTTPHead, "HTTP/1.1 200") {
			return c, false
		}
		// 10 seed bytes follow the head
		for len(c.rbuf) < 10 {
			if !c.readMore() {
				return c, false
			}
		}
		c.Seed = append([]byte{}, c.rbuf[:10]...)
		c.rbuf = c.rbuf[10:]
		idIn := id
		if w.InIdentity != nil {
			idIn = w.InIdentity
		}
		in := w.Serve("in-"+connID, h, "RDG_IN_DATA", hd, remoteAddr, idIn)
		c.In = in.Client
		ic := &TunnelClient{Kind: "legacy", Conn: in.Client}
		if !ic.ReadHTTPHead() || !strings.HasPrefix(ic.HTTPHead, "HTTP/1.1 200") {
			return c, false
		}
		if extra.Get("X-Verif-No-Preamble") != "" {
			// the caller ends the tunnel before the first byte on the inbound channel
			return c, true
		}
		// the preamble the gateway drains with one read before it starts parsing chunks:
		// wait until this connection's preamble was consumed (not for global quiescence,
		// which would serialise concurrent clients)
		c.In.Write([]byte("preamble"))
		inConn := c.In
		vsched.Point("await-preamble-drained", func() bool { return inConn.PeerDrained() || !vsched.Active() })
		return c, true
	}
	panic("unknown transport kind " + kind)
}

var _ = io.EOF
