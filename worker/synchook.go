//go:build verifoverlay

package main

import (
	sf "golang.org/x/sync/singleflight"

	"verif/shim/vsched"
	"verif/shim/vsync"
)

// Built only together with the overlay: the overlaid golang.org/x/sync/singleflight takes its mutex, wait
// group and goroutines through these functions, so that a caller waiting for a flight in progress is a
// blocked thread of the execution (and not a goroutine parked in the Go runtime, which the controlled
// scheduler cannot see).

type hookEntry struct {
	key any
	mu  *vsync.Mutex
	wg  *vsync.WaitGroup
}

var (
	hookOwner *vsched.Exec
	hookObjs  []hookEntry
)

//go:norace
func hookFor(key any) *hookEntry {
	if hookOwner != vsched.Cur() {
		hookOwner, hookObjs = vsched.Cur(), nil
	}
	for i := range hookObjs {
		if hookObjs[i].key == key {
			return &hookObjs[i]
		}
	}
	hookObjs = append(hookObjs, hookEntry{key: key, mu: &vsync.Mutex{}, wg: &vsync.WaitGroup{}})
	return &hookObjs[len(hookObjs)-1]
}

func init() {
	sf.VerifSync.Lock = func(k any) { hookFor(k).mu.Lock() }
	sf.VerifSync.Unlock = func(k any) { hookFor(k).mu.Unlock() }
	sf.VerifSync.WgAdd = func(k any, d int) { hookFor(k).wg.Add(d) }
	sf.VerifSync.WgWait = func(k any) { hookFor(k).wg.Wait() }
	sf.VerifSync.Go = func(name string, f func()) { vsched.Go(name, f) }
}
