package main

import (
	"bytes"
	"context"
	"fmt"
	"github.com/bolkedebruin/rdpgw/cmd/rdpgw/security"
	"github.com/bolkedebruin/rdpgw/cmd/rdpgw/web"
	"net/http"
	"os"
	"path/filepath"
	"regexp"
	"sort"
	"strconv"
	"strings"
	"time"

	dto "github.com/prometheus/client_model/go"

	"github.com/bolkedebruin/rdpgw/cmd/rdpgw/identity"
	"github.com/bolkedebruin/rdpgw/cmd/rdpgw/protocol"
	"github.com/prometheus/client_golang/prometheus"
	"github.com/prometheus/client_golang/prometheus/collectors"

	"verif/internal/tsgu"
	"verif/shim/vnet"
	"verif/shim/vsched"
)

// ---------------------------------------------------------------------------
// Concurrent tunnel scenarios (vsched exploration): used by C06b, C07, C09, C11
// ---------------------------------------------------------------------------

// TunnelPlan is what one client does.
type TunnelPlan struct {
	Kind   string // ws | legacy
	ConnID string
	User   string
	IP     string
	Host   string // backend host:port it asks for
	StopAt string // "" = full setup; otherwise stop the setup after: open, hs, tc, ta (then run End)
	Script []string
	// Script ops after the channel is open (or after StopAt):
	//  data:<tag>  send one DATA packet with payload <tag>
	//  ka          keep-alive
	//  close       CLOSE_CHANNEL and read the close response
	//  bad         an out-of-order packet (HANDSHAKE)
	//  garbage     bytes that cannot be framed (length field 3)
	//  drop        drop the client connection (websocket / legacy OUT+IN)
	//  dropin      drop only the legacy IN connection
	//  dropout     drop only the legacy OUT connection
	//  drain       read until the server ends the stream
	//  recv:<n>    read n data packets
	//  idle        wait until everything else is blocked
	//  settle      the same, used between two steps of a compound ending
	//  hostsay:<b> the remote desktop host writes <b> now
	//  partial:<n> the first n bytes of a 110-byte DATA packet
	//  ping        a websocket PING control frame
	//  send:<step> the canonical packet hs | tc | ta | cc, without waiting for its answer
	//  wait:<flag> block until another script signals <flag>; signal:<flag> sets it
	//  part1:<step>:<n> / part2:<step>:<n>  the first n bytes / the rest of the canonical packet hs | tc | ta | cc
	//  expect:<step>  read the response to that step
	//  reopen-out  legacy: a second RDG_OUT_DATA request with the same connection identifier
	//  barrier     block until the scripts of all tunnels of the scenario are here
	//  probe       record which resources of this very tunnel the gateway still holds now (other tunnels are alive)
	// real tokens (ConcScenario.RealCookie): the access token the cookie carries (default "at-"+User; "at-u~2" is
	// another token of u), whether the identity provider has revoked it, and the client address recorded in the
	// cookie (default IP)
	AccessToken string
	Revoked     bool
	CookieIP    string
	// Handshake != nil: the handshake request this client sends instead of the default one (version 1.0, cookie
	// authentication offered)
	Handshake []byte
	// Expect: "" = the tunnel is served; "deny-cc" = its channel request is refused with the policy status and
	// nothing is dialled for it; "deny-tc" = its tunnel request is refused
	Expect      string
	Chunks      [][]byte // what the backend of this tunnel writes after accepting
	BackendEnds bool     // backend closes after its chunks
	SplitLegacy bool     // legacy: open IN and OUT from two concurrent threads
	InFirst     bool     // legacy: send the IN request before the OUT request
	Cookie      string   // RealCookie scenarios: the minted token (filled by RunConc)
	// SessionCookie (scenarios with Enrich): the value of the web session cookie the client's requests carry; the
	// request then reaches the handler without an identity, as from the network
	SessionCookie string
	TokenHost     string // RealCookie scenarios: host the token is minted for ("" = Host)
}

// TunnelObs is the per-tunnel observation at the end of an execution.
type TunnelObs struct {
	Plan        TunnelPlan
	Opened      bool
	Resps       []string // type/status of non-data packets received, in order
	ClientData  []byte   // concatenated payloads of DATA packets received
	StreamErr   string   // client byte stream did not decode into whole well-formed packets
	BackendGot  []byte
	BackendIdx  int
	Dialled     []string
	SetupFailed string
	ClientConns []*vnet.PipeConn
	client      *TunnelClient
	// HS: the handshake response as the client received it (nil: none)
	HS *tsgu.Resp
	// Probe: what of this tunnel was still held by the gateway when its script reached "probe" ("" = no probe,
	// "released" = nothing)
	Probe string
}

// ConcScenario is a set of tunnels run concurrently.
type ConcScenario struct {
	// Enrich: the gateway endpoint is wrapped in web.EnrichContext as in main.go (the session store is
	// initialised); requests of plans with a SessionCookie carry it
	Enrich       bool
	Name         string
	Plans        []TunnelPlan
	Gw           GwCfg
	NegIdle      bool
	IdleTimeout  int  // > 0: the gateway is configured with (and announces) an idle timeout of that many minutes
	Segmented    bool // client connections deliver one write per read
	RealCookie   bool // cookies are tokens minted by security.GeneratePAAToken and checked by security.CheckPAACookie (userinfo round trip to the scripted IdP is a scheduling point)
	PostRead     bool // scheduling point after every gateway read on a client connection
	ClientWindow int  // > 0: gateway writes to a client block once that many bytes are unread
	RoundRobin   bool // default schedule advances the clients in lockstep (cyclic candidate order)
	InPreload    bool // legacy: the inbound body's first bytes arrive with the request head (World.InPreload)
	Fine         bool // statement-level scheduling points in web, security, identity, rdp are active
	Deviation    bool // bound deviations from the default schedule instead of preemptions (multi-tunnel scenarios)
	MaxSteps     int
	WithEnrich   bool
}

// ConcResult is everything the oracles of C06b/C07/C09/C11 need.
type ConcResult struct {
	X        *vsched.Exec
	Tunnels  []*TunnelObs
	World    *World
	GaugeWS  float64
	GaugeLeg float64
	Registry int
	Cache    int
	Final    map[string]protocol.VerifTunnelSnapshot
}

func init() {
	// the Go and process collectors stop the world on every Gather
	prometheus.Unregister(collectors.NewGoCollector())
	prometheus.Unregister(collectors.NewProcessCollector(collectors.ProcessCollectorOpts{}))
}

func gauge(name string) float64 {
	mfs, _ := prometheus.DefaultGatherer.Gather()
	for _, mf := range mfs {
		if mf.GetName() == name {
			for _, m := range mf.GetMetric() {
				return gaugeVal(m)
			}
		}
	}
	return -1
}

func gaugeVal(m *dto.Metric) float64 {
	if m.Gauge != nil {
		return m.Gauge.GetValue()
	}
	return -1
}

func concGwCfg(plans []TunnelPlan) GwCfg {
	hosts := []string{}
	for _, p := range plans {
		hosts = append(hosts, p.Host)
	}
	return GwCfg{TokenAuth: true, CookieCheck: TableCookie, HostSelection: "roundrobin", Hosts: hosts, VerifyIP: true}
}

func planCookie(p TunnelPlan) string {
	if p.Cookie != "" {
		return p.Cookie
	}
	return "ok|" + p.Host + "|" + p.IP + "|" + p.User
}

// mintCookies fills the plans' cookies with real tokens (outside the scheduler: minting does no I/O).
func mintCookies(sc *ConcScenario) {
	InstallIdP().SchedPoint = true
	security.SigningKey = []byte(c02Key)
	plans := append([]TunnelPlan{}, sc.Plans...)
	for i := range plans {
		p := &plans[i]
		cip := p.CookieIP
		if cip == "" {
			cip = p.IP
		}
		at := p.AccessToken
		if at == "" {
			at = "at-" + p.User
		}
		if p.Revoked {
			theIdP.Revoked[at] = true
		}
		id := NewIdentity(p.User, cip, cip+":40000")
		id.SetAttribute(identity.AttrAccessToken, at)
		ctx := context.WithValue(context.Background(), identity.CTXKey, id)
		host := p.TokenHost
		if host == "" {
			host = p.Host
		}
		tok, err := security.GeneratePAAToken(ctx, p.User, host)
		if err != nil {
			infra("minting a token: %v", err)
		}
		p.Cookie = tok
	}
	sc.Plans = plans
}

const (
	concSessionKey = "sessionkey-sessionkey-sessionkey"
	concSessionEnc = "encrypt-encrypt-encrypt-encrypt-"
)

var concSharedCookie string

// runClient plays one plan in the calling thread.
func runClient(w *World, h http.Handler, p TunnelPlan, o *TunnelObs) {
	id := NewIdentity("", p.IP, p.IP+":40000")
	var c *TunnelClient
	if p.Kind == "legacy" && (p.SplitLegacy || p.InFirst) {
		c = openLegacySplit(w, h, p, id, o)
		if c == nil {
			return
		}
	} else {
		var ok bool
		var extra http.Header
		if p.StopAt == "accepted" {
			extra = http.Header{"X-Verif-No-Preamble": {"1"}}
		}
		if p.SessionCookie != "" {
			if extra == nil {
				extra = http.Header{}
			}
			if concSharedCookie == "" {
				// the session of somebody who logged in at the web side (a portal user), as the gateway stores it
				wid := identity.NewUser()
				wid.SetUserName("portal")
				wid.SetAuthenticated(true)
				concSharedCookie = sessionCookieOf(concSessionKey, concSessionEnc, wid)
			}
			extra.Set("Cookie", "RDPGWSESSION="+concSharedCookie)
			id = nil
		}
		c, ok = w.OpenTunnel(p.Kind, h, nil, p.ConnID, p.IP+":40000", id, extra)
		o.ClientConns = append(o.ClientConns, c.Conn)
		if c.In != nil {
			o.ClientConns = append(o.ClientConns, c.In)
		}
		if !ok {
			o.SetupFailed = "transport"
			return
		}
	}
	o.Opened = true
	o.client = c
	expect := func(typ uint16) bool {
		pk := c.RecvPacket()
		if pk == nil {
			o.SetupFailed = "eof-waiting-for-" + strconv.Itoa(int(typ))
			return false
		}
		r := tsgu.ParseResp(*pk)
		if pk.Type == tsgu.TypeHandshakeResp && o.HS == nil {
			rr := r
			o.HS = &rr
		}
		if pk.Type != typ || r.Status != 0 {
			o.SetupFailed = "got-" + strconv.Itoa(int(pk.Type)) + "-status-" + strconv.FormatUint(uint64(r.Status), 16) + "-waiting-for-" + strconv.Itoa(int(typ))
			return false
		}
		return true
	}
	steps := []struct {
		name string
		pkt  []byte
		resp uint16
	}{
		{"hs", hsPacket(p), tsgu.TypeHandshakeResp},
		{"tc", tsgu.TunnelCreate(planCookie(p), true), tsgu.TypeTunnelResp},
		{"ta", tsgu.TunnelAuth("pc"), tsgu.TypeTunnelAuthResp},
		{"cc", tsgu.ChannelCreate(hostOf(p.Host), portOf(p.Host)), tsgu.TypeChannelResp},
	}
	if p.StopAt != "open" && p.StopAt != "accepted" {
		for _, s := range steps {
			if !(w.InPreload != nil && s.name == "hs" && p.Kind == "legacy") {
				c.SendSegment(s.pkt)
			}
			if !expect(s.resp) {
				return
			}
			if p.StopAt == s.name {
				break
			}
		}
	}
	for _, op := range p.Script {
		switch {
		case strings.HasPrefix(op, "data:"):
			c.SendSegment(tsgu.Data([]byte(op[5:])))
		case strings.HasPrefix(op, "bigdata:"):
			// one DATA packet of about 5000 bytes made of the tag repeated; on the legacy transport the
			// chunk header and the chunk body arrive in separate reads (so the body read goes straight
			// from the connection into the reader's buffer)
			tag := op[8:]
			pl := []byte(strings.Repeat(tag, 5000/len(tag)))
			pkt := tsgu.Data(pl)
			if c.Kind == "legacy" {
				c.In.Write([]byte(strconv.FormatInt(int64(len(pkt)), 16) + "\r\n"))
				c.In.Write(pkt)
				c.In.Write([]byte("\r\n"))
			} else {
				c.SendSegment(pkt)
			}
		case op == "ka":
			c.SendSegment(tsgu.Keepalive())
		case op == "close":
			c.SendSegment(tsgu.CloseChannel())
		case op == "bad":
			// a packet that is out of order in every phase the script can be in
			if p.StopAt == "open" {
				c.SendSegment(tsgu.TunnelAuth("pc"))
			} else {
				c.SendSegment(tsgu.Handshake(1, 0, 0, tsgu.ExtAuthPAA))
			}
		case op == "badcc":
			// a second CHANNEL_CREATE on a tunnel whose channel exists
			c.SendSegment(tsgu.ChannelCreate(hostOf(p.Host), portOf(p.Host)))
		case op == "garbage":
			c.SendSegment([]byte{0xA, 0, 0, 0, 3, 0, 0, 0, 1, 2})
			c.SendSegment([]byte{9, 9, 9})
		case op == "drop":
			c.CloseClient()
		case op == "dropin":
			if c.In != nil {
				c.In.Close()
			}
		case op == "dropout":
			c.Conn.Close()
		case op == "drain":
			for c.RecvPacket() != nil {
			}
		case strings.HasPrefix(op, "recv:"):
			n, _ := strconv.Atoi(op[5:])
			for i := 0; i < n; i++ {
				if c.RecvPacket() == nil {
					break
				}
			}
		case strings.HasPrefix(op, "recvbytes:"):
			// read data packets until n payload bytes arrived (or the stream ends)
			n, _ := strconv.Atoi(op[10:])
			got := 0
			for got < n {
				pk := c.RecvPacket()
				if pk == nil {
					break
				}
				if pk.Type == tsgu.TypeData && len(pk.Body) >= 2 {
					got += len(pk.Body) - 2
				}
			}
		case op == "idle":
			vsched.WaitIdle()
		case strings.HasPrefix(op, "hostsay:"):
			// the remote desktop host of this tunnel writes now (the client thread acts for it, so the
			// write is ordered after the script steps before it)
			if o.BackendIdx >= 0 && o.BackendIdx < len(w.Backends) {
				w.Backends[o.BackendIdx].Conn.Write([]byte(op[8:]))
			}
		case op == "ping":
			// a websocket PING control frame (clients and proxies send them to keep the connection alive)
			if c.Kind == "ws" {
				c.Conn.Write(wsFrame(9, true, []byte("keepalive")))
			}
		case strings.HasPrefix(op, "send:"):
			// one packet of the canonical sequence (hs, tc, ta, cc), sent without waiting for its answer
			for _, st := range steps {
				if st.name == op[5:] {
					c.SendSegment(st.pkt)
				}
			}
		case strings.HasPrefix(op, "partial:"):
			// the first n bytes of a 110-byte DATA packet, as one transport unit; the rest never comes
			n, _ := strconv.Atoi(op[8:])
			pkt := tsgu.Data([]byte(strings.Repeat("p", 100)))
			if n > len(pkt) {
				n = len(pkt)
			}
			c.SendSegment(pkt[:n])
		case op == "settle":
			// let the gateway react to what happened so far before the next step
			vsched.WaitIdle()
		case strings.HasPrefix(op, "part1:"), strings.HasPrefix(op, "part2:"):
			// the first n bytes / the rest of one packet of the canonical sequence, as one transport unit
			f := strings.Split(op, ":")
			n, _ := strconv.Atoi(f[2])
			for _, st := range steps {
				if st.name == f[1] && n < len(st.pkt) {
					if f[0] == "part1" {
						c.SendSegment(st.pkt[:n])
					} else {
						c.SendSegment(st.pkt[n:])
					}
				}
			}
		case strings.HasPrefix(op, "coalesced:"):
			// one transport unit of exactly n bytes: a DATA packet that fills it up to the ending packet
			// (CLOSE_CHANNEL, or an out-of-order handshake), which is its tail
			f := strings.Split(op, ":")
			n, _ := strconv.Atoi(f[1])
			tailPkt := tsgu.CloseChannel()
			if f[2] == "bad" {
				tailPkt = tsgu.Handshake(1, 0, 0, tsgu.ExtAuthPAA)
			}
			fill := n - len(tailPkt) - 10
			if fill >= 0 {
				c.SendSegment(append(tsgu.Data(bytes.Repeat([]byte{'d'}, fill)), tailPkt...))
			}
		case strings.HasPrefix(op, "expect:"):
			// read the response to a canonical step
			for _, st := range steps {
				if st.name == op[7:] {
					expect(st.resp)
				}
			}
		case op == "reopen-out":
			// legacy: a second RDG_OUT_DATA request with the same connection identifier (the client re-opens its
			// outbound channel); from now on responses are read from it
			if c.Kind == "legacy" {
				hd := http.Header{}
				hd.Set("Rdg-Connection-Id", p.ConnID)
				c.Absorb()
				out := w.Serve("out2-"+p.ConnID, h, "RDG_OUT_DATA", hd, p.IP+":40002", id)
				nc := &TunnelClient{Kind: "legacy", Conn: out.Client}
				ok := nc.ReadHTTPHead() && strings.HasPrefix(nc.HTTPHead, "HTTP/1.1 200")
				for ok && len(nc.rbuf) < 10 {
					ok = nc.readMore()
				}
				if !ok {
					o.SetupFailed = "outbound channel not accepted when re-opened"
					return
				}
				o.ClientConns = append(o.ClientConns, out.Client)
				c.Conn = out.Client
				c.rbuf = append(c.rbuf, nc.rbuf[10:]...)
			}
		case op == "barrier":
			w.Arrived++
			vsched.Point("barrier", func() bool { return w.Arrived >= w.Parties })
		case strings.HasPrefix(op, "wait:"):
			name := op[5:]
			vsched.Point("wait-for-"+name, func() bool { return w.Flags[name] })
		case strings.HasPrefix(op, "signal:"):
			if w.Flags == nil {
				w.Flags = map[string]bool{}
			}
			w.Flags[op[7:]] = true
		case op == "probe":
			var held []string
			for _, h := range w.Handlers {
				if strings.HasSuffix(h.Name, "-"+p.ConnID) && h.RW.Hijacked && !h.Srv.IsClosed() {
					held = append(held, "client-connection-left-open:"+strings.SplitN(h.Name, "-", 2)[0])
				}
			}
			if o.BackendIdx >= 0 && !w.Backends[o.BackendIdx].GwSide.IsClosed() {
				held = append(held, "backend-connection-left-open")
			}
			for k, s := range protocol.VerifConnections() {
				if k == p.ConnID || s.RDGId == p.ConnID {
					held = append(held, "registry-entry-left")
				}
			}
			sort.Strings(held)
			o.Probe = strings.Join(held, " ")
			if o.Probe == "" {
				o.Probe = "released"
			}
		}
	}
}

func hsPacket(p TunnelPlan) []byte {
	if p.Handshake != nil {
		return p.Handshake
	}
	return tsgu.Handshake(1, 0, 0, tsgu.ExtAuthPAA)
}

func hostOf(hp string) string {
	i := strings.LastIndex(hp, ":")
	return hp[:i]
}

func portOf(hp string) uint16 {
	i := strings.LastIndex(hp, ":")
	p, _ := strconv.Atoi(hp[i+1:])
	return uint16(p)
}

// openLegacySplit opens the two legacy connections in the requested order or
// concurrently from two threads.
func openLegacySplit(w *World, h http.Handler, p TunnelPlan, id identity.Identity, o *TunnelObs) *TunnelClient {
	hd := http.Header{}
	hd.Set("Rdg-Connection-Id", p.ConnID)
	c := &TunnelClient{Kind: "legacy"}
	openOut := func() bool {
		out := w.Serve("out-"+p.ConnID, h, "RDG_OUT_DATA", hd, p.IP+":40000", id)
		c.Conn = out.Client
		o.ClientConns = append(o.ClientConns, out.Client)
		if !c.ReadHTTPHead() || !strings.HasPrefix(c.HTTPHead, "HTTP/1.1 200") {
			return false
		}
		for len(c.rbuf) < 10 {
			if !c.readMore() {
				return false
			}
		}
		c.rbuf = c.rbuf[10:]
		return true
	}
	inOK := false
	openIn := func() {
		in := w.Serve("in-"+p.ConnID, h, "RDG_IN_DATA", hd, p.IP+":40001", id)
		c.In = in.Client
		o.ClientConns = append(o.ClientConns, in.Client)
		ic := &TunnelClient{Kind: "legacy", Conn: in.Client}
		if !ic.ReadHTTPHead() || !strings.HasPrefix(ic.HTTPHead, "HTTP/1.1 200") {
			return
		}
		inOK = true
		c.In.Write([]byte("preamble"))
	}
	switch {
	case p.SplitLegacy:
		done := false
		vsched.GoDaemon("client-in-"+p.ConnID, func() { openIn(); done = true })
		okOut := openOut()
		vsched.Point("join-in", func() bool { return done })
		if !okOut || !inOK {
			o.SetupFailed = "legacy-split"
			return nil
		}
	case p.InFirst:
		openIn()
		if !openOut() || !inOK {
			o.SetupFailed = "legacy-in-first"
			return nil
		}
	}
	vsched.WaitIdle()
	return c
}

func collectClient(c *TunnelClient, o *TunnelObs) {
	c.Absorb()
	pk, rest, err := c.Packets()
	if err != nil {
		o.StreamErr = "unframeable: " + err.Error()
	}
	if len(rest) > 0 && o.StreamErr == "" {
		o.StreamErr = fmt.Sprintf("%d trailing bytes do not form a packet", len(rest))
	}
	if c.FrameErr != "" && o.StreamErr == "" {
		o.StreamErr = c.FrameErr
	}
	for _, p := range pk {
		r := tsgu.ParseResp(p)
		if !r.WellFormed && o.StreamErr == "" {
			o.StreamErr = fmt.Sprintf("malformed packet type %#x: %s", p.Type, r.Why)
		}
		if p.Type == tsgu.TypeData {
			o.ClientData = append(o.ClientData, r.Payload...)
		} else {
			o.Resps = append(o.Resps, fmt.Sprintf("%#x/%#x", p.Type, r.Status))
		}
	}
}

// RunConc executes the scenario under the given schedule prefix.
func RunConc(sc ConcScenario, prefix []int, logOn bool) *ConcResult {
	res := &ConcResult{}
	curScenario = sc.Name
	if sc.RealCookie {
		mintCookies(&sc)
	}
	max := sc.MaxSteps
	if max == 0 {
		max = 5000
	}
	ws0, lg0 := gauge("rdpgw_websocket_connections"), gauge("rdpgw_legacy_connections")
	vsched.Fine = sc.Fine
	defer func() { vsched.Fine = false }()
	x := vsched.Run(prefix, max, logOn, func(x *vsched.Exec) { x.RoundRobin = sc.RoundRobin }, func() {
		w := NewWorld()
		w.Segmented = sc.Segmented
		w.PostRead = sc.PostRead
		w.ClientWindow = sc.ClientWindow
		w.Parties = len(sc.Plans)
		if sc.InPreload {
			// the chunk with the handshake request travels with the request head
			hs := hsPacket(sc.Plans[0])
			w.InPreload = append(append([]byte(strconv.FormatInt(int64(len(hs)), 16)+"\r\n"), hs...), '\r', '\n')
		}
		res.World = w
		cfg := sc.Gw
		if cfg.Hosts == nil {
			cfg = concGwCfg(sc.Plans)
		}
		if sc.NegIdle {
			cfg.IdleTimeout = -5
		}
		if sc.IdleTimeout > 0 {
			cfg.IdleTimeout = sc.IdleTimeout
		}
		if sc.RealCookie {
			cfg.CookieCheck = nil
		}
		gw := NewGateway(cfg)
		h := http.Handler(http.HandlerFunc(gw.HandleGatewayProtocol))
		if sc.Enrich {
			web.InitStore([]byte(concSessionKey), []byte(concSessionEnc), "cookie", 0)
			h = web.EnrichContext(h)
		}
		byHost := map[string]*TunnelObs{}
		for i := range sc.Plans {
			o := &TunnelObs{Plan: sc.Plans[i], BackendIdx: -1}
			res.Tunnels = append(res.Tunnels, o)
			byHost[sc.Plans[i].Host] = o
		}
		w.Accept = func(a string) bool { return byHost[a] != nil }
		w.OnBackend = func(b *Backend) {
			o := byHost[b.Addr]
			o.Dialled = append(o.Dialled, b.Addr)
			if o.BackendIdx >= 0 {
				return
			}
			o.BackendIdx = len(w.Backends) - 1
			pl := o.Plan
			vsched.GoDaemon("backend:"+pl.ConnID, func() {
				for _, ch := range pl.Chunks {
					b.Conn.Write(ch)
				}
				if pl.BackendEnds {
					b.Conn.Close()
					return
				}
				buf := make([]byte, 70000)
				for {
					_, err := b.Conn.Read(buf)
					if err != nil {
						return
					}
				}
			})
		}
		for i := 1; i < len(sc.Plans); i++ {
			i := i
			vsched.GoDaemon("client:"+sc.Plans[i].ConnID, func() { runClient(w, h, sc.Plans[i], res.Tunnels[i]) })
		}
		runClient(w, h, sc.Plans[0], res.Tunnels[0])
	})
	res.X = x
	for _, o := range res.Tunnels {
		if o.client != nil {
			collectClient(o.client, o)
		}
		if o.BackendIdx >= 0 {
			o.BackendGot = res.World.BackendBytes(o.BackendIdx)
		}
	}
	res.GaugeWS = gauge("rdpgw_websocket_connections") - ws0
	res.GaugeLeg = gauge("rdpgw_legacy_connections") - lg0
	res.Final = protocol.VerifConnections()
	res.Registry = len(res.Final)
	res.Cache = protocol.VerifCacheLen()
	return res
}

// ---------------------------------------------------------------------------
// Race-report capture (race build): the runtime appends reports to the file
// named by GORACE log_path; after every execution the new part is parsed and
// attributed to that execution's schedule.
// ---------------------------------------------------------------------------

type raceLog struct {
	path string
	off  int64
}

func newRaceLog() *raceLog {
	if !vsched.RaceEnabled {
		return nil
	}
	g := os.Getenv("GORACE")
	i := strings.Index(g, "log_path=")
	if i < 0 {
		return nil
	}
	p := g[i+len("log_path="):]
	if j := strings.IndexByte(p, ' '); j >= 0 {
		p = p[:j]
	}
	return &raceLog{path: fmt.Sprintf("%s.%d", p, os.Getpid())}
}

var reFrame = regexp.MustCompile(`(?m)^  (\S+)\(`)

// RaceReport is one parsed report.
type RaceReport struct {
	Sig   string
	Files string // coarser: the source files of the two gateway frames
	Text  string
}

var raceUnattributed int

// drain returns the reports written since the last call, filtered to those
// where both stacks run gateway code and neither innermost frame is harness code.
func (r *raceLog) drain() []RaceReport {
	if r == nil {
		return nil
	}
	f, err := os.Open(r.path)
	if err != nil {
		return nil
	}
	defer f.Close()
	st, _ := f.Stat()
	if st.Size() <= r.off {
		return nil
	}
	buf := make([]byte, st.Size()-r.off)
	f.ReadAt(buf, r.off)
	r.off = st.Size()
	var out []RaceReport
	for _, blk := range strings.Split(string(buf), "==================") {
		if !strings.Contains(blk, "WARNING: DATA RACE") {
			continue
		}
		// split into the two access stacks
		parts := regexp.MustCompile(`(?m)^(Read|Write|Previous read|Previous write) at `).Split(blk, -1)
		kinds := regexp.MustCompile(`(?m)^(Read|Write|Previous read|Previous write) at `).FindAllStringSubmatch(blk, -1)
		if len(parts) < 3 || len(kinds) < 2 {
			continue
		}
		var sides, files []string
		okBoth := true
		if strings.Contains(blk, "failed to restore the stack") {
			raceUnattributed++
		}
		for i := 0; i < 2; i++ {
			stack := parts[i+1]
			if j := strings.Index(stack, "\n\n"); j >= 0 {
				stack = stack[:j]
			}
			frames := reFrame.FindAllStringSubmatch(stack, -1)
			if len(frames) == 0 {
				okBoth = false
				break
			}
			top := frames[0][1]
			gwFrame := ""
			for _, fr := range frames {
				if strings.Contains(fr[1], "github.com/bolkedebruin/rdpgw/") {
					gwFrame = fr[1]
					break
				}
			}
			// only accesses made by scheduled threads count (not the controller's observations)
			if !strings.Contains(stack, "vsched.threadMain") {
				okBoth = false
				break
			}
			// the network shim copies into / out of the caller's buffer on behalf of the
			// code under test, exactly where the runtime annotates real socket reads and
			// writes: such accesses belong to the gateway frame below them
			if strings.HasPrefix(top, "verif/shim/vnet.") || strings.HasPrefix(top, "verif/shim/vsched.WriteRange") || strings.HasPrefix(top, "verif/shim/vsched.ReadRange") || strings.HasPrefix(top, "runtime.Race") {
				top = gwFrame
			}
			if gwFrame == "" || strings.HasPrefix(top, "verif/") || strings.HasPrefix(top, "main.") {
				okBoth = false
				break
			}
			k := strings.ToLower(strings.TrimPrefix(kinds[i][1], "Previous "))
			sides = append(sides, k+" "+shortFn(gwFrame))
			if m := regexp.MustCompile(regexp.QuoteMeta(gwFrame) + `\(\)\n\s+(\S+?):\d+`).FindStringSubmatch(stack); m != nil {
				files = append(files, filepath.Base(m[1]))
			}
		}
		if !okBoth {
			continue
		}
		sort.Strings(sides)
		sort.Strings(files)
		out = append(out, RaceReport{Sig: strings.Join(sides, " <-> "), Files: strings.Join(files, "+"), Text: strings.TrimSpace(blk)})
	}
	return out
}

func shortFn(f string) string {
	f = strings.TrimPrefix(f, "github.com/bolkedebruin/rdpgw/")
	f = strings.TrimPrefix(f, "cmd/rdpgw/")
	return f
}

var _ = bytes.Equal
var _ = filepath.Join
var _ = time.Now

// ---------------------------------------------------------------------------
// Exploration wrapper
// ---------------------------------------------------------------------------

// exploreConc explores every schedule of sc up to the preemption bound and
// feeds each execution to check. Violations carry the schedule as replay data.
func exploreConc(env *Env, rep *Report, sc ConcScenario, bound int, rl *raceLog,
	check func(res *ConcResult, races []RaceReport) (outcome string, viols []vsched.Violation)) {
	runOne := func(prefix []int) vsched.RunResult {
		res := RunConc(sc, prefix, false)
		races := rl.drain()
		outcome, viols := check(res, races)
		if res.X.Abort == "max-steps" {
			viols = append(viols, vsched.Violation{Sig: "livelock-or-step-cap/" + sc.Name, Detail: "execution exceeded the step cap"})
		}
		res.X.Finish()
		rl.drain()
		return vsched.RunResult{X: res.X, Outcome: outcome, Violations: viols}
	}
	// determinism guard: the default schedule twice
	a, b := runOne(nil), runOne(nil)
	if a.Outcome != b.Outcome || len(a.X.Decisions) != len(b.X.Decisions) {
		// the same schedule of the same scenario twice, two observations: either the harness fails to control
		// something (an infrastructure error), or the code under test keeps state that survives from one
		// execution to the next and decides with it. If one of the two runs breaks the oracle, that is the
		// verdict (every execution must satisfy it), reported without a schedule to replay.
		if vs := append(append([]vsched.Violation{}, a.Violations...), b.Violations...); len(vs) > 0 {
			for _, v := range vs {
				rep.violate(v.Sig, "(the default schedule run twice gave two different observations: the outcome depends on state of the gateway that survives the execution: "+trunc200(a.Outcome)+" / "+trunc200(b.Outcome)+") "+v.Detail, map[string]any{"noreplay": true})
			}
			return
		}
		infra("scenario %s is not deterministic under replay: %q vs %q", sc.Name, a.Outcome, b.Outcome)
	}
	// the race runtime reports each pair of stacks once per process, so the guard
	// runs must not swallow reports: their violations are merged into the root execution
	a.Violations = append(a.Violations, b.Violations...)
	first := true
	inner := runOne
	runOne = func(prefix []int) vsched.RunResult {
		if first && len(prefix) == 0 {
			first = false
			return a
		}
		return inner(prefix)
	}
	ex := &vsched.Explorer{Bound: bound, AllSwitchesCost: sc.Deviation, Shard: env.Shard, NShards: env.NShards, Deadline: env.Deadline, RunOne: runOne}
	if err := ex.Explore(); err != nil {
		infra("%s: %v", sc.Name, err)
	}
	rep.add("executions", int64(ex.Execs))
	rep.add("transitions", int64(ex.Steps))
	rep.add("decision_points", int64(ex.Decisions))
	rep.add("states", int64(ex.Steps)) // stateless search: every scheduling point visited is a state of some execution
	if rep.OutcomeSet == nil {
		rep.OutcomeSet = map[string]int64{}
	}
	for o, n := range ex.Outcomes {
		rep.OutcomeSet[trunc200(sc.Name+": "+o)] += int64(n)
	}
	if ex.Capped != "" {
		rep.capf("%s bound %d: %s after %d executions", sc.Name, bound, ex.Capped, ex.Execs)
	}
	if env.Shard == 0 {
		rep.sample(map[string]any{"scenario": sc.Name, "bound": bound, "bound_kind": boundKind(sc), "executions_this_shard": ex.Execs, "max_decision_points": ex.MaxDec,
			"default_schedule_outcome": a.Outcome, "distinct_outcomes_this_shard": len(ex.Outcomes)})
	}
	for _, sig := range ex.FoundOrder {
		f := ex.Found[sig]
		for i := 0; i < f.Count; i++ {
			rp := map[string]any{"engine": "vsched", "scenario": sc.Name, "choices": f.Choices, "preemptions": f.Preemptions}
			if strings.HasPrefix(f.Detail, "race-files=") {
				// which pair of conflicting accesses the race runtime reports first for one
				// schedule varies between processes; a replay counts as reproduced when it
				// reports a race between the same source files
				rp["alt_sig"] = strings.SplitN(strings.TrimPrefix(f.Detail, "race-files="), "\n", 2)[0]
				// a race report is never spurious, but the race runtime does not report
				// every racy pair on every run of the same schedule (bounded shadow state)
				rp["min_repro"] = 1
			}
			rep.violate(f.Sig, f.Detail, rp)
		}
	}
}

func trunc200(o string) string {
	if len(o) > 200 {
		o = o[:200]
	}
	return o
}

// replayConc re-executes one recorded schedule with logging on.
func replayConc(rep *Report, sc ConcScenario, rp map[string]any, rl *raceLog,
	check func(res *ConcResult, races []RaceReport) (string, []vsched.Violation)) {
	var prefix []int
	if cs, ok := rp["choices"].([]any); ok {
		for _, c := range cs {
			if f, ok := c.(float64); ok {
				prefix = append(prefix, int(f))
			}
		}
	}
	res := RunConc(sc, prefix, true)
	races := rl.drain()
	outcome, viols := check(res, races)
	res.X.Finish()
	for _, l := range res.X.Log {
		fmt.Println(l)
	}
	fmt.Println("outcome:", outcome)
	for _, b := range res.X.Blocked {
		fmt.Printf("blocked at quiescence: t%d %s on %s\n", b.ID, b.Name, b.Desc)
	}
	for _, v := range viols {
		fmt.Println("violation:", v.Sig, "—", v.Detail)
		rep.violate(v.Sig, v.Detail, rp)
	}
}

func boundKind(sc ConcScenario) string {
	if sc.Deviation {
		return "deviations from the default schedule (every non-default choice costs 1)"
	}
	return "preemptions (switches at blocking points are free)"
}

// expectCheck judges every tunnel of a scenario against its plan's Expect.
func expectCheck(prop string, sc ConcScenario) func(res *ConcResult, races []RaceReport) (string, []vsched.Violation) {
	return func(res *ConcResult, races []RaceReport) (string, []vsched.Violation) {
		var v []vsched.Violation
		add := func(k, d string) { v = append(v, vsched.Violation{Sig: prop + "/" + k + "/" + sc.Name, Detail: d}) }
		for _, p := range res.X.Panics() {
			add("panic:"+shortFn(panicSite(p)), p.Value)
		}
		var o []string
		dialled := map[string]int{}
		for _, d := range res.World.Net.Dials {
			dialled[d.Address]++
		}
		for _, t := range res.Tunnels {
			p := t.Plan
			who := fmt.Sprintf("tunnel %s (user %s from %s asking for %s)", p.ConnID, p.User, p.IP, p.Host)
			switch p.Expect {
			case "":
				if t.SetupFailed != "" {
					add("tunnel-that-must-be-served-is-refused", who+": "+t.SetupFailed)
				}
			case "deny-cc":
				want := "got-9-status-" + fmt.Sprintf("%x", tsgu.ERAPAccessDenied) + "-waiting-for-9"
				if t.SetupFailed != want {
					add("channel-that-must-be-refused-is-not", fmt.Sprintf("%s: %q, want %q", who, t.SetupFailed, want))
				}
			case "deny-tc":
				if !strings.Contains(t.SetupFailed, "waiting-for-5") {
					add("tunnel-request-that-must-be-refused-is-not", fmt.Sprintf("%s: %q", who, t.SetupFailed))
				}
			}
			o = append(o, fmt.Sprintf("%s=%q", p.ConnID, t.SetupFailed))
		}
		// connections to hosts: at most one per tunnel that is to be served, none for the others
		allowed := map[string]int{}
		for _, t := range res.Tunnels {
			if t.Plan.Expect == "" {
				allowed[t.Plan.Host]++
			}
		}
		for addr, n := range dialled {
			if n > allowed[addr] {
				add("dial-for-a-refused-tunnel", fmt.Sprintf("%d connection(s) to %s, %d tunnel(s) may have one", n, addr, allowed[addr]))
			}
		}
		return strings.Join(o, " "), v
	}
}
