package main

import (
	"bytes"
	"fmt"
	"net"
	"net/http/httptest"
	"strings"

	"verif/internal/der"
	"verif/shim/vnet"
	"verif/shim/vsched"
)

// C20, two requests at the same time (the handler runs once per request, concurrently, in the gateway): each
// request is answered as if it were alone. A request whose KDC answers is answered without waiting for anybody
// else's deadline.

type kdcPair struct {
	Name   string
	Realms [2]string // default | second | child
	TCP    [2]string // behaviour of the KDC (TCP) each request's realm reaches; UDP is silent
}

type kdcPairResult struct {
	X       *vsched.Exec
	Code    [2]int
	Body    [2][]byte
	Req     [2][]byte
	Conns   []*kdcConn
	Timers  [2]int // timers that had fired when the request was answered
	Blocked []string
}

var pairHost = map[string]string{"default": "kdc1.example.com:88", "second": "kdc.second.org:88", "child": "kdc.emea.example.com:88"}

func runKdcPair(sc kdcPair, prefix []int, logOn bool) *kdcPairResult {
	res := &kdcPairResult{}
	proxy := kdcProxyFor(1)
	for i := 0; i < 2; i++ {
		res.Req[i] = kdcMessage(100 + 7*i)
	}
	x := vsched.Run(prefix, 40000, logOn, nil, func() {
		n := &vnet.Net{}
		n.OnDial = func(network, address string) (net.Conn, error) {
			beh := "silent"
			if network != "udp" {
				for i := 0; i < 2; i++ {
					if pairHost[sc.Realms[i]] == address {
						beh = sc.TCP[i]
					}
				}
			}
			idx := len(res.Conns)
			kc := &kdcConn{Proto: network, Addr: address, Behaviour: beh}
			res.Conns = append(res.Conns, kc)
			if beh == "refuse" {
				return nil, nil
			}
			gwEnd, kdcEnd := vnet.NewPipe(fmt.Sprintf("gw>kdc%d", idx), fmt.Sprintf("kdc%d", idx), network != "udp")
			if network == "udp" {
				gwEnd.NoEOF, kdcEnd.NoEOF = true, true
				gwEnd.MaxDatagram, kdcEnd.MaxDatagram = 65507, 65507
			}
			kc.pc = gwEnd
			kc.Reply = kdcReply(idx, network)
			vsched.GoDaemon(fmt.Sprintf("kdc%d-%s", idx, network), func() { kdcPlay(kc, kdcEnd, network, beh) })
			return gwEnd, nil
		}
		vnet.Install(n)
		done := 0
		for i := 0; i < 2; i++ {
			i := i
			vsched.Go(fmt.Sprintf("request-%d", i), func() {
				r := httptest.NewRequest("POST", "http://gw.example/KdcProxy", bytes.NewReader(kdcBody(res.Req[i], sc.Realms[i])))
				rec := httptest.NewRecorder()
				proxy.Handler(rec, r)
				res.Code[i], res.Body[i] = rec.Code, rec.Body.Bytes()
				res.Timers[i] = len(vsched.Cur().TimerLog)
				done++
			})
		}
		vsched.Point("join-requests", func() bool { return done == 2 })
	})
	res.X = x
	for _, b := range x.Blocked {
		if !b.Daemon {
			res.Blocked = append(res.Blocked, b.Name+" on "+b.Desc)
		}
	}
	return res
}

func kdcPairCheck(sc kdcPair, res *kdcPairResult) (string, []vsched.Violation) {
	var v []vsched.Violation
	add := func(k, d string) { v = append(v, vsched.Violation{Sig: "C20/" + k + "/" + sc.Name, Detail: d}) }
	for _, p := range res.X.Panics() {
		add("panic:"+shortFn(panicSite(p)), p.Value)
	}
	for _, b := range res.Blocked {
		add("request-never-answered-or-goroutine-left", b)
	}
	var o []string
	for i := 0; i < 2; i++ {
		good := goodTCP[sc.TCP[i]]
		who := fmt.Sprintf("request %d (realm %s, its KDC: %s)", i, sc.Realms[i], sc.TCP[i])
		o = append(o, fmt.Sprintf("%d:%d/t%d", i, res.Code[i], res.Timers[i]))
		switch {
		case good && res.Code[i] != 200:
			add("reachable-kdc-but-no-answer/next-to-another-request", fmt.Sprintf("%s: status %d", who, res.Code[i]))
		case !good && res.Code[i] == 200:
			add("answer-invented/next-to-another-request", who)
		case good:
			m, err := der.ParseKdcProxyMessage(res.Body[i])
			ok := false
			for _, c := range res.Conns {
				if c.Proto == "tcp" && c.Addr == pairHost[sc.Realms[i]] && bytes.Equal(c.Got, res.Req[i]) && bytes.Equal(m, c.Reply) {
					ok = true
				}
			}
			if err != nil || !ok {
				add("reply-of-another-request-or-altered/next-to-another-request", fmt.Sprintf("%s: body carries %q, which is not the reply of a connection that received this request's message", who, m))
			}
			if res.Timers[i] > 0 {
				add("answer-waits-for-another-requests-deadline", fmt.Sprintf("%s: its KDC replied at once, the response was written after %d deadline(s) had passed", who, res.Timers[i]))
			}
		}
	}
	// every message a KDC received is one of the two requests', on a connection to that request's realm
	for _, c := range res.Conns {
		if c.pc == nil || len(c.Got) == 0 {
			continue
		}
		ok := false
		for i := 0; i < 2; i++ {
			want := res.Req[i]
			if c.Proto == "udp" {
				want = want[4:]
			}
			if bytes.Equal(c.Got, want) && c.Addr == pairHost[sc.Realms[i]] {
				ok = true
			}
		}
		if !ok {
			add("kdc-received-a-message-not-meant-for-it", fmt.Sprintf("%s %s received %d bytes", c.Proto, c.Addr, len(c.Got)))
		}
		if c.pc != nil && !c.pc.IsClosed() {
			add("kdc-connection-left-open", fmt.Sprintf("%s %s", c.Proto, c.Addr))
		}
	}
	return strings.Join(o, " "), v
}

func c20Pairs() []kdcPair {
	var out []kdcPair
	for _, realms := range [][2]string{{"default", "default"}, {"default", "second"}, {"child", "default"}} {
		for _, tcp := range [][2]string{{"reply-close", "reply-close"}, {"reply-keepopen", "reply-two-writes"}, {"silent", "reply-close"}, {"reply-keepopen", "silent"}, {"refuse", "reply-close"}, {"half-close", "reply-keepopen"}} {
			if realms[0] == realms[1] && tcp[0] != tcp[1] {
				continue // one realm has one KDC here: both requests meet the same behaviour
			}
			out = append(out, kdcPair{Name: fmt.Sprintf("pair/%s+%s/%s+%s", realms[0], realms[1], tcp[0], tcp[1]), Realms: realms, TCP: tcp})
		}
	}
	return out
}

func c20PairExplore(env *Env, rep *Report, bound int) int {
	n := 0
	for i, sc := range c20Pairs() {
		if !env.mine(i) {
			continue
		}
		sc := sc
		curScenario = sc.Name
		run := func(prefix []int) vsched.RunResult {
			res := runKdcPair(sc, prefix, false)
			o, v := kdcPairCheck(sc, res)
			res.X.Finish()
			return vsched.RunResult{X: res.X, Outcome: o, Violations: v}
		}
		ex := &vsched.Explorer{Bound: bound, AllSwitchesCost: true, Deadline: env.Deadline, RunOne: run}
		if err := ex.Explore(); err != nil {
			infra("C20 %s: %v", sc.Name, err)
		}
		if ex.Capped != "" {
			rep.capf("%s: %s", sc.Name, ex.Capped)
		}
		rep.add("executions", int64(ex.Execs))
		rep.add("transitions", int64(ex.Steps))
		n += ex.Execs
		for o := range ex.Outcomes {
			rep.outcome(sc.Name + ": " + o)
		}
		for _, sig := range ex.FoundOrder {
			f := ex.Found[sig]
			rep.violate(f.Sig, f.Detail, map[string]any{"engine": "vsched", "scenario": sc.Name, "choices": f.Choices})
		}
	}
	return n
}

func c20PairReplay(env *Env, rep *Report) bool {
	name, _ := env.Replay["scenario"].(string)
	for _, sc := range c20Pairs() {
		if sc.Name != name {
			continue
		}
		var prefix []int
		if cs, ok := env.Replay["choices"].([]any); ok {
			for _, c := range cs {
				if f, ok := c.(float64); ok {
					prefix = append(prefix, int(f))
				}
			}
		}
		res := runKdcPair(sc, prefix, true)
		o, v := kdcPairCheck(sc, res)
		res.X.Finish()
		for _, l := range res.X.Log {
			fmt.Println(l)
		}
		fmt.Println("outcome:", o)
		for _, x := range v {
			rep.violate(x.Sig, x.Detail, env.Replay)
		}
		return true
	}
	return false
}
