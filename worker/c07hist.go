package main

import (
	"fmt"
	"net/http"
	"net/url"
	"strings"
	"time"

	"verif/internal/tsgu"
	"verif/shim/vclock"
	"verif/shim/vrand"
	"verif/shim/vsched"

	"github.com/bolkedebruin/rdpgw/cmd/rdpgw/web"
)

// c07UserHistories: the web side and the tunnel side of one gateway process, wired the way main.go wires them
// (ONE host list handed to the download handler and to the tunnels' host policy), serve two users one after the
// other. Alphabet, per user: a download; a download followed by a tunnel that presents the file's token and asks
// for the user's own host; the same tunnel asking for the other user's host; a download the selection mode
// refuses. Every sequence of two (thorough: three) of these eight operations, for the host selection modes that
// take the host from the configured list. Oracle: every operation has the outcome it has as the first operation
// of a fresh process — file and token name the user's own host, the own host is reached with exactly one dial,
// the other user's host is refused without a dial: token host, user and reachable host of one user's tunnel do
// not depend on what another user did before.
func c07UserHistories(env *Env, rep *Report) int {
	type op struct {
		user int
		kind string // dl | own | other | dl-refused
	}
	users := []string{"alice", "bob"}
	var alphabet []op
	for u := range users {
		for _, k := range []string{"dl", "own", "other", "dl-refused"} {
			alphabet = append(alphabet, op{u, k})
		}
	}
	depth := 2
	if env.thorough() {
		depth = 3
	}
	var seqs [][]int
	var gen func(cur []int)
	gen = func(cur []int) {
		if len(cur) > 0 {
			seqs = append(seqs, append([]int{}, cur...))
		}
		if len(cur) == depth {
			return
		}
		for i := range alphabet {
			gen(append(cur, i))
		}
	}
	gen(nil)
	template := "{{ preferred_username }}-pc.example:3389"
	own := func(u int) string { return strings.Replace(template, "{{ preferred_username }}", users[u], 1) }
	n := 0
	for _, mode := range []string{"roundrobin", "unsigned"} {
		for si, seq := range seqs {
			if !env.mine(si) {
				continue
			}
			n++
			rep.add("executions", 1)
			vclock.Reset()
			hosts := []string{"hosta.example:3389", template} // one slice for both sides, as in main.go
			vrand.Choice = 1
			app := NewWebApp(WebCfg{Store: "cookie", HostSelection: mode, Hosts: hosts, VerifyClientIP: true})
			now := time.Now()
			var bs []*Browser
			for i, u := range users {
				key := "c07hist-" + u
				if _, ok := c13IDTokens[key]; !ok {
					c13IDTokens[key] = app.IdP.IDToken(map[string]any{"iss": idpIssuer, "aud": "rdpgw", "sub": u, "exp": now.Add(time.Hour).Unix(), "iat": now.Unix(), "preferred_username": u}, false)
				}
				app.IdP.Codes[key] = CodeBehaviour{AccessToken: "at-" + u, IDToken: c13IDTokens[key]}
				b := NewBrowser(fmt.Sprintf("10.0.0.%d:40000", i+1))
				rec := b.Do(app, "GET", "/connect")
				b.Do(app, "GET", "/callback?state="+StateOf(rec)+"&code="+key)
				bs = append(bs, b)
			}
			var names []string
			for _, oi := range seq {
				o := alphabet[oi]
				names = append(names, users[o.user]+":"+o.kind)
				hist := mode + " " + strings.Join(names, " ")
				bad := func(kind, detail string) {
					rep.violate("C07/user-affected-by-earlier-activity-of-another-user/"+kind+"/"+mode, "history "+hist+": "+detail, map[string]any{"noreplay": true})
				}
				target := "/connect"
				switch {
				case o.kind == "dl-refused":
					target += "?host=" + url.QueryEscape("elsewhere.example:3389")
				case mode == "unsigned":
					target += "?host=" + url.QueryEscape(template)
				}
				rec := bs[o.user].Do(app, "GET", target)
				if mode == "unsigned" && o.kind != "dl-refused" && rec.Code != 200 && rec.Code != 599 {
					// a gateway that wants the entry by its resolved name instead of verbatim is as good
					rec = bs[o.user].Do(app, "GET", "/connect?host="+url.QueryEscape(own(o.user)))
				}
				body := rec.Body.String()
				if rec.Code == 599 {
					bad("panic", body)
					break
				}
				if o.kind == "dl-refused" {
					if mode == "unsigned" && (rec.Code == 200 || strings.Contains(body, "gatewayaccesstoken")) {
						bad("file-served-for-unlisted-host", fmt.Sprintf("status %d", rec.Code))
					}
					continue
				}
				if rec.Code != 200 {
					bad("download-refused", fmt.Sprintf("status %d %.80q", rec.Code, body))
					continue
				}
				lines, why := refRdpLines(body)
				if why != "" {
					bad("file-not-well-formed", why)
					continue
				}
				got := map[string]string{}
				for _, l := range lines {
					got[l.Name] = l.Value
				}
				if got["full address"] != own(o.user) {
					bad("file-names-another-host", fmt.Sprintf("%s's file names %q, own host is %q", users[o.user], got["full address"], own(o.user)))
					continue
				}
				if o.kind == "dl" {
					continue
				}
				ask := own(o.user)
				if o.kind == "other" {
					ask = own(1 - o.user)
				}
				st, dials := c07HistTunnel(mode, hosts, bs[o.user].Peer, got["gatewayaccesstoken"], strings.TrimSuffix(ask, ":3389"), rep)
				rep.outcome(fmt.Sprintf("%s %s -> %s dials=%v", mode, o.kind, st, len(dials)))
				switch o.kind {
				case "own":
					if st != "ok" || len(dials) != 1 || dials[0] != ask {
						bad("own-host-not-reached", fmt.Sprintf("%s presents the token of the file just served and asks for %s: %s, dials %v", users[o.user], ask, st, dials))
					}
				case "other":
					if st == "ok" || len(dials) != 0 {
						bad("other-users-host-reached", fmt.Sprintf("%s asks for %s: %s, dials %v", users[o.user], ask, st, dials))
					}
				}
			}
		}
	}
	vrand.Choice = -1
	return n
}

func c07HistTunnel(mode string, hosts []string, peer, tok, host string, rep *Report) (string, []string) {
	res := "ok"
	var dials []string
	x := vsched.Run(nil, 20000, false, nil, func() {
		w := NewWorld()
		w.Accept = func(string) bool { return true }
		gw := NewGateway(GwCfg{TokenAuth: true, HostSelection: mode, Hosts: hosts, VerifyIP: true})
		h := web.EnrichContext(http.HandlerFunc(gw.HandleGatewayProtocol))
		cl, ok := w.OpenTunnel("ws", h, gw, "conn-1", peer, nil, nil)
		if !ok {
			res = "transport refused"
			return
		}
		for i, s := range [][]byte{tsgu.Handshake(1, 0, 0, tsgu.ExtAuthPAA), tsgu.TunnelCreate(tok, true), tsgu.TunnelAuth("pc"), tsgu.ChannelCreate(host, 3389)} {
			cl.SendSegment(s)
			vsched.WaitIdle()
			cl.Absorb()
			pk := cl.NewPackets()
			if len(pk) != 1 || tsgu.ParseResp(pk[0]).Status != 0 {
				st := uint32(0xFFFFFFFF)
				if len(pk) == 1 {
					st = tsgu.ParseResp(pk[0]).Status
				}
				res = fmt.Sprintf("step %d answered with status %#x", i, st)
				break
			}
		}
		for _, d := range w.Net.Dials {
			dials = append(dials, d.Address)
		}
		cl.CloseClient()
	})
	rep.add("transitions", int64(x.Steps))
	for _, p := range x.Panics() {
		res = "panic: " + p.Value
	}
	x.Finish()
	return res, dials
}
