package main

import (
	"bufio"
	"bytes"
	"encoding/binary"
	"fmt"
	"io"
	"net"
	"os"
	"path/filepath"
	"strconv"
	"strings"
	"sync"
	"time"

	"verif/internal/der"
)

// Binary-level binding of C20: the real rdpgw process with a kerberos
// configuration, a krb5.conf naming loopback KDCs per realm, and scripted KDCs
// on real sockets. The in-process exploration calls kdcproxy's handler
// directly and so cannot see what main() puts around it (route, method
// matcher, server timeouts, middleware).

type binKdc struct {
	port   int
	tcp    string // reply | silent | refuse | truncate
	udp    string // reply | silent
	tl     net.Listener
	uc     net.PacketConn
	mu     sync.Mutex
	gotTCP [][]byte
	gotUDP [][]byte
	held   []net.Conn
}

func startBinKdc(tcp, udp string) *binKdc {
	for try := 0; try < 40; try++ {
		k := &binKdc{port: freePort(), tcp: tcp, udp: udp}
		addr := "127.0.0.1:" + strconv.Itoa(k.port)
		uc, err := net.ListenPacket("udp", addr)
		if err != nil {
			continue
		}
		k.uc = uc
		if tcp != "refuse" {
			tl, err := net.Listen("tcp", addr)
			if err != nil {
				uc.Close()
				continue
			}
			k.tl = tl
			go k.serveTCP()
		}
		go k.serveUDP()
		return k
	}
	infra("cannot open KDC sockets")
	return nil
}

func (k *binKdc) reply(proto string) []byte {
	return []byte(fmt.Sprintf("KRB-REPLY-%s-port-%d", proto, k.port))
}

func (k *binKdc) serveTCP() {
	for {
		c, err := k.tl.Accept()
		if err != nil {
			return
		}
		go func() {
			hdr := make([]byte, 4)
			if _, err := io.ReadFull(c, hdr); err != nil {
				c.Close()
				return
			}
			body := make([]byte, binary.BigEndian.Uint32(hdr))
			io.ReadFull(c, body)
			k.mu.Lock()
			k.gotTCP = append(k.gotTCP, append(hdr, body...))
			k.held = append(k.held, c)
			k.mu.Unlock()
			switch k.tcp {
			case "reply":
				r := k.reply("tcp")
				l := make([]byte, 4)
				binary.BigEndian.PutUint32(l, uint32(len(r)))
				c.Write(append(l, r...))
			case "truncate":
				c.Write([]byte{0, 0, 0, 40, 'x'})
				c.Close()
			case "silent":
			}
		}()
	}
}

func (k *binKdc) serveUDP() {
	buf := make([]byte, 1<<16)
	for {
		n, from, err := k.uc.ReadFrom(buf)
		if err != nil {
			return
		}
		k.mu.Lock()
		k.gotUDP = append(k.gotUDP, append([]byte{}, buf[:n]...))
		k.mu.Unlock()
		if k.udp == "reply" {
			k.uc.WriteTo(k.reply("udp"), from)
		}
	}
}

func (k *binKdc) stop() {
	if k.tl != nil {
		k.tl.Close()
	}
	k.uc.Close()
	k.mu.Lock()
	for _, c := range k.held {
		c.Close()
	}
	k.mu.Unlock()
}

func bindKdc(rep *Report, env *Env) int {
	if gwBin() == "" || env.Shard != 0 {
		return 0
	}
	viol := func(kind, detail string) { rep.violate("C20/binary:"+kind, detail, map[string]any{"noreplay": true}) }
	type realm struct {
		name string
		kdc  *binKdc
		want int // expected status
	}
	realms := []realm{
		{"TCPREPLY.TEST", startBinKdc("reply", "silent"), 200},
		{"UDPREPLY.TEST", startBinKdc("silent", "reply"), 200},
		{"SILENT.TEST", startBinKdc("silent", "silent"), 503},
		{"REFUSED.TEST", startBinKdc("refuse", "silent"), 503},
		{"TRUNCATED.TEST", startBinKdc("truncate", "silent"), 503},
		// a child realm of the default realm with its own KDC; krb5.conf maps the parent's DNS suffix to the parent
		{"EMEA.TCPREPLY.TEST", startBinKdc("reply", "silent"), 200},
	}
	defer func() {
		for _, r := range realms {
			r.kdc.stop()
		}
	}()
	kt, _ := c18Keytab()
	kc := filepath.Join(scratch(), fmt.Sprintf("krb5-bin-%d.conf", os.Getpid()))
	var sb strings.Builder
	sb.WriteString("[libdefaults]\n default_realm = TCPREPLY.TEST\n dns_lookup_kdc = false\n dns_lookup_realm = false\n\n[realms]\n")
	for _, r := range realms {
		fmt.Fprintf(&sb, " %s = {\n  kdc = 127.0.0.1:%d\n }\n", r.name, r.kdc.port)
	}
	sb.WriteString("\n[domain_realm]\n .tcpreply.test = TCPREPLY.TEST\n tcpreply.test = TCPREPLY.TEST\n")
	os.WriteFile(kc, []byte(sb.String()), 0o644)
	defer os.Remove(kc)
	port := freePort()
	crt, key := TLSFiles()
	yaml := fmt.Sprintf("Server:\n Port: %d\n GatewayAddress: gw.example:%d\n Tls: enable\n CertFile: %s\n KeyFile: %s\n HostSelection: roundrobin\n Hosts:\n  - \"127.0.0.2:3389\"\n Authentication:\n  - kerberos\nCaps:\n TokenAuth: false\nKerberos:\n Keytab: %s\n Krb5Conf: %s\n", port, port, crt, key, kt, kc)
	g := StartGateway(yaml, nil, port, true)
	if !g.Alive() {
		infra("C20 binding: gateway did not start: %s", tail(g.Log(), 500))
	}
	defer g.Stop()
	post := func(method string, body []byte, wait time.Duration) (RawResponse, time.Duration) {
		c, err := g.Dial()
		if err != nil {
			return RawResponse{Closed: true}, 0
		}
		defer c.Close()
		c.SetDeadline(time.Now().Add(wait))
		t0 := time.Now()
		req := fmt.Sprintf("%s /KdcProxy HTTP/1.1\r\nHost: gw.example\r\nContent-Type: application/kerberos\r\nContent-Length: %d\r\n\r\n", method, len(body))
		c.Write(append([]byte(req), body...))
		r := ReadResponse(bufio.NewReader(c))
		return r, time.Since(t0)
	}
	msg := kdcMessage(60)
	n := 0
	type result struct {
		r         realm
		withRealm bool
		resp      RawResponse
		took      time.Duration
	}
	var results []*result
	var wg sync.WaitGroup
	for ri, r := range realms {
		for _, withRealm := range []bool{true, false} {
			if !withRealm && ri != 0 {
				continue // an absent realm means the default realm, which is the first one
			}
			res := &result{r: r, withRealm: withRealm}
			results = append(results, res)
			wg.Add(1)
			go func() {
				defer wg.Done()
				res.resp, res.took = post("POST", der.KdcProxyMessage(msg, res.r.name, res.withRealm, 0, false), 40*time.Second)
			}()
		}
	}
	wg.Wait()
	time.Sleep(50 * time.Millisecond)
	for _, res := range results {
		r, resp, withRealm, took := res.r, res.resp, res.withRealm, res.took
		n++
		rep.add("executions", 1)
		what := fmt.Sprintf("realm %s (given=%v; KDC tcp=%s udp=%s): status %d closed=%v timeout=%v after %v", r.name, withRealm, r.kdc.tcp, r.kdc.udp, resp.Status, resp.Closed, resp.Timeout, took.Round(100*time.Millisecond))
		rep.outcome(fmt.Sprintf("binary kdc realm=%s given=%v status=%d closed=%v", r.name, withRealm, resp.Status, resp.Closed))
		switch {
		case resp.Closed || resp.Timeout || resp.Status == 0:
			viol("request-not-answered/"+r.name, what+" | "+tail(g.Log(), 300))
		case resp.Status != r.want && r.want == 200:
			viol("reachable-kdc-but-no-answer/"+r.name, what)
		case resp.Status == 200 && r.want != 200:
			viol("answer-invented/"+r.name, what)
		case resp.Status != 200 && resp.Status != 503:
			viol("wrong-status-for-unreachable-kdc/"+r.name, what)
		case resp.Status == 200:
			m, err := der.ParseKdcProxyMessage(resp.Body)
			proto := "tcp"
			if r.kdc.udp == "reply" {
				proto = "udp"
			}
			rp := r.kdc.reply(proto)
			want := append([]byte{0, 0, 0, byte(len(rp))}, rp...)
			if err != nil || !bytes.Equal(m, want) {
				viol("reply-altered/"+r.name, fmt.Sprintf("%s: body carries %q, the KDC sent %q (%v)", what, m, rp, err))
			}
		}
		// what the KDC saw is the embedded message, length prefix only on TCP
		r.kdc.mu.Lock()
		for _, got := range r.kdc.gotTCP {
			if !bytes.Equal(got, msg) {
				viol("kdc-received-altered-message/tcp", fmt.Sprintf("%s: %x", r.name, head(got, 16)))
			}
		}
		for _, got := range r.kdc.gotUDP {
			if !bytes.Equal(got, msg[4:]) {
				viol("kdc-received-altered-message/udp", fmt.Sprintf("%s: %x", r.name, head(got, 16)))
			}
		}
		r.kdc.mu.Unlock()
	}
	// histories on the real process: a request naming a realm, then one without a realm (= default realm): the
	// second goes to the default realm's KDC, whatever came before (repeated, the process recycles objects)
	for k := 0; k < 6; k++ {
		n++
		rep.add("executions", 2)
		post("POST", der.KdcProxyMessage(msg, "UDPREPLY.TEST", true, 0, false), 30*time.Second)
		resp, _ := post("POST", der.KdcProxyMessage(msg, "", false, 0, false), 30*time.Second)
		want := realms[0].kdc.reply("tcp")
		m, err := der.ParseKdcProxyMessage(resp.Body)
		if resp.Status != 200 || err != nil || !bytes.Equal(m, append([]byte{0, 0, 0, byte(len(want))}, want...)) {
			viol("request-without-realm-not-answered-by-the-default-realm/after-a-request-naming-another-realm", fmt.Sprintf("round %d: status %d, body carries %q, the default realm's KDC answers %q", k, resp.Status, m, want))
			break
		}
	}
	// a realm that is not configured (one of them below the DNS suffix mapped to the default realm): an answer,
	// not 200, nothing sent anywhere
	for _, name := range []string{"NOWHERE.TEST", "LAB.TCPREPLY.TEST"} {
		n++
		rep.add("executions", 1)
		seen := func() int {
			t := 0
			for _, r := range realms {
				r.kdc.mu.Lock()
				t += len(r.kdc.gotTCP) + len(r.kdc.gotUDP)
				r.kdc.mu.Unlock()
			}
			return t
		}
		before := seen()
		resp, _ := post("POST", der.KdcProxyMessage(msg, name, true, 0, false), 30*time.Second)
		if resp.Closed || resp.Timeout || resp.Status == 200 || resp.Status == 0 {
			viol("unknown-realm/"+name, fmt.Sprintf("status %d closed=%v", resp.Status, resp.Closed))
		} else if after := seen(); after != before {
			viol("message-for-an-unconfigured-realm-sent-to-a-kdc/"+name, fmt.Sprintf("status %d; %d message(s) arrived at KDCs of other realms", resp.Status, after-before))
		}
	}
	// a client that sends its complete request, shuts down its sending side and keeps reading (legal with
	// Connection: close) is answered like any other
	for k := 0; k < 3; k++ {
		n++
		rep.add("executions", 1)
		c, err := g.Dial()
		if err != nil {
			break
		}
		body := der.KdcProxyMessage(msg, "TCPREPLY.TEST", true, 0, false)
		req := fmt.Sprintf("POST /KdcProxy HTTP/1.1\r\nHost: gw.example\r\nConnection: close\r\nContent-Type: application/kerberos\r\nContent-Length: %d\r\n\r\n", len(body))
		c.SetDeadline(time.Now().Add(30 * time.Second))
		c.Write(append([]byte(req), body...))
		if cw, ok := c.(interface{ CloseWrite() error }); ok {
			cw.CloseWrite()
		}
		resp := ReadResponse(bufio.NewReader(c))
		c.Close()
		rep.outcome(fmt.Sprintf("binary kdc half-closing client status=%d", resp.Status))
		if resp.Status != 200 {
			viol("reachable-kdc-but-no-answer/client-shut-down-its-sending-side", fmt.Sprintf("round %d: the client sent the whole request, shut down its sending side and kept reading: status %d closed=%v (the realm's KDC replies at once)", k, resp.Status, resp.Closed))
			break
		}
	}
	// other methods and malformed bodies are answered too
	for _, c := range []struct {
		method string
		body   []byte
		want   []int
	}{{"GET", nil, []int{405, 404}}, {"PUT", der.KdcProxyMessage(msg, "TCPREPLY.TEST", true, 0, false), []int{405, 404}}, {"POST", []byte("not asn.1"), []int{400}}, {"POST", nil, []int{400}}} {
		n++
		rep.add("executions", 1)
		resp, _ := post(c.method, c.body, 30*time.Second)
		ok := false
		for _, w := range c.want {
			ok = ok || resp.Status == w
		}
		rep.outcome(fmt.Sprintf("binary kdc %s len=%d status=%d", c.method, len(c.body), resp.Status))
		if !ok {
			viol("wrong-status/"+c.method, fmt.Sprintf("%s with %d body bytes: status %d closed=%v, want one of %v", c.method, len(c.body), resp.Status, resp.Closed, c.want))
		}
	}
	if cr := g.Crashed(); cr != "" {
		viol("panic", cr)
	}
	rep.sample(map[string]any{"binding": "real rdpgw binary (kerberos configuration) with scripted KDCs on loopback TCP and UDP sockets", "realms": len(realms), "requests": n})
	return n
}
