package main

import (
	"encoding/base64"
	"fmt"
	"strings"
	"time"

	authcfg "github.com/bolkedebruin/rdpgw/cmd/auth/config"
	"github.com/bolkedebruin/rdpgw/cmd/auth/database"
	authntlm "github.com/bolkedebruin/rdpgw/cmd/auth/ntlm"
	"github.com/bolkedebruin/rdpgw/shared/auth"

	"verif/internal/ntlmc"
	"verif/shim/vclock"
)

// C14 — NTLM verifier authenticates only proof of the configured password.

func init() { props["C14"] = c14 }

// erin's configured password has a leading and a trailing blank (legal: the service compares what is configured)
var c14DB = map[string]string{"alice": "pw1", "bob": "pw2", "carol": "", "dave": "pw1", "erin": " pw5 "}

func c14NewVerifier() *authntlm.NTLMAuth {
	var users []authcfg.UserConfig
	for _, u := range []string{"alice", "bob", "carol", "dave", "erin"} {
		users = append(users, authcfg.UserConfig{Username: u, Password: c14DB[u]})
	}
	return authntlm.NewNTLMAuth(database.NewConfig(users))
}

type c14Op struct {
	Kind    string // neg | auth | garbage | clock
	Sess    int
	Claimed string
	KeyUser string // "" = claimed
	Pw      string
	Chal    string // cur | prev | other | zeros | empty
	Garbage string
	Domain  string // the domain name the client puts into its authenticate message (and into its key)
	Secs    int    // clock: seconds (0 = 61, past the context lifetime; 31 = inside it)
}

func (o c14Op) String() string {
	switch o.Kind {
	case "neg":
		return fmt.Sprintf("neg(s%d)", o.Sess)
	case "auth":
		k := o.KeyUser
		if k == "" {
			k = "self"
		}
		if o.Domain != "" {
			return fmt.Sprintf("auth(s%d,%s,domain=%s,key=%s,pw=%q,chal=%s)", o.Sess, o.Claimed, o.Domain, k, o.Pw, o.Chal)
		}
		return fmt.Sprintf("auth(s%d,%s,key=%s,pw=%q,chal=%s)", o.Sess, o.Claimed, k, o.Pw, o.Chal)
	case "garbage":
		return fmt.Sprintf("garbage(s%d,%s)", o.Sess, o.Garbage)
	}
	if o.Secs != 0 {
		return fmt.Sprintf("clock+%ds", o.Secs)
	}
	return "clock+61s"
}

func c14Alphabet(full bool) []c14Op {
	var ops []c14Op
	for s := 0; s < 2; s++ {
		ops = append(ops, c14Op{Kind: "neg", Sess: s})
	}
	claimed := []string{"alice", "bob", "mallory"}
	chals := []string{"cur", "other", "empty"}
	sessions := []int{0}
	if full {
		// "admin\\alice", "alice@admin": qualified forms of a configured name are not configured names
		claimed = []string{"alice", "bob", "carol", "dave", "mallory", "ALICE", "erin", "admin\\alice", "alice@admin"}
		chals = []string{"cur", "prev", "other", "zeros", "empty"}
		sessions = []int{0, 1}
	}
	type kp struct{ key, pw string }
	for _, s := range sessions {
		for _, c := range claimed {
			kps := []kp{{"", c14DB[strings.ToLower(c)]}, {"", "wrong"}, {"bob", "pw2"}, {"alice", "pw1"}}
			if strings.ContainsAny(c, "\\@") {
				// the account part's password, keyed with the qualified name as sent
				kps = append(kps, kp{"", c14DB["alice"]})
			}
			if full {
				kps = append(kps, kp{"", ""})
				if c == "erin" {
					// the configured password without its blanks is a wrong password
					kps = append(kps, kp{"", strings.TrimSpace(c14DB[c])})
				}
			}
			for _, k := range kps {
				for _, ch := range chals {
					ops = append(ops, c14Op{Kind: "auth", Sess: s, Claimed: c, KeyUser: k.key, Pw: k.pw, Chal: ch})
				}
			}
		}
	}
	// clients that name a domain (it enters the proof on both sides)
	for _, d := range []string{"CORP", "gateway.example.com"} {
		ops = append(ops, c14Op{Kind: "auth", Sess: 0, Claimed: "alice", Pw: c14DB["alice"], Chal: "cur", Domain: d})
		if full {
			ops = append(ops, c14Op{Kind: "auth", Sess: 0, Claimed: "alice", Pw: "wrong", Chal: "cur", Domain: d})
		}
	}
	gs := []string{"not-base64", "type2"}
	if full {
		gs = []string{"not-base64", "empty-payload", "type2", "truncated-type3"}
	}
	for _, g := range gs {
		ops = append(ops, c14Op{Kind: "garbage", Sess: 0, Garbage: g})
	}
	// ... and something going wrong, or a login succeeding, in the OTHER session (what ends one session must not
	// touch another one's outstanding challenge)
	ops = append(ops, c14Op{Kind: "garbage", Sess: 1, Garbage: "not-base64"})
	if !full {
		ops = append(ops, c14Op{Kind: "auth", Sess: 1, Claimed: "bob", Pw: c14DB["bob"], Chal: "cur"})
	}
	ops = append(ops, c14Op{Kind: "clock"})
	// half the context lifetime: the context of the session is still there, whatever happened in it before
	ops = append(ops, c14Op{Kind: "clock", Secs: 31})
	return ops
}

type c14Sess struct {
	// cur / prev: challenges the session still holds (reference state);
	// lastCur / lastPrev: the most recently issued ones, also after they were
	// consumed, so that a client can replay a response to a consumed challenge
	cur, prev         *ntlmc.Challenge
	lastCur, lastPrev *ntlmc.Challenge
	limbo             *ntlmc.Challenge // the challenge held before an undecodable message was refused: the property does not say whether such a message uses it up
	fresh             bool             // the last operation on this session was the negotiate that issued cur
	aged              bool             // clock advanced past the context lifetime since cur was issued
}

// c14Run executes a history on a fresh verifier and judges every step.
func c14Run(hist []c14Op, rep *Report) (viol, detail string, trace []string) {
	vclock.Reset()
	v := c14NewVerifier()
	sess := [2]*c14Sess{{}, {}}
	names := [2]string{"10.0.0.1:1111", "10.0.0.2:2222"}
	rep.add("executions", 1)
	call := func(s int, msg string) (r *auth.NtlmResponse, err error, pan string) {
		defer func() {
			if x := recover(); x != nil {
				pan = fmt.Sprint(x)
			}
		}()
		rep.add("transitions", 1)
		r, err = v.Authenticate(&auth.NtlmRequest{Session: names[s], NtlmMessage: msg})
		return
	}
	for i, op := range hist {
		switch op.Kind {
		case "clock":
			if op.Secs != 0 {
				vclock.Advance(time.Duration(op.Secs) * time.Second)
			} else {
				vclock.Advance(61 * time.Second)
			}
			for _, s := range sess {
				s.aged = true
			}
			trace = append(trace, op.String())
			continue
		case "neg":
			r, err, pan := call(op.Sess, base64.StdEncoding.EncodeToString(ntlmc.Negotiate()))
			if pan != "" {
				return "panic", fmt.Sprintf("step %d %s: %s", i, op, pan), trace
			}
			if err != nil || r == nil || r.Authenticated || r.NtlmMessage == "" {
				return "negotiate-not-answered-with-challenge", fmt.Sprintf("step %d %s: err=%v resp=%+v", i, op, err, r), trace
			}
			raw, e := base64.StdEncoding.DecodeString(r.NtlmMessage)
			ch, e2 := ntlmc.ParseChallenge(raw)
			if e != nil || e2 != nil {
				return "undecodable-challenge", fmt.Sprintf("step %d: %v %v", i, e, e2), trace
			}
			s := sess[op.Sess]
			s.prev, s.cur, s.fresh, s.aged = s.cur, ch, true, false
			s.limbo = nil
			s.lastPrev, s.lastCur = s.lastCur, ch
			trace = append(trace, op.String()+" -> challenge")
		case "garbage":
			msg := map[string]string{
				"not-base64":      "!!!not base64!!!",
				"empty-payload":   base64.StdEncoding.EncodeToString([]byte{}),
				"type2":           base64.StdEncoding.EncodeToString(append([]byte("NTLMSSP\x00\x02\x00\x00\x00"), make([]byte, 40)...)),
				"truncated-type3": base64.StdEncoding.EncodeToString([]byte("NTLMSSP\x00\x03\x00\x00\x00\x18\x00")),
			}[op.Garbage]
			r, err, pan := call(op.Sess, msg)
			if pan != "" {
				return "panic", fmt.Sprintf("step %d %s: %s", i, op, pan), trace
			}
			if r != nil && r.Authenticated {
				return "authenticated-by-garbage", fmt.Sprintf("step %d %s", i, op), trace
			}
			// an undecodable message may or may not drop the session's context
			sess[op.Sess].fresh = false
			if err != nil {
				// refused: whether the session's challenge survives is unspecified ("the following
				// authenticate message" may or may not be the next decodable one)
				if sess[op.Sess].cur != nil {
					sess[op.Sess].limbo = sess[op.Sess].cur
				}
				sess[op.Sess].cur, sess[op.Sess].prev = nil, nil
			}
			trace = append(trace, fmt.Sprintf("%s -> err=%v", op, err != nil))
		case "auth":
			s := sess[op.Sess]
			var ch *ntlmc.Challenge
			switch op.Chal {
			case "cur":
				ch = s.lastCur
			case "prev":
				ch = s.lastPrev
			case "other":
				ch = sess[1-op.Sess].lastCur
			case "zeros":
				ch = &ntlmc.Challenge{ServerChallenge: make([]byte, 8)}
			case "empty":
				// a response computed over no challenge at all (what is left when a challenge is "cleared")
				ch = &ntlmc.Challenge{ServerChallenge: []byte{}}
				if s.lastCur != nil {
					ch.TargetInfo = s.lastCur.TargetInfo
				}
			}
			if ch == nil {
				// no such challenge exists yet: answer a made-up one
				ch = &ntlmc.Challenge{ServerChallenge: []byte{9, 9, 9, 9, 9, 9, 9, 9}}
			}
			msg := ntlmc.Authenticate(ntlmc.AuthParams{User: op.Claimed, KeyUser: op.KeyUser, Password: op.Pw, Domain: op.Domain, ServerChallenge: ch.ServerChallenge, TargetInfo: ch.TargetInfo})
			r, err, pan := call(op.Sess, base64.StdEncoding.EncodeToString(msg))
			if pan != "" {
				return "panic", fmt.Sprintf("step %d %s: %s", i, op, pan), trace
			}
			got := r != nil && r.Authenticated
			cfg, known := c14DB[op.Claimed]
			keyed := known && cfg != "" && op.Pw == cfg && (op.KeyUser == "" || op.KeyUser == op.Claimed)
			proof := keyed && s.cur != nil && ch == s.cur
			maybe := keyed && s.limbo != nil && ch == s.limbo && !s.aged
			s.limbo = nil
			switch {
			case got && !proof && maybe && r.Username == op.Claimed:
				// proof against the challenge that an undecodable message in between may or may not have used up
			case got && !proof:
				why := "wrong or no proof"
				if op.KeyUser != "" && op.KeyUser != op.Claimed {
					why = "response keyed with the password of " + op.KeyUser
				}
				return "authenticated-without-proof-of-configured-password", fmt.Sprintf("step %d %s authenticated as %q (%s); history %v", i, op, r.Username, why, trace), trace
			case got && r.Username != op.Claimed:
				return "wrong-username-returned", fmt.Sprintf("step %d %s returned %q", i, op, r.Username), trace
			case !got && proof && s.fresh && !s.aged:
				return "honest-exchange-refused", fmt.Sprintf("step %d %s refused (err=%v); history %v", i, op, err, trace), trace
			}
			if !got && r != nil && r.Username != "" {
				return "username-disclosed-without-authentication", fmt.Sprintf("step %d %s", i, op), trace
			}
			s.fresh = false
			if got || err != nil {
				s.cur, s.prev = nil, nil
			}
			trace = append(trace, fmt.Sprintf("%s -> authenticated=%v err=%v", op, got, err != nil))
		}
	}
	return "", "", trace
}

func c14(env *Env, rep *Report) {
	rep.Rule = "every history up to depth d over an operation alphabet on two NTLM sessions: negotiate(s); authenticate(s, claimed user in {alice,bob,carol(empty password),dave(same password as alice),mallory(unknown),ALICE,admin\\alice,alice@admin,erin(password with a leading and a trailing blank)}, response keyed with {claimed user's configured password, a wrong password, the empty password, bob's password as bob, alice's password as alice}, challenge in {current of s, previous of s, current of the other session, zeros, none (zero-length)}); garbage(s, {not base64, empty, type 2, truncated type 3}); clock +61 s; clock +31 s (inside the context lifetime); six longer histories that start an exchange over in a session whose context is 31 / 62 s old. " +
		"quick: reduced alphabet (39 ops) to depth 3, full alphabet (255 ops) to depth 2; thorough: full alphabet to depth 3, reduced to depth 4. Each history is one execution against a fresh real verifier (cmd/auth/ntlm) with messages built by an independent NTLMv2 implementation. " +
		"Oracle (three-valued): authenticated without a response keyed by the claimed user's configured non-empty password over the session's latest challenge => violation; honest exchange (negotiate then matching authenticate, nothing in between on that session, no clock jump) refused => violation; success must return exactly the claimed configured name; everything else (e.g. a second correct attempt after a failed one, or a correct response to the challenge that was current when an undecodable message was refused) is unspecified. distinct_nontrivial = histories executed."
	rep.Assumptions = append(rep.Assumptions, "user database {alice:pw1, bob:pw2, carol:\"\", dave:pw1}", "no merging of histories: the verifier's hidden state (cached keys, contexts) is exactly what the property is about")
	red, full := c14Alphabet(false), c14Alphabet(true)
	rep.Rule = strings.Replace(strings.Replace(rep.Rule, "(39 ops)", fmt.Sprintf("(%d ops)", len(red)), 1), "(255 ops)", fmt.Sprintf("(%d ops)", len(full)), 1)
	if env.Replay != nil {
		var hist []c14Op
		hs, _ := env.Replay["history"].([]any)
		for _, h := range hs {
			for _, o := range full {
				if o.String() == h {
					hist = append(hist, o)
					break
				}
			}
		}
		v, d, tr := c14Run(hist, rep)
		fmt.Println("trace:", tr, "\nverdict:", v, d)
		if v != "" {
			rep.violate("C14/"+v, d, env.Replay)
		}
		return
	}
	n, distinct := 0, 0
	enum := func(alpha []c14Op, depth int) {
		idx := make([]int, depth)
		for {
			n++
			if env.mine(n) {
				distinct++
				hist := make([]c14Op, depth)
				names := make([]string, depth)
				for i, x := range idx {
					hist[i] = alpha[x]
					names[i] = alpha[x].String()
				}
				v, d, tr := c14Run(hist, rep)
				last := ""
				if len(tr) > 0 {
					last = tr[len(tr)-1]
					if i := strings.Index(last, "->"); i > 0 {
						last = hist[len(hist)-1].Kind + last[i:]
					}
				}
				rep.outcome(last + " " + v)
				if v != "" {
					rep.violate("C14/"+v, d, map[string]any{"engine": "seqx", "history": names})
				}
				if distinct%30000 == 1 {
					rep.sample(map[string]any{"history": names, "trace": tr, "verdict": v})
				}
			}
			// next
			i := depth - 1
			for ; i >= 0; i-- {
				idx[i]++
				if idx[i] < len(alpha) {
					break
				}
				idx[i] = 0
			}
			if i < 0 {
				return
			}
			if env.expired() {
				rep.capf("deadline in history enumeration at depth %d", depth)
				return
			}
		}
	}
	if env.thorough() {
		for d := 1; d <= 3; d++ {
			enum(full, d)
		}
		enum(red, 4)
	} else {
		for d := 1; d <= 3; d++ {
			enum(red, d)
		}
		enum(full, 2)
	}
	// longer histories around the clock: an exchange that starts over in a session whose context is 31 s old
	// (after an abandoned negotiate, after a refused attempt, after both) is an honest exchange
	if env.Shard == 0 || env.NShards == 1 {
		neg, half := c14Op{Kind: "neg", Sess: 0}, c14Op{Kind: "clock", Secs: 31}
		right := c14Op{Kind: "auth", Sess: 0, Claimed: "alice", Pw: c14DB["alice"], Chal: "cur"}
		wrong := c14Op{Kind: "auth", Sess: 0, Claimed: "alice", Pw: "wrong", Chal: "cur"}
		for _, hist := range [][]c14Op{
			{neg, half, neg, right},
			{neg, wrong, half, neg, right},
			{neg, right, half, neg, right},
			{neg, half, neg, wrong, neg, right},
			{neg, half, half, neg, right},
			{neg, wrong, half, half, neg, right},
		} {
			distinct++
			var names []string
			for _, o := range hist {
				names = append(names, o.String())
			}
			v, d, _ := c14Run(hist, rep)
			rep.outcome("clock-history " + v)
			if v != "" {
				rep.violate("C14/"+v, d, map[string]any{"engine": "seqx", "history": names})
			}
		}
	}
	rep.Bounds = map[string]any{"reduced_alphabet": len(red), "full_alphabet": len(full)}
	rep.add("distinct", int64(distinct))
	rep.add("states", int64(distinct))
}
