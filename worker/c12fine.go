package main

import (
	"fmt"
	"strconv"
	"strings"
	"time"

	"verif/shim/vclock"
	"verif/shim/vsched"
)

// C12, schedules with statement-level scheduling points: two logged-in browsers of different users ask for
// their connection files at the same time. The download path (web.HandleDownload, security.GeneratePAAToken,
// the rdp builder, identity) contains no lock, I/O or channel operation, so under the ordinary scheduling
// points two downloads never interleave; the overlay's "fine" rule puts a scheduling point in front of every
// statement of those packages (active only here, vsched.Fine). Oracle: every file names its own session's
// user, that user's host, and carries a token with that user, host and address.
func c12FineRun(prefix []int, template bool) vsched.RunResult {
	vclock.Reset()
	hosts := []string{"{{ preferred_username }}-pc.example:3389"}
	cfg := WebCfg{Store: "cookie", HostSelection: "roundrobin", Hosts: hosts, VerifyClientIP: true}
	if template {
		cfg.TemplateFile = c09TemplateFile()
	}
	app := NewWebApp(cfg)
	now := time.Now()
	users := []string{"alice", "bob"}
	var bs []*Browser
	for i, u := range users {
		key := "c12fine-" + u
		if _, ok := c13IDTokens[key]; !ok {
			c13IDTokens[key] = app.IdP.IDToken(map[string]any{"iss": idpIssuer, "aud": "rdpgw", "sub": u, "exp": now.Add(time.Hour).Unix(), "iat": now.Unix(), "preferred_username": u}, false)
		}
		app.IdP.Codes[key] = CodeBehaviour{AccessToken: "at-" + u, IDToken: c13IDTokens[key]}
		b := NewBrowser(fmt.Sprintf("10.0.0.%d:40000", i+1))
		rec := b.Do(app, "GET", "/connect")
		b.Do(app, "GET", "/callback?state="+StateOf(rec)+"&code="+key)
		bs = append(bs, b)
	}
	files := make([]string, 2)
	vsched.Fine = true
	x := vsched.Run(prefix, 60000, false, nil, func() {
		NewWorld()
		done := 0
		for i := range bs {
			i := i
			vsched.Go("browser-"+strconv.Itoa(i), func() {
				if r := bs[i].Do(app, "GET", "/connect"); r.Code == 200 {
					files[i] = r.Body.String()
				} else {
					files[i] = fmt.Sprintf("status %d %s", r.Code, r.Body.String())
				}
				done++
			})
		}
		vsched.Point("join-browsers", func() bool { return done == 2 })
	})
	vsched.Fine = false
	var v []vsched.Violation
	for _, p := range x.Panics() {
		v = append(v, vsched.Violation{Sig: "C12/panic:" + shortFn(panicSite(p)) + "/concurrent-downloads", Detail: p.Value})
	}
	good := 0
	for i, u := range users {
		f := files[i]
		cl := tokenClaims(rdpValue(f, "gatewayaccesstoken"))
		wantHost := u + "-pc.example:3389"
		var bad []string
		if rdpValue(f, "username") != u {
			bad = append(bad, "username="+rdpValue(f, "username"))
		}
		if rdpValue(f, "full address") != wantHost {
			bad = append(bad, "full address="+rdpValue(f, "full address"))
		}
		if cl["sub"] != u || cl["remoteServer"] != wantHost || cl["clientIp"] != fmt.Sprintf("10.0.0.%d", i+1) || cl["accessToken"] != "at-"+u {
			bad = append(bad, fmt.Sprintf("token claims sub=%v remoteServer=%v clientIp=%v accessToken=%v", cl["sub"], cl["remoteServer"], cl["clientIp"], cl["accessToken"]))
		}
		if template && !strings.Contains(f, "audiomode:i:2") {
			bad = append(bad, "template setting lost")
		}
		if len(bad) == 0 {
			good++
		} else {
			v = append(v, vsched.Violation{Sig: "C12/connection-file-of-one-session-carries-another-sessions-values/concurrent-downloads", Detail: fmt.Sprintf("template=%v: file for %s (10.0.0.%d): %s", template, u, i+1, strings.Join(bad, "; "))})
		}
	}
	x.Finish()
	return vsched.RunResult{X: x, Outcome: fmt.Sprintf("fine template=%v good=%d", template, good), Violations: v}
}

func c12Fine(env *Env, rep *Report) int {
	// one deviation: a download is interrupted at one statement, the other one runs to its end, the first one
	// resumes (and the symmetric case). Two deviations are ~3.6 M executions of ~7 k steps each: out of reach.
	bound := 1
	n := 0
	for _, template := range []bool{false, true} {
		template := template
		curScenario = fmt.Sprintf("concurrent-downloads-template=%v", template)
		a, b := c12FineRun(nil, template), c12FineRun(nil, template)
		if a.Outcome != b.Outcome || len(a.X.Decisions) != len(b.X.Decisions) {
			infra("C12 concurrent downloads are not deterministic under replay: %q/%d vs %q/%d", a.Outcome, len(a.X.Decisions), b.Outcome, len(b.X.Decisions))
		}
		ex := &vsched.Explorer{Bound: bound, AllSwitchesCost: true, Shard: env.Shard, NShards: env.NShards, Deadline: env.Deadline, RunOne: func(p []int) vsched.RunResult { return c12FineRun(p, template) }}
		if err := ex.Explore(); err != nil {
			infra("C12 concurrent downloads: %v", err)
		}
		if ex.Capped != "" {
			rep.capf("concurrent downloads (template=%v): %s", template, ex.Capped)
		}
		rep.add("executions", int64(ex.Execs))
		rep.add("transitions", int64(ex.Steps))
		n += ex.Execs
		for o, k := range ex.Outcomes {
			rep.outcome(o)
			_ = k
		}
		for _, sig := range ex.FoundOrder {
			f := ex.Found[sig]
			rep.violate(f.Sig, f.Detail, map[string]any{"engine": "vsched", "scenario": "concurrent-downloads", "template": template, "choices": f.Choices})
		}
		if env.Shard == 0 {
			rep.sample(map[string]any{"scenario": curScenario, "statement_level_scheduling_points_in_default_schedule": len(a.X.Decisions), "executions_this_shard": ex.Execs, "deviation_bound": bound})
		}
	}
	return n
}

func c12FineReplay(env *Env, rep *Report) {
	var prefix []int
	if cs, ok := env.Replay["choices"].([]any); ok {
		for _, c := range cs {
			if f, ok := c.(float64); ok {
				prefix = append(prefix, int(f))
			}
		}
	}
	t, _ := env.Replay["template"].(bool)
	r := c12FineRun(prefix, t)
	fmt.Println("outcome:", r.Outcome)
	for _, v := range r.Violations {
		rep.violate(v.Sig, v.Detail, env.Replay)
	}
}
