package main

import (
	"bufio"
	"encoding/base64"
	"fmt"
	"io"
	"net"
	"strconv"
	"strings"
	"sync/atomic"
	"time"

	"verif/internal/ntlmc"
	"verif/internal/tsgu"
)

// Part (g) of C10: a tour of every route and both transports of the real rdpgw
// binary under each authentication configuration, with the callbacks as main()
// wires them. The in-process parts drive the protocol package with the
// harness's own wiring; a nil callback, a context value lost between main()'s
// middleware and the security callbacks, or a handler built before its
// configuration is complete only shows in the program as started. Oracle: no
// "panic" in the gateway's log, the process alive, every step of a well-formed
// session answered, and a second client still served afterwards.

var tourSeq int64

// tourOpen sends one gateway request (method on the gateway endpoint) on a fresh
// connection, authenticating with the given scheme; returns the connection once
// the gateway answered 101 / 200.
func tourOpen(g *GwProc, scheme, method, connID string, upgrade bool) (net.Conn, *bufio.Reader, int) {
	c, err := g.Dial()
	if err != nil {
		return nil, nil, 0
	}
	c.SetDeadline(time.Now().Add(20 * time.Second))
	br := bufio.NewReader(c)
	hs := []string{"Rdg-Connection-Id: " + connID}
	if upgrade {
		hs = append(hs, "Connection: Upgrade", "Upgrade: websocket", "Sec-WebSocket-Version: 13", "Sec-WebSocket-Key: dGhlIHNhbXBsZSBub25jZQ==")
	}
	req := func(extra ...string) RawResponse {
		c.Write([]byte(BuildRequest(method, "/remoteDesktopGateway/", append(append([]string{}, hs...), extra...))))
		return ReadResponse(br)
	}
	var r RawResponse
	switch scheme {
	case "none":
		r = req()
	case "basic":
		r = req(basicHdr("alice", "alice-pw"))
	case "kerberos":
		now := time.Now().UTC()
		hdr, err := krbNegotiate("alice", gwKeytab(), now.Add(-time.Minute), now.Add(time.Hour))
		if err != nil {
			infra("forging a ticket: %v", err)
		}
		r = req(hdr)
	case "ntlm":
		r = req("Authorization: NTLM " + base64.StdEncoding.EncodeToString(ntlmc.Negotiate()))
		if r.Status == 401 {
			var ch *ntlmc.Challenge
			for _, v := range r.Header.Values("Www-Authenticate") {
				if strings.HasPrefix(v, "NTLM ") {
					if b, err := base64.StdEncoding.DecodeString(strings.TrimPrefix(v, "NTLM ")); err == nil {
						ch, _ = ntlmc.ParseChallenge(b)
					}
				}
			}
			if ch == nil {
				c.Close()
				return nil, nil, -401
			}
			r = req("Authorization: NTLM " + base64.StdEncoding.EncodeToString(ntlmc.Authenticate(ntlmc.AuthParams{User: "alice", Password: "alice-pw", ServerChallenge: ch.ServerChallenge, TargetInfo: ch.TargetInfo})))
		}
	}
	want := 200
	if upgrade {
		want = 101
	}
	if r.Status != want {
		c.Close()
		return nil, nil, r.Status
	}
	return c, br, r.Status
}

// tourSession runs a complete well-formed session over the given transport and
// returns "" when every step was answered as a conforming gateway answers it,
// otherwise the first step that was not.
func tourSession(g *GwProc, scheme, kind, cookie, host string, port uint16, be *hitListener, settle time.Duration) string {
	id := fmt.Sprintf("tour-%d", atomic.AddInt64(&tourSeq, 1))
	tc := &TunnelClient{Kind: kind}
	var rd *bufio.Reader
	var wr net.Conn
	switch kind {
	case "ws":
		c, br, st := tourOpen(g, scheme, "RDG_OUT_DATA", id, true)
		if c == nil {
			return fmt.Sprintf("upgrade(status %d)", st)
		}
		defer c.Close()
		rd, wr = br, c
	case "legacy":
		out, br, st := tourOpen(g, scheme, "RDG_OUT_DATA", id, false)
		if out == nil {
			return fmt.Sprintf("out-channel(status %d)", st)
		}
		defer out.Close()
		seed := make([]byte, 10)
		if _, err := io.ReadFull(br, seed); err != nil {
			return "out-channel-seed"
		}
		in, _, st := tourOpen(g, scheme, "RDG_IN_DATA", id, false)
		if in == nil {
			return fmt.Sprintf("in-channel(status %d)", st)
		}
		defer in.Close()
		in.Write([]byte("preamble-preamble-preamble"))
		time.Sleep(settle) // the gateway consumes the preamble with one read before it parses chunks
		rd, wr = br, in
	}
	send := func(p []byte) {
		if kind == "ws" {
			wr.Write(wsFrame(2, true, p))
		} else {
			wr.Write(append(append([]byte(strconv.FormatInt(int64(len(p)), 16)+"\r\n"), p...), '\r', '\n'))
		}
	}
	buf := make([]byte, 1<<16)
	recv := func() *tsgu.Pkt {
		for {
			tc.deframe()
			if pk := tc.NewPackets(); len(pk) > 0 {
				return &pk[0]
			}
			if tc.Closed {
				return nil
			}
			n, err := rd.Read(buf)
			tc.rbuf = append(tc.rbuf, buf[:n]...)
			if err != nil {
				tc.deframe()
				if pk := tc.NewPackets(); len(pk) > 0 {
					return &pk[0]
				}
				return nil
			}
		}
	}
	ext := uint16(0)
	if cookie != "" {
		ext = tsgu.ExtAuthPAA
	}
	steps := []struct {
		name string
		pkt  []byte
		typ  uint16
	}{
		{"handshake", tsgu.Handshake(1, 0, 0, ext), tsgu.TypeHandshakeResp},
		{"tunnel-create", tsgu.TunnelCreate(cookie, cookie != ""), tsgu.TypeTunnelResp},
		{"tunnel-auth", tsgu.TunnelAuth("pc"), tsgu.TypeTunnelAuthResp},
		{"channel-create", tsgu.ChannelCreate(host, port), tsgu.TypeChannelResp},
	}
	for _, s := range steps {
		send(s.pkt)
		pk := recv()
		if pk == nil {
			return s.name + "(unanswered)"
		}
		if pk.Type != s.typ || tsgu.ParseResp(*pk).Status != 0 {
			return fmt.Sprintf("%s(type %#x status %#x)", s.name, pk.Type, tsgu.ParseResp(*pk).Status)
		}
	}
	// data both ways through the echoing backend
	payload := []byte("tour-" + id)
	send(tsgu.Data(payload))
	pk := recv()
	if pk == nil {
		return "data(unanswered)"
	}
	if pk.Type != tsgu.TypeData || string(tsgu.ParseResp(*pk).Payload) != string(payload) {
		return fmt.Sprintf("data(type %#x)", pk.Type)
	}
	send(tsgu.Keepalive())
	send(tsgu.CloseChannel())
	pk = recv()
	if pk == nil || pk.Type != tsgu.TypeCloseResp {
		return "close-channel(unanswered)"
	}
	return ""
}

type tourCfg struct {
	Name   string
	Auth   []string
	Scheme string
	Token  bool
}

func c10Tour(env *Env, rep *Report) int {
	if gwBin() == "" {
		return 0
	}
	cfgs := []tourCfg{
		{"openid+usertoken", []string{"openid"}, "none", true},
		{"local", []string{"local"}, "basic", false},
		{"ntlm", []string{"ntlm"}, "ntlm", false},
		{"kerberos", []string{"kerberos"}, "kerberos", false},
		{"openid+local+ntlm", []string{"openid", "local", "ntlm"}, "basic,ntlm", true},
		{"openid+local+kerberos", []string{"openid", "local", "kerberos"}, "basic,kerberos", true},
	}
	n := 0
	for ci, cf := range cfgs {
		if !env.mine(ci) {
			continue
		}
		n++
		viol := func(kind, detail string) {
			rep.violate("C10/binary-tour:"+kind+"/"+cf.Name, detail, map[string]any{"noreplay": true, "part": "tour"})
		}
		as := StartAuthService(map[string]string{"alice": "alice-pw"})
		idp := LoopbackIdP()
		var be *hitListener
		bport := 0
		for try := 0; try < 30 && be == nil; try++ {
			bport = freePort()
			be = listenBackend("127.0.0.2", bport)
		}
		if be == nil {
			infra("cannot listen on 127.0.0.2")
		}
		be.setEcho(true)
		port := freePort()
		var sb strings.Builder
		fmt.Fprintf(&sb, "Server:\n Port: %d\n GatewayAddress: gw.example:%d\n AuthSocket: %s\n BasicAuthTimeout: 5\n HostSelection: roundrobin\n Hosts:\n  - \"127.0.0.2:%d\"\n Authentication:\n", port, port, as.Socket, bport)
		for _, a := range cf.Auth {
			sb.WriteString("  - " + a + "\n")
		}
		useTLS := ci > 0 // local authentication refuses to run without TLS
		if useTLS {
			crt, key := TLSFiles()
			fmt.Fprintf(&sb, " Tls: enable\n CertFile: %s\n KeyFile: %s\n", crt, key)
		} else {
			sb.WriteString(" Tls: disable\n")
		}
		fmt.Fprintf(&sb, "OpenId:\n ProviderUrl: %q\n ClientId: rdpgw\n ClientSecret: secret\n", idp.Issuer)
		fmt.Fprintf(&sb, "Caps:\n TokenAuth: %v\n", cf.Token)
		sb.WriteString("Security:\n PAATokenSigningKey: " + c02Key + "\n EnableUserToken: true\n UserTokenEncryptionKey: " + c15Enc + "\n UserTokenSigningKey: " + c15Sign + "\n")
		sb.WriteString("Client:\n UsernameTemplate: \"{{ username }}:{{ token }}\"\n")
		for _, a := range cf.Auth {
			if a == "kerberos" {
				kt, kc := c18Keytab()
				fmt.Fprintf(&sb, "Kerberos:\n Keytab: %s\n Krb5Conf: %s\n", kt, kc)
			}
		}
		g := StartGateway(sb.String(), nil, port, useTLS)
		if !g.Alive() {
			infra("C10 tour: gateway for %s did not start: %s", cf.Name, tail(g.Log(), 500))
		}
		rep.add("executions", 1)
		cookie := ""
		hasOpenID := false
		for _, a := range cf.Auth {
			hasOpenID = hasOpenID || a == "openid"
		}
		c := newGwClient(g)
		if hasOpenID {
			file, why := c.login(idp, "alice")
			rep.add("executions", 1)
			if why != "" {
				viol("download-not-answered", why+" | "+tail(g.Log(), 300))
			} else {
				cookie = rdpValue(file, "gatewayaccesstoken")
				un := rdpValue(file, "username")
				if i := strings.Index(un, ":"); i >= 0 {
					if code, _, body := c.get("/tokeninfo?access_token=" + un[i+1:]); code != 200 {
						viol("tokeninfo-not-answered", fmt.Sprintf("%d %s", code, body))
					}
				}
			}
		}
		// every other registered route answers something
		for _, path := range []string{"/metrics", "/tokeninfo", "/tokeninfo?access_token=x", "/connect?host=127.0.0.2", "/callback", "/callback?state=x&code=y", "/KdcProxy", "/remoteDesktopGateway/", "/"} {
			rep.add("executions", 1)
			if code, _, body := c.get(path); code == 0 {
				viol("route-not-answered", path+": "+body)
			}
		}
		scheme := cf.Scheme
		if cf.Token && !hasOpenID {
			scheme = "none"
		}
		if strings.Contains(cf.Scheme, ",") {
			// with stacked schemes a tunnel needs both a confirmed HTTP credential and the cookie
			for _, sch := range strings.Split(cf.Scheme, ",") {
				for _, kind := range []string{"ws", "legacy"} {
					c10TourRun(g, rep, viol, sch, kind, cookie, bport, be)
				}
			}
		} else {
			for _, kind := range []string{"ws", "legacy"} {
				c10TourRun(g, rep, viol, scheme, kind, cookie, bport, be)
			}
		}
		if cr := g.Crashed(); cr != "" {
			viol("panic", cr)
		}
		if !g.Alive() {
			viol("process-exited", tail(g.Log(), 300))
		}
		rep.outcome("tour " + cf.Name + " done")
		g.Stop()
		as.Stop()
		be.l.Close()
	}
	rep.sample(map[string]any{"part": "tour", "configurations": len(cfgs), "per_configuration": "OpenID login + download + tokeninfo where enabled, every registered route once, a complete session (handshake .. data echo .. close) over websocket and over the legacy transport"})
	return n
}

func c10TourRun(g *GwProc, rep *Report, viol func(kind, detail string), scheme, kind, cookie string, bport int, be *hitListener) {
	rep.add("executions", 1)
	var step string
	for _, settle := range []time.Duration{200 * time.Millisecond, time.Second, 3 * time.Second} {
		step = tourSession(g, scheme, kind, cookie, "127.0.0.2", uint16(bport), be, settle)
		if step == "" || g.Crashed() != "" {
			break
		}
	}
	rep.outcome(fmt.Sprintf("tour session %s/%s: %s", scheme, kind, map[bool]string{true: "complete", false: "incomplete"}[step == ""]))
	if step != "" {
		viol("session-step-not-answered/"+scheme+"/"+kind, step+" | "+tail(g.Log(), 300))
	}
}
