package main

import (
	"crypto/hmac"
	"crypto/sha256"
	"encoding/json"
	"fmt"
	"net/http"
	"net/url"
	"strings"
	"time"

	"github.com/bolkedebruin/rdpgw/cmd/rdpgw/web"

	"verif/internal/tsgu"
	"verif/shim/vclock"
	"verif/shim/vrand"
	"verif/shim/vsched"
)

// C12 — connection files go only to logged-in sessions and bind user, host and address.

func init() { props["C12"] = c12 }

const c12QueryKey = "query-key-query-key-query-key-32"

type c12Case struct {
	Pick     int // which entry the round-robin "random" pick selects
	Mode     string
	Hosts    []string
	Param    string // kind of host parameter
	User     string
	SubSame  bool
	Split    bool
	Template string
	Session  string // none | fresh | auth
	Addr     addrForm
	Move     bool // the browser logs in from another address than it downloads from
}

func (c c12Case) String() string {
	return fmt.Sprintf("pick=%d mode=%s hosts=%v param=%s user=%q subSame=%v split=%v template=%q session=%s addr=%s moved=%v", c.Pick, c.Mode, c.Hosts, c.Param, c.User, c.SubSame, c.Split, c.Template, c.Session, c.Addr.Name, c.Move)
}

func c12QueryToken(subject, issuer string, key []byte, exp time.Time, alg string) string {
	b, _ := json.Marshal(map[string]any{"sub": subject, "iss": issuer, "exp": exp.Unix()})
	hdr := `{"alg":"HS256","typ":"JWT"}`
	if alg == "none" {
		return jwsCompact(`{"alg":"none"}`, string(b), "none", nil)
	}
	return jwsCompact(hdr, string(b), "HS256", key)
}

// c12Param builds the host query parameter and the reference's expectation.
func c12Param(c c12Case) (param string, present bool) {
	now := time.Now()
	listed := c.Hosts[len(c.Hosts)-1]
	plain := c.Hosts[0]
	switch c.Param {
	case "absent":
		return "", false
	case "listed", "listed+unlisted":
		return plain, true
	case "unlisted", "unlisted+listed":
		return "elsewhere.example:3389", true
	case "placeholder-verbatim":
		return listed, true
	case "qt-listed":
		return c12QueryToken(plain, "issuer-1", []byte(c12QueryKey), now.Add(4*time.Minute), ""), true
	case "qt-unlisted":
		return c12QueryToken("elsewhere.example:3389", "issuer-1", []byte(c12QueryKey), now.Add(4*time.Minute), ""), true
	case "qt-forged-key":
		return c12QueryToken(plain, "issuer-1", []byte("ffffffffffffffffffffffffffffffff"), now.Add(4*time.Minute), ""), true
	case "qt-expired":
		return c12QueryToken(plain, "issuer-1", []byte(c12QueryKey), now.Add(-10*time.Minute), ""), true
	case "qt-wrong-issuer":
		return c12QueryToken(plain, "issuer-2", []byte(c12QueryKey), now.Add(4*time.Minute), ""), true
	case "qt-alg-none":
		return c12QueryToken(plain, "issuer-1", nil, now.Add(4*time.Minute), "none"), true
	}
	return "", false
}

// refSelect: which targets may the file name (after placeholder substitution); nil = the request must be refused.
func refSelect(c c12Case, param string, present bool) []string {
	subst := func(h string) string { return strings.Replace(h, "{{ preferred_username }}", c.User, 1) }
	switch c.Mode {
	case "roundrobin":
		var out []string
		for _, h := range c.Hosts {
			out = append(out, subst(h))
		}
		return out // the property allows any configured entry; the harness enumerates the pick
	case "unsigned":
		if !present {
			return nil
		}
		for _, h := range c.Hosts {
			if h == param {
				return []string{subst(h)}
			}
		}
		return nil
	case "signed":
		if !present || !strings.HasPrefix(c.Param, "qt-") {
			return nil
		}
		if c.Param == "qt-listed" {
			return []string{subst(c.Hosts[0])}
		}
		return nil
	case "any":
		if !present {
			return nil
		}
		return []string{subst(param)}
	}
	return nil
}

// c12TemplateFor: half of the cases (decided by the case itself, so that a replay sees the same) run with an
// .rdp template configured (Client.Defaults), the way the downloads start from a file in that deployment.
func c12TemplateFor(c c12Case) string {
	if (len(c.User)+len(c.Param)+len(c.Mode))%2 == 1 {
		return c09TemplateFile()
	}
	return ""
}

func c12Run(c c12Case, rep *Report) (viol, detail string) {
	vclock.Reset()
	vrand.Choice = c.Pick
	calls := vrand.Calls
	defer func() {
		if viol == "" && c.Mode == "roundrobin" && c.Session == "auth" && c.User != "" && vrand.Calls == calls {
			// the seam that makes the round-robin pick an enumerated input is not in use any more:
			// say so instead of claiming that every pick was covered
			if !c12SeamWarned {
				c12SeamWarned = true
				rep.capf("round-robin selection no longer goes through math/rand in cmd/rdpgw/web: the pick is not enumerated, each case saw whatever entry the gateway chose")
			}
		}
	}()
	app := NewWebApp(WebCfg{Store: "cookie", HostSelection: c.Mode, Hosts: append([]string{}, c.Hosts...), QueryIssuer: "issuer-1", SplitUser: c.Split, UserTemplate: c.Template,
		EnableUserTok: strings.Contains(c.Template, "{{ token }}"), VerifyClientIP: true, TemplateFile: c12TemplateFor(c)})
	rep.add("executions", 1)
	b := NewBrowser(c.Addr.Peer)
	if len(c.Addr.XFF) > 0 {
		b.XFF = c.Addr.XFF[0]
	}
	if c.Move {
		// login happens from elsewhere; the download below comes from c.Addr
		b.Peer, b.XFF = "198.51.100.7:41000", "203.0.113.9, 10.7.7.7"
	}
	sub := c.User
	if !c.SubSame {
		sub = "idp-subject-7"
	}
	at := "at-" + sub
	if c.Session != "none" {
		rec := b.Do(app, "GET", "/connect")
		if c.Session == "auth" {
			now := time.Now()
			key := "c12:" + c.User
			if _, ok := c13IDTokens[key]; !ok {
				c13IDTokens[key] = app.IdP.IDToken(map[string]any{"iss": idpIssuer, "aud": "rdpgw", "sub": sub, "exp": now.Add(time.Hour).Unix(), "iat": now.Unix(), "preferred_username": c.User}, false)
			}
			app.IdP.Codes["c12"] = CodeBehaviour{AccessToken: at, IDToken: c13IDTokens[key]}
			b.Do(app, "GET", "/callback?state="+StateOf(rec)+"&code=c12")
		}
	}
	if c.Move {
		b.Peer, b.XFF = c.Addr.Peer, ""
		if len(c.Addr.XFF) > 0 {
			b.XFF = c.Addr.XFF[0]
		}
	}
	param, present := c12Param(c)
	target := "/connect"
	if present {
		target += "?host=" + url.QueryEscape(param)
	}
	// a second value of the same parameter: the first one is the request
	switch c.Param {
	case "unlisted+listed":
		target += "&host=" + url.QueryEscape(c.Hosts[0])
	case "listed+unlisted":
		target += "&host=" + url.QueryEscape("elsewhere.example:3389")
	}
	rec := b.Do(app, "GET", target)
	body := rec.Body.String()
	if rec.Code == 599 {
		return "panic", body
	}
	authed := c.Session == "auth" && c.User != ""
	if !authed {
		if strings.Contains(body, "gatewayaccesstoken") || rec.Code == 200 {
			return "file-or-token-served-without-login", fmt.Sprintf("status %d", rec.Code)
		}
		if rec.Code != http.StatusFound || !strings.HasPrefix(rec.Header().Get("Location"), idpIssuer+"/auth") {
			return "unauthenticated-request-not-redirected-to-idp", fmt.Sprintf("status %d location %q", rec.Code, rec.Header().Get("Location"))
		}
		return "", ""
	}
	allowed := refSelect(c, param, present)
	if allowed == nil {
		if rec.Code == 200 || strings.Contains(body, "gatewayaccesstoken") {
			return "file-served-for-refused-host-selection/" + c.Mode, fmt.Sprintf("status %d", rec.Code)
		}
		return "", ""
	}
	if strings.Contains(c.Template, "{{ username }}") == false && c.Template != "" {
		// a template without the placeholder is a configuration error the handler reports
		if rec.Code == 200 {
			return "", ""
		}
		return "", ""
	}
	if rec.Code != 200 {
		return "file-refused-for-valid-request/" + c.Mode, fmt.Sprintf("status %d body %.80q", rec.Code, body)
	}
	lines, why := refRdpLines(body)
	if why != "" {
		return "served-file-not-well-formed", why
	}
	got := map[string]string{}
	for _, l := range lines {
		got[l.Name] = l.Value
	}
	if got["gatewayhostname"] != "gw.example:443" {
		return "wrong-gateway-in-file", got["gatewayhostname"]
	}
	tgt := got["full address"]
	ok := false
	for _, a := range allowed {
		if a == tgt {
			ok = true
		}
	}
	if !ok {
		return "target-host-not-chosen-by-policy/" + c.Mode, fmt.Sprintf("file names %q, policy allows %v", tgt, allowed)
	}
	tok := got["gatewayaccesstoken"]
	segs := strings.Split(tok, ".")
	if len(segs) != 3 {
		return "token-not-a-compact-jws", tok
	}
	m := hmac.New(sha256.New, []byte(c02Key))
	m.Write([]byte(segs[0] + "." + segs[1]))
	sig, _ := b64.DecodeString(segs[2])
	if !hmac.Equal(m.Sum(nil), sig) {
		return "token-not-signed-with-configured-key", ""
	}
	pb, _ := b64.DecodeString(segs[1])
	var cl map[string]any
	json.Unmarshal(pb, &cl)
	wantSub := c.User
	if c.Split {
		wantSub = strings.SplitN(c.User, "@", 2)[0]
	}
	wantIP := refClientIP(c.Addr)
	exp, _ := cl["exp"].(float64)
	switch {
	case cl["remoteServer"] != tgt:
		return "token-host-differs-from-file-host", fmt.Sprintf("%v vs %q", cl["remoteServer"], tgt)
	case cl["sub"] != wantSub:
		return "token-subject-is-not-the-session-user", fmt.Sprintf("sub=%v want %q", cl["sub"], wantSub)
	case cl["clientIp"] != wantIP:
		return "token-client-address-differs", fmt.Sprintf("clientIp=%v want %q", cl["clientIp"], wantIP)
	case cl["accessToken"] != at:
		return "token-does-not-carry-session-access-token", fmt.Sprint(cl["accessToken"])
	case cl["iss"] != "rdpgw":
		return "token-issuer", fmt.Sprint(cl["iss"])
	case exp == 0 || time.Unix(int64(exp), 0).After(time.Now().Add(301*time.Second)):
		return "token-lives-longer-than-five-minutes", fmt.Sprint(cl["exp"])
	case len(cl) != 6:
		return "token-has-unexpected-claims", fmt.Sprint(cl)
	}
	// round trip through the gateway's own tunnel checks
	if c.Mode == "signed" {
		return "", ""
	}
	host, port := tgt, uint16(3389)
	if i := strings.LastIndex(tgt, ":"); i > 0 {
		host = tgt[:i]
		var p int
		fmt.Sscan(tgt[i+1:], &p)
		port = uint16(p)
	} else {
		return "", "" // an entry without port cannot be requested in a channel packet as such
	}
	o := c12Tunnel(c, tok, host, port, rep)
	if o != "" {
		return "issued-file-refused-by-tunnel-checks/" + c.Mode, fmt.Sprintf("target %q: %s", tgt, o)
	}
	return "", ""
}

func c12Tunnel(c c12Case, tok, host string, port uint16, rep *Report) string {
	res := ""
	x := vsched.Run(nil, 20000, false, nil, func() {
		w := NewWorld()
		w.Accept = func(string) bool { return true }
		gw := NewGateway(GwCfg{TokenAuth: true, HostSelection: c.Mode, Hosts: append([]string{}, c.Hosts...), VerifyIP: true})
		h := web.EnrichContext(http.HandlerFunc(gw.HandleGatewayProtocol))
		cl, ok := w.OpenTunnel("ws", h, gw, "conn-1", c.Addr.Peer, nil, c04Header(c.Addr))
		if !ok {
			res = "transport refused"
			return
		}
		for i, s := range [][]byte{tsgu.Handshake(1, 0, 0, tsgu.ExtAuthPAA), tsgu.TunnelCreate(tok, true), tsgu.TunnelAuth("pc"), tsgu.ChannelCreate(host, port)} {
			cl.SendSegment(s)
			vsched.WaitIdle()
			cl.Absorb()
			pk := cl.NewPackets()
			if len(pk) != 1 || tsgu.ParseResp(pk[0]).Status != 0 {
				st := uint32(0xFFFFFFFF)
				if len(pk) == 1 {
					st = tsgu.ParseResp(pk[0]).Status
				}
				res = fmt.Sprintf("step %d answered with status %#x", i, st)
				break
			}
		}
		if res == "" && len(w.Net.Dials) != 1 {
			res = "no dial"
		}
		cl.CloseClient()
	})
	rep.add("transitions", int64(x.Steps))
	for _, p := range x.Panics() {
		res = "panic: " + p.Value
	}
	x.Finish()
	return res
}

func c12(env *Env, rep *Report) {
	rep.Rule = "product of host-selection modes {roundrobin, signed, unsigned, any} x host lists {1 entry, 3 entries, with user placeholder} x host parameter {absent, listed, unlisted, two values (unlisted then listed, listed then unlisted: the first is the request), placeholder entry verbatim, valid query token for a listed / unlisted subject, forged key, expired, wrong issuer, alg none} x user names {alice, alice@example.com, a@b@c, empty} x IdP subject {equal to the user name, different} x domain splitting {off, on} x user-name template {none, '{{ username }}@x', with '{{ token }}'} x session {none, fresh, logged in through the real callback} x 4 client address forms (peer only, forwarded IPv4, forwarded chain, a forwarded element that is not an address) (also with the login made from another address than the download); quick: template x address form on the diagonal (3 of 9 combinations), thorough: full product. Plus schedules with statement-level scheduling points (every statement of web, security, identity and rdp is a point): two logged-in browsers of different users download at the same time, without and with an .rdp template, every schedule with one deviation; every file must carry its own session's user, host, address and token. " +
		"Each case drives the real router pieces (EnrichContext, Authenticated, HandleCallback, HandleDownload) with a scripted IdP. Oracle: not logged in => 302 to the IdP and no token anywhere; logged in => file well-formed, names the configured gateway, target chosen by the reference policy, the token's MAC verifies under the configured key and its claims are exactly {that host, session user (domain stripped iff splitting), reference client address, the session's access token, issuer, exp <= 5 min}; then (roundrobin / unsigned / any) the host and token are presented unmodified from the same address to the real tunnel path (EnrichContext, CheckPAACookie, CheckSession(CheckHost)) and must open the channel. distinct_nontrivial = distinct cases."
	rep.Assumptions = append(rep.Assumptions, "cookie session store (C13 covers both stores)", "the IdP's userinfo subject equals the ID token subject", "round-robin's random pick is an enumerated input: math/rand in cmd/rdpgw/web is replaced by a harness-controlled source through the build overlay, and every entry is picked in turn")
	modes := []string{"roundrobin", "signed", "unsigned", "any"}
	lists := [][]string{{"hosta.example:3389"}, {"hosta.example:3389", "hostb.example:3390", "10.1.2.3:3389"}, {"hosta.example:3389", "my-{{ preferred_username }}-host:3389"}}
	params := []string{"absent", "listed", "unlisted", "unlisted+listed", "listed+unlisted", "placeholder-verbatim", "qt-listed", "qt-unlisted", "qt-forged-key", "qt-expired", "qt-wrong-issuer", "qt-alg-none"}
	users := []string{"alice", "alice@example.com", "a@b@c", ""}
	templates := []string{"", "{{ username }}@x", "{{ username }}:{{ token }}"}
	sessions := []string{"none", "fresh", "auth"}
	forms := c04Forms()
	byName := func(n string) addrForm {
		for _, f := range forms {
			if f.Name == n {
				return f
			}
		}
		infra("address form %s missing", n)
		return addrForm{}
	}
	addrs := []addrForm{forms[0], forms[4], byName("xff5"), byName("xff-unknown")}
	var cases []c12Case
	k := 0
	for _, m := range modes {
		for _, l := range lists {
			for _, p := range params {
				for _, s := range sessions {
					for ui, u := range users {
						for _, same := range []bool{true, false} {
							for _, sp := range []bool{false, true} {
								for ti, t := range templates {
									for ai, a := range addrs {
										k++
										_ = ui
										if !env.thorough() && (ti+ai)%3 != 0 {
											continue
										}
										if s != "auth" && (ti > 0 || ai > 0 || sp || !same) {
											continue // without a login these dimensions cannot matter: one representative
										}
										picks := 1
										if m == "roundrobin" {
											picks = len(l)
										}
										for pk := 0; pk < picks; pk++ {
											cases = append(cases, c12Case{pk, m, l, p, u, same, sp, t, s, a, false})
											if s == "auth" && ti == 0 && !sp && same {
												cases = append(cases, c12Case{pk, m, l, p, u, same, sp, t, s, a, true})
											}
										}
									}
								}
							}
						}
					}
				}
			}
		}
	}
	if env.Replay != nil && env.Replay["scenario"] == "concurrent-downloads" {
		c12FineReplay(env, rep)
		return
	}
	if env.Replay != nil {
		idx, _ := env.Replay["case"].(string)
		for _, c := range cases {
			if c.String() == idx {
				v, d := c12Run(c, rep)
				fmt.Println("verdict:", v, d)
				if v != "" {
					rep.violate(c12Sig(c, v), d, env.Replay)
				}
			}
		}
		return
	}
	distinct := 0
	for i, c := range cases {
		if !env.mine(i) {
			continue
		}
		distinct++
		v, d := c12Run(c, rep)
		rep.outcome(fmt.Sprintf("mode=%s param=%s session=%s verdict=%s", c.Mode, c.Param, c.Session, v))
		if v != "" {
			rep.violate(c12Sig(c, v), c.String()+": "+d, map[string]any{"engine": "enum", "case": c.String()})
		}
		if distinct%700 == 1 {
			rep.sample(map[string]any{"case": c.String(), "verdict": v})
		}
	}
	if gwBin() != "" && env.Shard == 0 {
		bindCore(rep, "C12")
		bindModes(rep, "C12")
	}
	rep.Bounds = map[string]any{"cases": len(cases)}
	// within the token's lifetime means until its end: a file presented when its token has 240 / 20 / 6 seconds
	// left (downloaded that long before the end of the five minutes) still opens the channel; one that is 90
	// seconds over does not; and an entry that uses the user placeholder twice gives a file the tunnel accepts
	if env.Shard == 0 || env.NShards == 1 {
		for _, hosts := range [][]string{{"hosta.example:3389"}, {"{{ preferred_username }}-pc.{{ preferred_username }}.home.example:3389"}} {
			for _, left := range []int{240, 20, 6, -90} {
				distinct++
				rep.add("executions", 1)
				vclock.Reset()
				mode := "roundrobin"
				app := NewWebApp(WebCfg{Store: "cookie", HostSelection: mode, Hosts: hosts, VerifyClientIP: true})
				b := fineLogin(app, "alice", "10.0.0.1:40000")
				vclock.Advance(-time.Duration(300-left) * time.Second)
				r := b.Do(app, "GET", "/connect")
				vclock.Reset()
				f := r.Body.String()
				tgt, tok := rdpValue(f, "full address"), rdpValue(f, "gatewayaccesstoken")
				i := strings.LastIndex(tgt, ":")
				if r.Code != 200 || i < 0 {
					rep.violate("C12/no-file-for-a-logged-in-session", fmt.Sprintf("hosts %v: status %d", hosts, r.Code), map[string]any{"noreplay": true})
					continue
				}
				var port int
				fmt.Sscan(tgt[i+1:], &port)
				o := c12Tunnel(c12Case{Mode: mode, Hosts: hosts, Addr: addrForm{Name: "peer", Peer: "10.0.0.1:40000"}}, tok, tgt[:i], uint16(port), rep)
				rep.outcome(fmt.Sprintf("lifetime left=%ds placeholder-twice=%v opened=%v", left, len(hosts[0]) > 30, o == ""))
				switch {
				case left > 0 && o != "":
					rep.violate("C12/issued-file-refused-by-tunnel-checks/within-its-lifetime", fmt.Sprintf("hosts %v: file and token presented unmodified from the same address with %d s of the token's five minutes left: %s", hosts, left, o), map[string]any{"noreplay": true})
				case left < 0 && o == "":
					rep.violate("C12/issued-file-accepted-after-its-lifetime", fmt.Sprintf("hosts %v: presented %d s after the token's end (leeway 60 s)", hosts, -left), map[string]any{"noreplay": true})
				}
			}
		}
	}
	if env.Shard == 0 || env.NShards == 1 {
		// user names that also occur in the literal text of the entry around the placeholder: the file the
		// download hands out is accepted by the tunnel checks
		entry := "desktop-{{ preferred_username }}.desk.example:3389"
		for _, mode := range []string{"roundrobin", "unsigned"} {
			for _, user := range []string{"de", "top", "desktop", "desk", "e", "example", "3389", "-", "desktop-"} {
				distinct++
				rep.add("executions", 1)
				vclock.Reset()
				hosts := []string{entry}
				app := NewWebApp(WebCfg{Store: "cookie", HostSelection: mode, Hosts: hosts, VerifyClientIP: true})
				b := fineLogin(app, user, "10.0.0.1:40000")
				target := "/connect"
				if mode == "unsigned" {
					target += "?host=" + url.QueryEscape(entry)
				}
				r := b.Do(app, "GET", target)
				f := r.Body.String()
				tgt, tok := rdpValue(f, "full address"), rdpValue(f, "gatewayaccesstoken")
				want := strings.Replace(entry, "{{ preferred_username }}", user, 1)
				if r.Code != 200 || tgt != want {
					rep.violate("C12/target-host-not-chosen-by-policy/user-name-inside-entry-text/"+mode, fmt.Sprintf("user %q, entry %q: status %d, file names %q", user, entry, r.Code, tgt), map[string]any{"noreplay": true})
					continue
				}
				o := c12Tunnel(c12Case{Mode: mode, Hosts: hosts, Addr: addrForm{Name: "peer", Peer: "10.0.0.1:40000"}}, tok, strings.TrimSuffix(tgt, ":3389"), 3389, rep)
				rep.outcome(fmt.Sprintf("user-name-inside-entry-text %s opened=%v", mode, o == ""))
				if o != "" {
					rep.violate("C12/issued-file-refused-by-tunnel-checks/user-name-inside-entry-text/"+mode, fmt.Sprintf("user %q, entry %q: file names %q, presented unmodified from the same address: %s", user, entry, tgt, o), map[string]any{"noreplay": true})
				}
			}
		}
		// signed selection: the query token's lifetime counts at the moment of the download, not of the login —
		// logged in while the query token was good, download four minutes after its end: no file
		for _, late := range []bool{false, true} {
			distinct++
			rep.add("executions", 1)
			vclock.Reset()
			app := NewWebApp(WebCfg{Store: "cookie", HostSelection: "signed", Hosts: []string{"hosta.example:3389"}, QueryIssuer: "issuer-1", VerifyClientIP: true})
			b := fineLogin(app, "alice", "10.0.0.1:40000")
			qt := c12QueryToken("hosta.example:3389", "issuer-1", []byte(c12QueryKey), time.Now().Add(time.Minute), "")
			if late {
				vclock.Advance(5 * time.Minute)
			}
			r := b.Do(app, "GET", "/connect?host="+url.QueryEscape(qt))
			vclock.Reset()
			served := r.Code == 200 || strings.Contains(r.Body.String(), "gatewayaccesstoken")
			rep.outcome(fmt.Sprintf("signed query token late=%v served=%v", late, served))
			if late && served {
				rep.violate("C12/file-served-for-refused-host-selection/signed/query-token-expired-since-the-login", fmt.Sprintf("logged in while the query token had a minute left, download four minutes after its end: status %d", r.Code), map[string]any{"noreplay": true})
			}
			if !late && !served {
				rep.violate("C12/file-refused-for-valid-request/signed", fmt.Sprintf("query token with a minute left: status %d", r.Code), map[string]any{"noreplay": true})
			}
		}
	}
	distinct += c12Fine(env, rep)
	rep.add("distinct", int64(distinct))
	rep.add("states", int64(distinct))
}

var c12SeamWarned bool

func c12Sig(c c12Case, v string) string {
	sig := "C12/" + v
	if strings.HasPrefix(v, "issued-file-refused-by-tunnel-checks") {
		ph := "plain-list"
		if strings.Contains(strings.Join(c.Hosts, " "), "{{") {
			ph = "placeholder-list"
		}
		sig = fmt.Sprintf("C12/issued-file-refused-by-tunnel-checks/%s/subject-equals-user=%v/%s/split=%v", ph, c.SubSame, c.Mode, c.Split)
	}
	return sig
}
