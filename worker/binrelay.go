package main

import (
	"bufio"
	"bytes"
	"fmt"
	"io"
	"net"
	"strconv"
	"strings"
	"sync"
	"time"

	"verif/internal/tsgu"
)

// Relaying through the real binary over real sockets (what the in-process model of a connection cannot show:
// socket options, descriptors, the kernel's buffers): Basic authentication against the scripted backend, one
// tunnel per user, each user's host a listener on its own loopback address.

type relayWorld struct {
	gw    *GwProc
	auth  *AuthService
	port  int
	lns   []net.Listener
	mu    sync.Mutex
	got   map[string][]byte // bytes each host received
	errs  map[string]string
	conns map[string]net.Conn
	slow  time.Duration // each host starts reading this long after accepting
}

func startRelayWorld(extraServerYaml string, slow time.Duration) *relayWorld {
	w := &relayWorld{got: map[string][]byte{}, errs: map[string]string{}, conns: map[string]net.Conn{}, slow: slow}
	w.auth = StartAuthService(map[string]string{userA: passA, userB: passB})
	for try := 0; try < 20 && len(w.lns) < 2; try++ {
		for _, l := range w.lns {
			l.Close()
		}
		w.lns = nil
		w.port = freePort()
		for _, ip := range []string{userA, userB} {
			l, err := net.Listen("tcp", ip+":"+strconv.Itoa(w.port))
			if err != nil {
				break
			}
			w.lns = append(w.lns, l)
			ip := ip
			go func() {
				for {
					c, err := l.Accept()
					if err != nil {
						return
					}
					w.mu.Lock()
					w.conns[ip] = c
					w.mu.Unlock()
					go func() {
						time.Sleep(w.slow)
						buf := make([]byte, 1<<16)
						for {
							n, err := c.Read(buf)
							w.mu.Lock()
							w.got[ip] = append(w.got[ip], buf[:n]...)
							if err != nil && err != io.EOF {
								w.errs[ip] = err.Error()
							}
							w.mu.Unlock()
							if err != nil {
								return
							}
						}
					}()
				}
			}()
		}
	}
	if len(w.lns) < 2 {
		infra("cannot listen on 127.0.0.2/127.0.0.3")
	}
	port := freePort()
	cf, kf := TLSFiles()
	yaml := fmt.Sprintf("Server:\n Port: %d\n GatewayAddress: gw.example:%d\n AuthSocket: %s\n BasicAuthTimeout: 5\n HostSelection: roundrobin\n Hosts:\n  - \"{{ preferred_username }}:%d\"\n Authentication:\n  - local\n Tls: enable\n CertFile: %s\n KeyFile: %s\n%sCaps:\n TokenAuth: false\n", port, port, w.auth.Socket, w.port, cf, kf, extraServerYaml)
	w.gw = StartGateway(yaml, nil, port, true)
	if !w.gw.Alive() {
		infra("relay binding: gateway did not start: %s", tail(w.gw.Log(), 400))
	}
	return w
}

func (w *relayWorld) stop() {
	w.gw.Stop()
	w.auth.Stop()
	for _, l := range w.lns {
		l.Close()
	}
	w.mu.Lock()
	for _, c := range w.conns {
		c.Close()
	}
	w.mu.Unlock()
}

type relayClient struct {
	c   net.Conn
	br  *bufio.Reader
	tc  *TunnelClient
	buf []byte
}

// open authenticates as user, upgrades, and runs HS, TC, TA, CC to that user's host.
func (w *relayWorld) open(user, pass string) (*relayClient, string) {
	c, err := w.gw.Dial()
	if err != nil {
		return nil, "dial: " + err.Error()
	}
	c.SetDeadline(time.Now().Add(60 * time.Second))
	raw, _ := methodRequest("ws", []string{basicHdr(user, pass)})
	c.Write([]byte(raw))
	br := bufio.NewReader(c)
	if r := ReadResponse(br); r.Status != 101 {
		c.Close()
		return nil, fmt.Sprintf("upgrade answered %d", r.Status)
	}
	rc := &relayClient{c: c, br: br, tc: &TunnelClient{Kind: "ws"}, buf: make([]byte, 1<<16)}
	for _, p := range [][]byte{tsgu.Handshake(1, 0, 0, 0), tsgu.TunnelCreate("", false), tsgu.TunnelAuth("pc"), tsgu.ChannelCreate(user, uint16(w.port))} {
		c.Write(wsFrame(2, true, p))
		pk := rc.next()
		if pk == nil || tsgu.ParseResp(*pk).Status != 0 {
			c.Close()
			return nil, "setup refused"
		}
	}
	return rc, ""
}

// next returns the next packet from the gateway (nil at the end of the stream).
func (rc *relayClient) next() *tsgu.Pkt {
	for {
		rc.tc.deframe()
		if pk := rc.tc.NewPackets(); len(pk) > 0 {
			// NewPackets hands out everything new: keep the rest for later calls
			rc.tc.consumed -= len(pk) - 1
			return &pk[0]
		}
		if rc.tc.Closed {
			return nil
		}
		n, err := rc.br.Read(rc.buf)
		rc.tc.rbuf = append(rc.tc.rbuf, rc.buf[:n]...)
		if err != nil {
			rc.tc.deframe()
			if pk := rc.tc.NewPackets(); len(pk) > 0 {
				rc.tc.consumed -= len(pk) - 1
				return &pk[0]
			}
			return nil
		}
	}
}

func (w *relayWorld) hostGot(ip string) (int, string) {
	w.mu.Lock()
	defer w.mu.Unlock()
	return len(w.got[ip]), w.errs[ip]
}

// relayLargeThenClose: 6 MiB client to host in 32 KiB data packets, then an orderly channel close, to a host that
// starts reading late: every byte the gateway accepted arrives, and the host sees an orderly end.
func relayLargeThenClose(rep *Report, prop string) int {
	if gwBin() == "" {
		return 0
	}
	viol := func(kind, detail string) { rep.violate(prop+"/binary:"+kind, detail, map[string]any{"noreplay": true}) }
	w := startRelayWorld("", 400*time.Millisecond)
	defer w.stop()
	rc, why := w.open(userA, passA)
	if rc == nil {
		infra("relay binding: %s", why)
	}
	defer rc.c.Close()
	const total = 6 << 20
	chunk := bytes.Repeat([]byte("0123456789abcdef"), 2048) // 32 KiB
	for sent := 0; sent < total; sent += len(chunk) {
		if _, err := rc.c.Write(wsFrame(2, true, tsgu.Data(chunk))); err != nil {
			viol("client-cannot-send", err.Error())
			return 1
		}
	}
	rc.c.Write(wsFrame(2, true, tsgu.CloseChannel()))
	for pk := rc.next(); pk != nil; pk = rc.next() {
	}
	var n int
	var e string
	for i := 0; i < 300; i++ {
		n, e = w.hostGot(userA)
		if n >= total || e != "" {
			break
		}
		time.Sleep(50 * time.Millisecond)
	}
	rep.add("executions", 1)
	rep.outcome(fmt.Sprintf("binary large-transfer-then-close complete=%v err=%v", n == total, e != ""))
	if n != total || e != "" {
		viol("host-stream-incomplete-after-orderly-close", fmt.Sprintf("the client sent %d bytes in data packets and then closed the channel; its host (which started reading 400 ms after accepting) received %d bytes, read error %q", total, n, e))
	}
	if cr := w.gw.Crashed(); cr != "" {
		viol("panic", cr)
	}
	return 1
}

// relayWithBuffers: socket buffer sizes configured; tunnel A relays 12 MiB (the gateway allocates and collects
// garbage meanwhile), then tunnel B is set up; afterwards A still relays, and each side got only its own bytes.
func relayWithBuffers(rep *Report, prop string) int {
	if gwBin() == "" {
		return 0
	}
	viol := func(kind, detail string) { rep.violate(prop+"/binary:"+kind, detail, map[string]any{"noreplay": true}) }
	w := startRelayWorld(" SendBuf: 65536\n ReceiveBuf: 65536\n", 0)
	defer w.stop()
	a, why := w.open(userA, passA)
	if a == nil {
		infra("relay binding (buffers): %s", why)
	}
	defer a.c.Close()
	chunk := bytes.Repeat([]byte("AAAAAAAAAAAAAAAA"), 1024) // 16 KiB
	sentA := 0
	push := func(n int) bool {
		for i := 0; i < n; i++ {
			if _, err := a.c.Write(wsFrame(2, true, tsgu.Data(chunk))); err != nil {
				return false
			}
			sentA += len(chunk)
		}
		return true
	}
	ok := push(768) // 12 MiB: several collections in the gateway
	time.Sleep(300 * time.Millisecond)
	b, whyB := w.open(userB, passB)
	if b != nil {
		defer b.c.Close()
		b.c.Write(wsFrame(2, true, tsgu.Data([]byte("BBBB-from-client-b"))))
	}
	// host A talks to its client, host B to its own
	var ca, cb net.Conn
	for i := 0; i < 100; i++ { // the hosts' accept loops may not have taken the connections yet
		w.mu.Lock()
		ca, cb = w.conns[userA], w.conns[userB]
		w.mu.Unlock()
		if ca != nil && (cb != nil || b == nil) {
			break
		}
		time.Sleep(20 * time.Millisecond)
	}
	if ca != nil {
		ca.Write([]byte("from-host-a"))
	}
	if cb != nil {
		cb.Write([]byte("from-host-b"))
	}
	ok = ok && push(64)
	var gotA, gotB []byte
	read := func(rc *relayClient, want int) []byte {
		var out []byte
		rc.c.SetReadDeadline(time.Now().Add(20 * time.Second))
		for len(out) < want {
			pk := rc.next()
			if pk == nil {
				break
			}
			if pk.Type == tsgu.TypeData {
				out = append(out, tsgu.ParseResp(*pk).Payload...)
			}
		}
		return out
	}
	gotA = read(a, len("from-host-a"))
	if b != nil {
		gotB = read(b, len("from-host-b"))
	}
	var nA int
	for i := 0; i < 200; i++ {
		nA, _ = w.hostGot(userA)
		if nA >= sentA {
			break
		}
		time.Sleep(50 * time.Millisecond)
	}
	w.mu.Lock()
	hostA, hostB := w.got[userA], w.got[userB]
	w.mu.Unlock()
	rep.add("executions", 1)
	rep.outcome(fmt.Sprintf("binary buffers a-complete=%v b-open=%v", nA == sentA, b != nil))
	switch {
	case !ok || nA != sentA:
		viol("tunnel-breaks-while-relaying/socket-buffers-configured", fmt.Sprintf("client A sent %d bytes, its host received %d (writes ok: %v); second tunnel: %q", sentA, nA, ok, whyB))
	case b == nil:
		viol("second-tunnel-not-served/socket-buffers-configured", whyB)
	case string(gotA) != "from-host-a" || string(gotB) != "from-host-b":
		viol("bytes-of-another-tunnel-delivered/socket-buffers-configured", fmt.Sprintf("client A received %q, client B received %q", gotA, gotB))
	case bytes.Contains(hostA, []byte("BBBB")) || strings.Trim(string(hostB), "") != "BBBB-from-client-b":
		viol("bytes-of-another-tunnel-delivered/socket-buffers-configured", fmt.Sprintf("host B received %q; host A received bytes of client B: %v", hostB, bytes.Contains(hostA, []byte("BBBB"))))
	}
	if cr := w.gw.Crashed(); cr != "" {
		viol("panic", cr)
	}
	return 1
}
