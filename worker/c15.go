package main

import (
	"bytes"
	"compress/flate"
	"context"
	"crypto/aes"
	"crypto/cipher"
	"crypto/hmac"
	"crypto/sha256"
	"encoding/binary"
	"encoding/json"
	"fmt"
	"hash/fnv"
	"io"
	"net/http"
	"net/http/httptest"
	"net/url"
	"strings"
	"time"
	"verif/shim/vclock"

	jose "github.com/go-jose/go-jose/v4"
	"github.com/go-jose/go-jose/v4/jwt"

	"github.com/bolkedebruin/rdpgw/cmd/rdpgw/security"
	"github.com/bolkedebruin/rdpgw/cmd/rdpgw/web"
)

// C15 — user tokens verify only if minted under the configured keys and unexpired.

func init() { props["C15"] = c15 }

const (
	c15Enc  = "ENCRYPTION-KEY-ENCRYPTION-KEY-32"
	c15Sign = "SIGNING-KEY-SIGNING-KEY-SIGNIN32"
)

// jweOpen: independent A128CBC-HS256 / dir verification and decryption (RFC 7518 5.2).
func jweOpen(tok string, key []byte) (plain []byte, hdr map[string]any, why string) {
	s := strings.Split(tok, ".")
	if len(s) != 5 {
		return nil, nil, "not five segments"
	}
	hb, err := b64.DecodeString(s[0])
	if err != nil || json.Unmarshal(hb, &hdr) != nil {
		return nil, nil, "header undecodable"
	}
	if hdr["alg"] != "dir" || hdr["enc"] != "A128CBC-HS256" {
		return nil, hdr, "not dir / A128CBC-HS256"
	}
	iv, e1 := b64.DecodeString(s[2])
	ct, e2 := b64.DecodeString(s[3])
	tag, e3 := b64.DecodeString(s[4])
	if e1 != nil || e2 != nil || e3 != nil {
		return nil, hdr, "segment not base64url"
	}
	if len(key) != 32 || len(iv) != 16 || len(ct) == 0 || len(ct)%16 != 0 {
		return nil, hdr, "bad sizes"
	}
	// the additional authenticated data is the encoded protected header; a
	// non-canonical base64 spelling of the same header bytes is classified by its
	// decoded value (the same header), see hdr["_noncanonical"]
	aad := b64.EncodeToString(hb)
	if aad != s[0] {
		hdr["_noncanonical"] = true
	}
	m := hmac.New(sha256.New, key[:16])
	m.Write([]byte(aad))
	m.Write(iv)
	m.Write(ct)
	var al [8]byte
	binary.BigEndian.PutUint64(al[:], uint64(len(aad))*8)
	m.Write(al[:])
	if !hmac.Equal(m.Sum(nil)[:16], tag) {
		return nil, hdr, "authentication tag does not verify under the configured encryption key"
	}
	blk, _ := aes.NewCipher(key[16:])
	pt := make([]byte, len(ct))
	cipher.NewCBCDecrypter(blk, iv).CryptBlocks(pt, ct)
	pad := int(pt[len(pt)-1])
	if pad < 1 || pad > 16 || pad > len(pt) {
		return nil, hdr, "bad padding"
	}
	pt = pt[:len(pt)-pad]
	if hdr["zip"] == "DEF" {
		out, err := io.ReadAll(flate.NewReader(bytes.NewReader(pt)))
		if err != nil {
			return nil, hdr, "inflate failed"
		}
		pt = out
	}
	return pt, hdr, ""
}

// c15Classify: must the token be accepted / refused under the given configured keys?
func c15Classify(tok string, encKey, signKey []byte, now time.Time) (string, string, string) {
	pt, hdr, why := jweOpen(tok, encKey)
	if why != "" {
		return "refuse", why, ""
	}
	s := strings.Split(tok, ".")
	if s[1] != "" || len(hdr) > 4 || hdr["_noncanonical"] != nil {
		return "unspecified", "", ""
	}
	var claims map[string]any
	if len(signKey) > 0 {
		in := strings.Split(string(pt), ".")
		if len(in) != 3 {
			return "refuse", "content is not a signed JWT although a signing key is configured", ""
		}
		var ih map[string]any
		ihb, err := b64.DecodeString(in[0])
		if err != nil || json.Unmarshal(ihb, &ih) != nil || ih["alg"] != "HS256" {
			return "refuse", "inner JWS is not HS256", ""
		}
		sig, err := b64.DecodeString(in[2])
		m := hmac.New(sha256.New, signKey)
		m.Write([]byte(in[0] + "." + in[1]))
		if err != nil || !hmac.Equal(m.Sum(nil), sig) {
			return "refuse", "inner signature does not verify under the configured signing key", ""
		}
		pb, err := b64.DecodeString(in[1])
		if err != nil || json.Unmarshal(pb, &claims) != nil {
			return "refuse", "inner payload undecodable", ""
		}
	} else {
		if json.Unmarshal(pt, &claims) != nil {
			return "refuse", "content is not a claims object although no signing key is configured", ""
		}
	}
	if iss, _ := claims["iss"].(string); iss != "rdpgw" {
		return "refuse", "issuer is not rdpgw", ""
	}
	sub, _ := claims["sub"].(string)
	e, ok := claims["exp"].(float64)
	if !ok {
		return "unspecified", "", sub
	}
	if time.Unix(int64(e), 0).Before(now.Add(-65 * time.Second)) {
		return "refuse", "expired beyond the leeway", sub
	}
	if time.Unix(int64(e), 0).Before(now.Add(5*time.Second)) || claims["nbf"] != nil || claims["iat"] != nil {
		return "unspecified", "", sub
	}
	return "accept", "", sub
}

// craft builds a token with go-jose under arbitrary keys / algorithms / claims.
func c15Craft(encKey, signKey []byte, enc jose.ContentEncryption, alg jose.KeyAlgorithm, claims any, zip bool) string {
	opts := &jose.EncrypterOptions{}
	if zip {
		opts.Compression = jose.DEFLATE
	}
	opts = opts.WithContentType("JWT")
	e, err := jose.NewEncrypter(enc, jose.Recipient{Algorithm: alg, Key: encKey}, opts)
	if err != nil {
		return "craft-error:" + err.Error()
	}
	if signKey != nil {
		sg, err := jose.NewSigner(jose.SigningKey{Algorithm: jose.HS256, Key: signKey}, nil)
		if err != nil {
			return "craft-error:" + err.Error()
		}
		t, err := jwt.SignedAndEncrypted(sg, e).Claims(claims).Serialize()
		if err != nil {
			return "craft-error:" + err.Error()
		}
		return t
	}
	t, err := jwt.Encrypted(e).Claims(claims).Serialize()
	if err != nil {
		return "craft-error:" + err.Error()
	}
	return t
}

type c15Case struct{ Class, Name, Tok string }

func c15Cases(signMode bool, user string) []c15Case {
	security.UserEncryptionKey = []byte(c15Enc)
	security.UserSigningKey = nil
	var sk []byte
	if signMode {
		sk = []byte(c15Sign)
		security.UserSigningKey = sk
	}
	valid, err := security.GenerateUserToken(context.Background(), user)
	if err != nil {
		infra("GenerateUserToken: %v", err)
	}
	var out []c15Case
	add := func(c, n, t string) { out = append(out, c15Case{c, n, t}) }
	add("valid", "minted", valid)
	segs := strings.Split(valid, ".")
	alphabet := "ABCDEFGHIJKLMNOPQRSTUVWXYZabcdefghijklmnopqrstuvwxyz0123456789-_.= "
	pos := 0
	for si, sg := range segs {
		for i := 0; i < len(sg); i++ {
			for _, c := range alphabet {
				if byte(c) == sg[i] {
					continue
				}
				add("char-substitution", fmt.Sprintf("segment=%d/pos=%d/char=%q", si, i, c), valid[:pos+i]+string(c)+valid[pos+i+1:])
			}
		}
		if len(sg) == 0 {
			for _, c := range "Aa0-_" {
				add("char-insertion-in-empty-segment", fmt.Sprintf("segment=%d/char=%q", si, c), valid[:pos]+string(c)+valid[pos:])
			}
		}
		pos += len(sg) + 1
	}
	for l := 0; l < len(valid); l++ {
		add("truncation", fmt.Sprintf("len=%d", l), valid[:l])
	}
	for n := 0; n <= 7; n++ {
		add("segments", fmt.Sprintf("count=%d", n), strings.TrimSuffix(strings.Repeat(segs[0]+".", n), "."))
	}
	for _, s := range []string{".", "....", "a.b.c.d.e", strings.Repeat("A", 70000), valid + ".", valid + valid, " " + valid, strings.ToUpper(valid)} {
		add("shape", fmt.Sprintf("%.16q/len=%d", s, len(s)), s)
	}
	now := vclock.Now()
	cl := func(iss string, exp time.Time) jwt.Claims {
		return jwt.Claims{Subject: user, Issuer: iss, Expiry: jwt.NewNumericDate(exp)}
	}
	good := cl("rdpgw", now.Add(4*time.Minute))
	ek, other := []byte(c15Enc), []byte("other-key-other-key-other-key-32")
	add("keys", "right-keys-crafted", c15Craft(ek, sk, jose.A128CBC_HS256, jose.DIRECT, good, true))
	add("keys", "right-keys-no-zip", c15Craft(ek, sk, jose.A128CBC_HS256, jose.DIRECT, good, false))
	add("keys", "other-encryption-key", c15Craft(other, sk, jose.A128CBC_HS256, jose.DIRECT, good, true))
	if signMode {
		add("keys", "other-signing-key", c15Craft(ek, other, jose.A128CBC_HS256, jose.DIRECT, good, true))
		add("keys", "encrypt-only-token-in-sign-mode", c15Craft(ek, nil, jose.A128CBC_HS256, jose.DIRECT, good, true))
		add("keys", "signed-with-encryption-key", c15Craft(ek, ek, jose.A128CBC_HS256, jose.DIRECT, good, true))
	} else {
		add("keys", "signed-token-in-encrypt-only-mode", c15Craft(ek, []byte(c15Sign), jose.A128CBC_HS256, jose.DIRECT, good, true))
	}
	add("algorithms", "A256GCM-dir", c15Craft(ek, sk, jose.A256GCM, jose.DIRECT, good, true))
	add("algorithms", "A128GCM-dir", c15Craft(ek[:16], sk, jose.A128GCM, jose.DIRECT, good, true))
	add("algorithms", "A256CBC-HS512-dir", c15Craft(append(append([]byte{}, ek...), ek...), sk, jose.A256CBC_HS512, jose.DIRECT, good, true))
	add("algorithms", "A128KW", c15Craft(ek[:16], sk, jose.A128CBC_HS256, jose.A128KW, good, true))
	add("algorithms", "A256KW", c15Craft(ek, sk, jose.A128CBC_HS256, jose.A256KW, good, true))
	add("algorithms", "PBES2", c15Craft(ek, sk, jose.A128CBC_HS256, jose.PBES2_HS256_A128KW, good, true))
	for _, iss := range []string{"", "RDPGW", "rdpgw ", "other"} {
		add("claims", "iss="+iss, c15Craft(ek, sk, jose.A128CBC_HS256, jose.DIRECT, cl(iss, now.Add(4*time.Minute)), true))
	}
	for n, d := range map[string]time.Duration{"now-1h": -time.Hour, "now-70s": -70 * time.Second, "now-50s": -50 * time.Second, "now+50s": 50 * time.Second, "now+1h": time.Hour} {
		add("claims", "exp="+n, c15Craft(ek, sk, jose.A128CBC_HS256, jose.DIRECT, cl("rdpgw", now.Add(d)), true))
	}
	add("claims", "no-exp", c15Craft(ek, sk, jose.A128CBC_HS256, jose.DIRECT, jwt.Claims{Subject: user, Issuer: "rdpgw"}, true))
	add("claims", "nbf-future", c15Craft(ek, sk, jose.A128CBC_HS256, jose.DIRECT, jwt.Claims{Subject: user, Issuer: "rdpgw", Expiry: jwt.NewNumericDate(now.Add(time.Hour)), NotBefore: jwt.NewNumericDate(now.Add(30 * time.Minute))}, true))
	// a plain signed JWT, and the PAA-style token
	b, _ := json.Marshal(map[string]any{"sub": user, "iss": "rdpgw", "exp": now.Add(4 * time.Minute).Unix()})
	add("plain", "HS256-jwt-signing-key", jwsCompact(`{"alg":"HS256","typ":"JWT"}`, string(b), "HS256", []byte(c15Sign)))
	add("plain", "HS256-jwt-encryption-key", jwsCompact(`{"alg":"HS256","typ":"JWT"}`, string(b), "HS256", ek))
	add("plain", "unsecured-jwt", jwsCompact(`{"alg":"none"}`, string(b), "none", nil))
	add("plain", "claims-json", string(b))
	return out
}

// c15Noise is a long name that does not compress (tokens made from it are long, whatever the token format does
// about length).
func c15Noise(n int) string {
	const al = "abcdefghijklmnopqrstuvwxyzABCDEFGHIJKLMNOPQRSTUVWXYZ0123456789._-"
	b := make([]byte, n)
	x := uint32(2463534242)
	for i := range b {
		x ^= x << 13
		x ^= x >> 17
		x ^= x << 5
		b[i] = al[x%uint32(len(al))]
	}
	return string(b)
}

func c15(env *Env, rep *Report) {
	rep.Rule = "for both key modes (encrypt-only, sign-and-encrypt) and user names {empty, a, alice, alice@example.com, 300 equal characters, 200 / 255 / 400 incompressible characters, non-ASCII, quotes and newline}: from a token minted by the real GenerateUserToken every single-character substitution in each of the five JWE segments with 67 characters (quick: for the user alice; thorough: all users), insertions into the empty segment, every truncation, segment counts 0..7, arbitrary strings; tokens crafted under other encryption / signing keys, cross-mode tokens, other content-encryption and key algorithms (A256GCM, A128GCM, A256CBC-HS512, A128KW, A256KW, PBES2), issuers, expiry offsets {now-1h, now-70s, now-50s, now+50s, now+1h}, no exp, future nbf, plain HS256 / unsecured JWTs; each through security.UserInfo and the real web.TokenInfo handler; a clock history (token minted at t0 checked at t0, t0+4 min, t0+7 min; token minted at t0+7 min; both at t0+27 min) on the harness clock that the security package's time.Now follows; plus /tokeninfo methods {GET, POST, PUT, HEAD, DELETE} and parameter {absent, empty, twice}. " +
		"Oracle (three-valued, independent AES-CBC-HMAC / HS256 verification): 200 + claims with sub == user only for must-accept tokens; must-refuse tokens get 403 and the body discloses no claim; 400 / 405 as stated; the user name occurs neither in the token text nor in any base64-decoded segment. distinct_nontrivial = distinct (mode, user, token) cases."
	rep.Assumptions = append(rep.Assumptions, "expiry cases keep 10 s from the leeway boundary", "a non-empty encrypted-key segment or extra header parameters under valid keys are unspecified")
	users := []string{"alice"}
	if env.thorough() {
		users = []string{"", "a", "alice", "alice@example.com", strings.Repeat("u", 300), "ünï-漢字", "al\"ice\nx"}
	}
	more := []string{"", "a", "alice@example.com", strings.Repeat("u", 300), "ünï-漢字", "al\"ice\nx", c15Noise(200), c15Noise(255), c15Noise(400)}
	n, distinct := 0, 0
	one := func(signMode bool, user string, c c15Case, full bool) {
		// (every process mints its own specimen token, whose length varies by a character now and then: a case
		// belongs to the process its name hashes to, not to a running count)
		n++
		hh := fnv.New32a()
		fmt.Fprintf(hh, "%v|%s|%s|%s", signMode, user, c.Class, c.Name)
		if !env.mine(int(hh.Sum32() % 1000003)) {
			return
		}
		distinct++
		security.UserEncryptionKey = []byte(c15Enc)
		security.UserSigningKey = nil
		var sk []byte
		if signMode {
			sk = []byte(c15Sign)
			security.UserSigningKey = sk
		}
		rep.add("executions", 1)
		exp, why, sub := c15Classify(c.Tok, []byte(c15Enc), sk, vclock.Now())
		r := httptest.NewRequest("GET", "https://gw.example/tokeninfo?access_token="+url.QueryEscape(c.Tok), nil)
		rec := httptest.NewRecorder()
		pan := ""
		func() {
			defer func() {
				if x := recover(); x != nil {
					pan = fmt.Sprint(x)
				}
			}()
			web.TokenInfo(rec, r)
		}()
		rp := map[string]any{"noreplay": true}
		mode := map[bool]string{true: "sign+encrypt", false: "encrypt-only"}[signMode]
		what := fmt.Sprintf("mode=%s user=%.20q %s/%s", mode, user, c.Class, c.Name)
		rep.outcome(fmt.Sprintf("%s %s expect=%s code=%d", mode, c.Class, exp, rec.Code))
		if pan != "" {
			rep.violate("C15/panic/"+c.Class, what+": "+pan, rp)
			return
		}
		body := rec.Body.String()
		switch {
		case c.Tok == "":
			if rec.Code != 400 {
				rep.violate("C15/empty-token-not-400", fmt.Sprintf("%s: %d", what, rec.Code), rp)
			}
		case exp == "refuse":
			if rec.Code == 200 {
				rep.violate("C15/must-refuse-token-accepted/"+c.Class, fmt.Sprintf("%s accepted although %s; body %.100q", what, why, body), rp)
			} else if rec.Code != 403 {
				rep.violate("C15/refusal-not-403/"+c.Class, fmt.Sprintf("%s: status %d", what, rec.Code), rp)
			}
			if len(user) >= 5 && strings.Contains(body, user) {
				rep.violate("C15/refusal-discloses-claims/"+c.Class, fmt.Sprintf("%s: body %.100q", what, body), rp)
			}
		case exp == "accept":
			var got map[string]any
			gotSub, _ := got["sub"].(string)
			if rec.Code == 200 && json.Unmarshal([]byte(body), &got) == nil {
				gotSub, _ = got["sub"].(string)
			}
			if rec.Code != 200 || gotSub != sub || sub != user {
				rep.violate("C15/valid-token-refused-or-wrong-subject/"+c.Class, fmt.Sprintf("%s: status %d body %.100q want sub %q", what, rec.Code, body, user), rp)
			}
		}
		if c.Class == "valid" && full {
			// secrecy of the user name
			if len(user) >= 3 {
				if strings.Contains(c.Tok, user) {
					rep.violate("C15/user-name-readable-in-token", what, rp)
				}
				for _, sg := range strings.Split(c.Tok, ".") {
					if d, err := b64.DecodeString(sg); err == nil && bytes.Contains(d, []byte(user)) {
						rep.violate("C15/user-name-readable-in-token", what+" (decoded segment)", rp)
					}
				}
			}
			// methods and parameters
			for _, m := range []string{"POST", "PUT", "HEAD", "DELETE", "OPTIONS"} {
				rr := httptest.NewRecorder()
				web.TokenInfo(rr, httptest.NewRequest(m, "https://gw.example/tokeninfo?access_token="+url.QueryEscape(c.Tok), nil))
				if rr.Code != http.StatusMethodNotAllowed {
					rep.violate("C15/non-get-not-405", fmt.Sprintf("%s %s: %d", what, m, rr.Code), rp)
				}
			}
			for q, want := range map[string]int{"": 400, "access_token=": 400, "other=1": 400, "access_token=" + url.QueryEscape(c.Tok) + "&access_token=junk": 200, "access_token=junk&access_token=" + url.QueryEscape(c.Tok): 403} {
				rr := httptest.NewRecorder()
				web.TokenInfo(rr, httptest.NewRequest("GET", "https://gw.example/tokeninfo?"+q, nil))
				if rr.Code != want {
					rep.violate("C15/parameter-handling", fmt.Sprintf("%s query %.40q: %d want %d", what, q, rr.Code, want), rp)
				}
			}
		}
		if distinct%4000 == 1 {
			show := c.Tok
			if len(show) > 100 {
				show = show[:100] + "…"
			}
			rep.sample(map[string]any{"mode": mode, "user": user, "class": c.Class, "name": c.Name, "expected": exp, "status": rec.Code, "token": show})
		}
	}
	for _, signMode := range []bool{false, true} {
		for _, u := range users {
			for _, c := range c15Cases(signMode, u) {
				one(signMode, u, c, true)
			}
		}
		if !env.thorough() {
			for _, u := range more {
				for _, c := range c15Cases(signMode, u) {
					if c.Class != "char-substitution" && c.Class != "truncation" {
						one(signMode, u, c, true)
					}
				}
			}
		}
	}
	// the gateway's clock moves on: a token minted earlier expires, a new one is accepted
	if env.Shard == 0 {
		for _, signMode := range []bool{false, true} {
			vclock.Reset()
			security.UserEncryptionKey = []byte(c15Enc)
			security.UserSigningKey = nil
			if signMode {
				security.UserSigningKey = []byte(c15Sign)
			}
			t0, _ := security.GenerateUserToken(context.Background(), "alice")
			status := func(tok string) int {
				rec := httptest.NewRecorder()
				web.TokenInfo(rec, httptest.NewRequest("GET", "https://gw.example/tokeninfo?access_token="+url.QueryEscape(tok), nil))
				return rec.Code
			}
			var got []int
			got = append(got, status(t0)) // fresh: 200
			vclock.Advance(4 * time.Minute)
			got = append(got, status(t0)) // one minute left: 200
			vclock.Advance(3 * time.Minute)
			got = append(got, status(t0)) // expired two minutes ago: 403
			t1, _ := security.GenerateUserToken(context.Background(), "alice")
			got = append(got, status(t1)) // minted now: 200
			vclock.Advance(20 * time.Minute)
			got = append(got, status(t1), status(t0)) // both long expired: 403
			vclock.Reset()
			distinct++
			rep.add("executions", 6)
			rep.outcome(fmt.Sprintf("clock history sign=%v -> %v", signMode, got))
			if fmt.Sprint(got) != "[200 200 403 200 403 403]" {
				rep.violate("C15/expiry-not-judged-against-the-current-time", fmt.Sprintf("sign mode %v: token minted at t0 checked at t0, t0+4m, t0+7m, token minted at t0+7m checked then, both checked at t0+27m: statuses %v, want [200 200 403 200 403 403]", signMode, got), map[string]any{"noreplay": true})
			}
		}
	}
	if gwBin() != "" && env.Shard == 0 {
		bindUserToken(rep, "C15")
	}
	rep.add("distinct", int64(distinct))
	rep.add("states", int64(distinct))
}
