package main

import (
	"bufio"
	"encoding/base64"
	"fmt"
	"net"
	"sort"
	"strconv"
	"strings"
	"time"
	"unicode/utf8"

	"verif/internal/ntlmc"
	"verif/internal/tsgu"
)

// C05 — gateway endpoint needs confirmed credentials of an enabled scheme.

func init() { props["C05"] = c05 }

type c05Config struct {
	Auth []string
	TLS  bool
	// NoToken: OpenID is enabled but tunnels need no access cookie (Caps.TokenAuth off): the user of the HTTP
	// authentication is then the tunnel's user also in a configuration with OpenID
	NoToken bool
}

func (c c05Config) has(a string) bool {
	for _, x := range c.Auth {
		if x == a {
			return true
		}
	}
	return false
}
func (c c05Config) String() string {
	if c.NoToken {
		return strings.Join(c.Auth, "+") + "/no-token"
	}
	return strings.Join(c.Auth, "+")
}

func c05Configs() []c05Config {
	var out []c05Config
	for _, a := range [][]string{{"local"}, {"ntlm"}, {"kerberos"}, {"local", "ntlm"}, {"kerberos", "local"}, {"openid", "local"}, {"openid", "ntlm"}, {"openid", "kerberos"}, {"openid", "kerberos", "local"}, {"openid", "local", "ntlm"}, {"openid"},
		// no mechanism the gateway knows (a name it does not know): nothing is enabled, nobody gets in, and the
		// answer to a request without credentials is still 401 (with no challenge to offer)
		{"pam"}} {
		tlsOn := false
		for _, x := range a {
			if x == "local" {
				tlsOn = true
			}
		}
		out = append(out, c05Config{Auth: a, TLS: tlsOn})
	}
	return out
}

// userA / userB are named after loopback addresses so that the listener that
// accepts the channel's connection reveals which user the tunnel carries.
const (
	userA, passA = "127.0.0.2", "secret-of-a"
	userB, passB = "127.0.0.3", "secret-of-b"
)

type c05World struct {
	// extra header lines added to every authenticating request; only: restrict authedWS to one scheme
	extra []string
	only  string
	cfg   c05Config
	gw    *GwProc
	auth  *AuthService
	bport int
	hits  map[string]int
	lns   []net.Listener
}

func c05Start(cfg c05Config, real bool) *c05World {
	w := &c05World{cfg: cfg, hits: map[string]int{}}
	w.auth = StartAuthService(map[string]string{userA: passA, userB: passB})
	w.auth.NullOK = map[string]bool{"kiosk": true}
	// two backends on one port, different loopback addresses
	for try := 0; try < 20 && len(w.lns) < 2; try++ {
		for _, l := range w.lns {
			l.Close()
		}
		w.lns = nil
		w.bport = freePort()
		for _, ip := range []string{userA, userB} {
			l, err := net.Listen("tcp", ip+":"+strconv.Itoa(w.bport))
			if err != nil {
				break
			}
			w.lns = append(w.lns, l)
			ip := ip
			go func() {
				for {
					c, err := l.Accept()
					if err != nil {
						return
					}
					w.hits[ip]++
					c.Close()
				}
			}()
		}
	}
	if len(w.lns) < 2 {
		infra("cannot listen on 127.0.0.2/127.0.0.3")
	}
	port := freePort()
	idp := LoopbackIdP()
	var sb strings.Builder
	fmt.Fprintf(&sb, "Server:\n Port: %d\n GatewayAddress: gw.example:%d\n AuthSocket: %s\n BasicAuthTimeout: 5\n HostSelection: roundrobin\n Hosts:\n  - \"{{ preferred_username }}:%d\"\n Authentication:\n", port, port, w.auth.Socket, w.bport)
	for _, a := range cfg.Auth {
		sb.WriteString("  - " + a + "\n")
	}
	if cfg.TLS {
		cf, kf := TLSFiles()
		fmt.Fprintf(&sb, " Tls: enable\n CertFile: %s\n KeyFile: %s\n", cf, kf)
	} else {
		sb.WriteString(" Tls: disable\n")
	}
	fmt.Fprintf(&sb, " SessionKey: %q\n SessionEncryptionKey: %q\n", c05SessionKey, c05SessionEnc)
	fmt.Fprintf(&sb, "OpenId:\n ProviderUrl: %q\n ClientId: rdpgw\n ClientSecret: secret\n", idp.Issuer)
	if cfg.has("openid") && !cfg.NoToken {
		sb.WriteString("Caps:\n TokenAuth: true\n")
	} else {
		sb.WriteString("Caps:\n TokenAuth: false\n")
	}
	if cfg.has("kerberos") {
		kt, kc := c18Keytab()
		fmt.Fprintf(&sb, "Kerberos:\n Keytab: %s\n Krb5Conf: %s\n", kt, kc)
	}
	w.gw = StartGateway(sb.String(), nil, port, cfg.TLS)
	if !w.gw.Alive() {
		infra("C05: gateway for %s did not start: %s", cfg, tail(w.gw.Log(), 500))
	}
	return w
}

func (w *c05World) stop() {
	w.gw.Stop()
	w.auth.Stop()
	for _, l := range w.lns {
		l.Close()
	}
}

type c05Input struct {
	Name    string
	Headers []string // Authorization header lines ("" entries are skipped)
	Kind    string   // what the reference says: absent | good-basic-a | bad | unspecified
}

func basicHdr(u, p string) string {
	return "Authorization: Basic " + base64.StdEncoding.EncodeToString([]byte(u+":"+p))
}

func c05Inputs() []c05Input {
	var in []c05Input
	add := func(name, kind string, h ...string) { in = append(in, c05Input{name, h, kind}) }
	add("absent", "absent")
	add("empty", "absent", "Authorization:")
	for _, s := range []string{"Basic", "NTLM", "Negotiate", "Basic ", "NTLM ", "Negotiate ", "Basi", "NTL", "Negotiat", "B", "N"} {
		add("bare:"+strconv.Quote(s), "bad", "Authorization: "+s)
	}
	add("basic-good", "good-basic-a", basicHdr(userA, passA))
	add("basic-wrong-password", "bad", basicHdr(userA, "wrong"))
	add("basic-other-users-password", "bad", basicHdr(userA, passB))
	add("basic-unknown-user", "bad", basicHdr("mallory", passA))
	add("basic-empty-password", "bad", basicHdr(userA, ""))
	add("basic-empty-user", "bad", basicHdr("", passA))
	// an account whose empty password the backend confirms (PAM nullok): whether that is valid is for the backend
	add("basic-good-empty-password-of-a-nullok-account", "good-basic", basicHdr("kiosk", ""))
	add("basic-nullok-account-with-a-password", "bad", basicHdr("kiosk", "x"))
	// bytes that are not UTF-8 inside otherwise right credentials: other credentials, never confirmed
	add("basic-password-with-an-invalid-byte", "bad", basicHdr(userA, passA[:7]+"\xff"+passA[7:]))
	add("basic-password-with-a-truncated-utf8-sequence", "bad", basicHdr(userA, passA+"\xc3"))
	add("basic-user-with-an-invalid-byte", "bad", basicHdr(userA[:4]+"\xfe"+userA[4:], passA))
	add("basic-not-base64", "bad", "Authorization: Basic !!!!")
	add("basic-no-colon", "bad", "Authorization: Basic "+base64.StdEncoding.EncodeToString([]byte(userA+passA)))
	add("basic-lowercase-scheme", "unspecified", strings.Replace(basicHdr(userA, passA), "Basic", "basic", 1))
	add("basic-uppercase-scheme", "unspecified", strings.Replace(basicHdr(userA, passA), "Basic", "BASIC", 1))
	add("basic-two-blanks", "unspecified", strings.Replace(basicHdr(userA, passA), "Basic ", "Basic  ", 1))
	add("ntlm-type3-without-type1", "bad", "Authorization: NTLM "+base64.StdEncoding.EncodeToString(ntlmc.Authenticate(ntlmc.AuthParams{User: userA, Password: passA, ServerChallenge: make([]byte, 8)})))
	add("ntlm-garbage", "bad", "Authorization: NTLM !!!!")
	add("ntlm-empty-message", "bad", "Authorization: NTLM "+base64.StdEncoding.EncodeToString([]byte{}))
	add("ntlm-16-byte-type1", "bad", "Authorization: NTLM "+base64.StdEncoding.EncodeToString(ntlmc.Negotiate()[:16]))
	add("negotiate-garbage", "bad", "Authorization: Negotiate !!!!")
	add("negotiate-random-bytes", "bad", "Authorization: Negotiate "+base64.StdEncoding.EncodeToString([]byte("\x60\x82\x01\x00garbagegarbagegarbage")))
	add("negotiate-type3-without-type1", "bad", "Authorization: Negotiate "+base64.StdEncoding.EncodeToString(ntlmc.Authenticate(ntlmc.AuthParams{User: userA, Password: passA, ServerChallenge: make([]byte, 8)})))
	add("bearer", "bad", "Authorization: Bearer abcdef")
	add("digest", "bad", `Authorization: Digest username="127.0.0.2", realm="x", nonce="y", response="z"`)
	add("two-lines-basic-good-then-ntlm", "unspecified", basicHdr(userA, passA), "Authorization: NTLM AAAA")
	add("two-lines-ntlm-then-basic-good", "unspecified", "Authorization: NTLM AAAA", basicHdr(userA, passA))
	add("two-lines-basic-bad-then-bad", "bad", basicHdr(userA, "wrong"), basicHdr("mallory", "x"))
	return in
}

// c05Needle builds valid credentials whose base64 text contains the needle:
// "needle-user:" is 12 bytes, so the password starts on a base64 group
// boundary; the bytes that encode to the needle are completed to valid UTF-8.
func c05Needle(needle string) (string, bool) {
	pad := needle
	for len(pad)%4 != 0 {
		pad += "A"
	}
	raw, err := base64.StdEncoding.DecodeString(pad)
	if err != nil {
		return "", false
	}
	// try a few continuations until the whole password is valid UTF-8
	for _, tail := range []string{"", "\x80", "\x80\x80", "\x80\x80\x80", "z", "\xa0z"} {
		p := string(raw) + tail
		if utf8.ValidString(p) && strings.Contains(base64.StdEncoding.EncodeToString([]byte("needle-user:"+p)), needle) && !strings.Contains(p, ":") {
			return p, true
		}
	}
	return "", false
}

type c05Resp struct {
	Status     int
	Challenges []string
	Reached    bool
	Closed     bool
}

func methodRequest(m string, headers []string) (string, string) {
	switch m {
	case "ws":
		return BuildRequest("RDG_OUT_DATA", "/remoteDesktopGateway/", append([]string{"Connection: Upgrade", "Upgrade: websocket", "Sec-WebSocket-Version: 13", "Sec-WebSocket-Key: dGhlIHNhbXBsZSBub25jZQ==", "Rdg-Connection-Id: c05"}, headers...)), "ws"
	case "legacy-out":
		return BuildRequest("RDG_OUT_DATA", "/remoteDesktopGateway/", append([]string{"Rdg-Connection-Id: c05-" + strconv.FormatInt(time.Now().UnixNano(), 36)}, headers...)), "out"
	case "legacy-in":
		return BuildRequest("RDG_IN_DATA", "/remoteDesktopGateway/", append([]string{"Rdg-Connection-Id: c05-in", "Content-Length: 0"}, headers...)), "in"
	}
	return BuildRequest(m, "/remoteDesktopGateway/", append([]string{"Content-Length: 0"}, headers...)), "plain"
}

func (w *c05World) request(m string, headers []string) c05Resp {
	c, err := w.gw.Dial()
	if err != nil {
		return c05Resp{Closed: true}
	}
	defer c.Close()
	raw, kind := methodRequest(m, headers)
	c.SetDeadline(time.Now().Add(10 * time.Second))
	c.Write([]byte(raw))
	br := bufio.NewReader(c)
	r := ReadResponse(br)
	out := c05Resp{Status: r.Status, Closed: r.Closed}
	if r.Header != nil {
		out.Challenges = append(out.Challenges, r.Header.Values("Www-Authenticate")...)
	}
	switch kind {
	case "ws":
		out.Reached = r.Status == 101
	case "out":
		out.Reached = r.Status == 200 && r.Header.Get("Content-Length") == ""
	case "in":
		out.Reached = r.Status == 200
	}
	return out
}

func expectedChallenges(cfg c05Config) []string {
	var s []string
	if cfg.has("ntlm") {
		s = append(s, "NTLM", "Negotiate")
	}
	if cfg.has("local") {
		s = append(s, "Basic")
	}
	if cfg.has("kerberos") {
		s = append(s, "Negotiate")
	}
	sort.Strings(s)
	return s
}

func schemeWords(ch []string) []string {
	var s []string
	for _, c := range ch {
		s = append(s, strings.SplitN(strings.TrimSpace(c), " ", 2)[0])
	}
	sort.Strings(s)
	return s
}

// ntlmExchange runs type 1 / type 3 over one or two connections; returns whether the handler was reached.
func (w *c05World) ntlmExchange(scheme, user, pass string, sameConn bool, type3Twice bool) (reached bool, detail string) {
	c, err := w.gw.Dial()
	if err != nil {
		return false, "dial"
	}
	defer c.Close()
	c.SetDeadline(time.Now().Add(15 * time.Second))
	br := bufio.NewReader(c)
	raw, _ := methodRequest("ws", []string{"Authorization: " + scheme + " " + base64.StdEncoding.EncodeToString(ntlmc.Negotiate())})
	c.Write([]byte(raw))
	r := ReadResponse(br)
	if r.Status != 401 {
		return r.Status == 101, fmt.Sprintf("type1 answered %d", r.Status)
	}
	var ch *ntlmc.Challenge
	for _, v := range r.Header.Values("Www-Authenticate") {
		if strings.HasPrefix(v, scheme+" ") {
			b, err := base64.StdEncoding.DecodeString(strings.TrimPrefix(v, scheme+" "))
			if err == nil {
				ch, _ = ntlmc.ParseChallenge(b)
			}
		}
	}
	if ch == nil {
		return false, "no challenge in 401"
	}
	t3 := "Authorization: " + scheme + " " + base64.StdEncoding.EncodeToString(ntlmc.Authenticate(ntlmc.AuthParams{User: user, Password: pass, ServerChallenge: ch.ServerChallenge, TargetInfo: ch.TargetInfo}))
	conn, rd := c, br
	if !sameConn {
		c2, err := w.gw.Dial()
		if err != nil {
			return false, "dial2"
		}
		defer c2.Close()
		c2.SetDeadline(time.Now().Add(15 * time.Second))
		conn, rd = c2, bufio.NewReader(c2)
	}
	raw, _ = methodRequest("ws", []string{t3})
	conn.Write([]byte(raw))
	r = ReadResponse(rd)
	if type3Twice && r.Status != 101 {
		conn.Write([]byte(raw))
		r = ReadResponse(rd)
	}
	if r.Status != 101 {
		return false, fmt.Sprintf("type3 answered %d", r.Status)
	}
	// the tunnel's user: ask for user A's and user B's host
	if !w.cfg.has("openid") {
		who := w.whoIs(conn, rd)
		return true, "tunnel-user=" + who
	}
	return true, ""
}

// whoIs completes HS,TC,TA on an upgraded connection and asks for a channel to userA's host, then on failure reports.
func (w *c05World) whoIs(conn net.Conn, br *bufio.Reader) string {
	return w.askHost(conn, br, userA)
}

// askHost completes HS,TC,TA on an upgraded connection and asks for a channel to ip:bport; returns ip when the
// channel was created and the backend reached, otherwise a description.
func (w *c05World) askHost(conn net.Conn, br *bufio.Reader, ip string) string {
	userA := ip
	tc := &TunnelClient{Kind: "ws"}
	buf := make([]byte, 1<<16)
	send := func(p []byte) (uint32, bool) {
		conn.Write(wsFrame(2, true, p))
		for {
			tc.deframe()
			if pk := tc.NewPackets(); len(pk) > 0 {
				return tsgu.ParseResp(pk[0]).Status, true
			}
			if tc.Closed {
				return 0, false
			}
			n, err := br.Read(buf)
			tc.rbuf = append(tc.rbuf, buf[:n]...)
			if err != nil {
				tc.deframe()
				if pk := tc.NewPackets(); len(pk) > 0 {
					return tsgu.ParseResp(pk[0]).Status, true
				}
				return 0, false
			}
		}
	}
	for _, p := range [][]byte{tsgu.Handshake(1, 0, 0, 0), tsgu.TunnelCreate("", false), tsgu.TunnelAuth("pc")} {
		if st, ok := send(p); !ok || st != 0 {
			return fmt.Sprintf("setup-refused(%#x)", st)
		}
	}
	// the other user's host must be refused, the own host reached
	before := w.hits[userA]
	st, ok := send(tsgu.ChannelCreate(userA, uint16(w.bport)))
	if ok && st == 0 {
		for i := 0; i < 200 && w.hits[userA] == before; i++ {
			time.Sleep(5 * time.Millisecond)
		}
		return userA
	}
	return fmt.Sprintf("not-%s(status %#x)", userA, st)
}

func c05(env *Env, rep *Report) {
	cfgs := c05Configs()
	inputs := c05Inputs()
	rep.Rule = fmt.Sprintf("the real rdpgw binary started once per startable authentication subset (%d configurations; subsets with local run with TLS) with a scripted authentication service (password table in place of PAM, the real NTLM verifier) behind the unix socket; against each: methods {websocket upgrade, legacy RDG_OUT_DATA, RDG_IN_DATA, GET, POST, FOO} x %d Authorization header shapes (absent, empty, bare / truncated scheme words, Basic good / wrong password / other user's password / unknown user / empty parts / an account whose empty password the backend confirms / not base64 / no colon / case variants / doubled blank, good Basic credentials whose base64 text contains NTLM or Negotiate, NTLM and Negotiate garbage / type 3 without type 1 / 16-byte type 1, Bearer, Digest, two header lines); Kerberos: a ticket without and with an Active Directory PAC (gokrb5 test vectors: the tunnel runs under the confirmed account name, not the directory's display name), SPNEGO tokens with a valid ticket, a ticket under another service key, an expired and a not-yet-valid ticket; the same credentials accompanied by headers in which the client announces another user (RDG-User-Id in three encodings, reverse-proxy remote-user headers): the tunnel still carries the confirmed user; in configurations with OpenID next to other schemes the whole input list again together with the session cookie of a completed OpenID login (real callback) of the same and of another user; requests that carry an (empty) session cookie issued 0 s / 1 min / 3 min / 1 h ago under the configured keys; NTLM histories: type 1 + type 3 on one connection (NTLM and Negotiate scheme words), on two connections, type 3 twice, wrong password, unknown user; after one type 1 every sequence of two (thorough: three) authenticate messages over that challenge from {A right, B right, A wrong password, unknown, names A keyed by B, names B keyed by A}. "+
		"Oracle: no Authorization => 401 with exactly one WWW-Authenticate per enabled scheme; the handler (101 / legacy 200 accept) is reached iff credentials of an enabled scheme were confirmed; the tunnel then carries the confirmed user (observed through which loopback backend the channel reaches); openid alone => open; no panic in the gateway log, process alive. distinct_nontrivial = distinct (configuration, method, input) cases.", len(cfgs), len(inputs)+2)
	rep.Assumptions = append(rep.Assumptions, "PAM is replaced by a password table (the property is about the gateway's use of the backend's answer)", "Kerberos tickets are forged with the keytab the harness generated for the gateway (the gateway's verification path is real, the KDC is not); wrong-case scheme words and requests with two Authorization lines are unspecified",
		"real sockets: every read waits up to 10 s; a timeout is an infrastructure error, not a verdict")
	if env.Replay != nil {
		fmt.Println("C05 violations are re-derived by running the check (real processes); no single-case replay")
		return
	}
	distinct := 0
	if env.Shard == 0 {
		distinct += c05KerberosPAC(rep)
	}
	for ci, cfg := range cfgs {
		if !env.mine(ci) {
			continue
		}
		w := c05Start(cfg, false)
		viol := func(kind, detail string) {
			rep.violate("C05/"+kind+"/"+cfg.String(), detail, map[string]any{"noreplay": true})
		}
		ins := append([]c05Input{}, inputs...)
		for _, needle := range []string{"NTLM", "Negotiate"} {
			if pw, ok := c05Needle(needle); ok {
				w.auth.mu.Lock()
				w.auth.Users["needle-user"] = pw
				_ = needle
				w.auth.mu.Unlock()
				ins = append(ins, c05Input{"basic-good-base64-contains-" + needle, []string{basicHdr("needle-user", pw)}, "good-basic"})
			}
		}
		for _, m := range []string{"ws", "legacy-out", "legacy-in", "GET", "POST", "FOO"} {
			for _, in := range ins {
				distinct++
				rep.add("executions", 1)
				var hs []string
				for _, h := range in.Headers {
					hs = append(hs, h)
				}
				r := w.request(m, hs)
				rep.outcome(fmt.Sprintf("%s %s %s status=%d reached=%v", cfg, m, in.Kind, r.Status, r.Reached))
				what := fmt.Sprintf("config=%s method=%s input=%s: status %d reached=%v closed=%v challenges=%v", cfg, m, in.Name, r.Status, r.Reached, r.Closed, r.Challenges)
				openEndpoint := cfg.String() == "openid"
				switch {
				case openEndpoint:
					if m == "ws" && in.Kind == "absent" && !r.Reached {
						viol("open-endpoint-not-reachable", what)
					}
				case in.Kind == "absent":
					if r.Reached {
						viol("handler-reached-without-credentials/"+m, what)
					} else if r.Status != 401 {
						viol("no-401-without-authorization/"+m, what)
					} else if got, want := schemeWords(r.Challenges), expectedChallenges(cfg); strings.Join(got, ",") != strings.Join(want, ",") {
						viol("challenges-do-not-match-enabled-schemes", fmt.Sprintf("%s (want %v)", what, want))
					}
				case in.Kind == "good-basic-a" || in.Kind == "good-basic":
					if cfg.has("local") {
						if (m == "ws" || m == "legacy-out") && !r.Reached {
							viol("confirmed-basic-credentials-do-not-reach-handler/"+in.Name, what)
						}
					} else if r.Reached {
						viol("disabled-scheme-reaches-handler/basic/"+m, what)
					}
				case in.Kind == "bad":
					if r.Reached {
						viol("handler-reached-with-unconfirmed-credentials/"+in.Name, what)
					}
				}
				if distinct%250 == 1 {
					rep.sample(map[string]any{"config": cfg.String(), "method": m, "input": in.Name, "status": r.Status, "reached": r.Reached, "challenges": r.Challenges})
				}
			}
		}
		// user carried by a Basic tunnel
		if cfg.has("local") && !cfg.has("openid") {
			c, err := w.gw.Dial()
			if err == nil {
				c.SetDeadline(time.Now().Add(15 * time.Second))
				raw, _ := methodRequest("ws", []string{basicHdr(userA, passA)})
				c.Write([]byte(raw))
				br := bufio.NewReader(c)
				if r := ReadResponse(br); r.Status == 101 {
					if who := w.whoIs(c, br); who != userA {
						viol("tunnel-does-not-carry-confirmed-user/basic", who)
					}
				}
				c.Close()
				distinct++
			}
		}
		// the authentication backend fails once (gRPC error) and recovers: the failed attempt never reaches the
		// handler, whatever the credentials; the next attempt is judged on its own
		if !cfg.has("openid") {
			for _, scheme := range []string{"basic", "ntlm"} {
				if (scheme == "basic" && !cfg.has("local")) || (scheme == "ntlm" && !cfg.has("ntlm")) {
					continue
				}
				for _, fails := range []int{1, 2} {
					distinct++
					rep.add("executions", 3)
					attempt := func(user, pass string) bool {
						if scheme == "basic" {
							c, err := w.gw.Dial()
							if err != nil {
								return false
							}
							defer c.Close()
							c.SetDeadline(time.Now().Add(15 * time.Second))
							raw, _ := methodRequest("ws", []string{basicHdr(user, pass)})
							c.Write([]byte(raw))
							return ReadResponse(bufio.NewReader(c)).Status == 101
						}
						ok, _ := w.ntlmExchange("NTLM", user, pass, true, false)
						return ok
					}
					w.auth.mu.Lock()
					w.auth.FailNext = fails
					w.auth.mu.Unlock()
					first := attempt(userA, passA)
					w.auth.mu.Lock()
					w.auth.FailNext = 0
					w.auth.mu.Unlock()
					bad := attempt(userA, "wrong-password")
					good := attempt(userA, passA)
					rep.outcome(fmt.Sprintf("%s backend-fails=%d scheme=%s first=%v bad=%v good=%v", cfg, fails, scheme, first, bad, good))
					what := fmt.Sprintf("scheme=%s, backend answers %d call(s) with an error: attempt during the failure reached=%v, wrong password afterwards reached=%v, right password afterwards reached=%v", scheme, fails, first, bad, good)
					if first && (scheme == "basic" || fails >= 2) {
						viol("handler-reached-while-the-authentication-backend-fails/"+scheme, what)
					}
					if bad {
						viol("handler-reached-with-unconfirmed-credentials/after-backend-failure/"+scheme, what)
					}
					if !good {
						viol("confirmed-credentials-do-not-reach-handler/after-backend-failure/"+scheme, what)
					}
					if cr := w.gw.Crashed(); cr != "" {
						viol("panic", cr)
					}
				}
			}
		}
		// two Basic requests in flight at once: every order of {request i reaches the backend, backend answers i}
		if cfg.has("local") && !cfg.has("openid") {
			distinct += w.basicInterleavings(viol, rep)
		}
		// NTLM histories
		for _, scheme := range []string{"NTLM", "Negotiate"} {
			type h struct {
				name       string
				user, pass string
				same, two  bool
				want       bool
			}
			for _, hc := range []h{
				{"same-connection-right-password", userA, passA, true, false, true},
				{"same-connection-wrong-password", userA, "wrong", true, false, false},
				{"same-connection-unknown-user", "mallory", passA, true, false, false},
				{"same-connection-other-users-password", userA, passB, true, false, false},
				{"type3-on-another-connection", userA, passA, false, false, false},
				{"wrong-password-then-type3-again", userA, "wrong", true, true, false},
			} {
				distinct++
				rep.add("executions", 1)
				reached, detail := w.ntlmExchange(scheme, hc.user, hc.pass, hc.same, hc.two)
				rep.outcome(fmt.Sprintf("%s ntlm %s/%s reached=%v", cfg, scheme, hc.name, reached))
				what := fmt.Sprintf("config=%s scheme=%s history=%s: reached=%v (%s)", cfg, scheme, hc.name, reached, detail)
				switch {
				case cfg.String() == "openid":
					// open endpoint: the access cookie is the gate (C02)
				case !cfg.has("ntlm"):
					if reached {
						viol("disabled-scheme-reaches-handler/ntlm", what)
					}
				case hc.want && !reached:
					viol("confirmed-ntlm-exchange-does-not-reach-handler/"+scheme, what)
				case !hc.want && reached:
					viol("handler-reached-with-unconfirmed-credentials/ntlm-"+hc.name, what)
				case hc.want && strings.HasPrefix(detail, "tunnel-user=") && detail != "tunnel-user="+userA:
					viol("tunnel-does-not-carry-confirmed-user/ntlm", what)
				}
			}
		}
		if cfg.has("ntlm") {
			distinct += w.ntlmHistories(viol, rep, env.thorough())
		}
		distinct += w.kerberos(viol, rep)
		distinct += w.otherHost(viol, rep)
		distinct += w.whileOpen(viol, rep)
		distinct += w.decoyNames(viol, rep)
		distinct += w.withSession(viol, rep, ins)
		distinct += w.agedSessions(viol, rep)
		// NTLM: after a completed exchange (on a plain GET, which leaves the connection open) a second
		// authenticate message on the same connection names another user with the first user's proof
		if cfg.has("ntlm") {
			distinct++
			rep.add("executions", 1)
			if reached, detail := w.ntlmReuse(); reached {
				viol("handler-reached-with-unconfirmed-credentials/ntlm-second-authenticate-after-success", detail)
			}
		}
		if cr := w.gw.Crashed(); cr != "" {
			viol("panic-in-gateway", cr)
		}
		if cr := w.auth.Crashed(); cr != "" {
			viol("panic-ends-the-authentication-service", tail(cr, 600))
		}
		if !w.gw.Alive() {
			viol("gateway-exited", tail(w.gw.Log(), 300))
		}
		w.stop()
	}
	rep.add("distinct", int64(distinct))
	rep.add("states", int64(distinct))
}

// authedWS opens an authenticated websocket tunnel as userA with whatever scheme the configuration offers.
func (w *c05World) authedWS() (net.Conn, *bufio.Reader, string) {
	try := func(hdr string) (net.Conn, *bufio.Reader, bool) {
		c, err := w.gw.Dial()
		if err != nil {
			return nil, nil, false
		}
		c.SetDeadline(time.Now().Add(15 * time.Second))
		raw, _ := methodRequest("ws", append([]string{hdr}, w.extra...))
		c.Write([]byte(raw))
		br := bufio.NewReader(c)
		if r := ReadResponse(br); r.Status == 101 {
			return c, br, true
		}
		c.Close()
		return nil, nil, false
	}
	if w.cfg.has("local") && (w.only == "" || w.only == "basic") {
		if c, br, ok := try(basicHdr(userA, passA)); ok {
			return c, br, "basic"
		}
	}
	if w.cfg.has("kerberos") && (w.only == "" || w.only == "kerberos") {
		now := time.Now().UTC()
		if hdr, err := krbNegotiate(userA, gwKeytab(), now.Add(-time.Minute), now.Add(time.Hour)); err == nil {
			if c, br, ok := try(hdr); ok {
				return c, br, "kerberos"
			}
		}
	}
	if w.cfg.has("ntlm") && (w.only == "" || w.only == "ntlm") {
		c, err := w.gw.Dial()
		if err == nil {
			c.SetDeadline(time.Now().Add(15 * time.Second))
			br := bufio.NewReader(c)
			raw, _ := methodRequest("ws", append([]string{"Authorization: NTLM " + base64.StdEncoding.EncodeToString(ntlmc.Negotiate())}, w.extra...))
			c.Write([]byte(raw))
			r := ReadResponse(br)
			for _, v := range r.Header.Values("Www-Authenticate") {
				if strings.HasPrefix(v, "NTLM ") {
					if b, err := base64.StdEncoding.DecodeString(strings.TrimPrefix(v, "NTLM ")); err == nil {
						if ch, err := ntlmc.ParseChallenge(b); err == nil {
							raw, _ = methodRequest("ws", append([]string{"Authorization: NTLM " + base64.StdEncoding.EncodeToString(ntlmc.Authenticate(ntlmc.AuthParams{User: userA, Password: passA, ServerChallenge: ch.ServerChallenge, TargetInfo: ch.TargetInfo}))}, w.extra...))
							c.Write([]byte(raw))
							if r2 := ReadResponse(br); r2.Status == 101 {
								return c, br, "ntlm"
							}
						}
					}
				}
			}
			c.Close()
		}
	}
	return nil, nil, ""
}

// otherHost: a confirmed user may reach its own host entry and nothing else (host policy is wired for every scheme).
func (w *c05World) otherHost(viol func(kind, detail string), rep *Report) int {
	if w.cfg.has("openid") || !(w.cfg.has("local") || w.cfg.has("ntlm") || w.cfg.has("kerberos")) {
		return 0
	}
	n := 0
	for _, target := range []string{userB, "127.0.0.1"} {
		c, br, scheme := w.authedWS()
		if c == nil {
			viol("cannot-open-authenticated-tunnel", w.cfg.String())
			return n
		}
		n++
		rep.add("executions", 1)
		before := w.hits[userB]
		got := w.askHost(c, br, target)
		c.Close()
		time.Sleep(20 * time.Millisecond)
		rep.outcome("other-host " + scheme + " " + target + " -> " + got)
		if got == target || w.hits[userB] != before {
			viol("confirmed-user-reaches-a-host-outside-its-policy/"+scheme, fmt.Sprintf("user %s authenticated with %s asked for %s:%d: %s (hits on %s: %d)", userA, scheme, target, w.bport, got, userB, w.hits[userB]-before))
		}
	}
	return n
}

// ntlmReuse: type 1, type 3 (user A, right password) on a GET, then on the same connection a websocket
// upgrade with a type 3 naming user B but keyed with user A's password over the same challenge.
func (w *c05World) ntlmReuse() (bool, string) {
	c, err := w.gw.Dial()
	if err != nil {
		return false, "dial"
	}
	defer c.Close()
	c.SetDeadline(time.Now().Add(15 * time.Second))
	br := bufio.NewReader(c)
	get := func(hdr string) RawResponse {
		c.Write([]byte(BuildRequest("GET", "/remoteDesktopGateway/", []string{hdr})))
		return ReadResponse(br)
	}
	r := get("Authorization: NTLM " + base64.StdEncoding.EncodeToString(ntlmc.Negotiate()))
	var ch *ntlmc.Challenge
	for _, v := range r.Header.Values("Www-Authenticate") {
		if strings.HasPrefix(v, "NTLM ") {
			if b, err := base64.StdEncoding.DecodeString(strings.TrimPrefix(v, "NTLM ")); err == nil {
				ch, _ = ntlmc.ParseChallenge(b)
			}
		}
	}
	if ch == nil {
		return false, "no challenge"
	}
	r = get("Authorization: NTLM " + base64.StdEncoding.EncodeToString(ntlmc.Authenticate(ntlmc.AuthParams{User: userA, Password: passA, ServerChallenge: ch.ServerChallenge, TargetInfo: ch.TargetInfo})))
	if r.Status != 200 {
		return false, fmt.Sprintf("honest exchange on GET answered %d", r.Status)
	}
	forged := "Authorization: NTLM " + base64.StdEncoding.EncodeToString(ntlmc.Authenticate(ntlmc.AuthParams{User: userB, KeyUser: userA, Password: passA, ServerChallenge: ch.ServerChallenge, TargetInfo: ch.TargetInfo}))
	raw, _ := methodRequest("ws", []string{forged})
	c.Write([]byte(raw))
	r = ReadResponse(br)
	if r.Status == 101 {
		return true, "forged authenticate message naming " + userB + " reached the handler"
	}
	return false, fmt.Sprintf("status %d", r.Status)
}

// ntlmHistories: after one type 1 message, every sequence of two (thorough: three) authenticate messages on the
// same connection over that one challenge, from an alphabet of six: each of the two accounts with its own
// password, an account with a wrong password, an unknown account, and each account *named* in a message whose
// proof is computed with the other account's password. Only a message whose proof fits the account it names may
// reach the handler, and the tunnel then runs under that account (whether an honest message is still honoured
// after a refused one is the backend's business: a challenge is good for one attempt).
func (w *c05World) ntlmHistories(viol func(kind, detail string), rep *Report, thorough bool) int {
	type msg struct {
		name        string
		user, key   string
		pass        string
		honest      bool
	}
	alphabet := []msg{
		{"a-right", userA, "", passA, true},
		{"b-right", userB, "", passB, true},
		{"a-wrong-password", userA, "", "wrong", false},
		{"unknown-user", "mallory", "", passA, false},
		{"names-a-keyed-by-b", userA, userB, passB, false},
		{"names-b-keyed-by-a", userB, userA, passA, false},
	}
	depth := 2
	schemes := []string{"NTLM"}
	if thorough {
		depth = 3
		schemes = []string{"NTLM", "Negotiate"}
	}
	n := 0
	var seqs [][]int
	var gen func(cur []int)
	gen = func(cur []int) {
		if len(cur) == depth {
			seqs = append(seqs, append([]int{}, cur...))
			return
		}
		for i := range alphabet {
			gen(append(cur, i))
		}
	}
	gen(nil)
	for _, scheme := range schemes {
		for _, seq := range seqs {
			n++
			rep.add("executions", 1)
			c, err := w.gw.Dial()
			if err != nil {
				continue
			}
			c.SetDeadline(time.Now().Add(15 * time.Second))
			br := bufio.NewReader(c)
			raw, _ := methodRequest("ws", []string{"Authorization: " + scheme + " " + base64.StdEncoding.EncodeToString(ntlmc.Negotiate())})
			c.Write([]byte(raw))
			r := ReadResponse(br)
			var ch *ntlmc.Challenge
			for _, v := range r.Header.Values("Www-Authenticate") {
				if strings.HasPrefix(v, scheme+" ") {
					if b, err := base64.StdEncoding.DecodeString(strings.TrimPrefix(v, scheme+" ")); err == nil {
						ch, _ = ntlmc.ParseChallenge(b)
					}
				}
			}
			if ch == nil {
				viol("no-challenge-for-type1/"+scheme, fmt.Sprintf("type 1 answered %d without a challenge", r.Status))
				c.Close()
				continue
			}
			names := []string{}
			for _, mi := range seq {
				m := alphabet[mi]
				names = append(names, m.name)
				t3 := "Authorization: " + scheme + " " + base64.StdEncoding.EncodeToString(ntlmc.Authenticate(ntlmc.AuthParams{User: m.user, KeyUser: m.key, Password: m.pass, ServerChallenge: ch.ServerChallenge, TargetInfo: ch.TargetInfo}))
				raw, _ = methodRequest("ws", []string{t3})
				c.Write([]byte(raw))
				r = ReadResponse(br)
				if r.Status != 101 {
					continue
				}
				hist := strings.Join(names, ",")
				rep.outcome(fmt.Sprintf("%s ntlm-history %s reached-at=%s", w.cfg, scheme, m.name))
				if !m.honest {
					viol("handler-reached-with-unconfirmed-credentials/ntlm-history/"+m.name, fmt.Sprintf("config=%s scheme=%s, one challenge, authenticate messages %s: the message %q (names %s, proof computed with %s's password) reached the tunnel handler", w.cfg, scheme, hist, m.name, m.user, map[bool]string{true: m.key, false: m.user}[m.key != ""]))
				} else if !w.cfg.has("openid") {
					if who := w.askHost(c, br, m.user); who != m.user {
						viol("tunnel-does-not-carry-confirmed-user/ntlm-history", fmt.Sprintf("config=%s scheme=%s history %s: accepted as %s but the tunnel does not reach that user's host: %s", w.cfg, scheme, hist, m.user, who))
					}
				}
				break
			}
			c.Close()
		}
	}
	return n
}

// basicInterleavings: two clients authenticate with Basic at the same time; the harness decides when each
// request reaches the authentication backend and when the backend answers it (the scripted service is gated),
// and goes through all six orders of those four events, for two pairs of principals. Each tunnel must carry
// the user whose credentials that very request presented, and an unconfirmed request never reaches the handler.
func (w *c05World) basicInterleavings(viol func(kind, detail string), rep *Report) int {
	type princ struct{ user, pass, want string }
	pairs := [][2]princ{
		{{userA, passA, userA}, {userB, passB, userB}},
		{{userA, passA, userA}, {userB, "wrong-password", ""}},
		{{userA, "wrong-password", ""}, {userB, passB, userB}},
		// the same account twice at the same time, once with the right and once with a wrong password
		{{userA, passA, userA}, {userA, "wrong-password", ""}},
		{{userA, "wrong-password", ""}, {userA, passA, userA}},
	}
	orders := [][]string{{"S0", "S1", "R0", "R1"}, {"S0", "S1", "R1", "R0"}, {"S1", "S0", "R0", "R1"}, {"S1", "S0", "R1", "R0"}, {"S0", "R0", "S1", "R1"}, {"S1", "R1", "S0", "R0"}}
	n := 0
	a := w.auth
	for pi, pair := range pairs {
		for _, ord := range orders {
			n++
			rep.add("executions", 1)
			a.mu.Lock()
			a.Gate = true
			a.Arrived = make(chan string, 4)
			a.Release = map[string]chan struct{}{pair[0].user: make(chan struct{}, 2), pair[1].user: make(chan struct{}, 2)}
			a.mu.Unlock()
			conns := make([]net.Conn, 2)
			brs := make([]*bufio.Reader, 2)
			resp := make([]chan RawResponse, 2)
			notAsked := make([]bool, 2)
			infraFail := ""
			for _, ev := range ord {
				i := int(ev[1] - '0')
				switch ev[0] {
				case 'S':
					c, err := w.gw.Dial()
					if err != nil {
						infraFail = "dial"
						break
					}
					c.SetDeadline(time.Now().Add(30 * time.Second))
					conns[i], brs[i] = c, bufio.NewReader(c)
					raw, _ := methodRequest("ws", []string{basicHdr(pair[i].user, pair[i].pass)})
					c.Write([]byte(raw))
					resp[i] = make(chan RawResponse, 1)
					go func(i int) { resp[i] <- ReadResponse(brs[i]) }(i)
					wait := 10 * time.Second
					if pair[0].user == pair[1].user {
						wait = 3 * time.Second
					}
					select {
					case u := <-a.Arrived:
						if u != pair[i].user {
							infraFail = "backend saw " + u + " for request of " + pair[i].user
						}
					case <-time.After(wait):
						if pair[0].user != pair[1].user {
							infraFail = "request did not reach the authentication backend"
						}
						// same account: the gateway may hold the second request back until the first is answered
						// (that alone is no violation); the answers decide
						notAsked[i] = true
					}
				case 'R':
					a.Release[pair[i].user] <- struct{}{}
					// the answer is on its way: wait for this request's response before the next event
					if pair[0].user == pair[1].user {
						// which of the two calls takes the token is the backend's business: wait for either response
						select {
						case r := <-resp[0]:
							resp[0] <- r
						case r := <-resp[1]:
							resp[1] <- r
						case <-time.After(10 * time.Second):
							infraFail = "no response after the backend answered"
						}
						break
					}
					select {
					case r := <-resp[i]:
						resp[i] <- r
					case <-time.After(10 * time.Second):
						infraFail = "no response after the backend answered"
					}
				}
				if infraFail != "" {
					break
				}
			}
			a.mu.Lock()
			a.Gate = false
			a.mu.Unlock()
			for _, p := range pair {
				select { // a call that is still held gets its token
				case a.Release[p.user] <- struct{}{}:
				default:
				}
			}
			what := fmt.Sprintf("principals (%s,%v) (%s,%v), event order %v", pair[0].user, pair[0].want != "", pair[1].user, pair[1].want != "", ord)
			if infraFail != "" {
				for _, c := range conns {
					if c != nil {
						c.Close()
					}
				}
				if cr := w.gw.Crashed(); cr != "" {
					viol("panic", cr)
					continue
				}
				infra("C05 interleavings: %s (%s)", infraFail, what)
			}
			for i := 0; i < 2; i++ {
				var r RawResponse
				select {
				case r = <-resp[i]:
				case <-time.After(15 * time.Second):
					viol("request-never-answered/concurrent-basic", fmt.Sprintf("request %d of %s", i, what))
					conns[i].Close()
					continue
				}
				reached := r.Status == 101
				if notAsked[i] && reached && pair[i].want == "" {
					viol("handler-reached-with-credentials-the-backend-never-saw/concurrent-basic", fmt.Sprintf("request %d of %s", i, what))
				}
				rep.outcome(fmt.Sprintf("%s interleaving pair=%d order=%v req=%d reached=%v", w.cfg, pi, ord, i, reached))
				switch {
				case pair[i].want == "" && reached:
					viol("handler-reached-with-unconfirmed-credentials/concurrent-basic", fmt.Sprintf("request %d of %s", i, what))
				case pair[i].want != "" && !reached:
					viol("confirmed-basic-credentials-do-not-reach-handler/concurrent-basic", fmt.Sprintf("request %d of %s: status %d", i, what, r.Status))
				case reached:
					if who := w.askHost(conns[i], brs[i], pair[i].want); who != pair[i].want {
						viol("tunnel-does-not-carry-confirmed-user/concurrent-basic", fmt.Sprintf("request %d of %s presented the credentials of %s; asking for that user's host: %s", i, what, pair[i].want, who))
					}
				}
				conns[i].Close()
			}
		}
	}
	return n
}

func utf16le64(s string) string {
	var b []byte
	for _, r := range s {
		b = append(b, byte(r), byte(r>>8))
	}
	return base64.StdEncoding.EncodeToString(b)
}

// decoyNames: the authenticating request also carries headers in which the client announces another user (the
// user-id header Microsoft clients send, and the header names reverse proxies use for a remote user). The
// tunnel carries the user the backend confirmed: that user's host is reached, the announced user's host is not.
func (w *c05World) decoyNames(viol func(kind, detail string), rep *Report) int {
	if w.cfg.has("openid") {
		return 0
	}
	n := 0
	sets := [][]string{
		{"RDG-User-Id: " + utf16le64(userB)},
		{"RDG-User-Id: " + base64.StdEncoding.EncodeToString([]byte(userB))},
		{"RDG-User-Id: " + userB},
		{"X-Remote-User: " + userB, "Remote-User: " + userB, "X-Forwarded-User: " + userB},
		{"X-Authenticated-User: " + userB, "X-User: " + userB, "X-Preferred-Username: " + userB, "From: " + userB},
		{"RDG-Auth-Scheme: Basic", "RDG-User-Id: " + utf16le64(userB), "RDG-Correlation-Id: {00000000-0000-0000-0000-000000000001}"},
	}
	defer func() { w.extra, w.only = nil, "" }()
	for _, scheme := range []string{"basic", "ntlm", "kerberos"} {
		if (scheme == "basic" && !w.cfg.has("local")) || (scheme != "basic" && !w.cfg.has(scheme)) {
			continue
		}
		for si, set := range sets {
			for _, target := range []string{userA, userB} {
				w.extra, w.only = set, scheme
				c, br, _ := w.authedWS()
				n++
				rep.add("executions", 1)
				if c == nil {
					viol("confirmed-credentials-do-not-reach-handler/with-announced-user-headers/"+scheme, fmt.Sprintf("right credentials of %s plus headers %q", userA, set))
					break
				}
				before := w.hits[userB]
				got := w.askHost(c, br, target)
				c.Close()
				time.Sleep(20 * time.Millisecond)
				rep.outcome(fmt.Sprintf("%s decoy set=%d scheme=%s target=%s -> %s", w.cfg, si, scheme, target, got))
				what := fmt.Sprintf("%s authenticated with %s, the request also carries %q; asking for the host of %s: %s", userA, scheme, set, target, got)
				if target == userA && got != userA {
					viol("tunnel-does-not-carry-confirmed-user/announced-user-headers/"+scheme, what)
				}
				if target == userB && (got == userB || w.hits[userB] != before) {
					viol("tunnel-carries-a-user-the-client-announced/"+scheme, what)
				}
			}
		}
	}
	return n
}

// withSession: configurations with OpenID next to other schemes. A browser session that completed the OpenID
// login (real callback, real session cookie) accompanies the request: the cookie is no credential of the
// gateway endpoint, every input is judged as without it.
func (w *c05World) withSession(viol func(kind, detail string), rep *Report, ins []c05Input) int {
	if !w.cfg.has("openid") || len(w.cfg.Auth) < 2 {
		return 0
	}
	n := 0
	for _, who := range []string{userA, userB, "mallory"} {
		cl := newGwClient(w.gw)
		if _, why := cl.login(LoopbackIdP(), who); why != "" {
			rep.capf("C05: OpenID login of %s on %s did not complete (%s): session cases skipped", who, w.cfg, why)
			continue
		}
		var cks []string
		for k, v := range cl.cookies {
			cks = append(cks, k+"="+v)
		}
		sort.Strings(cks)
		cookie := "Cookie: " + strings.Join(cks, "; ")
		if w.cfg.NoToken && w.cfg.has("local") {
			// right Basic credentials of user A next to the session of the OpenID user: the tunnel is user A's
			n++
			rep.add("executions", 1)
			w.extra, w.only = []string{cookie}, "basic"
			c, br, _ := w.authedWS()
			w.extra, w.only = nil, ""
			if c == nil {
				viol("confirmed-basic-credentials-do-not-reach-handler/with-openid-session", "right credentials of "+userA+" together with the session cookie of "+who)
			} else {
				got := w.whoIs(c, br)
				c.Close()
				rep.outcome(fmt.Sprintf("%s session-of=%s basic-user=%s tunnel-user=%s", w.cfg, who, userA, got))
				if got != userA {
					viol("tunnel-does-not-carry-confirmed-user/with-openid-session", fmt.Sprintf("the backend confirmed the Basic credentials of %s, the request also carried the session cookie of an OpenID login of %s; asking for the host of %s: %s", userA, who, userA, got))
				}
			}
		}
		for _, m := range []string{"ws", "legacy-out"} {
			for _, in := range ins {
				n++
				rep.add("executions", 1)
				r := w.request(m, append(append([]string{}, in.Headers...), cookie))
				rep.outcome(fmt.Sprintf("%s session-of=%s %s %s status=%d reached=%v", w.cfg, who, m, in.Kind, r.Status, r.Reached))
				what := fmt.Sprintf("config=%s method=%s input=%s together with the session cookie of a completed OpenID login of %s: status %d reached=%v", w.cfg, m, in.Name, who, r.Status, r.Reached)
				switch {
				case in.Kind == "absent" || in.Kind == "bad":
					if r.Reached {
						viol("handler-reached-with-unconfirmed-credentials/with-openid-session/"+in.Name, what)
					}
				case in.Kind == "good-basic-a" || in.Kind == "good-basic":
					if w.cfg.has("local") && !r.Reached {
						viol("confirmed-basic-credentials-do-not-reach-handler/with-openid-session", what)
					} else if !w.cfg.has("local") && r.Reached {
						viol("disabled-scheme-reaches-handler/basic/with-openid-session", what)
					}
				}
			}
		}
	}
	return n
}

// whileOpen: while a tunnel authenticated with one scheme stays open, another client with confirmed credentials
// (of the same or another scheme) reaches the handler.
func (w *c05World) whileOpen(viol func(kind, detail string), rep *Report) int {
	if w.cfg.has("openid") {
		return 0
	}
	n := 0
	var schemes []string
	for _, s := range []string{"basic", "ntlm", "kerberos"} {
		if (s == "basic" && w.cfg.has("local")) || (s != "basic" && w.cfg.has(s)) {
			schemes = append(schemes, s)
		}
	}
	defer func() { w.only = "" }()
	for _, first := range schemes {
		for _, second := range schemes {
			w.only = first
			c1, _, _ := w.authedWS()
			if c1 == nil {
				viol("cannot-open-authenticated-tunnel", first)
				continue
			}
			n++
			rep.add("executions", 2)
			w.only = second
			c2, br2, _ := w.authedWS()
			ok := c2 != nil
			who := ""
			if ok {
				who = w.whoIs(c2, br2)
				c2.Close()
			}
			c1.Close()
			rep.outcome(fmt.Sprintf("%s while-open first=%s second=%s reached=%v", w.cfg, first, second, ok))
			if !ok {
				viol("confirmed-credentials-do-not-reach-handler/while-another-tunnel-is-open/"+second, fmt.Sprintf("a tunnel authenticated with %s is open; a second client with right %s credentials does not reach the handler", first, second))
			} else if who != userA {
				viol("tunnel-does-not-carry-confirmed-user/while-another-tunnel-is-open/"+second, who)
			}
		}
	}
	return n
}
