package main

import (
	"encoding/binary"
	"os"
	"path/filepath"
	"runtime/debug"
	"strconv"
	"syscall"
)

// Inputs that announce hundreds of MiB are harmless on a gateway that allocates what it receives; on one that
// reserves what is announced each of them costs that much real memory (the runtime zeroes it). The workers of a
// check run side by side: such executions take a lock shared by all of them, one at a time, and hand the
// memory back before they release it, so that a broken gateway yields a verdict instead of an exhausted machine.
func announcesHuge(segs [][]byte) bool {
	for _, s := range segs {
		if len(s) >= 8 && binary.LittleEndian.Uint32(s[4:8]) >= 64<<20 {
			return true
		}
	}
	return false
}

// hugeFound: once one execution of this check run (all workers of the run share the parent process) has shown
// that announcements reserve memory, the remaining executions of that kind are skipped: they would show the
// same thing at 4 GiB apiece.
func hugeMarker() string {
	d := os.Getenv("VERIF_BUILD_DIR")
	if d == "" {
		d = "/verif/.build/misc"
	}
	return filepath.Join(d, "huge.found."+strconv.Itoa(os.Getppid()))
}

func hugeFound() bool {
	_, err := os.Stat(hugeMarker())
	return err == nil
}

func hugeSetFound() {
	if old, _ := filepath.Glob(filepath.Join(filepath.Dir(hugeMarker()), "huge.found.*")); len(old) > 0 {
		for _, f := range old {
			if f != hugeMarker() {
				os.Remove(f) // markers of earlier runs
			}
		}
	}
	os.WriteFile(hugeMarker(), []byte("x"), 0o644)
}

func hugeLock() func() {
	d := os.Getenv("VERIF_BUILD_DIR")
	if d == "" {
		d = "/verif/.build/misc"
	}
	os.MkdirAll(d, 0o755)
	f, err := os.OpenFile(filepath.Join(d, "huge.lock"), os.O_CREATE|os.O_RDWR, 0o644)
	if err != nil {
		return func() {}
	}
	syscall.Flock(int(f.Fd()), syscall.LOCK_EX)
	return func() {
		debug.FreeOSMemory()
		syscall.Flock(int(f.Fd()), syscall.LOCK_UN)
		f.Close()
	}
}
