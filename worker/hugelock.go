package main

import (
	"encoding/binary"
	"os"
	"path/filepath"
	"runtime/debug"
	"syscall"
)

// Inputs that announce hundreds of MiB are harmless on a gateway that allocates what it receives; on one that
// reserves what is announced each of them costs that much real memory (the runtime zeroes it). The workers of a
// check run side by side: such executions take a lock shared by all of them, one at a time, and hand the
// memory back before they release it, so that a broken gateway yields a verdict instead of an exhausted machine.
func announcesHuge(segs [][]byte) bool {
	for _, s := range segs {
		if len(s) >= 8 && binary.LittleEndian.Uint32(s[4:8]) >= 64<<20 {
			return true
		}
	}
	return false
}

func hugeLock() func() {
	d := os.Getenv("VERIF_BUILD_DIR")
	if d == "" {
		d = "/verif/.build/misc"
	}
	os.MkdirAll(d, 0o755)
	f, err := os.OpenFile(filepath.Join(d, "huge.lock"), os.O_CREATE|os.O_RDWR, 0o644)
	if err != nil {
		return func() {}
	}
	syscall.Flock(int(f.Fd()), syscall.LOCK_EX)
	return func() {
		debug.FreeOSMemory()
		syscall.Flock(int(f.Fd()), syscall.LOCK_UN)
		f.Close()
	}
}
