package main

import (
	"bufio"
	"fmt"
	"strings"
	"time"

	"verif/internal/der"
	"verif/internal/tsgu"
)

// C10 part (b): HTTP-level inputs against the real rdpgw binary.

type c10HTTPCfg struct {
	Name    string
	Auth    []string
	TLS     bool
	Buffers bool
}

func c10HTTPStart(c c10HTTPCfg) (*GwProc, *AuthService) {
	as := StartAuthService(map[string]string{userA: passA, "alice": "alice-pw"})
	port := freePort()
	idp := LoopbackIdP()
	var sb strings.Builder
	fmt.Fprintf(&sb, "Server:\n Port: %d\n GatewayAddress: gw.example:%d\n AuthSocket: %s\n Hosts:\n  - 127.0.0.1:3389\n Authentication:\n", port, port, as.Socket)
	for _, a := range c.Auth {
		sb.WriteString("  - " + a + "\n")
	}
	if c.TLS {
		cf, kf := TLSFiles()
		fmt.Fprintf(&sb, " Tls: enable\n CertFile: %s\n KeyFile: %s\n", cf, kf)
	} else {
		sb.WriteString(" Tls: disable\n")
	}
	if c.Buffers {
		sb.WriteString(" ReceiveBuf: 65536\n SendBuf: 65536\n")
	}
	fmt.Fprintf(&sb, "OpenId:\n ProviderUrl: %q\n ClientId: rdpgw\n ClientSecret: secret\n", idp.Issuer)
	tokenAuth := false
	for _, a := range c.Auth {
		if a == "openid" {
			tokenAuth = true
		}
		if a == "kerberos" {
			kt, kc := c18Keytab()
			fmt.Fprintf(&sb, "Kerberos:\n Keytab: %s\n Krb5Conf: %s\n", kt, kc)
		}
	}
	fmt.Fprintf(&sb, "Caps:\n TokenAuth: %v\n", tokenAuth)
	g := StartGateway(sb.String(), nil, port, c.TLS)
	if !g.Alive() {
		infra("C10(b): gateway %s did not start: %s", c.Name, tail(g.Log(), 400))
	}
	return g, as
}

type rawCase struct {
	Name string
	Raw  string
	// After: bytes written after the response head was read (e.g. on an upgraded connection)
	After []byte
}

func c10HTTPCases(hasKerberos bool) []rawCase {
	var out []rawCase
	add := func(name, raw string) { out = append(out, rawCase{Name: name, Raw: raw}) }
	gwp := "/remoteDesktopGateway/"
	wsH := []string{"Connection: Upgrade", "Upgrade: websocket", "Sec-WebSocket-Version: 13", "Sec-WebSocket-Key: dGhlIHNhbXBsZSBub25jZQ=="}
	// Authorization: every prefix of the scheme words, with and without trailing blank / payload
	for _, word := range []string{"NTLM", "Negotiate", "Basic", "Bearer"} {
		for l := 1; l <= len(word); l++ {
			for _, suffix := range []string{"", " ", " AAAA", "  "} {
				add(fmt.Sprintf("authorization/%q", word[:l]+suffix), BuildRequest("RDG_OUT_DATA", gwp, append([]string{"Authorization: " + word[:l] + suffix}, wsH...)))
			}
		}
	}
	for _, in := range c05Inputs() {
		add("authorization/"+in.Name, BuildRequest("RDG_OUT_DATA", gwp, append(append([]string{}, in.Headers...), wsH...)))
		add("authorization-in/"+in.Name, BuildRequest("RDG_IN_DATA", gwp, append(append([]string{"Rdg-Connection-Id: x"}, in.Headers...), "Content-Length: 0")))
	}
	add("authorization/8k", BuildRequest("RDG_OUT_DATA", gwp, []string{"Authorization: NTLM " + strings.Repeat("A", 8000)}))
	add("authorization/nul", BuildRequest("RDG_OUT_DATA", gwp, []string{"Authorization: NTLM \x00\x01"}))
	// bytes that are not UTF-8, Latin-1 text, control bytes: in the scheme word, right after it, in the payload, and
	// in every other header the gateway looks at
	for _, word := range []string{"NTLM", "Negotiate", "Basic"} {
		for _, junk := range []string{"\xff\xfe", "\xc3", "\xc3 x", "\xe9t\xe9", "\x80 AAAA", " \xff\xfe\xfd", " \xc3\x28", "\t\x01", "\xed\xa0\x80 x", "\xf8\x88\x80\x80\x80"} {
			add(fmt.Sprintf("authorization/non-utf8/%s%x", word, junk), BuildRequest("RDG_OUT_DATA", gwp, append([]string{"Authorization: " + word + junk}, wsH...)))
		}
		add("authorization/non-utf8/in/"+word, BuildRequest("RDG_IN_DATA", gwp, []string{"Rdg-Connection-Id: x", "Authorization: " + word + "\xff\xfe", "Content-Length: 0"}))
	}
	for _, hn := range []string{"Rdg-Connection-Id", "X-Forwarded-For", "Cookie", "User-Agent", "Sec-WebSocket-Key", "Sec-WebSocket-Protocol", "Origin", "Rdg-User-Id", "Accept-Language"} {
		for _, junk := range []string{"\xff\xfe", "a\xc3", "\xe9t\xe9=\xe9", "RDPGWSESSION=\xff\xfe"} {
			add(fmt.Sprintf("header/non-utf8/%s/%x", hn, junk), BuildRequest("RDG_OUT_DATA", gwp, append([]string{hn + ": " + junk}, wsH...)))
			add(fmt.Sprintf("header/non-utf8/connect/%s/%x", hn, junk), BuildRequest("GET", "/connect", []string{hn + ": " + junk}))
		}
	}
	add("query/non-utf8", BuildRequest("GET", "/connect?host=%ff%fe&x=\xff", nil))
	add("query/non-utf8-tokeninfo", BuildRequest("GET", "/tokeninfo?access_token=%ff%fe.%c3.%28", nil))
	add("query/non-utf8-callback", BuildRequest("GET", "/callback?state=%ff%fe&code=%c3%28", nil))
	// websocket upgrade header shapes
	for drop := 0; drop < len(wsH); drop++ {
		h := append(append([]string{}, wsH[:drop]...), wsH[drop+1:]...)
		add(fmt.Sprintf("upgrade/missing-%d", drop), BuildRequest("RDG_OUT_DATA", gwp, h))
		d := append(append([]string{}, wsH...), wsH[drop])
		add(fmt.Sprintf("upgrade/duplicate-%d", drop), BuildRequest("RDG_OUT_DATA", gwp, d))
	}
	for _, v := range []string{"12", "0", "x", ""} {
		add("upgrade/version="+v, BuildRequest("RDG_OUT_DATA", gwp, []string{"Connection: Upgrade", "Upgrade: websocket", "Sec-WebSocket-Version: " + v, "Sec-WebSocket-Key: dGhlIHNhbXBsZSBub25jZQ=="}))
	}
	for _, k := range []string{"", "short", strings.Repeat("A", 4000), "!!!!"} {
		add(fmt.Sprintf("upgrade/key-len=%d", len(k)), BuildRequest("RDG_OUT_DATA", gwp, []string{"Connection: Upgrade", "Upgrade: websocket", "Sec-WebSocket-Version: 13", "Sec-WebSocket-Key: " + k}))
	}
	add("upgrade/connection=upgrade-lowercase-only", BuildRequest("RDG_OUT_DATA", gwp, []string{"Connection: upgrade"}))
	add("upgrade/upgrade=websocket-only", BuildRequest("RDG_OUT_DATA", gwp, []string{"Upgrade: websocket"}))
	add("upgrade/extensions", BuildRequest("RDG_OUT_DATA", gwp, append([]string{"Sec-WebSocket-Extensions: permessage-deflate; client_max_window_bits", "Sec-WebSocket-Protocol: a, b"}, wsH...)))
	// legacy request orders and odd ids
	for _, id := range []string{"", "x", strings.Repeat("i", 8000), "{00000000-0000-0000-0000-000000000000}", "a b", "\x7f"} {
		add(fmt.Sprintf("legacy-out/id-len=%d", len(id)), BuildRequest("RDG_OUT_DATA", gwp, []string{"Rdg-Connection-Id: " + id}))
		add(fmt.Sprintf("legacy-in/id-len=%d", len(id)), BuildRequest("RDG_IN_DATA", gwp, []string{"Rdg-Connection-Id: " + id, "Content-Length: 0"}))
		add(fmt.Sprintf("legacy-in-chunked/id-len=%d", len(id)), BuildRequest("RDG_IN_DATA", gwp, []string{"Rdg-Connection-Id: " + id, "Transfer-Encoding: chunked"})+"5\r\nhello\r\n0\r\n\r\n")
	}
	for _, x := range []string{"", "1.2.3.4", "a, b, c", strings.Repeat("1.1.1.1, ", 900), ",", " , ,", "::1", "[::1]:80"} {
		add(fmt.Sprintf("xff/len=%d", len(x)), BuildRequest("RDG_OUT_DATA", gwp, append([]string{"X-Forwarded-For: " + x}, wsH...)))
		add(fmt.Sprintf("xff-connect/len=%d", len(x)), BuildRequest("GET", "/connect", []string{"X-Forwarded-For: " + x}))
	}
	for _, ck := range []string{"RDPGWSESSION=", "RDPGWSESSION=AAAA", "RDPGWSESSION=" + strings.Repeat("B", 5000), "RDPGWSESSION=MTIz|x|y", "=", "a=b; RDPGWSESSION=x; RDPGWSESSION=y"} {
		add(fmt.Sprintf("cookie/len=%d", len(ck)), BuildRequest("GET", "/connect", []string{"Cookie: " + ck}))
		add(fmt.Sprintf("cookie-gw/len=%d", len(ck)), BuildRequest("RDG_OUT_DATA", gwp, append([]string{"Cookie: " + ck}, wsH...)))
	}
	// every endpoint x method
	for _, ep := range []string{"/", "/connect", "/connect?host=x", "/callback", "/callback?state=zz&code=zz", "/tokeninfo", "/tokeninfo?access_token=", "/tokeninfo?access_token=a.b.c.d.e", "/metrics", gwp, gwp + "x/y", "/KdcProxy", "/remoteDesktopGateway", "//remoteDesktopGateway//", "/%00", "/connect?%zz"} {
		for _, m := range []string{"GET", "POST", "HEAD", "PUT", "DELETE", "OPTIONS", "RDG_OUT_DATA", "RDG_IN_DATA", "FOO"} {
			add("endpoint/"+m+" "+ep, BuildRequest(m, ep, []string{"Content-Length: 0"}))
		}
	}
	if hasKerberos {
		good := der.KdcProxyMessage(kdcMessage(20), "EXAMPLE.COM", true, 0, false)
		for _, b := range [][]byte{good, good[:10], {}, []byte("garbage"), der.KdcProxyMessage(make([]byte, 2), "", false, 0, false)} {
			add(fmt.Sprintf("kdcproxy/body-len=%d", len(b)), BuildRequest("POST", "/KdcProxy", []string{"Content-Type: application/kerberos", fmt.Sprintf("Content-Length: %d", len(b))})+string(b))
		}
		add("kdcproxy/chunked", BuildRequest("POST", "/KdcProxy", []string{"Transfer-Encoding: chunked"})+"3\r\nabc\r\n0\r\n\r\n")
	}
	// request-line level
	add("request/no-host", "GET /metrics HTTP/1.1\r\n\r\n")
	add("request/http10", "GET /metrics HTTP/1.0\r\n\r\n")
	add("request/garbage", "\x16\x03\x01\x02\x00\x01\x00\x01\xfc\x03\x03garbage\r\n\r\n")
	add("request/long-line", "GET /"+strings.Repeat("a", 20000)+" HTTP/1.1\r\nHost: x\r\n\r\n")
	add("request/many-headers", "GET /metrics HTTP/1.1\r\nHost: x\r\n"+strings.Repeat("X-A: b\r\n", 3000)+"\r\n")
	return out
}

// c10Probe: the gateway still serves: /metrics answers 200 and (open endpoint) a websocket handshake packet is answered.
// c10ProbeLogins: a legitimate client of every configured HTTP authentication scheme still reaches the gateway
// handler (what one client sent must not spoil the authentication path for the others).
func c10ProbeLogins(g *GwProc, auth []string) string {
	for _, a := range auth {
		scheme := map[string]string{"local": "basic", "ntlm": "ntlm", "kerberos": "kerberos"}[a]
		if scheme == "" {
			continue
		}
		c, _, st := tourOpen(g, scheme, "RDG_OUT_DATA", "probe-"+scheme, true)
		if c == nil {
			return fmt.Sprintf("a legitimate %s login no longer reaches the gateway handler (status %d)", scheme, st)
		}
		c.Close()
	}
	return ""
}

func c10Probe(g *GwProc, openEndpoint bool) string {
	c, err := g.Dial()
	if err != nil {
		return "cannot connect: " + err.Error()
	}
	r := RawRequest(c, BuildRequest("GET", "/metrics", nil))
	c.Close()
	if r.Status != 200 {
		return fmt.Sprintf("/metrics answered %d (closed=%v timeout=%v)", r.Status, r.Closed, r.Timeout)
	}
	if openEndpoint {
		c, err := g.Dial()
		if err != nil {
			return "cannot connect"
		}
		defer c.Close()
		c.SetDeadline(time.Now().Add(10 * time.Second))
		c.Write([]byte(BuildRequest("RDG_OUT_DATA", "/remoteDesktopGateway/", []string{"Connection: Upgrade", "Upgrade: websocket", "Sec-WebSocket-Version: 13", "Sec-WebSocket-Key: dGhlIHNhbXBsZSBub25jZQ==", "Rdg-Connection-Id: probe"})))
		br := bufio.NewReader(c)
		if rr := ReadResponse(br); rr.Status != 101 {
			return fmt.Sprintf("websocket upgrade answered %d", rr.Status)
		}
		c.Write(wsFrame(2, true, tsgu.Handshake(1, 0, 0, tsgu.ExtAuthPAA)))
		tc := &TunnelClient{Kind: "ws"}
		buf := make([]byte, 4096)
		for {
			n, err := br.Read(buf)
			tc.rbuf = append(tc.rbuf, buf[:n]...)
			tc.deframe()
			if pk := tc.NewPackets(); len(pk) > 0 {
				if pk[0].Type != tsgu.TypeHandshakeResp {
					return "unexpected packet on probe tunnel"
				}
				return ""
			}
			if err != nil {
				return "probe tunnel closed before the handshake response"
			}
		}
	}
	return ""
}

func c10HTTP(env *Env, rep *Report) int {
	if gwBin() == "" {
		rep.Notes = append(rep.Notes, "part b skipped: no gateway binary")
		return 0
	}
	cfgs := []c10HTTPCfg{
		{"openid/plain", []string{"openid"}, false, false},
		{"openid/plain/buffers", []string{"openid"}, false, true},
		{"openid/tls", []string{"openid"}, true, false},
		{"openid/tls/buffers", []string{"openid"}, true, true},
		{"local+ntlm/tls", []string{"local", "ntlm"}, true, false},
		{"local+ntlm/tls/buffers", []string{"local", "ntlm"}, true, true},
		{"ntlm/plain/buffers", []string{"ntlm"}, false, true},
		{"kerberos/plain", []string{"kerberos"}, false, false},
		{"openid+kerberos+local/tls", []string{"openid", "kerberos", "local"}, true, false},
	}
	if env.thorough() {
		for _, c := range c05Configs() {
			for _, b := range []bool{false, true} {
				cfgs = append(cfgs, c10HTTPCfg{"all:" + c.String() + fmt.Sprintf("/tls=%v/buffers=%v", c.TLS, b), c.Auth, c.TLS, b})
			}
		}
	}
	n := 0
	for ci, cfg := range cfgs {
		if !env.mine(ci) {
			continue
		}
		g, as := c10HTTPStart(cfg)
		hasK := false
		for _, a := range cfg.Auth {
			if a == "kerberos" {
				hasK = true
			}
		}
		open := len(cfg.Auth) == 1 && cfg.Auth[0] == "openid"
		viol := func(kind, detail string) {
			rep.violate("C10/http-"+kind+"/"+cfg.Name, detail, map[string]any{"noreplay": true})
		}
		if p := c10Probe(g, open); p != "" {
			viol("gateway-does-not-serve-before-any-hostile-input", p)
		}
		if p := c10ProbeLogins(g, cfg.Auth); p != "" {
			viol("gateway-does-not-serve-before-any-hostile-input", p)
		}
		seen := len(g.Crashed())
		for _, rc := range c10HTTPCases(hasK) {
			n++
			rep.add("executions", 1)
			c, err := g.Dial()
			if err != nil {
				viol("gateway-stops-accepting", rc.Name+": "+err.Error())
				break
			}
			t0 := time.Now()
			r := RawRequest(c, rc.Raw)
			c.Close()
			if d := time.Since(t0); d > 2*time.Second {
				rep.Notes = append(rep.Notes, fmt.Sprintf("slow: %s %s took %.1fs (status %d)", cfg.Name, rc.Name, d.Seconds(), r.Status))
			}
			rep.outcome(fmt.Sprintf("b %s %s status=%d", cfg.Name, strings.SplitN(rc.Name, "/", 2)[0], r.Status))
			if r.Timeout {
				viol("request-never-answered", rc.Name)
			}
			if cr := g.Crashed(); len(cr) != seen && cr != "" {
				site := "panic-in-gateway"
				viol(site, fmt.Sprintf("after %s: %s", rc.Name, cr))
				seen = len(cr)
				break
			}
			if !g.Alive() {
				viol("gateway-exited", fmt.Sprintf("after %s: %s", rc.Name, tail(g.Log(), 300)))
				break
			}
			if as != nil {
				if cr := as.Crashed(); cr != "" {
					viol("panic-ends-the-authentication-service", fmt.Sprintf("after %s: %s", rc.Name, tail(cr, 600)))
					break
				}
			}
			if n%300 == 1 {
				rep.sample(map[string]any{"part": "b (HTTP level, real binary)", "config": cfg.Name, "input": rc.Name, "status": r.Status, "closed_without_response": r.Closed})
			}
		}
		if g.Alive() {
			if p := c10Probe(g, open); p != "" {
				viol("other-clients-no-longer-served", p)
			} else if p := c10ProbeLogins(g, cfg.Auth); p != "" {
				viol("other-clients-no-longer-served", p)
			}
		}
		g.Stop()
		as.Stop()
	}
	rep.Notes = append(rep.Notes, fmt.Sprintf("part b: %d configurations of the real binary", len(cfgs)))
	return n
}

func c10HTTPReplay(env *Env, rep *Report) {}
