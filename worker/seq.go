package main

import (
	"strconv"
	"verif/shim/vclock"
	"time"
	"fmt"
	"net/http"
	"strings"

	"github.com/bolkedebruin/rdpgw/cmd/rdpgw/protocol"

	"verif/internal/tsgu"
	"verif/shim/vnet"
	"verif/shim/vsched"
)

// SeqCfg describes a sequential single-tunnel scenario.
type SeqCfg struct {
	Gw         GwCfg
	Kind       string // proc | ws | legacy
	User       string
	ClientIP   string
	RemoteAddr string
	Accept     func(addr string) bool
	Handler    func(gw *protocol.Gateway) http.Handler // handler level; nil = gw.HandleGatewayProtocol
	Extra      http.Header
	// BackendSay: bytes the backend writes right after accepting (sequential scenarios).
	BackendSay [][]byte
	MaxSteps   int
	Log        bool
	// AfterOpen runs in the client thread after the transport is up.
	AfterOpen func(w *World, c *TunnelClient)
	// Prelude runs in the client thread before the observed tunnel is opened (earlier tunnels,
	// possibly with the same connection id): the observed tunnel starts from a non-initial
	// gateway state. Dials and backend bytes of the prelude are not attributed to the steps.
	Prelude func(w *World, h http.Handler, gw *protocol.Gateway)
	// Authenticated: the request's identity is marked authenticated (a client that passed an HTTP-level scheme)
	Authenticated bool
	// BackendWindow: see World.BackendWindow (the host reads only when a segment with Action "hostdrain" says so)
	BackendWindow int
	// Segmented: see World.Segmented (one client write per gateway read)
	Segmented bool
}

// Seg is one transport segment sent by the client, or a control action.
type Seg struct {
	Name   string
	Bytes  []byte
	Action string // "" send | "close" client drops its connection(s) | "backend:<hex>" unused
	Frags  [][]byte
	NoWait bool // do not wait for quiescence after this segment (burst)
	// SplitChunk: legacy transport only: the HTTP chunk that carries Bytes arrives in three pieces (chunk size line,
	// chunk data, trailing CRLF), so that the gateway's read of the data is not shortened by what a buffered reader
	// happens to hold
	SplitChunk bool
	// HostSay != nil: instead of the client sending, the remote desktop host (first backend) writes these bytes
	// (an empty slice is an empty write: the gateway's read returns no bytes and no error)
	HostSay []byte
}

// StepObs is what was observed after one segment, at quiescence.
type StepObs struct {
	Resps      []tsgu.Pkt
	Dials      []vnet.DialRec
	BackendNew []byte
	Ended      bool
	State      int
	Snap       protocol.VerifTunnelSnapshot
	HaveSnap   bool
}

// SeqResult is a whole sequential run.
type SeqResult struct {
	Opened   bool
	Steps    []StepObs
	Panics   []vsched.ThreadPanic
	Blocked  []vsched.Blocked
	Abort    string
	FrameErr string
	Rest     []byte // trailing undecodable bytes at the client
	World    *World
	Client   *TunnelClient
	Log      []string
	Proc     *ProcRun
	Threads  []string
	StepsRun int
}

var curProc *ProcRun

// RunSeq executes the segments one by one against a fresh gateway, waiting for
// quiescence after each, under the default schedule.
func RunSeq(cfg SeqCfg, segs []Seg) *SeqResult {
	res := &SeqResult{}
	curScenario = "sequential/" + cfg.Kind
	max := cfg.MaxSteps
	if max == 0 {
		max = 20000
	}
	x := vsched.Run(nil, max, cfg.Log, nil, func() {
		w := NewWorld()
		res.World = w
		w.Accept = cfg.Accept
		w.BackendWindow = cfg.BackendWindow
		w.Segmented = cfg.Segmented
		if len(cfg.BackendSay) > 0 {
			w.OnBackend = func(b *Backend) {
				for _, s := range cfg.BackendSay {
					b.Conn.Write(s)
				}
			}
		}
		gw := NewGateway(cfg.Gw)
		var h http.Handler
		if cfg.Kind != "proc" {
			if cfg.Handler != nil {
				h = cfg.Handler(gw)
			} else {
				h = http.HandlerFunc(gw.HandleGatewayProtocol)
			}
		}
		id := NewIdentity(cfg.User, cfg.ClientIP, cfg.RemoteAddr)
		if cfg.Authenticated {
			id.SetAuthenticated(true)
		}
		if cfg.Prelude != nil {
			cfg.Prelude(w, h, gw)
			vsched.WaitIdle()
		}
		preDials := len(w.Net.Dials)
		preBytes := 0
		for i := range w.Backends {
			preBytes += len(w.BackendBytes(i))
		}
		var c *TunnelClient
		if cfg.Kind == "proc" {
			pr := StartProcessor(gw, id, cfg.RemoteAddr)
			res.Proc = pr
			c = &TunnelClient{Kind: "proc", Conn: pr.Client}
			res.Opened = true
		} else {
			c, res.Opened = w.OpenTunnel(cfg.Kind, h, gw, "conn-1", cfg.RemoteAddr, id, cfg.Extra)
		}
		res.Client = c
		if !res.Opened {
			return
		}
		if cfg.AfterOpen != nil {
			cfg.AfterOpen(w, c)
		}
		vsched.WaitIdle()
		c.Absorb()
		c.NewPackets()
		nd, nb := preDials, preBytes
		for _, s := range segs {
			switch {
			case s.HostSay != nil:
				if len(w.Backends) > 0 {
					w.Backends[0].Conn.Write(s.HostSay)
				}
			case s.Action == "deadlines":
				// time passes until every deadline that is set has fired
				vsched.AwaitTimers()
			case strings.HasPrefix(s.Action, "clock+"):
				// the harness clock (which time.Now of protocol and security follows) moves on
				if d, err := time.ParseDuration(s.Action[6:]); err == nil {
					vclock.Advance(d)
				}
			case s.Action == "hostdrain":
				// the host reads everything that is waiting for it
				if len(w.Backends) > 0 {
					w.Backends[0].Conn.Pending()
				}
			case s.Action == "close":
				c.CloseClient()
			case len(s.Frags) > 0:
				c.SendFragments(s.Frags...)
			case s.SplitChunk && c.Kind == "legacy":
				c.In.Write([]byte(strconv.FormatInt(int64(len(s.Bytes)), 16) + "\r\n"))
				c.In.Write(s.Bytes)
				c.In.Write([]byte("\r\n"))
			default:
				c.SendSegment(s.Bytes)
			}
			if s.NoWait {
				continue
			}
			vsched.WaitIdle()
			c.Absorb()
			o := StepObs{Resps: c.NewPackets(), Ended: c.Closed, State: -1}
			o.Dials = append(o.Dials, w.Net.Dials[nd:]...)
			nd = len(w.Net.Dials)
			var all []byte
			for i := range w.Backends {
				all = append(all, w.BackendBytes(i)...)
			}
			o.BackendNew = append([]byte{}, all[nb:]...)
			nb = len(all)
			if res.Proc != nil {
				o.State = res.Proc.Proc.VerifState()
				o.Snap = res.Proc.Tunnel.VerifSnapshot()
				o.HaveSnap = true
				if res.Proc.Returned {
					o.Ended = true
				}
			} else {
				for _, s := range protocol.VerifConnections() {
					o.State = s.State
					o.Snap = s
					o.HaveSnap = true
				}
			}
			res.Steps = append(res.Steps, o)
		}
	})
	res.Panics = x.Panics()
	res.Blocked = x.Blocked
	res.Abort = x.Abort
	res.Log = x.Log
	res.Threads = x.Threads()
	res.StepsRun = x.Steps
	if res.Client != nil {
		res.FrameErr = res.Client.FrameErr
		_, res.Rest, _ = res.Client.Packets()
	}
	x.Finish()
	return res
}

// obsString is a canonical rendering of one step's observation.
func (o StepObs) String() string {
	var sb strings.Builder
	for _, p := range o.Resps {
		r := tsgu.ParseResp(p)
		fmt.Fprintf(&sb, "resp(%#x,st=%#x,wf=%v,%x) ", p.Type, r.Status, r.WellFormed, p.Body)
	}
	for _, d := range o.Dials {
		fmt.Fprintf(&sb, "dial(%s,%v) ", d.Address, d.Err == "")
	}
	if len(o.BackendNew) > 0 {
		fmt.Fprintf(&sb, "backend(%x) ", o.BackendNew)
	}
	if o.Ended {
		sb.WriteString("ended ")
	}
	return sb.String()
}
