package main

import (
	"fmt"
	"strings"

	"verif/shim/vsched"
)

// C11 — ending a tunnel releases the backend connection and all per-tunnel resources.

func init() { props["C11"] = c11 }

func c11Scenarios() []ConcScenario {
	var out []ConcScenario
	for _, kind := range []string{"ws", "legacy"} {
		causes := []string{"close", "bad", "garbage", "drop"}
		if kind == "legacy" {
			causes = append(causes, "dropin", "dropout")
		}
		type stop struct {
			name   string
			stopAt string
			pre    []string
			chunks [][]byte
		}
		stops := []stop{
			{"open", "open", nil, nil},
			{"hs", "hs", nil, nil},
			{"tc", "tc", nil, nil},
			{"ta", "ta", nil, nil},
			{"cc", "", nil, nil},
			{"cc+clientdata", "", []string{"data:abc"}, nil},
			{"cc+hostdata", "", nil, [][]byte{[]byte("host-bytes")}},
			{"cc+both", "", []string{"data:abc"}, [][]byte{[]byte("host-bytes")}},
		}
		if kind == "legacy" {
			// the inbound request was accepted but the client ends before its first byte
			for _, cause := range []string{"drop", "dropin"} {
				out = append(out, ConcScenario{Name: fmt.Sprintf("%s/%s/%s", kind, cause, "accepted"),
					Plans: []TunnelPlan{{Kind: kind, ConnID: "A", User: "ua", IP: "10.0.0.1", Host: "ha.example:3389", StopAt: "accepted", Script: []string{cause, "idle"}}}})
			}
		}
		if kind == "legacy" {
			// compound endings: the outbound connection is lost first (the host keeps writing, so writes to the
			// client fail), then the tunnel ends on the inbound connection in one of the ordinary ways
			for _, then := range []string{"close", "bad", "garbage", "dropin", "data:late;close", "ka;dropin"} {
				for _, settle := range []bool{true, false} {
					script := []string{"data:abc", "dropout"}
					if settle {
						script = append(script, "settle")
					}
					script = append(script, "hostsay:host-bytes-after-the-outbound-loss", "hostsay:more")
					if settle {
						script = append(script, "settle")
					}
					script = append(script, strings.Split(then, ";")...)
					script = append(script, "idle")
					out = append(out, ConcScenario{Name: fmt.Sprintf("%s/dropout+%s/settle=%v", kind, strings.ReplaceAll(then, ";", "+"), settle),
						Plans: []TunnelPlan{{Kind: kind, ConnID: "A", User: "ua", IP: "10.0.0.1", Host: "ha.example:3389", Script: script, Chunks: [][]byte{[]byte("host-bytes")}}}})
				}
			}
		}
		// the client goes away in the middle of a packet (1, 7, 8, 9, 40, 109 of 110 bytes sent), at two stages
		for _, n := range []int{1, 7, 8, 9, 40, 109} {
			drops := []string{"drop"}
			if kind == "legacy" {
				drops = append(drops, "dropin")
			}
			for _, d := range drops {
				for _, stage := range []string{"hs", ""} {
					for _, settle := range []bool{true, false} {
						script := []string{fmt.Sprintf("partial:%d", n)}
						if settle {
							script = append(script, "settle")
						}
						script = append(script, d, "idle")
						nm := stage
						if nm == "" {
							nm = "cc"
						}
						out = append(out, ConcScenario{Name: fmt.Sprintf("%s/partial%d+%s/%s/settle=%v", kind, n, d, nm, settle),
							Plans: []TunnelPlan{{Kind: kind, ConnID: "A", User: "ua", IP: "10.0.0.1", Host: "ha.example:3389", StopAt: stage, Script: script}}})
					}
				}
			}
		}
		// the client sends its next request and goes away without waiting for the answer: the gateway finds out
		// when it writes the response (for CHANNEL_CREATE: after it has dialled the host)
		next := map[string]string{"open": "hs", "hs": "tc", "tc": "ta", "ta": "cc"}
		for _, stage := range []string{"open", "hs", "tc", "ta"} {
			gone := []string{"drop"}
			if kind == "legacy" {
				gone = append(gone, "dropout+dropin", "dropin")
			}
			for _, g := range gone {
				script := []string{"send:" + next[stage]}
				script = append(script, strings.Split(g, "+")...)
				script = append(script, "idle")
				out = append(out, ConcScenario{Name: fmt.Sprintf("%s/send-%s-then-%s", kind, next[stage], g),
					Plans: []TunnelPlan{{Kind: kind, ConnID: "A", User: "ua", IP: "10.0.0.1", Host: "ha.example:3389", StopAt: stage, Script: script, Chunks: [][]byte{[]byte("host-bytes")}}}})
			}
			if kind == "legacy" {
				// the outbound connection is lost first, then the client goes on with the next request on the
				// inbound one (the response cannot be written), and finally leaves
				out = append(out, ConcScenario{Name: fmt.Sprintf("%s/outbound-lost-then-%s-then-dropin", kind, next[stage]),
					Plans: []TunnelPlan{{Kind: kind, ConnID: "A", User: "ua", IP: "10.0.0.1", Host: "ha.example:3389", StopAt: stage, Script: []string{"dropout", "settle", "send:" + next[stage], "settle", "dropin", "idle"}}}})
			}
		}
		// the client has stopped reading while its host keeps writing (the relay goroutine is blocked in its write
		// to the client, send window 32 bytes), then the tunnel ends
		stalledCauses := []string{"drop", "bad", "garbage", "close"}
		if kind == "legacy" {
			stalledCauses = append(stalledCauses, "dropin", "dropout")
		}
		for _, cause := range stalledCauses {
			script := []string{"data:abc", "hostsay:host-keeps-writing-host-keeps-writing-1", "settle", "hostsay:host-keeps-writing-host-keeps-writing-2", "settle", "hostsay:host-keeps-writing-host-keeps-writing-3", "settle", cause, "idle"}
			name := fmt.Sprintf("%s/stalled+%s", kind, cause)
			if cause == "dropout" {
				name = fmt.Sprintf("%s/dropout/stalled", kind) // the known finding (outbound loss unnoticed) applies here too
			}
			out = append(out, ConcScenario{Name: name, ClientWindow: 32,
				Plans: []TunnelPlan{{Kind: kind, ConnID: "A", User: "ua", IP: "10.0.0.1", Host: "ha.example:3389", Script: script}}})
		}
		if kind == "ws" {
			// the host keeps writing while the client ends the tunnel
			for _, then := range []string{"close", "bad", "drop"} {
				out = append(out, ConcScenario{Name: fmt.Sprintf("%s/hostwrites+%s", kind, then),
					Plans: []TunnelPlan{{Kind: kind, ConnID: "A", User: "ua", IP: "10.0.0.1", Host: "ha.example:3389", Script: []string{"data:abc", "hostsay:one", then, "hostsay:two", "hostsay:three", "idle"}, Chunks: [][]byte{[]byte("host-bytes")}}}})
			}
		}
		for _, st := range stops {
			if strings.HasPrefix(st.name, "cc") {
				// a repeated CHANNEL_CREATE (protocol error) on an open channel
				script := append(append([]string{}, st.pre...), "badcc", "idle")
				out = append(out, ConcScenario{Name: fmt.Sprintf("%s/%s/%s", kind, "badcc", st.name),
					Plans: []TunnelPlan{{Kind: kind, ConnID: "A", User: "ua", IP: "10.0.0.1", Host: "ha.example:3389", Script: script, Chunks: st.chunks}}})
			}
			for _, cause := range causes {
				script := append([]string{}, st.pre...)
				script = append(script, cause)
				// the client then just waits: it is the gateway that has to clean up
				script = append(script, "idle")
				out = append(out, ConcScenario{
					Name: fmt.Sprintf("%s/%s/%s", kind, cause, st.name),
					Plans: []TunnelPlan{{Kind: kind, ConnID: "A", User: "ua", IP: "10.0.0.1", Host: "ha.example:3389",
						StopAt: st.stopAt, Script: script, Chunks: st.chunks}},
				})
			}
		}
	}
	// the packet that ends the tunnel is the tail of a transport read of exactly 4096 / 8192 bytes (the gateway's
	// read buffer size and twice it), and of one byte less and more
	for _, kind := range []string{"ws", "legacy"} {
		for _, total := range []int{4095, 4096, 4097, 8192} {
			for _, cause := range []string{"close", "bad"} {
				sc := ConcScenario{Name: fmt.Sprintf("%s/%s-as-tail-of-a-%d-byte-read", kind, cause, total),
					Plans: []TunnelPlan{{Kind: kind, ConnID: "A", User: "ua", IP: "10.0.0.1", Host: "ha.example:3389", Script: []string{fmt.Sprintf("coalesced:%d:%s", total, cause), "idle"}}}}
				out = append(out, sc)
			}
		}
	}
	// many tunnels are open and stay open; one more tunnel ends (in the middle of its channel request, or after its
	// channel exists): its resources are released while the others live. One (lockstep) schedule each.
	for _, n := range []int{16, 64} {
		for _, xkind := range []string{"ws", "legacy"} {
			for _, ending := range []string{"send:cc+drop", "cc+drop", "cc+close"} {
				sc := ConcScenario{Name: fmt.Sprintf("many/%d-open+%s/%s", n, xkind, ending), RoundRobin: true, Deviation: true, MaxSteps: 400000}
				x := TunnelPlan{Kind: xkind, ConnID: "X", User: "ux", IP: "10.9.0.1", Host: "hx.example:3389"}
				switch ending {
				case "send:cc+drop":
					x.StopAt, x.Script = "ta", []string{"settle", "send:cc", "drop", "settle", "probe", "signal:probed", "idle"}
				case "cc+drop":
					x.Script = []string{"data:abc", "settle", "drop", "settle", "probe", "signal:probed", "idle"}
				case "cc+close":
					x.Script = []string{"data:abc", "settle", "close", "settle", "probe", "signal:probed", "idle"}
				}
				sc.Plans = append(sc.Plans, x)
				for i := 0; i < n; i++ {
					kind := "ws"
					if i%3 == 1 {
						kind = "legacy"
					}
					sc.Plans = append(sc.Plans, TunnelPlan{Kind: kind, ConnID: fmt.Sprintf("T%02d", i), User: fmt.Sprintf("u%02d", i), IP: fmt.Sprintf("10.0.%d.1", i+1), Host: fmt.Sprintf("h%02d.example:3389", i),
						Script: []string{"data:abc", "wait:probed", "drop", "idle"}})
				}
				out = append(out, sc)
			}
		}
	}
	return out
}

func c11Check(sc ConcScenario) func(res *ConcResult, races []RaceReport) (string, []vsched.Violation) {
	return func(res *ConcResult, races []RaceReport) (string, []vsched.Violation) {
		var v []vsched.Violation
		var out strings.Builder
		add := func(kind, detail string) {
			v = append(v, vsched.Violation{Sig: "C11/" + kind + "/" + sc.Name, Detail: detail})
			out.WriteString(kind + " ")
		}
		t := res.Tunnels[0]
		if t.SetupFailed != "" {
			out.WriteString("setup:" + t.SetupFailed + " ")
		}
		if strings.HasPrefix(sc.Name, "many/") {
			for _, k := range strings.Fields(t.Probe) {
				if k != "released" {
					add(k+"/while-other-tunnels-are-open", "tunnel X had ended and the gateway had nothing left to do, the other tunnels still open: "+t.Probe)
				}
			}
			if t.Probe == "" {
				add("ended-tunnel-never-settles/while-other-tunnels-are-open", "the script of tunnel X did not get to its observation point")
			}
			for _, o := range res.Tunnels[1:] {
				if o.SetupFailed != "" {
					add("tunnel-not-served/while-other-tunnels-are-open", o.Plan.ConnID+": "+o.SetupFailed)
					break
				}
			}
		}
		for i, b := range res.World.Backends {
			if !b.GwSide.IsClosed() {
				add("backend-connection-left-open", fmt.Sprintf("backend %d (%s) was dialled and never closed by the gateway", i, b.Addr))
			}
		}
		for _, h := range res.World.Handlers {
			if h.RW.Hijacked && !h.Srv.IsClosed() {
				which := strings.SplitN(h.Name, "-", 2)[0]
				add("client-connection-left-open:"+which, "the gateway never closed its side of "+h.Name)
			}
		}
		for _, b := range res.X.Blocked {
			if b.Daemon || b.Name == "main" {
				continue
			}
			name := b.Name
			if i := strings.Index(name, ":"); i > 0 && strings.HasPrefix(name, "handler:") {
				name = "handler:" + strings.SplitN(name[i+1:], "-", 2)[0]
			}
			add("goroutine-left:"+name, fmt.Sprintf("thread %s still blocked on %q at quiescence", b.Name, b.Desc))
		}
		if res.Registry != 0 {
			add("registry-entry-left", fmt.Sprintf("%d tunnels still registered", res.Registry))
		}
		if res.GaugeWS != 0 {
			add("websocket-gauge-not-restored", fmt.Sprintf("delta %v", res.GaugeWS))
		}
		if res.GaugeLeg != 0 {
			add("legacy-gauge-not-restored", fmt.Sprintf("delta %v", res.GaugeLeg))
		}
		for _, p := range res.X.Panics() {
			add("panic:"+shortFn(panicSite(p)), p.Value)
		}
		if len(v) == 0 {
			out.WriteString("released ")
		}
		fmt.Fprintf(&out, "[%s]", strings.Join(t.Resps, ","))
		return out.String(), v
	}
}

func c11(env *Env, rep *Report) {
	scs := c11Scenarios()
	rep.Rule = fmt.Sprintf("%d scenarios = transports {ws, legacy} x end points {transport open, after handshake, tunnel-create, tunnel-auth, channel-create, with client data / host data / both in flight} x causes {CLOSE_CHANNEL, out-of-order packet, unframeable bytes, client drops the websocket / both legacy connections / only IN / only OUT}; "+
		"every schedule of client, real handler(s), relay goroutine and backend up to the preemption bound; oracle at quiescence (no thread can move): backend connection closed by the gateway, every hijacked client connection closed by the gateway, no gateway goroutine left, registry empty, gauges restored. Plus 16 and 64 tunnels that stay open while one more tunnel ends (in the middle of its channel request, or with its channel open; lockstep schedule only): what the gateway held for the ended tunnel is released while the others live. Plus, on the real binary after a real OpenID login: the process's descriptor count after nine tunnels (ended by close, drop, protocol error) is back at the level after two warm-up tunnels. distinct_nontrivial = distinct per-schedule observations.", len(scs))
	rep.Assumptions = append(rep.Assumptions,
		"'within a bounded time' is evaluated at quiescence: the state in which no thread of the closed system can take a step; the gateway sets no timers on tunnel connections, so nothing further can happen after it",
		"connections are unbounded in-memory pipes (no write ever blocks)")
	bound := 1
	if env.thorough() {
		bound = 3
	}
	rep.Bounds = map[string]any{"preemption_bound": bound, "scenarios": len(scs)}
	if env.Replay != nil {
		name, _ := env.Replay["scenario"].(string)
		for _, sc := range scs {
			if sc.Name == name {
				replayConc(rep, sc, env.Replay, nil, c11Check(sc))
			}
		}
		return
	}
	if gwBin() != "" && env.Shard == 0 && env.Part == "" {
		bindLeaks(rep, "C11")
	}
	for i, sc := range scs {
		if env.Part != "" && !strings.Contains(sc.Name, env.Part) {
			continue
		}
		// scenarios are small: distribute whole scenarios over the shards
		if !env.mine(i) {
			continue
		}
		e2 := *env
		e2.Shard, e2.NShards = 0, 1
		b := bound
		if strings.HasPrefix(sc.Name, "many/") {
			b = 0
		}
		exploreConc(&e2, rep, sc, b, nil, c11Check(sc))
	}
}
