package main

import (
	"verif/shim/vsched"
	"net/http"
	"context"
	"crypto"
	"crypto/hmac"
	"crypto/rand"
	"crypto/rsa"
	"crypto/sha256"
	"crypto/sha512"
	"encoding/base64"
	"encoding/json"
	"fmt"
	"hash"
	"strings"
	"time"
	"verif/shim/vclock"

	"github.com/bolkedebruin/rdpgw/cmd/rdpgw/identity"
	"github.com/bolkedebruin/rdpgw/cmd/rdpgw/protocol"
	"github.com/bolkedebruin/rdpgw/cmd/rdpgw/security"

	"verif/internal/tsgu"
)

// C02 — access cookies are accepted only if gateway-minted, unexpired and IdP-valid.

func init() { props["C02"] = c02 }

const c02Key = "0123456789abcdef0123456789abcdef"

var b64 = base64.RawURLEncoding

func jwsCompact(header, payload string, alg string, key []byte) string {
	si := b64.EncodeToString([]byte(header)) + "." + b64.EncodeToString([]byte(payload))
	var h func() hash.Hash
	switch alg {
	case "HS256":
		h = sha256.New
	case "HS384":
		h = sha512.New384
	case "HS512":
		h = sha512.New
	default:
		return si + "."
	}
	m := hmac.New(h, key)
	m.Write([]byte(si))
	return si + "." + b64.EncodeToString(m.Sum(nil))
}

type c02Case struct {
	Name   string
	Class  string
	Cookie string
	IdP    string // honour | unknown | revoked | error500 | transport
	Expect string // accept | refuse | unspecified
}

// c02Classify is the reference: must-refuse / must-accept / unspecified for an arbitrary string.
func c02Classify(cookie string, idpMode string, key []byte, now time.Time) (string, string) {
	segs := strings.Split(cookie, ".")
	if len(segs) != 3 {
		return "refuse", "not three segments"
	}
	hb, err := b64.DecodeString(segs[0])
	if err != nil {
		return "refuse", "header not base64url"
	}
	var hdr map[string]any
	if json.Unmarshal(hb, &hdr) != nil {
		return "refuse", "header not JSON"
	}
	if alg, _ := hdr["alg"].(string); alg != "HS256" {
		return "refuse", "alg is not HS256"
	}
	sig, err := b64.DecodeString(segs[2])
	if err != nil {
		return "refuse", "signature not base64url"
	}
	m := hmac.New(sha256.New, key)
	m.Write([]byte(segs[0] + "." + segs[1]))
	if !hmac.Equal(m.Sum(nil), sig) {
		return "refuse", "MAC does not verify under the configured key"
	}
	pb, err := b64.DecodeString(segs[1])
	if err != nil {
		return "refuse", "payload not base64url"
	}
	var cl map[string]any
	if json.Unmarshal(pb, &cl) != nil {
		return "refuse", "payload not JSON"
	}
	if iss, _ := cl["iss"].(string); iss != "rdpgw" {
		return "refuse", "issuer is not rdpgw"
	}
	expired := false
	if e, ok := cl["exp"].(float64); ok {
		if time.Unix(int64(e), 0).Before(now.Add(-65 * time.Second)) {
			return "refuse", "expired beyond the leeway"
		}
		if time.Unix(int64(e), 0).Before(now.Add(5 * time.Second)) {
			expired = true // inside or near the leeway window: either answer is allowed
		}
	} else {
		expired = true // no exp: only a key holder can make it; unspecified
	}
	at, _ := cl["accessToken"].(string)
	if idpMode != "honour" || !strings.HasPrefix(at, "at-") {
		return "refuse", "identity provider does not honour the access token"
	}
	if expired || cl["nbf"] != nil || cl["iat"] != nil || len(hdr) > 1 && hdr["typ"] == nil || hdr["jwk"] != nil || hdr["crit"] != nil || hdr["b64"] != nil {
		return "unspecified", ""
	}
	if _, ok := cl["remoteServer"].(string); !ok {
		return "unspecified", ""
	}
	return "accept", ""
}

func c02Ctx() (context.Context, *protocol.Tunnel) {
	id := NewIdentity("", "10.0.0.1", "10.0.0.1:50000")
	id.SetAttribute(identity.AttrAccessToken, "at-alice")
	t := protocol.NewVerifTunnel(nil, nil, id, "10.0.0.1:50000")
	ctx := context.WithValue(context.Background(), protocol.CtxTunnel, t)
	ctx = context.WithValue(ctx, identity.CTXKey, id)
	return ctx, t
}

func c02Cases(env *Env, rep *Report) []c02Case {
	security.SigningKey = []byte(c02Key)
	ctx, _ := c02Ctx()
	t0 := vclock.Now()
	valid, err := security.GeneratePAAToken(ctx, "alice", hostA+":3389")
	if err != nil {
		infra("GeneratePAAToken: %v", err)
	}
	var out []c02Case
	add := func(class, name, cookie string, idp string) {
		out = append(out, c02Case{Name: name, Class: class, Cookie: cookie, IdP: idp})
	}
	add("valid", "minted", valid, "honour")
	for _, m := range []string{"unknown", "revoked", "error500", "transport", "slow-unknown"} {
		add("idp", "minted/idp="+m, valid, m)
	}
	// minted lifetime
	segs := strings.Split(valid, ".")
	pb, _ := b64.DecodeString(segs[1])
	var cl map[string]any
	json.Unmarshal(pb, &cl)
	if e, ok := cl["exp"].(float64); !ok || time.Unix(int64(e), 0).After(t0.Add(301*time.Second)) {
		rep.violate("C02/minted-token-lives-longer-than-five-minutes", fmt.Sprintf("exp=%v minted at %v", cl["exp"], t0.Unix()), map[string]any{"noreplay": true})
	}
	// ... whatever the identity says about the lifetime of the login or of the IdP's access token
	for _, d := range []time.Duration{-time.Hour, time.Minute, 299 * time.Second, 301 * time.Second, time.Hour, 24 * 365 * time.Hour} {
		ctx2, _ := c02Ctx()
		id2 := identity.FromCtx(ctx2)
		id2.SetExpiry(t0.Add(d))
		id2.SetAuthTime(t0.Add(-d))
		tok, err := security.GeneratePAAToken(ctx2, "alice", hostA+":3389")
		rep.add("executions", 1)
		if err != nil {
			continue
		}
		var cl2 map[string]any
		if sg := strings.Split(tok, "."); len(sg) == 3 {
			b, _ := b64.DecodeString(sg[1])
			json.Unmarshal(b, &cl2)
		}
		if e, ok := cl2["exp"].(float64); !ok || time.Unix(int64(e), 0).After(t0.Add(301*time.Second)) {
			rep.violate("C02/minted-token-lives-longer-than-five-minutes", fmt.Sprintf("identity expiry %v from now: exp=%v minted at %v", d, cl2["exp"], t0.Unix()), map[string]any{"noreplay": true})
		}
	}
	// (1) single-character substitutions
	alphabet := "ABCDEFGHIJKLMNOPQRSTUVWXYZabcdefghijklmnopqrstuvwxyz0123456789-_.= "
	for i := 0; i < len(valid); i++ {
		for _, c := range alphabet {
			if byte(c) == valid[i] {
				continue
			}
			add("char-substitution", fmt.Sprintf("pos=%d/char=%q", i, c), valid[:i]+string(c)+valid[i+1:], "honour")
		}
	}
	// (1b) a character replaced by one outside ASCII whose UTF-16 code unit has the same low byte (U+01xx, U+04xx,
	// U+FFxx): a decoder that looks at low bytes only turns these back into the valid token. They differ from
	// it only on the wire, so all of them go through the packet decoder.
	for i := 0; i < len(valid); i++ {
		for _, hi := range []rune{0x0100, 0x0400, 0xFF00} {
			if hi != 0x0100 && i%5 != 0 {
				continue
			}
			c := hi + rune(valid[i])
			add("wide-char-substitution", fmt.Sprintf("pos=%d/char=U+%04X", i, c), valid[:i]+string(c)+valid[i+1:], "honour")
		}
	}
	// (2) single-bit flips of the decoded segments
	for si := 0; si < 3; si++ {
		raw, _ := b64.DecodeString(segs[si])
		for i := range raw {
			for bit := 0; bit < 8; bit++ {
				m := append([]byte{}, raw...)
				m[i] ^= 1 << uint(bit)
				s2 := append([]string{}, segs...)
				s2[si] = b64.EncodeToString(m)
				add("bit-flip", fmt.Sprintf("segment=%d/byte=%d/bit=%d", si, i, bit), strings.Join(s2, "."), "honour")
			}
		}
	}
	// (3) truncations, (4) shapes
	for l := 0; l < len(valid); l++ {
		add("truncation", fmt.Sprintf("len=%d", l), valid[:l], "honour")
	}
	for n := 0; n <= 6; n++ {
		add("segments", fmt.Sprintf("count=%d", n), strings.TrimSuffix(strings.Repeat(segs[0]+".", n), "."), "honour")
	}
	for _, s := range []string{".", "..", "...", "a.b.c", "e30.e30.", "e30.e30.e30", strings.Repeat("A", 65536), valid + ".", "." + valid, valid + valid, " " + valid, valid + " ", valid + "\x00", strings.ToUpper(valid)} {
		add("shape", fmt.Sprintf("%.20q/len=%d", s, len(s)), s, "honour")
	}
	// (5) re-signing
	hdrHS := `{"alg":"HS256","typ":"JWT"}`
	origHdr, _ := b64.DecodeString(segs[0])
	payload := string(pb)
	key := []byte(c02Key)
	add("resign", "same-header-same-key", jwsCompact(string(origHdr), payload, "HS256", key), "honour")
	add("resign", "alg-none-unsecured", jwsCompact(`{"alg":"none"}`, payload, "none", nil), "honour")
	add("resign", "alg-none-with-mac", b64.EncodeToString([]byte(`{"alg":"none"}`))+"."+segs[1]+"."+segs[2], "honour")
	add("resign", "alg-None-case", jwsCompact(`{"alg":"None"}`, payload, "none", nil), "honour")
	add("resign", "HS384-same-key", jwsCompact(`{"alg":"HS384"}`, payload, "HS384", key), "honour")
	add("resign", "HS512-same-key", jwsCompact(`{"alg":"HS512"}`, payload, "HS512", key), "honour")
	add("resign", "HS256-header-HS384-mac", jwsCompact(`{"alg":"HS256"}`, payload, "HS384", key), "honour")
	for name, k := range map[string][]byte{"empty-key": {}, "key-minus-one": key[:31], "key-plus-one": append(append([]byte{}, key...), 'x'), "other-key": []byte("ffffffffffffffffffffffffffffffff"), "key-upper": []byte(strings.ToUpper(c02Key))} {
		add("resign", "HS256-"+name, jwsCompact(hdrHS, payload, "HS256", k), "honour")
	}
	rk, _ := rsa.GenerateKey(rand.Reader, 2048)
	si := b64.EncodeToString([]byte(`{"alg":"RS256"}`)) + "." + segs[1]
	hh := sha256.Sum256([]byte(si))
	rs, _ := rsa.SignPKCS1v15(rand.Reader, rk, crypto.SHA256, hh[:])
	add("resign", "RS256-fresh-key", si+"."+b64.EncodeToString(rs), "honour")
	atk := []byte("attackerattackerattackerattacker")
	jwkHdr := `{"alg":"HS256","jwk":{"kty":"oct","k":"` + b64.EncodeToString(atk) + `"}}`
	add("resign", "embedded-jwk-attacker-key", jwsCompact(jwkHdr, payload, "HS256", atk), "honour")
	add("resign", "embedded-jwk-right-key", jwsCompact(jwkHdr, payload, "HS256", key), "honour")
	add("resign", "crit-header-right-key", jwsCompact(`{"alg":"HS256","crit":["exp"],"exp":1}`, payload, "HS256", key), "honour")
	add("resign", "b64-false-right-key", jwsCompact(`{"alg":"HS256","b64":false,"crit":["b64"]}`, payload, "HS256", key), "honour")
	// (6) claims signed with the right key
	now := vclock.Now()
	times := map[string]any{"absent": nil, "now-1h": now.Add(-time.Hour).Unix(), "now-70s": now.Add(-70 * time.Second).Unix(), "now-50s": now.Add(-50 * time.Second).Unix(),
		"now": now.Unix(), "now+50s": now.Add(50 * time.Second).Unix(), "now+70s": now.Add(70 * time.Second).Unix(), "now+1h": now.Add(time.Hour).Unix()}
	mk := func(iss any, exp, nbf, iat any, at string) string {
		c := map[string]any{"sub": "alice", "remoteServer": hostA + ":3389", "clientIp": "10.0.0.1", "accessToken": at}
		if iss != nil {
			c["iss"] = iss
		}
		if exp != nil {
			c["exp"] = exp
		}
		if nbf != nil {
			c["nbf"] = nbf
		}
		if iat != nil {
			c["iat"] = iat
		}
		b, _ := json.Marshal(c)
		return jwsCompact(hdrHS, string(b), "HS256", key)
	}
	for _, iss := range []any{"rdpgw", "", "RDPGW", "rdpgw ", "other", nil, 5, []string{"rdpgw"}} {
		add("claims", fmt.Sprintf("iss=%v", iss), mk(iss, now.Add(4*time.Minute).Unix(), nil, nil, "at-alice"), "honour")
	}
	for en, ev := range times {
		for nn, nv := range times {
			add("claims", fmt.Sprintf("exp=%s/nbf=%s", en, nn), mk("rdpgw", ev, nv, nil, "at-alice"), "honour")
		}
		for in, iv := range times {
			add("claims", fmt.Sprintf("exp=%s/iat=%s", en, in), mk("rdpgw", ev, nil, iv, "at-alice"), "honour")
		}
	}
	add("claims", "exp-string", mk("rdpgw", "tomorrow", nil, nil, "at-alice"), "honour")
	add("claims", "exp-huge", mk("rdpgw", 1e18, nil, nil, "at-alice"), "honour")
	add("claims", "access-token-unknown-to-idp", mk("rdpgw", now.Add(4*time.Minute).Unix(), nil, nil, "bogus"), "honour")
	add("claims", "access-token-empty", mk("rdpgw", now.Add(4*time.Minute).Unix(), nil, nil, ""), "honour")
	for _, m := range []string{"unknown", "revoked", "error500", "transport"} {
		add("idp", "fresh-right-key/idp="+m, mk("rdpgw", now.Add(4*time.Minute).Unix(), nil, nil, "at-alice"), m)
	}
	// (7) JSON serialisations and nesting
	add("serialisation", "json-flattened", fmt.Sprintf(`{"protected":%q,"payload":%q,"signature":%q}`, segs[0], segs[1], segs[2]), "honour")
	add("serialisation", "json-general", fmt.Sprintf(`{"payload":%q,"signatures":[{"protected":%q,"signature":%q}]}`, segs[1], segs[0], segs[2]), "honour")
	add("serialisation", "nested-jws", jwsCompact(`{"alg":"HS256","cty":"JWT"}`, valid, "HS256", []byte("ffffffffffffffffffffffffffffffff")), "honour")
	add("serialisation", "nested-jws-right-key", jwsCompact(`{"alg":"HS256","cty":"JWT"}`, valid, "HS256", key), "honour")
	for i := range out {
		out[i].Expect, _ = c02Classify(out[i].Cookie, out[i].IdP, key, now)
	}
	return out
}

// c02Direct presents a cookie to security.CheckPAACookie.
func c02Direct(c c02Case) (accepted bool, pan string) {
	idp := InstallIdP()
	idp.Mode = c.IdP
	if c.IdP == "slow-unknown" {
		defer vclock.Reset()
	}
	if c.IdP == "revoked" {
		idp.Mode = "honour"
		idp.Revoked["at-alice"] = true
	}
	ctx, _ := c02Ctx()
	defer func() {
		if r := recover(); r != nil {
			pan = fmt.Sprint(r)
		}
	}()
	ok, _ := security.CheckPAACookie(ctx, c.Cookie)
	return ok, ""
}

// c02Proc presents the cookie in a TUNNEL_CREATE packet to the real Processor wired as main.go does.
func c02Proc(c c02Case, rep *Report) (status uint32, answered bool, ended bool, pan string, nextAnswered bool) {
	idp := InstallIdP()
	idp.Mode = c.IdP
	if c.IdP == "slow-unknown" {
		defer vclock.Reset()
	}
	if c.IdP == "revoked" {
		idp.Mode = "honour"
		idp.Revoked["at-alice"] = true
	}
	g := GwCfg{TokenAuth: true, HostSelection: "roundrobin", Hosts: []string{hostA + ":3389"}, VerifyIP: true}
	cfg := SeqCfg{Gw: g, Kind: "proc", User: "", ClientIP: "10.0.0.1", RemoteAddr: "10.0.0.1:50000", Accept: func(string) bool { return true }}
	res := RunSeq(cfg, []Seg{{Bytes: tsgu.Handshake(1, 0, 0, tsgu.ExtAuthPAA)}, {Bytes: tsgu.TunnelCreate(c.Cookie, true)}, {Bytes: tsgu.TunnelAuth("pc")}})
	rep.add("executions", 1)
	rep.add("transitions", int64(res.StepsRun))
	if len(res.Panics) > 0 {
		return 0, false, false, res.Panics[0].Value, false
	}
	if len(res.Steps) < 3 {
		return 0, false, true, "", false
	}
	s := res.Steps[1]
	if len(s.Resps) == 1 && s.Resps[0].Type == tsgu.TypeTunnelResp {
		r := tsgu.ParseResp(s.Resps[0])
		return r.Status, true, s.Ended, "", len(res.Steps[2].Resps) > 0
	}
	return 0, false, s.Ended, "", len(res.Steps[2].Resps) > 0
}

func c02(env *Env, rep *Report) {
	rep.Rule = "from a token minted by the real GeneratePAAToken in this run: every single-character substitution at every position with each of 67 characters, and with the characters U+01xx / U+04xx / U+FFxx that share its low byte (through the packet decoder); every single-bit flip of the decoded header, payload and signature; every truncation; segment counts 0..6 and arbitrary strings; re-signing (alg none unsecured / with MAC, HS384, HS512, HS256 under 5 other keys, RS256, embedded JWK, crit / b64 headers); claims signed with the right key (8 issuers, exp x nbf and exp x iat over {absent, now-1h, now-70s, now-50s, now, now+50s, now+70s, now+1h}, odd exp types, unknown / empty access token); JSON flattened / general serialisation and nested JWS; x identity-provider behaviours {honours, unknown, revoked, 500, transport error, answers 'unknown' only after every time-out of the caller has fired}. " +
		"Every string goes to security.CheckPAACookie; every string of the non-mutation classes and every 7th mutation (thorough: all) additionally travels UTF-16 encoded in a TUNNEL_CREATE packet through the real Processor wired as main.go does. Plus smart-card authentication enabled next to token authentication with handshakes offering smart card only / both / cookie only x 5 cookie cases x 3 transports. Plus, after another connection was accepted with the minted cookie, TUNNEL_CREATE packets that announce a cookie of that length (half, +-2, double) and carry none or only a prefix of its bytes (3 transports). Plus histories in one process: the same minted cookie presented repeatedly while the IdP changes between honouring, revoking, failing and recovering (7 sequences, checker and Processor): every presentation must follow the IdP's verdict at that moment. Oracle (three-valued, computed with crypto/hmac over the raw text): must-refuse strings must be refused (at the Processor: status E_PROXY_COOKIE_AUTHENTICATION_ACCESS_DENIED, tunnel ended, next packet unanswered), the minted token must be accepted, the rest is unspecified. distinct_nontrivial = distinct cookie strings x IdP behaviours."
	rep.Assumptions = append(rep.Assumptions, "expiry boundary cases keep 10 s distance from the 60 s leeway (no sub-second wall-clock oracle)", "a signature segment that base64-decodes to the same 32 bytes is the same signature (classified by decoded value)",
		"identity provider is a scripted http.RoundTripper behind the real go-oidc provider object")
	InstallIdP()
	cases := c02Cases(env, rep)
	if env.Replay != nil {
		ck, _ := env.Replay["cookie"].(string)
		idp, _ := env.Replay["idp"].(string)
		c := c02Case{Cookie: ck, IdP: idp}
		c.Expect, _ = c02Classify(ck, idp, []byte(c02Key), vclock.Now())
		ok, pan := c02Direct(c)
		st, ans, ended, pan2, next := c02Proc(c, rep)
		fmt.Printf("expect=%s direct accepted=%v panic=%q; processor status=%#x answered=%v ended=%v next-answered=%v panic=%q\n", c.Expect, ok, pan, st, ans, ended, next, pan2)
		cl, _ := env.Replay["class"].(string)
		if c.Expect == "refuse" && ok {
			rep.violate("C02/must-refuse-cookie-accepted/"+cl, "replay", env.Replay)
		}
		if c.Expect == "refuse" && ans && st == 0 {
			rep.violate("C02/must-refuse-cookie-accepted-by-processor/"+cl, "replay", env.Replay)
		}
		if c.Expect == "accept" && !ok {
			rep.violate("C02/valid-cookie-refused/"+cl, "replay", env.Replay)
		}
		return
	}
	distinct := 0
	counts := map[string]int{}
	for i, c := range cases {
		if !env.mine(i) {
			continue
		}
		distinct++
		counts[c.Expect]++
		rp := map[string]any{"engine": "enum", "cookie": c.Cookie, "idp": c.IdP, "class": c.Class}
		if len(c.Cookie) > 5000 {
			rp = map[string]any{"noreplay": true}
		}
		rep.add("executions", 1)
		ok, pan := c02Direct(c)
		rep.outcome(fmt.Sprintf("%s expect=%s accepted=%v", c.Class, c.Expect, ok))
		_, why := c02Classify(c.Cookie, c.IdP, []byte(c02Key), vclock.Now())
		if pan != "" {
			rep.violate("C02/panic/"+c.Class, fmt.Sprintf("%s %s: %s", c.Class, c.Name, pan), rp)
		}
		if c.Expect == "refuse" && ok {
			rep.violate("C02/must-refuse-cookie-accepted/"+c.Class, fmt.Sprintf("%s %s (idp=%s) accepted although %s", c.Class, c.Name, c.IdP, why), rp)
		}
		if c.Expect == "accept" && !ok {
			rep.violate("C02/valid-cookie-refused/"+c.Class, fmt.Sprintf("%s %s refused", c.Class, c.Name), rp)
		}
		through := c.Class != "char-substitution" && c.Class != "bit-flip" && c.Class != "truncation" || i%7 == 0 || env.thorough()
		if through && len(c.Cookie) < 30000 {
			st, ans, ended, pan2, next := c02Proc(c, rep)
			if pan2 != "" {
				rep.violate("C02/panic-in-processor/"+c.Class, fmt.Sprintf("%s %s: %s", c.Class, c.Name, pan2), rp)
			}
			switch c.Expect {
			case "refuse":
				if ans && st == 0 {
					rep.violate("C02/must-refuse-cookie-accepted-by-processor/"+c.Class, fmt.Sprintf("%s %s", c.Class, c.Name), rp)
				} else if !ans || st != tsgu.ECookieAuthDenied {
					rep.violate("C02/refusal-without-cookie-denied-status/"+c.Class, fmt.Sprintf("%s %s: answered=%v status=%#x", c.Class, c.Name, ans, st), rp)
				} else if !ended || next {
					rep.violate("C02/tunnel-continues-after-refused-cookie/"+c.Class, fmt.Sprintf("%s %s: ended=%v next-answered=%v", c.Class, c.Name, ended, next), rp)
				}
			case "accept":
				if !ans || st != 0 || !next {
					rep.violate("C02/valid-cookie-refused-by-processor/"+c.Class, fmt.Sprintf("%s %s: answered=%v status=%#x", c.Class, c.Name, ans, st), rp)
				}
			}
			if (ok && (!ans || st != 0)) || (!ok && ans && st == 0) {
				rep.violate("C02/processor-and-checker-disagree/"+c.Class, fmt.Sprintf("%s %s: checker=%v processor status=%#x", c.Class, c.Name, ok, st), rp)
			}
		}
		if distinct%2500 == 1 {
			show := c.Cookie
			if len(show) > 120 {
				show = show[:120] + "…"
			}
			rep.sample(map[string]any{"class": c.Class, "name": c.Name, "idp": c.IdP, "expected": c.Expect, "accepted": ok, "cookie": show})
		}
	}
	// histories: the same cookie presented again after the identity provider changed its mind
	if env.Shard == 0 {
		valid := cases[0].Cookie
		for _, seq := range [][]string{{"honour", "revoked"}, {"honour", "error500"}, {"honour", "transport"}, {"honour", "unknown"}, {"honour", "honour", "revoked", "honour"}, {"revoked", "honour"}, {"transport", "honour", "transport"}} {
			for _, via := range []string{"checker", "processor"} {
				distinct++
				var got []bool
				for _, m := range seq {
					c := c02Case{Cookie: valid, IdP: m}
					if via == "checker" {
						ok, _ := c02Direct(c)
						rep.add("executions", 1)
						got = append(got, ok)
					} else {
						st, ans, _, _, _ := c02Proc(c, rep)
						got = append(got, ans && st == 0)
					}
				}
				for i, m := range seq {
					if got[i] != (m == "honour") {
						rep.violate("C02/identity-provider-verdict-not-followed-on-repeated-presentation/"+via, fmt.Sprintf("same minted cookie presented under IdP behaviours %v: accepted=%v", seq, got), map[string]any{"noreplay": true})
						break
					}
				}
				rep.outcome(fmt.Sprintf("history %v via %s -> %v", seq, via, got))
			}
		}
	}
	// the clock moves on (the security package's time.Now follows the harness clock)
	if env.Shard == 0 {
		vclock.Reset()
		ctx, _ := c02Ctx()
		t0, _ := security.GeneratePAAToken(ctx, "alice", hostA+":3389")
		acc := func(tok string) bool { ok, _ := c02Direct(c02Case{Cookie: tok, IdP: "honour"}); return ok }
		var got []bool
		got = append(got, acc(t0))
		vclock.Advance(4 * time.Minute)
		got = append(got, acc(t0))
		vclock.Advance(3 * time.Minute)
		got = append(got, acc(t0))
		t1, _ := security.GeneratePAAToken(ctx, "alice", hostA+":3389")
		got = append(got, acc(t1))
		vclock.Advance(20 * time.Minute)
		got = append(got, acc(t1), acc(t0))
		vclock.Reset()
		distinct++
		rep.add("executions", 6)
		rep.outcome(fmt.Sprintf("clock history -> %v", got))
		if fmt.Sprint(got) != "[true true false true false false]" {
			rep.violate("C02/expiry-not-judged-against-the-current-time", fmt.Sprintf("cookie minted at t0 checked at t0, t0+4m, t0+7m, cookie minted at t0+7m checked then, both at t0+27m: accepted=%v, want [true true false true false false]", got), map[string]any{"noreplay": true})
		}
	}
	// ... also when the client connected (and shook hands) while its cookie was still good and asks for the tunnel
	// later: what counts is the time of the tunnel request
	if env.Shard == 0 {
		for _, kind := range []string{"proc", "ws", "legacy"} {
			for _, wait := range []string{"", "clock+3m", "clock+7m", "clock+30m"} {
				vclock.Reset()
				idp := InstallIdP()
				idp.Mode = "honour"
				ctx, _ := c02Ctx()
				tok, _ := security.GeneratePAAToken(ctx, "alice", hostA+":3389")
				g := GwCfg{TokenAuth: true, HostSelection: "roundrobin", Hosts: []string{hostA + ":3389"}, VerifyIP: true}
				cfg := SeqCfg{Gw: g, Kind: kind, User: "", ClientIP: "10.0.0.1", RemoteAddr: "10.0.0.1:50000", Accept: func(string) bool { return true }}
				segs := []Seg{{Bytes: tsgu.Handshake(1, 0, 0, tsgu.ExtAuthPAA)}}
				if wait != "" {
					segs = append(segs, Seg{Action: wait})
				}
				segs = append(segs, Seg{Bytes: tsgu.TunnelCreate(tok, true)})
				res := RunSeq(cfg, segs)
				vclock.Reset()
				distinct++
				rep.add("executions", 1)
				rep.add("transitions", int64(res.StepsRun))
				if len(res.Panics) > 0 || len(res.Steps) != len(segs) {
					continue
				}
				st := uint32(0xFFFFFFFF)
				if last := res.Steps[len(segs)-1]; len(last.Resps) == 1 {
					st = tsgu.ParseResp(last.Resps[0]).Status
				}
				wantOK := wait == "" || wait == "clock+3m"
				rep.outcome(fmt.Sprintf("connected-then-%s %s status=%#x", wait, kind, st))
				if wantOK && st != 0 {
					rep.violate("C02/valid-cookie-refused-by-processor/connected-earlier", fmt.Sprintf("transport %s, tunnel request %q after the handshake: status %#x", kind, wait, st), map[string]any{"noreplay": true})
				}
				if !wantOK && st == 0 {
					rep.violate("C02/expired-cookie-accepted/connected-while-it-was-valid", fmt.Sprintf("transport %s: the client connected and shook hands when the cookie was fresh, the tunnel request came %s later (lifetime 5 minutes, leeway 1 minute) and was answered with success", kind, wait[6:]), map[string]any{"noreplay": true})
				}
			}
		}
	}
	// smart-card authentication enabled next to token authentication, and a client whose handshake offers
	// smart card only, both, or cookie only: a tunnel is still created only with an accepted cookie
	if env.Shard == 0 {
		vclock.Reset()
		idp := InstallIdP()
		idp.Mode = "honour"
		ctx, _ := c02Ctx()
		valid, _ := security.GeneratePAAToken(ctx, "alice", hostA+":3389")
		other := jwsCompact(`{"alg":"HS256","typ":"JWT"}`, `{"iss":"rdpgw","sub":"alice","exp":99999999999,"remoteServer":"x","clientIp":"10.0.0.1","accessToken":"at-alice"}`, "HS256", []byte("ffffffffffffffffffffffffffffffff"))
		type ck struct {
			name   string
			pkt    []byte
			accept bool
		}
		cks := []ck{{"minted", tsgu.TunnelCreate(valid, true), true}, {"no-cookie-field", tsgu.TunnelCreate("", false), false}, {"empty-cookie", tsgu.TunnelCreate("", true), false},
			{"garbage", tsgu.TunnelCreate("garbage", true), false}, {"signed-with-another-key", tsgu.TunnelCreate(other, true), false}}
		for _, ext := range []uint16{tsgu.ExtAuthSC, tsgu.ExtAuthSC | tsgu.ExtAuthPAA, tsgu.ExtAuthPAA} {
			for _, kind := range []string{"proc", "ws", "legacy"} {
				for _, c := range cks {
					g := GwCfg{TokenAuth: true, SmartCard: true, HostSelection: "roundrobin", Hosts: []string{hostA + ":3389"}, VerifyIP: true}
					cfg := SeqCfg{Gw: g, Kind: kind, User: "", ClientIP: "10.0.0.1", RemoteAddr: "10.0.0.1:50000", Accept: func(string) bool { return true }}
					res := RunSeq(cfg, []Seg{{Bytes: tsgu.Handshake(1, 0, 0, ext)}, {Bytes: c.pkt}, {Bytes: tsgu.TunnelAuth("pc")}})
					distinct++
					rep.add("executions", 1)
					rep.add("transitions", int64(res.StepsRun))
					if len(res.Panics) > 0 || len(res.Steps) < 2 {
						continue
					}
					st := uint32(0xFFFFFFFF)
					if len(res.Steps[1].Resps) == 1 {
						st = tsgu.ParseResp(res.Steps[1].Resps[0]).Status
					}
					rep.outcome(fmt.Sprintf("smartcard+token ext=%#x cookie=%s status=%#x", ext, c.name, st))
					if !c.accept && st == 0 {
						rep.violate("C02/must-refuse-cookie-accepted-by-processor/smart-card-and-token-authentication/"+c.name, fmt.Sprintf("smart-card and token authentication both enabled, handshake offers %#x, transport %s: TUNNEL_CREATE with %s answered with success", ext, kind, c.name), map[string]any{"noreplay": true})
					}
					if c.accept && st != 0 {
						rep.violate("C02/valid-cookie-refused-by-processor/smart-card-and-token-authentication", fmt.Sprintf("handshake offers %#x, transport %s: status %#x", ext, kind, st), map[string]any{"noreplay": true})
					}
				}
			}
		}
	}
	// non-initial state: after another connection presented the minted cookie and was accepted, a TUNNEL_CREATE
	// that announces a cookie of that length (or half, or one byte less) and carries none or only a prefix of its
	// bytes must be refused like any other cookie that is not the minted one
	if env.Shard == 0 {
		vclock.Reset()
		idp := InstallIdP()
		idp.Mode = "honour"
		ctx, _ := c02Ctx()
		valid, _ := security.GeneratePAAToken(ctx, "alice", hostA+":3389")
		vb := tsgu.UTF16Z(valid)
		type hv struct {
			name     string
			declared int
			carried  []byte
		}
		var hvs []hv
		for _, d := range []int{len(vb), len(vb) - 2, len(vb) / 2, len(vb) + 2, 2 * len(vb)} {
			for _, c := range []int{0, 2, len(vb) / 2, len(vb) - 20} { // never the whole cookie text (its last 2 bytes are only the terminator)
				if c < d && c <= len(vb) {
					hvs = append(hvs, hv{fmt.Sprintf("declared=%d/carried=%d", d, c), d, vb[:c]})
				}
			}
		}
		for _, kind := range []string{"proc-fresh", "ws", "legacy"} {
			for _, h := range hvs {
				g := GwCfg{TokenAuth: true, HostSelection: "roundrobin", Hosts: []string{hostA + ":3389"}, VerifyIP: true}
				cfg := SeqCfg{Gw: g, Kind: strings.TrimSuffix(kind, "-fresh"), User: "", ClientIP: "10.0.0.1", RemoteAddr: "10.0.0.1:50000", Accept: func(string) bool { return true }}
				if kind != "proc-fresh" {
					cfg.Prelude = func(w *World, hd http.Handler, gw *protocol.Gateway) {
						id := NewIdentity("", "10.0.0.1", "10.0.0.1:50000")
						c, ok := w.OpenTunnel("ws", hd, gw, "conn-0", "10.0.0.1:50000", id, nil)
						if !ok {
							return
						}
						for _, p := range [][]byte{tsgu.Handshake(1, 0, 0, tsgu.ExtAuthPAA), tsgu.TunnelCreate(valid, true)} {
							c.SendSegment(p)
							vsched.WaitIdle()
						}
					}
				}
				res := RunSeq(cfg, []Seg{{Bytes: tsgu.Handshake(1, 0, 0, tsgu.ExtAuthPAA)}, {Bytes: tsgu.TunnelCreateRaw(0x3f, 1, h.declared, h.carried, true)}, {Bytes: tsgu.TunnelAuth("pc")}})
				distinct++
				rep.add("executions", 1)
				rep.add("transitions", int64(res.StepsRun))
				if len(res.Panics) > 0 {
					rep.violate("C02/panic/hollow-cookie", res.Panics[0].Value, map[string]any{"noreplay": true})
					continue
				}
				if len(res.Steps) < 2 {
					continue
				}
				st := uint32(0xFFFFFFFF)
				if len(res.Steps[1].Resps) == 1 {
					st = tsgu.ParseResp(res.Steps[1].Resps[0]).Status
				}
				rep.outcome(fmt.Sprintf("hollow %s status=%#x", kind, st))
				if st == 0 {
					rep.violate("C02/must-refuse-cookie-accepted-by-processor/hollow-cookie/"+kind, fmt.Sprintf("%s: TUNNEL_CREATE announcing %d cookie bytes and carrying %d of the accepted cookie's bytes answered with success (the accepted cookie is %d bytes)", kind, h.declared, len(h.carried), len(vb)), map[string]any{"noreplay": true})
				}
			}
		}
	}
	for k, v := range counts {
		rep.add("expect_"+k, int64(v))
	}
	if gwBin() != "" && env.Shard == 0 {
		bindCore(rep, "C02")
	}
	rep.add("distinct", int64(distinct))
	rep.add("states", int64(distinct))
}
