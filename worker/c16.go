package main

import (
	"fmt"
	"strings"

	"github.com/bolkedebruin/rdpgw/cmd/rdpgw/protocol"

	"verif/internal/tsgu"
	"verif/shim/vsched"
)

// C16 — responses are well-formed MS-TSGU packets reporting true outcome and policy.

func init() { props["C16"] = c16 }

func refRedirect(f protocol.RedirectFlags) uint32 {
	if f.DisableAll {
		return 0x40000000
	}
	if f.EnableAll {
		return 0x80000000
	}
	var w uint32
	if !f.Drive {
		w |= 0x01
	}
	if !f.Printer {
		w |= 0x02
	}
	if !f.Port {
		w |= 0x04
	}
	if !f.Clipboard {
		w |= 0x08
	}
	if !f.Pnp {
		w |= 0x10
	}
	return w
}

func flagsOf(i int) protocol.RedirectFlags {
	return protocol.RedirectFlags{Clipboard: i&1 != 0, Port: i&2 != 0, Drive: i&4 != 0, Printer: i&8 != 0, Pnp: i&16 != 0, DisableAll: i&32 != 0, EnableAll: i&64 != 0}
}

var respTypeOf = map[string]uint16{"HS": tsgu.TypeHandshakeResp, "TC": tsgu.TypeTunnelResp, "TA": tsgu.TypeTunnelAuthResp, "CC": tsgu.TypeChannelResp, "CLOSE": tsgu.TypeCloseResp}

// c16Policy: one execution HS, TC, TA under the given policy; checks the tunnel-auth response.
func c16Policy(fi int, timeout int, kind string, rep *Report) (string, string) {
	return c16PolicyCaps(fi, timeout, kind, 0x3F, rep)
}

// c16PolicyCaps: the policy the gateway announces is its configuration, whatever capability word the
// client sent in its TUNNEL_CREATE.
func c16PolicyCaps(fi int, timeout int, kind string, caps uint32, rep *Report) (string, string) {
	cfg := c01Cfg(true, false, kind)
	cfg.Gw.Redirect = flagsOf(fi)
	cfg.Gw.IdleTimeout = timeout
	ck := tsgu.UTF16Z("ok|" + hostA + ":3389|10.0.0.1|alice")
	segs := []Seg{{Bytes: tsgu.Handshake(1, 0, 0, tsgu.ExtAuthPAA)}, {Bytes: tsgu.TunnelCreateRaw(caps, 1, len(ck), ck, true)}, {Bytes: tsgu.TunnelAuth("pc")}}
	res := RunSeq(cfg, segs)
	rep.add("executions", 1)
	rep.add("transitions", int64(res.StepsRun))
	if res.Abort != "" {
		infra("C16: aborted: %s", res.Abort)
	}
	if len(res.Panics) > 0 {
		return "panic", res.Panics[0].Value
	}
	if !res.Opened || len(res.Steps) != 3 || len(res.Steps[2].Resps) != 1 {
		return "tunnel-auth-not-answered", fmt.Sprint(res.Steps)
	}
	p := res.Steps[2].Resps[0]
	r := tsgu.ParseResp(p)
	if p.Type != tsgu.TypeTunnelAuthResp || !r.WellFormed {
		return "malformed-tunnel-auth-response", r.Why
	}
	if r.Status != 0 {
		return "tunnel-auth-refused", fmt.Sprintf("%#x", r.Status)
	}
	if r.Fields&1 == 0 || r.Fields&2 == 0 {
		return "policy-fields-missing", fmt.Sprintf("fields %#x", r.Fields)
	}
	if want := refRedirect(flagsOf(fi)); r.Redir != want {
		return "redirect-word-does-not-match-configuration", fmt.Sprintf("flags %+v: got %#x want %#x", flagsOf(fi), r.Redir, want)
	}
	wantT := uint32(0)
	if timeout > 0 {
		wantT = uint32(timeout)
	}
	if r.Timeout != wantT {
		return "idle-timeout-does-not-match-configuration", fmt.Sprintf("configured %d: got %d want %d", timeout, r.Timeout, wantT)
	}
	return "", ""
}

func c16(env *Env, rep *Report) {
	alpha := c01Alphabet()
	rep.Rule = "(a) policy: all 128 redirect-switch combinations x boundary idle timeouts {int32 min/max and neighbours, +-1, +-2^15, +-2^16, 0..3} plus every int16 value for 2 (quick) / 8 (thorough) switch combinations, each one execution HS,TC,TA on the real Processor; the tunnel-auth response must decode (independent decoder) to exactly the announced fields, redirect word and timeout == reference policy; a subset again over websocket and legacy. " +
		"(b) outcomes: for the 4 capability settings, every history 'canonical prefix of k=0..6 packets + any one of the 31 alphabet symbols': every packet the gateway sends must be well-formed (length == bytes sent, exactly the announced optional fields), its type must be the response type of the request it answers, its status 0 iff the reference accepts the step, and capability mismatch / cookie rejection / host-policy denial must carry their MS-TSGU codes. (c) schedules: a host that sends as soon as it is connected, every schedule up to preemption bound 2 on both transports: the first packet after each request is its response. distinct_nontrivial = distinct cases."
	rep.Assumptions = append(rep.Assumptions, "idle timeouts beyond the int32 range are outside the property", "table cookie checker; real host policy")
	if env.Replay != nil {
		rp := env.Replay
		if name, ok := rp["scenario"].(string); ok && strings.HasPrefix(name, "talkative-host-") {
			sc := c16OrderScenario(strings.TrimPrefix(name, "talkative-host-"))
			replayConc(rep, sc, rp, nil, c16OrderCheck(sc))
			return
		}
		g := func(k string) int { f, _ := rp[k].(float64); return int(f) }
		kind, _ := rp["kind"].(string)
		if _, ok := rp["flags"]; ok {
			caps := uint32(0x3F)
			if f, ok := rp["caps"].(float64); ok {
				caps = uint32(f)
			}
			v, d := c16PolicyCaps(g("flags"), g("timeout"), kind, caps, rep)
			fmt.Println("verdict:", v, d)
			if v != "" {
				sig := "C16/" + v
				if _, ok := rp["caps"]; ok {
					sig += "/client-capabilities"
				}
				rep.violate(sig, d, rp)
			}
		} else {
			b := func(k string) bool { v, _ := rp[k].(bool); return v }
			var hist []int
			hs, _ := rp["history"].([]any)
			for _, x := range hs {
				for i, s := range alpha {
					if s.Name == x {
						hist = append(hist, i)
					}
				}
			}
			for _, v := range c16Outcome(alpha, b("token"), b("sc"), kind, hist, rep) {
				fmt.Println("violation:", v)
				sig := "C16/" + v[0]
				if kind != "proc" {
					sig += "/" + kind
				}
				rep.violate(sig, v[1], rp)
			}
		}
		return
	}
	n, distinct := 0, 0
	pol := func(fi, timeout int, kind string) {
		n++
		if !env.mine(n) {
			return
		}
		distinct++
		v, d := c16Policy(fi, timeout, kind, rep)
		rep.outcome(fmt.Sprintf("policy flags=%d verdict=%s", fi, v))
		if v != "" {
			sig := "C16/" + v
			rep.violate(sig, fmt.Sprintf("flags=%+v timeout=%d transport=%s: %s", flagsOf(fi), timeout, kind, d), map[string]any{"engine": "enum", "flags": fi, "timeout": timeout, "kind": kind})
		}
		if distinct%20000 == 1 {
			rep.sample(map[string]any{"redirect_flags": fmt.Sprintf("%+v", flagsOf(fi)), "idle_timeout": timeout, "transport": kind, "expected_redirect_word": fmt.Sprintf("%#x", refRedirect(flagsOf(fi)))})
		}
	}
	bt := []int{-2147483648, -2147483647, -65537, -65536, -32769, -32768, -2, -1, 0, 1, 2, 3, 30, 32767, 32768, 65535, 65536, 2147483646, 2147483647}
	for fi := 0; fi < 128; fi++ {
		for _, t := range bt {
			pol(fi, t, "proc")
		}
		for _, t := range []int{-1, 0, 45} {
			pol(fi, t, "ws")
			pol(fi, t, "legacy")
		}
	}
	// the client's capability word does not change what is announced: every single bit, none, all, and the
	// combinations a Windows client sends
	capWords := []uint32{0, 0x3F, 0x7F, 0x18, 0x3D, 0xFFFFFFFF}
	for b := 0; b < 32; b++ {
		capWords = append(capWords, 1<<uint(b))
	}
	for _, cw := range capWords {
		for _, fi := range []int{0, 31, 127, 21} {
			for _, t := range []int{0, 30} {
				for _, kind := range []string{"proc", "ws", "legacy"} {
					n++
					if !env.mine(n) {
						continue
					}
					distinct++
					v, d := c16PolicyCaps(fi, t, kind, cw, rep)
					rep.outcome(fmt.Sprintf("policy caps flags=%d verdict=%s", fi, v))
					if v != "" {
						rep.violate("C16/"+v+"/client-capabilities", fmt.Sprintf("client capability word %#x flags=%+v timeout=%d transport=%s: %s", cw, flagsOf(fi), t, kind, d),
							map[string]any{"engine": "enum", "flags": fi, "timeout": t, "kind": kind, "caps": float64(cw)})
					}
				}
			}
		}
	}
	combos := []int{0, 31}
	if env.thorough() {
		combos = []int{0, 1, 10, 21, 31, 32, 64, 96}
	}
	for _, fi := range combos {
		for t := -32768; t <= 32767; t++ {
			pol(fi, t, "proc")
		}
	}
	// (b) outcomes
	for _, token := range []bool{true, false} {
		for _, sc := range []bool{false, true} {
			good := c01Good(alpha, token)
			if sc && !token {
				// smart card only: the canonical handshake must offer the smart-card bit
				for i, s := range alpha {
					if s.Name == "HSsc" {
						good[0] = i
					}
				}
			}
			for _, kind := range []string{"proc", "ws", "legacy"} {
				for k := 0; k <= len(good)-1; k++ {
					for si := range alpha {
						n++
						if !env.mine(n) {
							continue
						}
						distinct++
						h := append(append([]int{}, good[:k]...), si)
						for _, v := range c16Outcome(alpha, token, sc, kind, h, rep) {
							sig := "C16/" + v[0]
							if kind != "proc" {
								sig += "/" + kind
							}
							rep.violate(sig, fmt.Sprintf("token=%v sc=%v transport=%s history=%v: %s", token, sc, kind, histNames(alpha, h), v[1]),
								map[string]any{"engine": "seqx", "token": token, "sc": sc, "kind": kind, "history": histNames(alpha, h)})
						}
					}
				}
			}
		}
	}
	// (d) host writes of 1 / 100 / 4085 / 4086 / 4087 / 8172 / 8173 bytes on both transports: the data packets' announced bytes are at the client when the gateway is idle; (c) ordering under schedules: a host that talks as soon as it is connected must not get its data
	// to the client ahead of the channel response (the packet answering a request carries the response type)
	for _, kind := range []string{"ws", "legacy", "closing-ws", "closing-legacy"} {
		sc := c16OrderScenario(kind)
		ob := 2
		if env.thorough() {
			ob = 3
		}
		if sc.Deviation {
			ob++ // the closing scenarios need the host paused between two chunks and the two packet builders overlapped
		}
		exploreConc(env, rep, sc, ob, nil, c16OrderCheck(sc))
	}
	// (d) data packets to the client: what a packet's header announces is on the wire when the gateway has nothing
	// left to do (host writes of the relay's read size 4086, one less, one more, twice it; both transports)
	if env.Shard == 0 || env.NShards == 1 {
		for _, kind := range []string{"ws", "legacy"} {
			for _, n := range []int{1, 100, 4085, 4086, 4087, 8172, 8173} {
				distinct++
				cfg := c01Cfg(true, false, kind)
				segs := append(c06Setup(), Seg{HostSay: pattern(n, 7)})
				res := RunSeq(cfg, segs)
				rep.add("executions", 1)
				rep.add("transitions", int64(res.StepsRun))
				if len(res.Panics) > 0 || !res.Opened || len(res.Steps) != len(segs) {
					continue
				}
				var got []byte
				bad := ""
				for _, p := range res.Steps[len(segs)-1].Resps {
					r := tsgu.ParseResp(p)
					if !r.WellFormed {
						bad = r.Why
					}
					if p.Type == tsgu.TypeData {
						got = append(got, r.Payload...)
					}
				}
				rep.outcome(fmt.Sprintf("d host-write %s complete=%v", kind, len(got) == n))
				if bad != "" || len(got) != n {
					rep.violate("C16/data-packet-not-on-the-wire-as-announced/"+kind, fmt.Sprintf("the host wrote %d bytes; when the gateway had nothing left to do the client had received data packets carrying %d bytes (%s)", n, len(got), bad), map[string]any{"noreplay": true})
				}
			}
		}
	}
	// (e) the handshake response has its fixed layout for every client version byte pair with a byte at or above
	// 0x80, 0x7f, 0 (quick: 24 pairs; thorough: all 65536), on the three transports
	if env.Shard == 0 || env.NShards == 1 {
		vals := []byte{0, 1, 0x7f, 0x80, 0xc2, 0xff}
		var pairs [][2]byte
		if env.thorough() {
			for a := 0; a < 256; a++ {
				for b := 0; b < 256; b++ {
					pairs = append(pairs, [2]byte{byte(a), byte(b)})
				}
			}
		} else {
			for _, a := range vals {
				for _, b := range vals {
					pairs = append(pairs, [2]byte{a, b})
				}
			}
		}
		for _, kind := range []string{"proc", "ws", "legacy"} {
			if env.thorough() && kind != "proc" {
				pairs = pairs[:0]
				for _, a := range vals {
					for _, b := range vals {
						pairs = append(pairs, [2]byte{a, b})
					}
				}
			}
			for _, v := range pairs {
				distinct++
				res := RunSeq(c01Cfg(true, false, kind), []Seg{{Bytes: tsgu.Handshake(v[0], v[1], 0, tsgu.ExtAuthPAA)}})
				rep.add("executions", 1)
				rep.add("transitions", int64(res.StepsRun))
				if len(res.Panics) > 0 || !res.Opened || len(res.Steps) != 1 || len(res.Steps[0].Resps) != 1 {
					rep.violate("C16/handshake-not-answered-by-exactly-one-packet/"+kind, fmt.Sprintf("client version %d.%d", v[0], v[1]), map[string]any{"noreplay": true})
					continue
				}
				r := tsgu.ParseResp(res.Steps[0].Resps[0])
				rep.outcome(fmt.Sprintf("e handshake-layout %s wellformed=%v", kind, r.WellFormed))
				if !r.WellFormed || r.Status != 0 || r.Major != v[0] || r.Minor != v[1] || r.ExtAuth != tsgu.ExtAuthPAA {
					rep.violate("C16/handshake-response-layout/"+kind, fmt.Sprintf("client version %d.%d: well-formed=%v (%s) status=%#x echoed %d.%d advertised %#x", v[0], v[1], r.WellFormed, r.Why, r.Status, r.Major, r.Minor, r.ExtAuth), map[string]any{"noreplay": true})
				}
			}
		}
	}
	if gwBin() != "" {
		bindCaps(rep, "C16", env)
	}
	rep.add("distinct", int64(distinct))
	rep.add("states", int64(distinct))
}

// c16Outcome runs one history and judges every packet the gateway sent.
func c16Outcome(alpha []sym, token, sc bool, kind string, hist []int, rep *Report) (viols [][2]string) {
	segs := make([]Seg, len(hist))
	for i, h := range hist {
		segs[i] = Seg{Bytes: alpha[h].Bytes}
	}
	res := RunSeq(c01Cfg(token, sc, kind), segs)
	rep.add("executions", 1)
	rep.add("transitions", int64(res.StepsRun))
	if res.Abort != "" {
		infra("C16: aborted: %s", res.Abort)
	}
	bad := func(k, d string) { viols = append(viols, [2]string{k, d}) }
	for _, p := range res.Panics {
		bad("panic:"+shortFn(panicSite(p)), p.Value)
	}
	if !res.Opened {
		return
	}
	m := &c01Monitor{Token: token, SC: sc, Phase: "INIT"}
	for i, o := range res.Steps {
		s := alpha[hist[i]]
		phase := m.Phase
		inOrder, accept, _, reason := false, false, "", ""
		if phase != "END" {
			inOrder, accept, _, reason = m.decide(s)
		}
		for _, p := range o.Resps {
			r := tsgu.ParseResp(p)
			if !r.WellFormed {
				bad("malformed-packet@"+phase+"/"+s.Class, fmt.Sprintf("type %#x: %s", p.Type, r.Why))
				continue
			}
			if !r.HasStatus {
				bad("unexpected-packet-type@"+phase+"/"+s.Class, fmt.Sprintf("type %#x", p.Type))
				continue
			}
			if want, ok := respTypeOf[s.Class]; !ok || p.Type != want {
				bad("response-type-does-not-match-request@"+phase+"/"+s.Class, fmt.Sprintf("request class %s answered with type %#x", s.Class, p.Type))
			}
			okStep := inOrder && accept
			if s.Class == "CLOSE" && (phase == "OPEN" || phase == "CC") {
				okStep = true // honouring a close is a success; refusing it before data is allowed too
				if r.Status != 0 {
					okStep = false
				}
			}
			if (r.Status == 0) != okStep {
				bad("status-does-not-report-outcome@"+phase+"/"+s.Name, fmt.Sprintf("status %#x, reference accepts=%v (%s)", r.Status, okStep, reason))
			}
			if inOrder && !accept {
				want := map[string]uint32{"capability": tsgu.ECapabilityMismatch, "cookie": tsgu.ECookieAuthDenied, "host-policy": tsgu.ERAPAccessDenied}[reason]
				if want != 0 && r.Status != want {
					bad("wrong-status-code-for-"+reason, fmt.Sprintf("%s in phase %s: status %#x, MS-TSGU code %#x", s.Name, phase, r.Status, want))
				}
			}
		}
		m.step(s, o)
		rep.outcome(fmt.Sprintf("outcome %s@%s accept=%v reason=%s n=%d", s.Class, phase, accept, reason, len(o.Resps)))
	}
	if res.FrameErr != "" {
		bad("transport-write-is-not-exactly-one-packet/paced", res.FrameErr)
	}
	// the same requests pipelined (all of them in one transport write, as a client that does not wait for answers
	// sends them): every outcome is still reported, in order, one packet per transport write
	if len(hist) >= 2 {
		flat := func(r *SeqResult) string {
			var sb strings.Builder
			for _, o := range r.Steps {
				for _, p := range o.Resps {
					fmt.Fprintf(&sb, "%#x/%#x ", p.Type, tsgu.ParseResp(p).Status)
				}
			}
			return sb.String()
		}
		var all []byte
		for _, h := range hist {
			all = append(all, alpha[h].Bytes...)
		}
		burst := RunSeq(c01Cfg(token, sc, kind), []Seg{{Bytes: all}})
		rep.add("executions", 1)
		rep.add("transitions", int64(burst.StepsRun))
		for _, p := range burst.Panics {
			bad("panic:"+shortFn(panicSite(p)), p.Value)
		}
		if a, b := flat(res), flat(burst); a != b && len(burst.Panics) == 0 {
			bad("outcome-not-reported-to-a-pipelining-client", fmt.Sprintf("requests one by one: %q; the same requests in one write: %q", a, b))
		}
		if burst.FrameErr != "" {
			bad("transport-write-is-not-exactly-one-packet/pipelined", burst.FrameErr)
		}
	}
	return
}

func c16OrderScenario(kind string) ConcScenario {
	if strings.HasPrefix(kind, "closing-") {
		// the client closes the channel while the host keeps writing: two goroutines build packets at once;
		// every packet stays well-formed and the close request is answered by a close response
		return ConcScenario{Name: "talkative-host-" + kind, Deviation: true, Plans: []TunnelPlan{{Kind: strings.TrimPrefix(kind, "closing-"), ConnID: "A", User: "ua", IP: "10.0.0.1", Host: "ha.example:3389",
			Script: []string{"data:hello", "recvbytes:13", "ka", "close", "drain"}, Chunks: [][]byte{[]byte("BANNER-LINE-1"), []byte("BANNER-LINE-2"), []byte("BANNER-LINE-3")}}}}
	}
	return ConcScenario{Name: "talkative-host-" + kind, Plans: []TunnelPlan{{Kind: kind, ConnID: "A", User: "ua", IP: "10.0.0.1", Host: "ha.example:3389",
		Script: []string{"recvbytes:13", "close", "drain"}, Chunks: [][]byte{[]byte("BANNER-LINE-1")}}}}
}

func c16OrderCheck(sc ConcScenario) func(res *ConcResult, races []RaceReport) (string, []vsched.Violation) {
	return func(res *ConcResult, races []RaceReport) (string, []vsched.Violation) {
		t := res.Tunnels[0]
		var v []vsched.Violation
		if t.SetupFailed != "" {
			v = append(v, vsched.Violation{Sig: "C16/request-answered-with-another-packet-type/" + sc.Name, Detail: "during setup: " + t.SetupFailed + " (the first packet after a request was not its response)"})
		}
		for _, p := range res.X.Panics() {
			v = append(v, vsched.Violation{Sig: "C16/panic/" + sc.Name, Detail: p.Value})
		}
		if t.StreamErr != "" {
			v = append(v, vsched.Violation{Sig: "C16/malformed-packet-to-client/" + sc.Name, Detail: t.StreamErr})
		}
		if strings.Contains(sc.Name, "closing-") && t.SetupFailed == "" {
			last := ""
			if len(t.Resps) > 0 {
				last = t.Resps[len(t.Resps)-1]
			}
			if last != "0x11/0x0" {
				v = append(v, vsched.Violation{Sig: "C16/close-request-not-answered-by-close-response/" + sc.Name, Detail: fmt.Sprintf("responses %v", t.Resps)})
			}
		}
		return fmt.Sprintf("setup=%q resps=%v data=%q", t.SetupFailed, t.Resps, t.ClientData), v
	}
}
