package main

import (
	"net/http"

	"github.com/bolkedebruin/rdpgw/cmd/rdpgw/protocol"
)

func handlerOf(gw *protocol.Gateway) http.Handler { return http.HandlerFunc(gw.HandleGatewayProtocol) }

func c10HTTPReplay(env *Env, rep *Report) {}
func c10HTTP(env *Env, rep *Report) int   { return 0 }
