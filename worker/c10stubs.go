package main

import (
	"net/http"

	"github.com/bolkedebruin/rdpgw/cmd/rdpgw/protocol"
)

func handlerOf(gw *protocol.Gateway) http.Handler { return http.HandlerFunc(gw.HandleGatewayProtocol) }
