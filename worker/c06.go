package main

import (
	"bytes"
	"fmt"
	"strings"

	"verif/internal/tsgu"
	"verif/shim/vsched"
)

// C06 — relayed byte streams are exact, ordered and complete in both directions.

func init() { props["C06"] = c06 }

func pattern(n int, seed byte) []byte {
	b := make([]byte, n)
	for i := range b {
		b[i] = byte(i)*3 + seed + byte(i>>8)
	}
	return b
}

func c06Setup() []Seg {
	return []Seg{
		{Bytes: tsgu.Handshake(1, 0, 0, tsgu.ExtAuthPAA)},
		{Bytes: tsgu.TunnelCreate("ok|"+hostA+":3389|10.0.0.1|alice", true)},
		{Bytes: tsgu.TunnelAuth("pc")},
		{Bytes: tsgu.ChannelCreate(hostA, 3389)},
	}
}

type c06Case struct {
	Name       string
	Kind       string
	ClientPkts [][]byte // data packets (possibly with lying length fields)
	Declared   [][]byte // declared payload of each (nil = length field exceeds what is carried)
	Carried    [][]byte
	HostWrites [][]byte
	Split      []int // split the concatenated client packets at these offsets (nil: one packet per segment)
	Burst      bool
	HostPaced  bool // the host's writes come one by one after the client's packets (an empty one is an empty write)
	HostStalls int  // > 0: the host reads nothing (send window of that many bytes) until after the client's packet number HostResume
	HostResume int
	// SplitChunk: legacy: every chunk arrives as size line, data, CRLF in separate transport reads
	SplitChunk bool
}

func c06Run(c c06Case, rep *Report) (viol, detail string) {
	cfg := c01Cfg(true, false, c.Kind)
	if !c.HostPaced {
		cfg.BackendSay = c.HostWrites
	}
	segs := c06Setup()
	cfg.BackendWindow = c.HostStalls
	cfg.Segmented = c.SplitChunk
	if c.Split == nil {
		for i, p := range c.ClientPkts {
			segs = append(segs, Seg{Bytes: p, NoWait: c.Burst, SplitChunk: c.SplitChunk})
			if c.HostStalls > 0 && i+1 == c.HostResume {
				segs = append(segs, Seg{Action: "deadlines"}, Seg{Action: "hostdrain"})
			}
		}
		if c.HostStalls > 0 {
			segs = append(segs, Seg{Action: "deadlines"}, Seg{Action: "hostdrain"})
		}
	} else {
		var stream []byte
		for _, p := range c.ClientPkts {
			stream = append(stream, p...)
		}
		for _, part := range cutStream(stream, c.Split) {
			segs = append(segs, Seg{Bytes: part, NoWait: c.Burst})
		}
	}
	if c.HostPaced {
		for _, w := range c.HostWrites {
			segs = append(segs, Seg{HostSay: append([]byte{}, w...)})
		}
	}
	segs = append(segs, Seg{Bytes: tsgu.Keepalive()})
	res := RunSeq(cfg, segs)
	rep.add("executions", 1)
	rep.add("transitions", int64(res.StepsRun))
	if res.Abort != "" {
		infra("C06: aborted: %s", res.Abort)
	}
	if len(res.Panics) > 0 {
		return "panic:" + shortFn(panicSite(res.Panics[0])), res.Panics[0].Value
	}
	if !res.Opened || len(res.Steps) < 5 {
		return "setup-failed", ""
	}
	// paced client packets: when the gateway has nothing left to do after a packet, that packet's payload is at the
	// host (nothing is kept back until more traffic arrives)
	if c.Split == nil && !c.Burst && c.HostStalls == 0 && !c.HostPaced {
		base := len(c06Setup())
		for i, d := range c.Declared {
			if d == nil || base+i >= len(res.Steps) {
				break
			}
			if got := res.Steps[base+i].BackendNew; !bytes.Equal(got, d) {
				return "payload-not-at-the-host-when-the-gateway-is-idle", fmt.Sprintf("client packet %d declares %d bytes; when the gateway had nothing left to do the host had received %d bytes of it", i, len(d), len(got))
			}
		}
	}
	// host side
	var hostGot []byte
	for i := range res.World.Backends {
		hostGot = append(hostGot, res.World.BackendBytes(i)...)
	}
	ended := res.Steps[len(res.Steps)-1].Ended
	var want []byte
	exact := true
	for i, d := range c.Declared {
		if d == nil {
			exact = false
			// over-long length field: what is delivered for this packet must be a prefix of what it carried
			rest := hostGot
			if !bytes.HasPrefix(rest, want) {
				return "host-stream-differs", fmt.Sprintf("before packet %d", i)
			}
			rest = rest[len(want):]
			car := c.Carried[i]
			if len(rest) > len(car) && !ended {
				// more than carried was delivered for this packet (or following packets follow): the first len(car)+ bytes must start with carried, then next packets
				if !bytes.HasPrefix(rest, car) {
					return "invented-bytes-for-overlong-length-field", fmt.Sprintf("packet %d declares %d carries %d; host received %x…", i, int(c.ClientPkts[i][8])|int(c.ClientPkts[i][9])<<8, len(car), head(rest, 24))
				}
				// what follows must be the declared payloads of the following packets; anything else was invented
				follow := rest[len(car):]
				var next []byte
				for _, d2 := range c.Declared[i+1:] {
					next = append(next, d2...)
				}
				if !bytes.Equal(follow, next) {
					return "invented-bytes-for-overlong-length-field", fmt.Sprintf("packet %d declares more than its %d bytes; host received %d extra bytes %x…", i, len(car), len(follow)-len(next), head(follow, 24))
				}
				return c06ClientSide(c, res)
			}
			if !bytes.HasPrefix(car, rest) && !bytes.HasPrefix(rest, car) {
				return "invented-bytes-for-overlong-length-field", fmt.Sprintf("packet %d: host received %x…, carried %x…", i, head(rest, 24), head(car, 24))
			}
			return c06ClientSide(c, res)
		}
		want = append(want, d...)
	}
	if exact && !bytes.Equal(hostGot, want) {
		return "host-stream-differs", fmt.Sprintf("host received %d bytes, declared payloads are %d bytes; first difference at %d", len(hostGot), len(want), firstDiff(hostGot, want))
	}
	return c06ClientSide(c, res)
}

func c06ClientSide(c c06Case, res *SeqResult) (string, string) {
	var hostSent []byte
	for _, w := range c.HostWrites {
		hostSent = append(hostSent, w...)
	}
	var got []byte
	for _, st := range res.Steps {
		for _, p := range st.Resps {
			r := tsgu.ParseResp(p)
			if p.Type == tsgu.TypeData {
				if !r.WellFormed {
					return "malformed-data-packet-to-client", r.Why
				}
				got = append(got, r.Payload...)
			}
		}
	}
	if res.FrameErr != "" {
		return "client-stream-framing", res.FrameErr
	}
	if len(res.Rest) > 0 {
		return "client-stream-framing", fmt.Sprintf("%d trailing bytes", len(res.Rest))
	}
	if !bytes.Equal(got, hostSent) {
		return "client-stream-differs", fmt.Sprintf("client received %d bytes, host produced %d; first difference at %d", len(got), len(hostSent), firstDiff(got, hostSent))
	}
	return "", ""
}

func head(b []byte, n int) []byte {
	if len(b) > n {
		return b[:n]
	}
	return b
}

func firstDiff(a, b []byte) int {
	for i := 0; i < len(a) && i < len(b); i++ {
		if a[i] != b[i] {
			return i
		}
	}
	if len(a) < len(b) {
		return len(a)
	}
	return len(b)
}

func c06Conc() []ConcScenario {
	var out []ConcScenario
	for _, k := range []string{"ws", "legacy"} {
		out = append(out, ConcScenario{Name: "both-directions-" + k, Plans: []TunnelPlan{{Kind: k, ConnID: "A", User: "ua", IP: "10.0.0.1", Host: "ha.example:3389",
			Script: []string{"data:client-one;", "data:client-two;", "ka", "idle"}, Chunks: [][]byte{[]byte("<host-chunk-1>"), []byte("<host-chunk-2>")}}}})
	}
	// the client closes the channel while the host is still writing: whatever reaches the client before the
	// close response is a prefix of the host's stream in well-formed packets (two goroutines build packets at once)
	for _, k := range []string{"ws", "legacy"} {
		out = append(out, ConcScenario{Name: "close-while-host-streams-" + k, Deviation: true, Plans: []TunnelPlan{{Kind: k, ConnID: "A", User: "ua", IP: "10.0.0.1", Host: "ha.example:3389",
			Script: []string{"data:client-one;", "recvbytes:14", "close", "drain"}, Chunks: [][]byte{[]byte("<host-chunk-1>"), []byte("<host-chunk-2>"), []byte("<host-chunk-3>")}}}})
	}
	// two tunnels whose hosts write at the same time: each client gets its own host's stream
	for _, k := range []string{"ws", "legacy"} {
		mkp := func(id string, n int) TunnelPlan {
			return TunnelPlan{Kind: k, ConnID: id, User: "u" + id, IP: fmt.Sprintf("10.0.%d.1", n), Host: fmt.Sprintf("h%s.example:3389", strings.ToLower(id)),
				Script: []string{"data:client-" + id + ";", "recvbytes:28", "drop"}, Chunks: [][]byte{[]byte("<host-" + id + "-chunk1>"), []byte("<host-" + id + "-chunk2>")}}
		}
		out = append(out, ConcScenario{Name: "two-tunnels-hosts-stream-" + k, Deviation: true, Plans: []TunnelPlan{mkp("A", 1), mkp("B", 2)}})
	}
	return out
}

func c06ConcCheck(sc ConcScenario) func(res *ConcResult, races []RaceReport) (string, []vsched.Violation) {
	return func(res *ConcResult, races []RaceReport) (string, []vsched.Violation) {
		var v []vsched.Violation
		add := func(k, d string) { v = append(v, vsched.Violation{Sig: "C06/" + k + "/" + sc.Name, Detail: d}) }
		for _, p := range res.X.Panics() {
			add("panic:"+shortFn(panicSite(p)), p.Value)
		}
		var obs []string
		for i, t := range res.Tunnels {
			if t.SetupFailed != "" {
				add("setup-failed", t.SetupFailed)
			}
			if t.StreamErr != "" {
				add("malformed-stream-to-client", t.Plan.ConnID+": "+t.StreamErr)
			}
			wantHost, wantClient := "", ""
			for _, op := range sc.Plans[i].Script {
				if strings.HasPrefix(op, "data:") {
					wantHost += op[5:]
				}
			}
			for _, c := range sc.Plans[i].Chunks {
				wantClient += string(c)
			}
			if string(t.BackendGot) != wantHost {
				add("host-stream-differs", fmt.Sprintf("%s: host received %q, client sent %q", t.Plan.ConnID, t.BackendGot, wantHost))
			}
			closes := false
			for _, op := range sc.Plans[i].Script {
				closes = closes || op == "close"
			}
			switch {
			case closes:
				if !strings.HasPrefix(wantClient, string(t.ClientData)) {
					add("client-stream-differs", fmt.Sprintf("%s: client received %q, which is not a prefix of the host's %q", t.Plan.ConnID, t.ClientData, wantClient))
				}
			case string(t.ClientData) != wantClient:
				add("client-stream-differs", fmt.Sprintf("%s: client received %q, host wrote %q", t.Plan.ConnID, t.ClientData, wantClient))
			}
			obs = append(obs, fmt.Sprintf("host=%q client=%q resps=%v", t.BackendGot, t.ClientData, t.Resps))
		}
		return strings.Join(obs, " | "), v
	}
}

func c06(env *Env, rep *Report) {
	rep.Rule = "(a) sequential, both transports: client data packets of payload sizes {0,1,2,4085,4086,4087,4096,8192,65535} alone, in every ordered pair, and selected triples, paced and in bursts, the stream of each pair also cut at offsets {1,7,8,9,10,len-1} of the second packet; data packets whose length field is actual-1, actual+1, 0, 0xFFFF, and data packets too short to hold the length field (0 or 1 body bytes); host writes of sizes {1,4086,4087,8192,65535} alone and in pairs; host reads that return no bytes and no error between ordinary ones; a host that stops reading until its window is full and every gateway deadline has fired, then reads again. " +
		"Oracle: bytes at the host == concatenation of the declared payloads (for a length field larger than the bytes carried: nothing but carried bytes may be delivered for that packet); payloads of the data packets at the client == bytes the host wrote; every data packet to the client well-formed (header length == bytes sent, payload-length field == payload). " +
		"(b) schedules: one tunnel, client sends 2 data packets + keep-alive while the host writes 2 chunks; every schedule up to the preemption bound; both streams must arrive complete and in order; the client closing the channel while the host still writes (what arrives before the close response is a prefix of the host's stream, every packet well-formed); two tunnels whose hosts write at the same time (deviation bound). (c) on the real binary over real sockets: 6 MiB client to host in 32 KiB data packets, then an orderly channel close, to a host that starts reading 400 ms late: the host receives every byte and an orderly end. distinct_nontrivial = distinct cases (a) + distinct observations (b)."
	rep.Assumptions = append(rep.Assumptions, "'several MiB' is bounded to 3 x 65535 bytes per direction", "byte patterns are position dependent (i*3+seed) so that reordering, duplication and loss change the stream")
	if env.Replay == nil && env.Shard == 0 && env.Part == "" {
		relayLargeThenClose(rep, "C06")
	}
	sizes := []int{0, 1, 2, 4085, 4086, 4087, 4096, 8192, 65535}
	mk := func(n int, seed byte) ([]byte, []byte) { p := pattern(n, seed); return tsgu.Data(p), p }
	var cases []c06Case
	for _, kind := range []string{"ws", "legacy"} {
		for i, a := range sizes {
			pa, da := mk(a, 1)
			cases = append(cases, c06Case{Name: fmt.Sprintf("single-%d", a), Kind: kind, ClientPkts: [][]byte{pa}, Declared: [][]byte{da}})
			for j, b := range sizes {
				pb, db := mk(b, 77)
				for _, burst := range []bool{false, true} {
					cases = append(cases, c06Case{Name: fmt.Sprintf("pair-%d-%d-burst=%v", a, b, burst), Kind: kind, ClientPkts: [][]byte{pa, pb}, Declared: [][]byte{da, db}, Burst: burst})
				}
				for _, off := range []int{1, 7, 8, 9, 10, len(pb) - 1} {
					if off > 0 && off < len(pb) {
						cases = append(cases, c06Case{Name: fmt.Sprintf("pair-%d-%d-cut2@%d", a, b, off), Kind: kind, ClientPkts: [][]byte{pa, pb}, Declared: [][]byte{da, db}, Split: []int{len(pa) + off}})
					}
				}
				if (i+j)%4 == 0 || env.thorough() {
					pc, dc := mk(sizes[(i+j)%len(sizes)], 200)
					cases = append(cases, c06Case{Name: fmt.Sprintf("triple-%d-%d-%d", a, b, len(dc)), Kind: kind, ClientPkts: [][]byte{pa, pb, pc}, Declared: [][]byte{da, db, dc}, Burst: true})
				}
			}
			// lying length fields, followed by an honest packet
			if a > 0 {
				p := pattern(a, 9)
				hp, hd := mk(5, 33)
				for _, l := range []int{a - 1, a + 1, 0, 0xFFFF, a + 100} {
					if l < 0 || l > 0xFFFF || l == a {
						continue
					}
					var decl []byte
					if l <= a {
						decl = p[:l]
					}
					cases = append(cases, c06Case{Name: fmt.Sprintf("length-field-%d-carries-%d", l, a), Kind: kind, ClientPkts: [][]byte{tsgu.DataRaw(uint16(l), p), hp}, Declared: [][]byte{decl, hd}, Carried: [][]byte{p, hd}})
				}
			}
		}
		// data packets too short to hold their own payload-length field (no body, one byte of it), alone,
		// followed and preceded by an honest packet: they declare and carry no payload
		{
			hp, hd := mk(5, 33)
			for _, body := range [][]byte{{}, {0x00}, {0x05}, {0xFF}} {
				short := tsgu.Packet(tsgu.TypeData, body)
				nm := fmt.Sprintf("data-packet-with-%d-body-bytes-%x", len(body), body)
				cases = append(cases, c06Case{Name: nm + "-alone", Kind: kind, ClientPkts: [][]byte{short}, Declared: [][]byte{{}}})
				cases = append(cases, c06Case{Name: nm + "-then-honest", Kind: kind, ClientPkts: [][]byte{short, hp}, Declared: [][]byte{{}, hd}})
				cases = append(cases, c06Case{Name: nm + "-after-honest", Kind: kind, ClientPkts: [][]byte{hp, short, hp}, Declared: [][]byte{hd, {}, hd}, Burst: true})
			}
		}
		if kind == "legacy" {
			// packets whose total size is the gateway's read size (4096), twice it, and one off, arriving as
			// chunk size line / data / CRLF in separate reads, alone and followed by a small packet
			for _, a := range []int{4085, 4086, 4087, 8181, 8182, 8183} {
				pa, da := mk(a, 3)
				pb, db := mk(5, 4)
				cases = append(cases, c06Case{Name: fmt.Sprintf("single-%d-chunk-in-pieces", a), Kind: kind, ClientPkts: [][]byte{pa}, Declared: [][]byte{da}, SplitChunk: true})
				cases = append(cases, c06Case{Name: fmt.Sprintf("pair-%d-5-chunk-in-pieces", a), Kind: kind, ClientPkts: [][]byte{pa, pb}, Declared: [][]byte{da, db}, SplitChunk: true})
			}
		}
		hs := []int{1, 4086, 4087, 8192, 65535}
		for _, a := range hs {
			cases = append(cases, c06Case{Name: fmt.Sprintf("host-%d", a), Kind: kind, HostWrites: [][]byte{pattern(a, 5)}})
			for _, b := range hs {
				cases = append(cases, c06Case{Name: fmt.Sprintf("host-%d-%d", a, b), Kind: kind, HostWrites: [][]byte{pattern(a, 5), pattern(b, 99)}, ClientPkts: [][]byte{tsgu.Data([]byte("x"))}, Declared: [][]byte{[]byte("x")}})
			}
		}
	}
	// fault point: a read from the host that returns no bytes and no error (an empty write of the peer), between
	// two ordinary reads, at the start and at the end
	for _, kind := range []string{"ws", "legacy"} {
		for i, hw := range [][][]byte{
			{[]byte("hello "), {}, []byte("world!")},
			{{}, []byte("hello world!")},
			{[]byte("hello world!"), {}},
			{[]byte("a"), {}, {}, []byte("b"), {}, []byte("c")},
		} {
			cases = append(cases, c06Case{Name: fmt.Sprintf("host-empty-read-%d", i), Kind: kind, HostWrites: hw, HostPaced: true, ClientPkts: [][]byte{tsgu.Data([]byte("x"))}, Declared: [][]byte{[]byte("x")}})
		}
	}
	// fault point: the host stops reading (its receive window, 64 bytes here, fills up), the client keeps
	// sending, every deadline the gateway may have set fires, then the host reads again: the stream has no hole
	for _, kind := range []string{"ws", "legacy"} {
		for resume := 2; resume <= 5; resume++ {
			var pk, dc [][]byte
			for i := 0; i < 6; i++ {
				p, d := mk(40, byte(10+i))
				pk, dc = append(pk, p), append(dc, d)
			}
			cases = append(cases, c06Case{Name: fmt.Sprintf("host-stalls-resumes-after-%d", resume), Kind: kind, ClientPkts: pk, Declared: dc, HostStalls: 64, HostResume: resume})
		}
	}
	scs := c06Conc()
	bound := 2
	if env.thorough() {
		bound = 4
	}
	rep.Bounds = map[string]any{"preemption_bound": bound, "sequential_cases": len(cases)}
	if env.Replay != nil {
		rp := env.Replay
		if name, ok := rp["scenario"].(string); ok {
			for _, sc := range scs {
				if sc.Name == name {
					replayConc(rep, sc, rp, nil, c06ConcCheck(sc))
				}
			}
			return
		}
		name, _ := rp["case"].(string)
		kind, _ := rp["kind"].(string)
		for _, c := range cases {
			if c.Name == name && c.Kind == kind {
				v, d := c06Run(c, rep)
				fmt.Println("verdict:", v, d)
				if v != "" {
					rep.violate("C06/"+v+"/"+kind+"/"+classOf(name), d, rp)
				}
			}
		}
		return
	}
	distinct := 0
	for i, c := range cases {
		if !env.mine(i) {
			continue
		}
		distinct++
		v, d := c06Run(c, rep)
		rep.outcome(c.Kind + " " + classOf(c.Name) + " " + v)
		if v != "" {
			rep.violate("C06/"+v+"/"+c.Kind+"/"+classOf(c.Name), fmt.Sprintf("%s %s: %s", c.Kind, c.Name, d), map[string]any{"engine": "seqx", "case": c.Name, "kind": c.Kind})
		}
		if distinct%60 == 1 {
			rep.sample(map[string]any{"case": c.Name, "transport": c.Kind, "verdict": v})
		}
	}
	rep.add("distinct", int64(distinct))
	for _, sc := range scs {
		b := bound
		if sc.Deviation && b > 3 {
			b = 3
		}
		exploreConc(env, rep, sc, b, nil, c06ConcCheck(sc))
	}
}

func classOf(name string) string {
	if i := strings.IndexAny(name, "-"); i > 0 {
		if strings.HasPrefix(name, "length-field") {
			return "length-field"
		}
		return name[:i]
	}
	return name
}
