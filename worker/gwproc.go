package main

import (
	"runtime/debug"
	"bufio"
	"bytes"
	"context"
	"crypto/ecdsa"
	"crypto/elliptic"
	"crypto/rand"
	"crypto/tls"
	"crypto/x509"
	"crypto/x509/pkix"
	"encoding/pem"
	"errors"
	"fmt"
	"io"
	"math/big"
	"net"
	"net/http"
	"os"
	"os/exec"
	"path/filepath"
	"strconv"
	"strings"
	"sync"
	"syscall"
	"time"

	"google.golang.org/grpc"

	authcfg "github.com/bolkedebruin/rdpgw/cmd/auth/config"
	"github.com/bolkedebruin/rdpgw/cmd/auth/database"
	authntlm "github.com/bolkedebruin/rdpgw/cmd/auth/ntlm"
	"github.com/bolkedebruin/rdpgw/shared/auth"
)

// ---------------------------------------------------------------------------
// gwproc: the real rdpgw / rdpgw-auth binaries as child processes
// ---------------------------------------------------------------------------

func gwBin() string     { return os.Getenv("VERIF_RDPGW") }
func gwAuthBin() string { return os.Getenv("VERIF_RDPGW_AUTH") }

var scratchOnce sync.Once
var scratchDir string

func scratch() string {
	scratchOnce.Do(func() {
		d := os.Getenv("VERIF_BUILD_DIR")
		if d == "" {
			d = "/verif/.build/misc"
		}
		scratchDir = filepath.Join(d, "tmp", fmt.Sprintf("w%d", os.Getpid()))
		os.MkdirAll(scratchDir, 0o755)
	})
	return scratchDir
}

var portCounter int
var workerShard int

// freePort hands out ports from a range private to this worker process (below
// the kernel's ephemeral range, offset by pid), verified to be unused on all
// loopback addresses the harness listens on. Two workers never get the same
// port, and a port is never reused within a worker.
func freePort() int {
	// one range per shard of the running check (16 x 1200 ports below the ephemeral range)
	base := 12000 + (workerShard%16)*1200
	if portCounter == 0 {
		portCounter = (os.Getpid() * 37) % 600
	}
	for i := 0; i < 1200; i++ {
		portCounter++
		p := base + portCounter%1200
		ok := true
		for _, ip := range []string{"0.0.0.0", "127.0.0.2", "127.0.0.3"} {
			l, err := net.Listen("tcp", ip+":"+strconv.Itoa(p))
			if err != nil {
				ok = false
				break
			}
			l.Close()
		}
		if ok {
			return p
		}
	}
	infra("no free port in the worker's range")
	return 0
}

// GwProc is a running (or exited) gateway process.
type GwProc struct {
	cmd    *exec.Cmd
	Port   int
	TLS    bool
	stderr *lockedBuf
	done   chan struct{}
	Exit   int
	Exited bool
}

type lockedBuf struct {
	mu sync.Mutex
	b  bytes.Buffer
}

func (l *lockedBuf) Write(p []byte) (int, error) {
	l.mu.Lock()
	defer l.mu.Unlock()
	return l.b.Write(p)
}
func (l *lockedBuf) String() string {
	l.mu.Lock()
	defer l.mu.Unlock()
	return l.b.String()
}

// StartGateway runs the real binary with the given configuration file text and
// extra environment, and waits until it either listens on port or exits.
func StartGateway(yaml string, env []string, port int, useTLS bool) *GwProc {
	if gwBin() == "" {
		infra("VERIF_RDPGW not set: the driver builds the gateway binary for this property")
	}
	dir, err := os.MkdirTemp(scratch(), "gw")
	if err != nil {
		infra("%v", err)
	}
	conf := filepath.Join(dir, "rdpgw.yaml")
	os.WriteFile(conf, []byte(yaml), 0o644)
	g := &GwProc{Port: port, TLS: useTLS, stderr: &lockedBuf{}, done: make(chan struct{})}
	g.cmd = exec.Command(gwBin(), "-c", conf)
	g.cmd.Dir = dir
	// a clean environment: nothing of the harness's RDPGW_* leaks in
	g.cmd.Env = append([]string{"PATH=" + os.Getenv("PATH"), "HOME=" + dir, "TMPDIR=" + dir}, env...)
	g.cmd.Stderr = g.stderr
	g.cmd.Stdout = g.stderr
	g.cmd.SysProcAttr = &syscall.SysProcAttr{Pdeathsig: syscall.SIGKILL}
	if err := g.cmd.Start(); err != nil {
		infra("start gateway: %v", err)
	}
	go func() {
		err := g.cmd.Wait()
		g.Exit = 0
		if ee, ok := err.(*exec.ExitError); ok {
			g.Exit = ee.ExitCode()
		} else if err != nil {
			g.Exit = -1
		}
		g.Exited = true
		close(g.done)
	}()
	deadline := time.Now().Add(20 * time.Second)
	for time.Now().Before(deadline) {
		select {
		case <-g.done:
			return g
		default:
		}
		c, err := net.DialTimeout("tcp", "127.0.0.1:"+strconv.Itoa(port), 200*time.Millisecond)
		if err == nil {
			c.Close()
			// it must be this process that listens: give an exiting process a moment to be reaped
			time.Sleep(30 * time.Millisecond)
			return g
		}
		time.Sleep(15 * time.Millisecond)
	}
	g.Stop()
	infra("gateway neither listened on %d nor exited within 20 s; log:\n%s", port, tail(g.stderr.String(), 2000))
	return g
}

func tail(s string, n int) string {
	if len(s) > n {
		return s[len(s)-n:]
	}
	return s
}

// Stop kills the process.
func (g *GwProc) Stop() {
	if g == nil || g.cmd == nil || g.cmd.Process == nil {
		return
	}
	g.cmd.Process.Kill()
	select {
	case <-g.done:
	case <-time.After(5 * time.Second):
	}
	os.RemoveAll(g.cmd.Dir)
}

// Alive reports whether the process is still running.
func (g *GwProc) Alive() bool {
	select {
	case <-g.done:
		return false
	default:
		return true
	}
}

// Log returns what the process wrote so far.
func (g *GwProc) Log() string { return g.stderr.String() }

// Crashed reports panics / fatal errors seen in the log.
func (g *GwProc) Crashed() string {
	l := g.Log()
	for _, pat := range []string{"panic:", "fatal error:", "http: panic serving", "DATA RACE", "goroutine 1 [running]"} {
		if i := strings.Index(l, pat); i >= 0 {
			end := i + 400
			if end > len(l) {
				end = len(l)
			}
			return l[i:end]
		}
	}
	return ""
}

// Dial opens a client connection (TLS when the gateway runs with TLS).
func (g *GwProc) Dial() (net.Conn, error) {
	return g.DialFrom("")
}

// DialFrom connects from a specific local address (127.0.0.2, ::1 …).
func (g *GwProc) DialFrom(local string) (net.Conn, error) {
	d := net.Dialer{Timeout: 5 * time.Second}
	target := "127.0.0.1:" + strconv.Itoa(g.Port)
	if local != "" {
		ip := net.ParseIP(local)
		d.LocalAddr = &net.TCPAddr{IP: ip}
		if ip.To4() == nil {
			target = "[::1]:" + strconv.Itoa(g.Port)
		}
	}
	c, err := d.Dial("tcp", target)
	if err != nil {
		return nil, err
	}
	if g.TLS {
		tc := tls.Client(c, &tls.Config{InsecureSkipVerify: true, NextProtos: []string{"http/1.1"}})
		if err := tc.Handshake(); err != nil {
			c.Close()
			return nil, err
		}
		return tc, nil
	}
	return c, nil
}

// RawResponse is a parsed HTTP response head (+ body when it has a length).
type RawResponse struct {
	Status  int
	Header  http.Header
	Body    []byte
	Closed  bool // connection closed without a response
	Timeout bool
}

// RawRequest writes raw bytes and reads one response.
func RawRequest(c net.Conn, raw string) RawResponse {
	c.SetDeadline(time.Now().Add(10 * time.Second))
	if _, err := io.WriteString(c, raw); err != nil {
		return RawResponse{Closed: true}
	}
	if strings.HasPrefix(raw, "HEAD ") {
		return readResponse(bufio.NewReader(c), true)
	}
	return ReadResponse(bufio.NewReader(c))
}

// ReadResponse reads one response from br.
func ReadResponse(br *bufio.Reader) RawResponse { return readResponse(br, false) }

func readResponse(br *bufio.Reader, head bool) RawResponse {
	var req *http.Request
	if head {
		req = &http.Request{Method: "HEAD"}
	}
	resp, err := http.ReadResponse(br, req)
	if err != nil {
		var ne net.Error
		if errors.As(err, &ne) && ne.Timeout() {
			return RawResponse{Timeout: true}
		}
		return RawResponse{Closed: true}
	}
	out := RawResponse{Status: resp.StatusCode, Header: resp.Header}
	if !head && resp.StatusCode != 101 && (resp.ContentLength > 0 || resp.ContentLength == -1 && resp.StatusCode != 200) {
		b, _ := io.ReadAll(io.LimitReader(resp.Body, 1<<20))
		out.Body = b
	}
	return out
}

// BuildRequest renders a request with the given method, path and header lines.
func BuildRequest(method, path string, headers []string) string {
	var sb strings.Builder
	sb.WriteString(method + " " + path + " HTTP/1.1\r\n")
	hasHost := false
	for _, h := range headers {
		if strings.HasPrefix(strings.ToLower(h), "host:") {
			hasHost = true
		}
		sb.WriteString(h + "\r\n")
	}
	if !hasHost {
		sb.WriteString("Host: gw.example\r\n")
	}
	sb.WriteString("\r\n")
	return sb.String()
}

// ---------------------------------------------------------------------------
// TLS material, scripted IdP server, scripted auth service
// ---------------------------------------------------------------------------

var certOnce sync.Once
var certFile, keyFile string

// TLSFiles returns a self-signed certificate and key on disk.
func TLSFiles() (string, string) {
	certOnce.Do(func() {
		k, _ := ecdsa.GenerateKey(elliptic.P256(), rand.Reader)
		tpl := &x509.Certificate{SerialNumber: big.NewInt(1), Subject: pkix.Name{CommonName: "gw.example"}, NotBefore: time.Now().Add(-time.Hour), NotAfter: time.Now().Add(24 * time.Hour),
			DNSNames: []string{"gw.example", "localhost"}, IPAddresses: []net.IP{net.ParseIP("127.0.0.1")}, KeyUsage: x509.KeyUsageDigitalSignature, ExtKeyUsage: []x509.ExtKeyUsage{x509.ExtKeyUsageServerAuth}}
		der, _ := x509.CreateCertificate(rand.Reader, tpl, tpl, &k.PublicKey, k)
		kb, _ := x509.MarshalECPrivateKey(k)
		certFile, keyFile = filepath.Join(scratch(), "cert.pem"), filepath.Join(scratch(), "key.pem")
		os.WriteFile(certFile, pem.EncodeToMemory(&pem.Block{Type: "CERTIFICATE", Bytes: der}), 0o644)
		os.WriteFile(keyFile, pem.EncodeToMemory(&pem.Block{Type: "EC PRIVATE KEY", Bytes: kb}), 0o600)
	})
	return certFile, keyFile
}

var loopIdP *IdP
var loopIdPOnce sync.Once

// LoopbackIdP starts (once per worker) a scripted identity provider on 127.0.0.1.
func LoopbackIdP() *IdP {
	loopIdPOnce.Do(func() {
		l, err := net.Listen("tcp", "127.0.0.1:0")
		if err != nil {
			infra("idp listen: %v", err)
		}
		p := &IdP{Issuer: "http://" + l.Addr().String(), Mode: "honour", Revoked: map[string]bool{}, UserinfoCalls: map[string]int{}, Key: mustRSA(), Codes: map[string]CodeBehaviour{}}
		go http.Serve(l, p)
		loopIdP = p
	})
	return loopIdP
}

// AuthService is a scripted rdpgw-auth: the real NTLM verifier plus a password table in place of PAM.
type AuthService struct {
	NullOK map[string]bool
	auth.UnimplementedAuthenticateServer
	mu     sync.Mutex
	Users  map[string]string
	Calls  []string
	ntlm   *authntlm.NTLMAuth
	Socket string
	srv    *grpc.Server
	// Gate, when set, makes the harness the scheduler of the backend's answers: every Authenticate call
	// announces itself on Arrived and waits for a token on its user's Release channel.
	Gate    bool
	Arrived chan string
	Release map[string]chan struct{}
	// FailNext > 0: that many calls (Basic or NTLM) are answered with a gRPC error (backend trouble), then the
	// service recovers
	FailNext int
	// Crash: the first panic that escaped the NTLM verifier
	Crash string
}

func (a *AuthService) failing() bool {
	a.mu.Lock()
	defer a.mu.Unlock()
	if a.FailNext > 0 {
		a.FailNext--
		a.Calls = append(a.Calls, "failed")
		return true
	}
	return false
}

func (a *AuthService) Authenticate(ctx context.Context, m *auth.UserPass) (*auth.AuthResponse, error) {
	if a.failing() {
		return nil, errors.New("scripted backend failure")
	}
	a.mu.Lock()
	gate := a.Gate
	var rel chan struct{}
	if gate {
		rel = a.Release[m.Username]
	}
	a.mu.Unlock()
	if gate && rel != nil {
		a.Arrived <- m.Username
		select {
		case <-rel:
		case <-time.After(20 * time.Second):
		}
	}
	a.mu.Lock()
	defer a.mu.Unlock()
	a.Calls = append(a.Calls, "basic:"+m.Username)
	pw, ok := a.Users[m.Username]
	// NullOK: accounts whose empty password the backend confirms (PAM nullok); that is the backend's decision
	return &auth.AuthResponse{Authenticated: ok && pw != "" && pw == m.Password || a.NullOK[m.Username] && m.Password == ""}, nil
}

func (a *AuthService) NTLM(ctx context.Context, m *auth.NtlmRequest) (resp *auth.NtlmResponse, err error) {
	if a.failing() {
		return nil, errors.New("scripted backend failure")
	}
	a.mu.Lock()
	a.Calls = append(a.Calls, "ntlm:"+m.Session)
	a.mu.Unlock()
	// a panic that leaves the verifier ends the real authentication service (grpc-go does not recover handler
	// panics): it is recorded here, the scripted service goes on
	defer func() {
		if x := recover(); x != nil {
			a.mu.Lock()
			if a.Crash == "" {
				a.Crash = fmt.Sprintf("%v\n%s", x, debug.Stack())
			}
			a.mu.Unlock()
			resp, err = nil, errors.New("authentication service crashed")
		}
	}()
	return a.ntlm.Authenticate(m)
}

// Crashed returns the first panic that escaped the NTLM verifier ("" = none).
func (a *AuthService) Crashed() string {
	a.mu.Lock()
	defer a.mu.Unlock()
	return a.Crash
}

// StartAuthService serves the scripted auth service on a fresh unix socket.
func StartAuthService(users map[string]string) *AuthService {
	var ul []authcfg.UserConfig
	for u, p := range users {
		ul = append(ul, authcfg.UserConfig{Username: u, Password: p})
	}
	a := &AuthService{Users: users, ntlm: authntlm.NewNTLMAuth(database.NewConfig(ul))}
	// unix socket paths are limited to ~100 bytes: keep it short
	a.Socket = filepath.Join(os.TempDir(), fmt.Sprintf("va%d-%d.sock", os.Getpid(), time.Now().UnixNano()%100000))
	if len(a.Socket) > 100 {
		a.Socket = fmt.Sprintf("/tmp/va%d-%d.sock", os.Getpid(), time.Now().UnixNano()%100000)
	}
	os.Remove(a.Socket)
	l, err := net.Listen("unix", a.Socket)
	if err != nil {
		infra("auth socket: %v", err)
	}
	a.srv = grpc.NewServer()
	auth.RegisterAuthenticateServer(a.srv, a)
	go a.srv.Serve(l)
	return a
}

func (a *AuthService) Stop() {
	a.srv.Stop()
	os.Remove(a.Socket)
}

// RealAuth runs the real rdpgw-auth binary (PAM stub) on a fresh socket.
type RealAuth struct {
	cmd    *exec.Cmd
	Socket string
	log    *lockedBuf
	dir    string
}

func StartRealAuth(users map[string]string, pamUsers map[string]string) *RealAuth {
	if gwAuthBin() == "" {
		infra("VERIF_RDPGW_AUTH not set")
	}
	dir, _ := os.MkdirTemp(scratch(), "auth")
	var sb strings.Builder
	sb.WriteString("Users:\n")
	for u, p := range users {
		fmt.Fprintf(&sb, " - {Username: %q, Password: %q}\n", u, p)
	}
	conf := filepath.Join(dir, "rdpgw-auth.yaml")
	os.WriteFile(conf, []byte(sb.String()), 0o644)
	r := &RealAuth{log: &lockedBuf{}, dir: dir}
	r.Socket = fmt.Sprintf("/tmp/vr%d-%d.sock", os.Getpid(), time.Now().UnixNano()%100000)
	var pl []string
	for u, p := range pamUsers {
		pl = append(pl, u+":"+p)
	}
	r.cmd = exec.Command(gwAuthBin(), "-c", conf, "-s", r.Socket, "-n", "rdpgw")
	r.cmd.Env = []string{"PATH=" + os.Getenv("PATH"), "VERIF_PAM_USERS=" + strings.Join(pl, ",")}
	r.cmd.Stderr = r.log
	r.cmd.Stdout = r.log
	r.cmd.SysProcAttr = &syscall.SysProcAttr{Pdeathsig: syscall.SIGKILL}
	if err := r.cmd.Start(); err != nil {
		infra("start rdpgw-auth: %v", err)
	}
	for i := 0; i < 500; i++ {
		if c, err := net.Dial("unix", r.Socket); err == nil {
			c.Close()
			return r
		}
		time.Sleep(10 * time.Millisecond)
	}
	infra("rdpgw-auth did not listen: %s", r.log.String())
	return r
}

func (r *RealAuth) Alive() bool {
	return r.cmd.ProcessState == nil && syscall.Kill(r.cmd.Process.Pid, 0) == nil
}
func (r *RealAuth) Log() string { return r.log.String() }
func (r *RealAuth) Stop() {
	r.cmd.Process.Kill()
	r.cmd.Wait()
	os.Remove(r.Socket)
	os.RemoveAll(r.dir)
}
