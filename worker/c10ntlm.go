package main

import (
	"encoding/base64"
	"encoding/binary"
	"fmt"
	"strings"

	"github.com/bolkedebruin/rdpgw/shared/auth"

	"verif/internal/ntlmc"
)

// C10 part (c): every NTLM message shape against the real verifier, in process.

type ntlmInput struct {
	Name    string
	Class   string
	Msg     []byte
	RawText string // when set, sent instead of base64(Msg)
}

func c10NtlmInputs(ch *ntlmc.Challenge) []ntlmInput {
	var out []ntlmInput
	add := func(class, name string, b []byte) { out = append(out, ntlmInput{Name: name, Class: class, Msg: b}) }
	t1 := ntlmc.Negotiate()
	// type 1 with version and supplied domain/workstation
	t1v := append([]byte{}, t1...)
	binary.LittleEndian.PutUint32(t1v[12:], binary.LittleEndian.Uint32(t1v[12:])|0x02000000|0x1000|0x2000)
	t1v = append(t1v, make([]byte, 8)...)
	for _, base := range [][]byte{t1, t1v} {
		for cut := 0; cut <= len(base); cut++ {
			add("type1-truncated", fmt.Sprintf("len=%d/of=%d", cut, len(base)), base[:cut])
		}
	}
	for mt := uint32(0); mt <= 5; mt++ {
		b := append([]byte{}, t1...)
		binary.LittleEndian.PutUint32(b[8:], mt)
		add("message-type", fmt.Sprintf("type=%d/negotiate-layout", mt), b)
	}
	// every flag bit alone and all flags, on a minimal 16-byte and a 32-byte message
	for bit := 0; bit < 32; bit++ {
		for _, l := range []int{16, 24, 32, 40} {
			b := make([]byte, l)
			copy(b, "NTLMSSP\x00")
			binary.LittleEndian.PutUint32(b[8:], 1)
			binary.LittleEndian.PutUint32(b[12:], 1<<uint(bit))
			add("type1-flags", fmt.Sprintf("bit=%d/len=%d", bit, l), b)
		}
	}
	for _, l := range []int{16, 24, 32, 40} {
		b := make([]byte, l)
		copy(b, "NTLMSSP\x00")
		binary.LittleEndian.PutUint32(b[8:], 1)
		binary.LittleEndian.PutUint32(b[12:], 0xFFFFFFFF)
		add("type1-flags", fmt.Sprintf("all/len=%d", l), b)
	}
	// type 1 security buffers (domain at 16, workstation at 24) with boundary values
	bounds := func(msglen int, tl int) []uint32 {
		return []uint32{0, 1, uint32(tl - 1), uint32(tl + 1), uint32(msglen - 1), uint32(msglen), uint32(msglen + 1), 0x7FFF, 0xFFFF, 1 << 31, 1<<32 - 1, uint32(1<<32 - msglen)}
	}
	for _, fo := range []int{16, 24} {
		for _, v := range bounds(40, 4) {
			for _, which := range []string{"len", "off"} {
				b := make([]byte, 40)
				copy(b, "NTLMSSP\x00")
				binary.LittleEndian.PutUint32(b[8:], 1)
				binary.LittleEndian.PutUint32(b[12:], 0x1000|0x2000|1)
				binary.LittleEndian.PutUint16(b[fo:], 4)
				binary.LittleEndian.PutUint16(b[fo+2:], 4)
				binary.LittleEndian.PutUint32(b[fo+4:], 32)
				if which == "len" {
					binary.LittleEndian.PutUint16(b[fo:], uint16(v))
					binary.LittleEndian.PutUint16(b[fo+2:], uint16(v))
				} else {
					binary.LittleEndian.PutUint32(b[fo+4:], v)
				}
				add("type1-buffer", fmt.Sprintf("field@%d/%s=%d", fo, which, v), b)
			}
		}
	}
	// type 3
	sc := []byte{1, 2, 3, 4, 5, 6, 7, 8}
	var ti []byte
	if ch != nil {
		sc, ti = ch.ServerChallenge, ch.TargetInfo
	}
	t3 := ntlmc.Authenticate(ntlmc.AuthParams{User: "alice", Password: "pw1", ServerChallenge: sc, TargetInfo: ti})
	for cut := 0; cut <= len(t3); cut++ {
		add("type3-truncated", fmt.Sprintf("len=%d/of=%d", cut, len(t3)), t3[:cut])
	}
	for mt := uint32(0); mt <= 5; mt++ {
		b := append([]byte{}, t3...)
		binary.LittleEndian.PutUint32(b[8:], mt)
		add("message-type", fmt.Sprintf("type=%d/authenticate-layout", mt), b)
	}
	_, honest := ntlmc.Type3Fields(nil, nil, nil, nil, nil, nil, 0, nil)
	_ = honest
	key := ntlmc.NTOWFv2("alice", "pw1", "")
	_ = key
	// re-lay out the same type 3 with each security buffer overridden
	lm, nt, dom, usr, ws := t3[64:64+24], []byte(nil), []byte(nil), []byte(nil), []byte(nil)
	{
		// recover the parts from the honest message
		get := func(i int) []byte {
			l := int(binary.LittleEndian.Uint16(t3[12+8*i:]))
			o := int(binary.LittleEndian.Uint32(t3[16+8*i:]))
			return t3[o : o+l]
		}
		lm, nt, dom, usr, ws = get(0), get(1), get(2), get(3), get(4)
	}
	flags := binary.LittleEndian.Uint32(t3[60:])
	for fi := 0; fi < 6; fi++ {
		_, hf := ntlmc.Type3Fields(lm, nt, dom, usr, ws, nil, flags, nil)
		for _, v := range bounds(len(t3), int(hf[fi].Len)) {
			for _, which := range []string{"len", "maxlen", "off"} {
				f := hf[fi]
				switch which {
				case "len":
					f.Len = uint16(v)
				case "maxlen":
					f.MaxLen = uint16(v)
				case "off":
					f.Offset = v
				}
				b, _ := ntlmc.Type3Fields(lm, nt, dom, usr, ws, nil, flags, map[int]ntlmc.Field{fi: f})
				add("type3-buffer", fmt.Sprintf("field=%d/%s=%d", fi, which, v), b)
			}
		}
	}
	// NT response internals: truncated NTLMv2 blob, av pairs with lying lengths
	for cut := 0; cut <= len(nt); cut += 1 {
		b, _ := ntlmc.Type3Fields(lm, nt[:cut], dom, usr, ws, nil, flags, nil)
		add("type3-nt-response", fmt.Sprintf("nt-len=%d", cut), b)
	}
	for _, l := range []uint16{0, 1, 0x7FFF, 0xFFFF} {
		nt2 := append([]byte{}, nt...)
		if len(nt2) >= 48 {
			binary.LittleEndian.PutUint16(nt2[46:], l) // length of the first av pair
		}
		b, _ := ntlmc.Type3Fields(lm, nt2, dom, usr, ws, nil, flags, nil)
		add("type3-nt-response", fmt.Sprintf("avpair-len=%d", l), b)
	}
	for bit := 0; bit < 32; bit++ {
		b, _ := ntlmc.Type3Fields(lm, nt, dom, usr, ws, nil, 1<<uint(bit), nil)
		add("type3-flags", fmt.Sprintf("bit=%d", bit), b)
	}
	out = append(out,
		ntlmInput{Name: "not-base64", Class: "text", RawText: "!!!"},
		ntlmInput{Name: "base64-padding-only", Class: "text", RawText: "===="},
		ntlmInput{Name: "whitespace", Class: "text", RawText: " "},
		ntlmInput{Name: "long", Class: "text", RawText: strings.Repeat("QUJD", 20000)},
	)
	return out
}

func c10NtlmOne(in ntlmInput, withSession bool) (viol, detail string) {
	v := c14NewVerifier()
	call := func(msg string) (pan string) {
		defer func() {
			if x := recover(); x != nil {
				pan = fmt.Sprint(x)
			}
		}()
		v.Authenticate(&auth.NtlmRequest{Session: "10.0.0.1:1111", NtlmMessage: msg})
		return
	}
	if withSession {
		if p := call(base64.StdEncoding.EncodeToString(ntlmc.Negotiate())); p != "" {
			return "panic", "in the honest negotiate: " + p
		}
	}
	msg := in.RawText
	if msg == "" {
		msg = base64.StdEncoding.EncodeToString(in.Msg)
	}
	if p := call(msg); p != "" {
		return "panic", p
	}
	// the verifier must still serve an honest exchange afterwards
	v2r, err := v.Authenticate(&auth.NtlmRequest{Session: "10.0.0.9:9", NtlmMessage: base64.StdEncoding.EncodeToString(ntlmc.Negotiate())})
	if err != nil || v2r.NtlmMessage == "" {
		return "verifier-no-longer-serves", fmt.Sprint(err)
	}
	return "", ""
}

func c10Ntlm(env *Env, rep *Report) int {
	// a real challenge so that the type 3 messages carry plausible target info
	v := c14NewVerifier()
	var ch *ntlmc.Challenge
	if r, err := v.Authenticate(&auth.NtlmRequest{Session: "x", NtlmMessage: base64.StdEncoding.EncodeToString(ntlmc.Negotiate())}); err == nil {
		raw, _ := base64.StdEncoding.DecodeString(r.NtlmMessage)
		ch, _ = ntlmc.ParseChallenge(raw)
	}
	ins := c10NtlmInputs(ch)
	n := 0
	for i, in := range ins {
		for _, ws := range []bool{false, true} {
			if !env.mine(i) {
				continue
			}
			n++
			rep.add("executions", 1)
			vi, d := c10NtlmOne(in, ws)
			rep.outcome(fmt.Sprintf("c ntlm class=%s session=%v verdict=%s", in.Class, ws, vi))
			if vi != "" {
				site := ""
				if strings.Contains(d, "slice bounds") || strings.Contains(d, "index out of range") {
					site = "/bounds"
				}
				rep.violate("C10/ntlm-"+vi+site+"/"+in.Class, fmt.Sprintf("NTLM input %s/%s (session established: %v): %s", in.Class, in.Name, ws, d),
					map[string]any{"engine": "enum", "part": "ntlm", "input": in.Class + "/" + in.Name, "session": ws})
			}
			if n%900 == 1 {
				rep.sample(map[string]any{"part": "c (NTLM)", "input": in.Class + "/" + in.Name, "bytes": len(in.Msg), "with_session": ws, "verdict": vi})
			}
		}
	}
	rep.Notes = append(rep.Notes, fmt.Sprintf("part c: %d NTLM inputs x {no session, after negotiate}", len(ins)))
	return n
}

func c10NtlmReplay(env *Env, rep *Report) {
	name, _ := env.Replay["input"].(string)
	ws, _ := env.Replay["session"].(bool)
	v := c14NewVerifier()
	var ch *ntlmc.Challenge
	if r, err := v.Authenticate(&auth.NtlmRequest{Session: "x", NtlmMessage: base64.StdEncoding.EncodeToString(ntlmc.Negotiate())}); err == nil {
		raw, _ := base64.StdEncoding.DecodeString(r.NtlmMessage)
		ch, _ = ntlmc.ParseChallenge(raw)
	}
	for _, in := range c10NtlmInputs(ch) {
		if in.Class+"/"+in.Name == name {
			vi, d := c10NtlmOne(in, ws)
			fmt.Println("verdict:", vi, d)
			if vi != "" {
				site := ""
				if strings.Contains(d, "slice bounds") || strings.Contains(d, "index out of range") {
					site = "/bounds"
				}
				rep.violate("C10/ntlm-"+vi+site+"/"+in.Class, d, env.Replay)
			}
		}
	}
}
