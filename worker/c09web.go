package main

import (
	"fmt"
	"net/http"
	"os"
	"path/filepath"
	"strconv"
	"strings"
	"time"

	"github.com/bolkedebruin/rdpgw/cmd/rdpgw/protocol"
	"github.com/bolkedebruin/rdpgw/cmd/rdpgw/security"

	"verif/internal/tsgu"
	"verif/shim/vclock"
	"verif/shim/vsched"
)

// C09 driver D7: a connection-file download (web handler) concurrent with a
// tunnel's channel creation (host policy). main() hands the same host list to
// both, so they share memory.
func c09WebRun(prefix []int, rl *raceLog) vsched.RunResult {
	vclock.Reset()
	hosts := []string{"ha.example:3389", "hb.example:3389", "hc.example:3389"}
	app := NewWebApp(WebCfg{Store: "cookie", HostSelection: "roundrobin", Hosts: hosts})
	now := time.Now()
	if _, ok := c13IDTokens["d7"]; !ok {
		c13IDTokens["d7"] = app.IdP.IDToken(map[string]any{"iss": idpIssuer, "aud": "rdpgw", "sub": "alice", "exp": now.Add(time.Hour).Unix(), "iat": now.Unix(), "preferred_username": "alice"}, false)
	}
	app.IdP.Codes["d7"] = CodeBehaviour{AccessToken: "at-alice", IDToken: c13IDTokens["d7"]}
	b := NewBrowser("10.0.0.1:40000")
	rec := b.Do(app, "GET", "/connect")
	b.Do(app, "GET", "/callback?state="+StateOf(rec)+"&code=d7")
	var ccStatus uint32 = 0xFFFFFFFF
	downloads := 0
	x := vsched.Run(prefix, 20000, false, nil, func() {
		w := NewWorld()
		w.Accept = func(string) bool { return true }
		// wired as main.go does, on the host list the web handler also holds
		gw := &protocol.Gateway{TokenAuth: true, CheckPAACookie: TableCookie, CheckHost: security.CheckSession(security.CheckHost)}
		h := http.HandlerFunc(gw.HandleGatewayProtocol)
		done := false
		vsched.GoDaemon("browser", func() {
			for i := 0; i < 2; i++ {
				if r := b.Do(app, "GET", "/connect"); r.Code == 200 {
					downloads++
				}
				vsched.Point("between-downloads", func() bool { return true })
			}
			done = true
		})
		id := NewIdentity("", "10.0.0.1", "10.0.0.1:40000")
		c, ok := w.OpenTunnel("ws", h, gw, "conn-d7", "10.0.0.1:40000", id, nil)
		if ok {
			for _, p := range [][]byte{tsgu.Handshake(1, 0, 0, tsgu.ExtAuthPAA), tsgu.TunnelCreate("ok|hb.example:3389|10.0.0.1|alice", true), tsgu.TunnelAuth("pc"), tsgu.ChannelCreate("hb.example", 3389)} {
				c.SendSegment(p)
				pk := c.RecvPacket()
				if pk == nil {
					break
				}
				ccStatus = tsgu.ParseResp(*pk).Status
			}
			c.CloseClient()
		}
		vsched.Point("join-browser", func() bool { return done })
	})
	races := rl.drain()
	var v []vsched.Violation
	for _, r := range races {
		v = append(v, vsched.Violation{Sig: "C09/race/" + r.Sig, Detail: "race-files=C09/race-files/" + r.Files + "\nD7-download-vs-channel-create\n" + r.Text})
		if replaying {
			v = append(v, vsched.Violation{Sig: "C09/race-files/" + r.Files, Detail: r.Text})
		}
	}
	for _, p := range x.Panics() {
		v = append(v, vsched.Violation{Sig: "C09/panic/" + shortFn(panicSite(p)) + "/D7", Detail: p.Value})
	}
	if ccStatus != 0 {
		v = append(v, vsched.Violation{Sig: "C09/allowed-host-refused-while-a-file-is-downloaded/D7", Detail: fmt.Sprintf("channel create for a configured host answered %#x", ccStatus)})
	}
	x.Finish()
	rl.drain()
	return vsched.RunResult{X: x, Outcome: fmt.Sprintf("D7 cc=%#x downloads=%d", ccStatus, downloads), Violations: v}
}

func c09Web(env *Env, rep *Report, rl *raceLog, bound int) {
	c09WebExplore(env, rep, rl, bound, "D7-download-vs-channel-create", c09WebRun)
	c09WebExplore(env, rep, rl, bound, "D10-two-downloads-with-template", c09Web2Run)
}

func c09WebExplore(env *Env, rep *Report, rl *raceLog, bound int, name string, c09WebRun func([]int, *raceLog) vsched.RunResult) {
	curScenario = name
	a, bb := c09WebRun(nil, rl), c09WebRun(nil, rl)
	if a.Outcome != bb.Outcome {
		infra("%s is not deterministic under replay: %q vs %q", name, a.Outcome, bb.Outcome)
	}
	a.Violations = append(a.Violations, bb.Violations...)
	first := true
	ex := &vsched.Explorer{Bound: bound, Shard: env.Shard, NShards: env.NShards, Deadline: env.Deadline, RunOne: func(p []int) vsched.RunResult {
		if first && len(p) == 0 {
			first = false
			return a
		}
		return c09WebRun(p, rl)
	}}
	if err := ex.Explore(); err != nil {
		infra("%s: %v", name, err)
	}
	rep.add("executions", int64(ex.Execs))
	rep.add("transitions", int64(ex.Steps))
	rep.add("states", int64(ex.Steps))
	for o, n := range ex.Outcomes {
		if rep.OutcomeSet == nil {
			rep.OutcomeSet = map[string]int64{}
		}
		rep.OutcomeSet[o] += int64(n)
	}
	for _, sig := range ex.FoundOrder {
		f := ex.Found[sig]
		rp := map[string]any{"engine": "vsched", "scenario": name, "choices": f.Choices}
		if len(f.Detail) > 11 && f.Detail[:11] == "race-files=" {
			for i := 11; i < len(f.Detail); i++ {
				if f.Detail[i] == '\n' {
					rp["alt_sig"] = f.Detail[11:i]
					break
				}
			}
			rp["min_repro"] = 1
		}
		rep.violate(f.Sig, f.Detail, rp)
	}
	if env.Shard == 0 {
		rep.sample(map[string]any{"scenario": name, "executions_this_shard": ex.Execs, "default_schedule_outcome": a.Outcome})
	}
}

// C09 driver D10: two logged-in browsers download their connection files at the same time from a gateway that
// has an .rdp template configured (Client.Defaults): whatever the handler keeps between requests is shared.
func c09TemplateFile() string {
	f := filepath.Join(scratch(), "template.rdp")
	os.WriteFile(f, []byte("audiomode:i:2\r\nkeyboardhook:i:1\r\nscreen mode id:i:1\r\n"), 0o644)
	return f
}

func c09Web2Run(prefix []int, rl *raceLog) vsched.RunResult {
	vclock.Reset()
	hosts := []string{"ha.example:3389", "hb.example:3389"}
	app := NewWebApp(WebCfg{Store: "cookie", HostSelection: "roundrobin", Hosts: hosts, TemplateFile: c09TemplateFile()})
	now := time.Now()
	var bs []*Browser
	for i, u := range []string{"alice", "bob"} {
		key := "d10-" + u
		if _, ok := c13IDTokens[key]; !ok {
			c13IDTokens[key] = app.IdP.IDToken(map[string]any{"iss": idpIssuer, "aud": "rdpgw", "sub": u, "exp": now.Add(time.Hour).Unix(), "iat": now.Unix(), "preferred_username": u}, false)
		}
		app.IdP.Codes[key] = CodeBehaviour{AccessToken: "at-" + u, IDToken: c13IDTokens[key]}
		b := NewBrowser(fmt.Sprintf("10.0.0.%d:40000", i+1))
		rec := b.Do(app, "GET", "/connect")
		b.Do(app, "GET", "/callback?state="+StateOf(rec)+"&code="+key)
		bs = append(bs, b)
	}
	files := make([][]string, 2)
	x := vsched.Run(prefix, 20000, false, nil, func() {
		NewWorld()
		done := 0
		for i := range bs {
			i := i
			vsched.Go("browser-"+strconv.Itoa(i), func() {
				for k := 0; k < 2; k++ {
					vsched.Point("before-download", func() bool { return true })
					if r := bs[i].Do(app, "GET", "/connect"); r.Code == 200 {
						files[i] = append(files[i], r.Body.String())
					} else {
						files[i] = append(files[i], fmt.Sprintf("status %d", r.Code))
					}
				}
				done++
			})
		}
		vsched.Point("join-browsers", func() bool { return done == 2 })
	})
	races := rl.drain()
	var v []vsched.Violation
	for _, r := range races {
		v = append(v, vsched.Violation{Sig: "C09/race/" + r.Sig, Detail: "race-files=C09/race-files/" + r.Files + "\nD10-two-downloads-with-template\n" + r.Text})
		if replaying {
			v = append(v, vsched.Violation{Sig: "C09/race-files/" + r.Files, Detail: r.Text})
		}
	}
	for _, p := range x.Panics() {
		v = append(v, vsched.Violation{Sig: "C09/panic/" + shortFn(panicSite(p)) + "/D10", Detail: p.Value})
	}
	ok := 0
	for i, u := range []string{"alice", "bob"} {
		for _, f := range files[i] {
			if strings.Contains(f, "username:s:"+u) && strings.Contains(f, "audiomode:i:2") && tokenClaims(rdpValue(f, "gatewayaccesstoken"))["sub"] == u {
				ok++
			} else {
				v = append(v, vsched.Violation{Sig: "C09/connection-file-of-one-session-mixed-with-another/D10", Detail: fmt.Sprintf("file for %s: %.300q", u, f)})
			}
		}
	}
	x.Finish()
	rl.drain()
	return vsched.RunResult{X: x, Outcome: fmt.Sprintf("D10 good-files=%d", ok), Violations: v}
}
