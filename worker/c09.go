package main

import (
	"bytes"
	"fmt"
	"strings"

	"verif/shim/vsched"
)

// C09 — no data races, no interleaved writes, no concurrent-write aborts.

func init() { props["C09"] = c09 }

func c09Scenarios() []ConcScenario {
	chunks := [][]byte{[]byte("<backend-chunk-1>"), []byte("<backend-chunk-2>")}
	t := func(kind, id, ip, host string, script ...string) TunnelPlan {
		return TunnelPlan{Kind: kind, ConnID: id, User: "user-" + id, IP: ip, Host: host, Script: script, Chunks: chunks}
	}
	var out []ConcScenario
	for _, k := range []string{"ws", "legacy"} {
		out = append(out,
			ConcScenario{Name: "D1-two-tunnels-" + k, Deviation: true, Plans: []TunnelPlan{
				{Kind: k, ConnID: "A", User: "ua", IP: "10.0.0.1", Host: "ha.example:3389", StopAt: "ta", Script: []string{"drop"}},
				{Kind: k, ConnID: "B", User: "ub", IP: "10.0.0.2", Host: "hb.example:3389", StopAt: "ta", Script: []string{"drop"}}}},
			ConcScenario{Name: "D2-traffic-close-" + k, Plans: []TunnelPlan{t(k, "A", "10.0.0.1", "ha.example:3389", "data:x", "ka", "close", "drain")}},
			ConcScenario{Name: "D3-traffic-error-" + k, Plans: []TunnelPlan{t(k, "A", "10.0.0.1", "ha.example:3389", "data:x", "bad", "drain")}},
			ConcScenario{Name: "D4-drop-while-sending-" + k, Plans: []TunnelPlan{t(k, "A", "10.0.0.1", "ha.example:3389", "drop")}},
			ConcScenario{Name: "D6-negative-idle-" + k, Deviation: true, NegIdle: true, Plans: []TunnelPlan{
				{Kind: k, ConnID: "A", User: "ua", IP: "10.0.0.1", Host: "ha.example:3389", StopAt: "ta", Script: []string{"idle", "drop"}},
				{Kind: k, ConnID: "B", User: "ub", IP: "10.0.0.2", Host: "hb.example:3389", StopAt: "ta", Script: []string{"idle", "drop"}}}},
		)
	}
	// D8: two legacy tunnels with back-to-back traffic on connections that deliver one write per read
	out = append(out, ConcScenario{Name: "D8-two-legacy-back-to-back", Deviation: true, Segmented: true, RoundRobin: true, Plans: []TunnelPlan{
		{Kind: "legacy", ConnID: "A", User: "ua", IP: "10.0.0.1", Host: "ha.example:3389", Script: []string{"data:[A-1]", "data:[A-2]", "data:[A-3]", "idle"}},
		{Kind: "legacy", ConnID: "B", User: "ub", IP: "10.0.0.2", Host: "hb.example:3389", Script: []string{"data:[B-1]", "data:[B-2]", "data:[B-3]", "idle"}}}})
	// D11: websocket PING control frames from the client while the host is sending (the pong is written by the
	// goroutine that reads, the data by the relay goroutine)
	out = append(out, ConcScenario{Name: "D11-ws-pings-while-host-sends", Plans: []TunnelPlan{
		{Kind: "ws", ConnID: "A", User: "ua", IP: "10.0.0.1", Host: "ha.example:3389", Script: []string{"data:[A-1]", "ping", "recvbytes:14", "ping", "ping", "recvbytes:14", "drop"}, Chunks: [][]byte{[]byte("<host-chunk-1>"), []byte("<host-chunk-2>")}}}})
	// D12: the host has 64 KiB + 1 queued when the relay goroutine reads (a burst while the client is busy): the
	// packets written to the client stay well-formed
	out = append(out, ConcScenario{Name: "D12-ws-host-burst-64k", MaxSteps: 20000, Plans: []TunnelPlan{
		{Kind: "ws", ConnID: "A", User: "ua", IP: "10.0.0.1", Host: "ha.example:3389", Script: []string{"data:[A-1]", "recvbytes:65537", "drop"}, Chunks: [][]byte{bytes.Repeat([]byte("h"), 65537)}}}})
	// D9: two tunnels whose real tokens are verified by the real security callbacks at the same time
	out = append(out, ConcScenario{Name: "D9-two-ws-real-tokens", Deviation: true, RoundRobin: true, RealCookie: true, Plans: []TunnelPlan{
		{Kind: "ws", ConnID: "A", User: "ua", IP: "10.0.0.1", Host: "ha.example:3389", Script: []string{"data:[A-1]", "drop"}},
		{Kind: "ws", ConnID: "B", User: "ub", IP: "10.0.0.2", Host: "hb.example:3389", Script: []string{"data:[B-1]", "drop"}}}})
	out = append(out,
		ConcScenario{Name: "D5-legacy-in-out-concurrent", Plans: []TunnelPlan{
			{Kind: "legacy", ConnID: "A", User: "ua", IP: "10.0.0.1", Host: "ha.example:3389", SplitLegacy: true, StopAt: "hs", Script: []string{"drop"}}}},
		ConcScenario{Name: "D5-legacy-in-first", Plans: []TunnelPlan{
			{Kind: "legacy", ConnID: "A", User: "ua", IP: "10.0.0.1", Host: "ha.example:3389", InFirst: true, StopAt: "hs", Script: []string{"drop"}}}},
	)
	return out
}

// c09Check is the per-execution oracle.
func c09Check(sc ConcScenario) func(res *ConcResult, races []RaceReport) (string, []vsched.Violation) {
	return func(res *ConcResult, races []RaceReport) (string, []vsched.Violation) {
		var v []vsched.Violation
		var out strings.Builder
		for _, r := range races {
			v = append(v, vsched.Violation{Sig: "C09/race/" + r.Sig, Detail: "race-files=C09/race-files/" + r.Files + "\n" + sc.Name + "\n" + r.Text})
			if replaying {
				v = append(v, vsched.Violation{Sig: "C09/race-files/" + r.Files, Detail: r.Text})
			}
			// not part of the outcome: the race runtime reports each pair of stacks once per process
		}
		for _, p := range res.X.Panics() {
			site := panicSite(p)
			val := p.Value
			if len(val) > 60 {
				val = val[:60]
			}
			v = append(v, vsched.Violation{Sig: "C09/panic/" + shortFn(site) + "/" + val, Detail: fmt.Sprintf("%s: thread %s panicked: %s\n%s", sc.Name, p.Name, p.Value, firstLines(p.Stack, 30))})
			fmt.Fprintf(&out, "panic(%s) ", val)
		}
		for i, t := range res.Tunnels {
			if t.StreamErr != "" {
				v = append(v, vsched.Violation{Sig: "C09/corrupt-client-stream/" + sc.Name, Detail: fmt.Sprintf("tunnel %d: %s", i, t.StreamErr)})
			}
			var sent []byte
			for _, op := range t.Plan.Script {
				if strings.HasPrefix(op, "data:") {
					sent = append(sent, op[5:]...)
				}
			}
			if !bytes.HasPrefix(sent, t.BackendGot) {
				v = append(v, vsched.Violation{Sig: "C09/host-stream-not-a-prefix-of-what-its-client-sent/" + sc.Name, Detail: fmt.Sprintf("tunnel %d: host received %q, its client sent %q", i, t.BackendGot, sent)})
			}
			want := bytes.Join(t.Plan.Chunks, nil)
			if !bytes.HasPrefix(want, t.ClientData) {
				v = append(v, vsched.Violation{Sig: "C09/relay-not-a-prefix/" + sc.Name, Detail: fmt.Sprintf("tunnel %d: client received %q, host sent %q", i, t.ClientData, want)})
			}
			fmt.Fprintf(&out, "t%d[%s data=%d %s %s] ", i, strings.Join(t.Resps, ","), len(t.ClientData), t.StreamErr, t.SetupFailed)
		}
		return out.String(), v
	}
}

func firstLines(s string, n int) string {
	l := strings.Split(s, "\n")
	if len(l) > n {
		l = l[:n]
	}
	return strings.Join(l, "\n")
}

var replaying bool

func c09(env *Env, rep *Report) {
	replaying = env.Replay != nil
	rl := newRaceLog()
	scs := c09Scenarios()
	var names []string
	for _, s := range scs {
		names = append(names, s.Name)
	}
	rep.Rule = "all thread schedules (client(s), real HTTP handler(s), the gateway's relay goroutine, backend(s)) of the drivers " + strings.Join(names, ", ") +
		" and D7 (a connection-file download concurrent with a tunnel's channel creation, host list shared as main.go shares it), D8 (two legacy tunnels, back-to-back traffic, one write per read, lockstep default schedule), D12 (a 64 KiB + 1 burst of the host), D11 (websocket PING frames while the host sends), D10 (two logged-in browsers downloading at the same time from a gateway with an .rdp template), D9 (two websocket tunnels whose real tokens are verified by the real security callbacks, the identity-provider round trip being a scheduling point) up to the preemption / deviation bound, on the real handlers over in-memory connections; oracle per schedule: no race report from the race runtime (race build, hand-off invisible to it), " +
		"client byte stream decodes into whole well-formed packets whose data payloads are a prefix of what the host sent, no panic in any thread. distinct_nontrivial = distinct per-schedule observations."
	if env.thorough() {
		rep.Rule += " Thorough tier: every driver is first explored completely with the bounds of the quick tier, then again with the full bounds for as long as the time budget lasts (caps_hit names what the budget cut)."
	}
	rep.Assumptions = append(rep.Assumptions,
		"scheduling points are the blocking operations and every Write/Close on a connection, dial, spawn, lock/unlock; a single Write is atomic (as in Go's network layer)",
		"the race runtime keeps a bounded access history per word (executions are a few hundred steps)",
		fmt.Sprintf("race build: %v", vsched.RaceEnabled))
	bound := 1
	if env.thorough() {
		bound = 2
	}
	rep.Bounds = map[string]any{"preemption_bound": bound, "race_build": vsched.RaceEnabled}
	if env.Replay != nil {
		name, _ := env.Replay["scenario"].(string)
		if name == "D7-download-vs-channel-create" || name == "D10-two-downloads-with-template" {
			var prefix []int
			if cs, ok := env.Replay["choices"].([]any); ok {
				for _, c := range cs {
					if f, ok := c.(float64); ok {
						prefix = append(prefix, int(f))
					}
				}
			}
			run := c09WebRun
			if name == "D10-two-downloads-with-template" {
				run = c09Web2Run
			}
			r := run(prefix, rl)
			fmt.Println("outcome:", r.Outcome)
			for _, v := range r.Violations {
				rep.violate(v.Sig, v.Detail, env.Replay)
			}
			return
		}
		for _, sc := range scs {
			if sc.Name == name {
				replayConc(rep, sc, env.Replay, rl, c09Check(sc))
			}
		}
		return
	}
	// thorough: every driver first with the bounds of the quick tier (complete within minutes), then again with
	// the full bounds for as long as the time budget lasts, so that no driver is left unexplored because an
	// earlier one used up the budget
	boundsOf := func(sc ConcScenario, thorough bool) int {
		b := 1
		if thorough {
			b = bound
		}
		if sc.Deviation {
			b = 2
			if thorough {
				b = 3
			}
		}
		if strings.HasPrefix(sc.Name, "D12") && !thorough {
			b = 0 // 17 packets of 4086 bytes: the default schedule in quick, bound 1 in thorough
		}
		return b
	}
	passes := []bool{env.thorough()}
	if env.thorough() {
		passes = []bool{false, true}
	}
	for _, full := range passes {
		for _, sc := range scs {
			if env.Part != "" && !strings.Contains(sc.Name, env.Part) {
				continue
			}
			b := boundsOf(sc, full)
			if full && len(passes) == 2 && b == boundsOf(sc, false) {
				continue
			}
			exploreConc(env, rep, sc, b, rl, c09Check(sc))
		}
	}
	if env.Part == "" || strings.Contains("D7-download-vs-channel-create", env.Part) {
		c09Web(env, rep, rl, bound)
	}
	rep.add("race_reports_without_stack", int64(raceUnattributed))
}

// panicSite names the innermost frame of the code under test on a panic's stack.
func panicSite(p vsched.ThreadPanic) string {
	if s := p.Site("bolkedebruin/rdpgw/"); s != "" {
		return s
	}
	return p.Site("github.com/", "golang.org/")
}
