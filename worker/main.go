// Command worker explores one property (or one shard of it) against the real
// rdpgw code, built from /repo's working tree with the verif overlay, and writes
// a JSON report. It never decides exit status for the property: the driver
// (cmd/verif) merges shards, matches known findings and prints VIOLATION lines.
package main

import (
	"verif/shim/vsched"
	"encoding/json"
	"flag"
	"fmt"
	"io"
	"log"
	"os"
	"runtime"
	"sort"
	"strconv"
	"strings"
	"time"
)

// ViolationOut is one de-duplicated violation.
type ViolationOut struct {
	Sig    string         `json:"sig"`
	Detail string         `json:"detail"`
	Count  int            `json:"count"`
	Replay map[string]any `json:"replay"`
}

// Report is what one worker shard produces.
type Report struct {
	Property    string           `json:"property"`
	Tier        string           `json:"tier"`
	Shard       int              `json:"shard"`
	NShards     int              `json:"nshards"`
	Stats       map[string]int64 `json:"stats"`
	OutcomeSet  map[string]int64 `json:"outcome_set"`
	Samples     []any            `json:"samples"`
	Violations  []ViolationOut   `json:"violations"`
	Exhaustive  bool             `json:"exhaustive"`
	Capped      []string         `json:"capped"`
	Notes       []string         `json:"notes"`
	Rule        string           `json:"rule"`
	Assumptions []string         `json:"assumptions"`
	Bounds      map[string]any   `json:"bounds"`
	WallS       float64          `json:"wall_s"`
	InfraError  string           `json:"infra_error,omitempty"`

	vidx map[string]int
}

func (r *Report) add(stat string, n int64) {
	if r.Stats == nil {
		r.Stats = map[string]int64{}
	}
	r.Stats[stat] += n
}

func (r *Report) outcome(o string) {
	if r.OutcomeSet == nil {
		r.OutcomeSet = map[string]int64{}
	}
	if len(o) > 200 {
		o = o[:200]
	}
	r.OutcomeSet[o]++
}

func (r *Report) violate(sig, detail string, replay map[string]any) {
	if r.vidx == nil {
		r.vidx = map[string]int{}
	}
	if i, ok := r.vidx[sig]; ok {
		r.Violations[i].Count++
		return
	}
	r.vidx[sig] = len(r.Violations)
	r.Violations = append(r.Violations, ViolationOut{Sig: sig, Detail: detail, Count: 1, Replay: replay})
}

func (r *Report) sample(s any) {
	if len(r.Samples) < 6 {
		r.Samples = append(r.Samples, s)
	}
}

func (r *Report) capf(format string, a ...any) {
	r.Capped = append(r.Capped, fmt.Sprintf(format, a...))
	r.Exhaustive = false
}

// Env is the invocation context handed to a property.
type Env struct {
	Tier     string
	Shard    int
	NShards  int
	Seed     int64
	Deadline time.Time
	Replay   map[string]any
	Verbose  bool
	Part     string
}

func (e *Env) mine(k int) bool { return e.NShards <= 1 || k%e.NShards == e.Shard }
func (e *Env) thorough() bool  { return e.Tier == "thorough" }
func (e *Env) expired() bool   { return !e.Deadline.IsZero() && time.Now().After(e.Deadline) }

type propFunc func(env *Env, rep *Report)

var props = map[string]propFunc{}

func main() {
	vsched.MainStarted = true
	prop := flag.String("prop", "", "property id")
	tier := flag.String("tier", "quick", "quick|thorough")
	shard := flag.String("shard", "0/1", "i/n")
	seed := flag.Int64("seed", 0, "seed (only rotates sample selection)")
	out := flag.String("out", "", "report file")
	replay := flag.String("replay", "", "replay file")
	budget := flag.Duration("budget", 0, "wall-clock budget; a run that hits it reports exhaustive:false")
	verbose := flag.Bool("v", false, "verbose")
	part := flag.String("part", "", "run only one part of a property (debugging)")
	coldrun := flag.String("coldrun", "", "child mode: one cold-start execution (property|scenario|schedule prefix)")
	confload := flag.String("confload", "", "child mode: run config.Load on the file and print the effective configuration as JSON (exit status 1 = refused)")
	flag.Parse()
	if *confload != "" {
		confLoadChild(*confload)
		return
	}
	if *coldrun != "" {
		runtime.GOMAXPROCS(1)
		log.SetOutput(io.Discard)
		coldChild(*coldrun)
		return
	}
	runtime.GOMAXPROCS(1)
	// the sandbox has no memory limit: a search that explodes must end this process, not the machine
	go func() {
		var ms runtime.MemStats
		for {
			time.Sleep(2 * time.Second)
			runtime.ReadMemStats(&ms)
			if ms.HeapAlloc > 20<<30 {
				fmt.Fprintf(os.Stderr, "verif worker: heap grew to %d MiB (scenario %q): giving up\n", ms.HeapAlloc>>20, curScenario)
				os.Exit(3)
			}
		}
	}()
	if !*verbose {
		log.SetOutput(io.Discard)
	}
	f, ok := props[*prop]
	if !ok {
		var ids []string
		for k := range props {
			ids = append(ids, k)
		}
		sort.Strings(ids)
		fmt.Fprintf(os.Stderr, "unknown property %q; have %v\n", *prop, ids)
		os.Exit(2)
	}
	env := &Env{Tier: *tier, Seed: *seed, Verbose: *verbose, NShards: 1, Part: *part}
	if p := strings.Split(*shard, "/"); len(p) == 2 {
		env.Shard, _ = strconv.Atoi(p[0])
		env.NShards, _ = strconv.Atoi(p[1])
	}
	workerShard = env.Shard
	if *budget > 0 {
		env.Deadline = time.Now().Add(*budget)
	}
	if *replay != "" {
		b, err := os.ReadFile(*replay)
		if err != nil {
			fmt.Fprintln(os.Stderr, err)
			os.Exit(2)
		}
		var doc struct {
			Replay map[string]any `json:"replay"`
		}
		if err := json.Unmarshal(b, &doc); err != nil || doc.Replay == nil {
			fmt.Fprintln(os.Stderr, "bad replay file", err)
			os.Exit(2)
		}
		env.Replay = doc.Replay
	}
	rep := &Report{Property: *prop, Tier: *tier, Shard: env.Shard, NShards: env.NShards, Exhaustive: true}
	t0 := time.Now()
	// a gateway goroutine that loops without ever reaching a scheduling point cannot be preempted or ended by
	// the cooperative scheduler: report it (it is a busy loop in the code under test) and stop this worker
	vsched.OnStuck = func(thread, last, stacks string) {
		gw := ""
		for _, blk := range strings.Split(stacks, "\n\n") {
			if strings.Contains(blk, "[running]") || strings.Contains(blk, "[runnable]") {
				if i := strings.Index(blk, "github.com/bolkedebruin/rdpgw/"); i >= 0 {
					j := strings.IndexByte(blk[i:], '\n')
					gw = shortFn(strings.TrimSpace(blk[i : i+j]))
					if k := strings.Index(gw, "("); k > 0 {
						gw = gw[:k]
					}
					break
				}
			}
		}
		name := strings.SplitN(thread, "-", 2)[0]
		rep.violate(*prop+"/goroutine-spins-without-reaching-a-scheduling-point:"+name+"/"+curScenario,
			fmt.Sprintf("thread %s ran for more than %v after its scheduling point %q without reaching another one (innermost gateway frame: %s): a loop without I/O, locking or channel operations", thread, vsched.StuckAfter, last, gw),
			map[string]any{"noreplay": true})
		rep.capf("stopped at a busy loop in scenario %s", curScenario)
		rep.WallS = time.Since(t0).Seconds()
		b, _ := json.MarshalIndent(rep, "", " ")
		if *out != "" {
			os.WriteFile(*out, b, 0o644)
		} else {
			os.Stdout.Write(b)
		}
		os.Exit(0)
	}
	func() {
		defer func() {
			if r := recover(); r != nil {
				if ie, ok := r.(infraErr); ok {
					rep.InfraError = string(ie)
					return
				}
				panic(r)
			}
		}()
		if env.Replay != nil && (replayFine(env, rep, *prop) || replayConcExtra(env, rep, *prop)) {
			return
		}
		f(env, rep)
		if env.Replay == nil {
			if n := exploreFine(env, rep, *prop); n > 0 {
				rep.add("statement_level_concurrency_executions", int64(n))
			}
			if n := runConcExtras(env, rep, *prop); n > 0 {
				rep.add("shared_concurrency_scenarios_executions", int64(n))
			}
		}
	}()
	rep.WallS = time.Since(t0).Seconds()
	b, _ := json.MarshalIndent(rep, "", " ")
	if *out != "" {
		if err := os.WriteFile(*out, b, 0o644); err != nil {
			fmt.Fprintln(os.Stderr, err)
			os.Exit(2)
		}
	} else {
		os.Stdout.Write(b)
		fmt.Println()
	}
	if rep.InfraError != "" {
		fmt.Fprintln(os.Stderr, "infrastructure error:", rep.InfraError)
		os.Exit(2)
	}
}

// curScenario names what is being executed (for reports made from outside the scenario code).
var curScenario string

type infraErr string

func infra(format string, a ...any) { panic(infraErr(fmt.Sprintf(format, a...))) }
