//go:build verifoverlay

package main

import (
	ws "github.com/gorilla/websocket"

	"verif/shim/vsched"
)

// Built only together with the overlay (tag verifoverlay, set by the driver): the overlaid gorilla/websocket takes
// its write mutex (a one-slot channel) through these two functions, which make it a scheduling point.
func init() {
	ws.VerifMuLock = func(mu chan struct{}) { vsched.ChanRecv(mu) }
	ws.VerifMuUnlock = func(mu chan struct{}) { vsched.ChanSend(mu, struct{}{}) }
}
