package main

import (
	"bufio"
	"encoding/json"
	"fmt"
	"net"
	"net/http"
	"os"
	"strconv"
	"strings"
	"sync"
	"time"

	"github.com/bolkedebruin/rdpgw/cmd/rdpgw/protocol"

	"verif/internal/tsgu"
)

// Binding runs: the same oracles against the real rdpgw binary, to bind the
// callback / configuration wiring of cmd/rdpgw/main.go, which the in-process
// checks replicate (worker/world.go NewGateway, worker/webapp.go) and would
// therefore not see change.

type hitListener struct {
	mu        sync.Mutex
	echo      bool
	flood     bool // write as fast as the gateway takes it
	linger    bool // keep the connection open after the gateway's end-of-stream (a host that does not hang up by itself)
	lingering []net.Conn
	nwritten  int64
	nopen     int
	hits      int
	got       []byte
	l         net.Listener
}

func listenBackend(ip string, port int) *hitListener {
	l, err := net.Listen("tcp", ip+":"+strconv.Itoa(port))
	if err != nil {
		return nil
	}
	h := &hitListener{l: l}
	go func() {
		for {
			c, err := l.Accept()
			if err != nil {
				return
			}
			h.mu.Lock()
			h.hits++
			h.nopen++
			flood := h.flood
			h.mu.Unlock()
			if flood {
				go func() {
					blk := make([]byte, 32768)
					for {
						n, err := c.Write(blk)
						h.mu.Lock()
						h.nwritten += int64(n)
						h.mu.Unlock()
						if err != nil {
							return
						}
					}
				}()
			}
			go func() {
				buf := make([]byte, 4096)
				for {
					n, err := c.Read(buf)
					h.mu.Lock()
					h.got = append(h.got, buf[:n]...)
					echo := h.echo
					h.mu.Unlock()
					if echo && n > 0 {
						c.Write(buf[:n])
					}
					if err != nil {
						h.mu.Lock()
						linger := h.linger
						h.mu.Unlock()
						if linger {
							// the host does not react to the half-close: only the gateway closing its socket
							// ends this connection (the listener's stop closes what is left)
							h.mu.Lock()
							h.lingering = append(h.lingering, c)
							h.mu.Unlock()
							return
						}
						c.Close()
						h.mu.Lock()
						h.nopen--
						h.mu.Unlock()
						return
					}
				}
			}()
		}
	}()
	return h
}

func (h *hitListener) written() int64 { h.mu.Lock(); defer h.mu.Unlock(); return h.nwritten }
func (h *hitListener) open() int      { h.mu.Lock(); defer h.mu.Unlock(); return h.nopen }

func (h *hitListener) setEcho(e bool) { h.mu.Lock(); h.echo = e; h.mu.Unlock() }
func (h *hitListener) Hits() int      { h.mu.Lock(); defer h.mu.Unlock(); return h.hits }

// waitHits waits (bounded) until the listener saw n connections.
func (h *hitListener) waitHits(n int) bool {
	for i := 0; i < 400; i++ {
		if h.Hits() >= n {
			return true
		}
		time.Sleep(5 * time.Millisecond)
	}
	return false
}

// bindEncKey is configured as Security.PAATokenEncryptionKey: a second 32-character secret of the
// configuration that is NOT the signing key.
const bindEncKey = "fedcba9876543210fedcba9876543210"

type bindGW struct {
	g     *GwProc
	idp   *IdP
	bport int
	be    map[string]*hitListener // by loopback ip
}

type bindOpts struct {
	Selection string
	Hosts     []string // "" = the two loopback backends
	Caps      string   // extra lines under Caps:
	Security  string   // extra lines under Security:
	Client    string   // extra lines under Client:
	Server    string   // extra lines under Server:
}

func startBind(o bindOpts) *bindGW {
	b := &bindGW{idp: LoopbackIdP(), be: map[string]*hitListener{}}
	for try := 0; try < 30; try++ {
		b.bport = freePort()
		ok := true
		for _, ip := range []string{"127.0.0.2", "127.0.0.3"} {
			h := listenBackend(ip, b.bport)
			if h == nil {
				ok = false
				break
			}
			b.be[ip] = h
		}
		if ok {
			break
		}
		for _, h := range b.be {
			h.l.Close()
		}
		b.be = map[string]*hitListener{}
	}
	if len(b.be) != 2 {
		infra("cannot listen on 127.0.0.2 / 127.0.0.3")
	}
	port := freePort()
	sel := o.Selection
	if sel == "" {
		sel = "roundrobin"
	}
	hosts := o.Hosts
	if hosts == nil {
		hosts = []string{"127.0.0.2:" + strconv.Itoa(b.bport)}
	}
	var sb strings.Builder
	fmt.Fprintf(&sb, "Server:\n Port: %d\n GatewayAddress: gw.example:%d\n Tls: disable\n HostSelection: %s\n Authentication:\n  - openid\n Hosts:\n", port, port, sel)
	for _, h := range hosts {
		fmt.Fprintf(&sb, "  - %q\n", strings.ReplaceAll(h, "PORT", strconv.Itoa(b.bport)))
	}
	sb.WriteString(o.Server)
	fmt.Fprintf(&sb, "OpenId:\n ProviderUrl: %q\n ClientId: rdpgw\n ClientSecret: secret\n", b.idp.Issuer)
	sb.WriteString("Caps:\n TokenAuth: true\n" + o.Caps)
	sb.WriteString("Security:\n PAATokenSigningKey: " + c02Key + "\n PAATokenEncryptionKey: " + bindEncKey + "\n QueryTokenSigningKey: " + c12QueryKey + "\n" + o.Security)
	if o.Client != "" {
		sb.WriteString("Client:\n" + o.Client)
	}
	b.g = StartGateway(sb.String(), nil, port, false)
	if !b.g.Alive() {
		infra("binding run: gateway did not start: %s", tail(b.g.Log(), 500))
	}
	return b
}

func (b *bindGW) stop() {
	b.g.Stop()
	for _, h := range b.be {
		h.l.Close()
	}
}

// wsSess is a websocket tunnel on the real binary.
type wsSess struct {
	c  net.Conn
	br *bufio.Reader
	tc *TunnelClient
}

func (b *bindGW) openWS(fromIP string, headers []string) (*wsSess, int) {
	c, err := b.g.DialFrom(fromIP)
	if err != nil {
		return nil, 0
	}
	c.SetDeadline(time.Now().Add(15 * time.Second))
	hs := append([]string{"Connection: Upgrade", "Upgrade: websocket", "Sec-WebSocket-Version: 13", "Sec-WebSocket-Key: dGhlIHNhbXBsZSBub25jZQ==", "Rdg-Connection-Id: bind"}, headers...)
	c.Write([]byte(BuildRequest("RDG_OUT_DATA", "/remoteDesktopGateway/", hs)))
	br := bufio.NewReader(c)
	r := ReadResponse(br)
	if r.Status != 101 {
		c.Close()
		return nil, r.Status
	}
	return &wsSess{c: c, br: br, tc: &TunnelClient{Kind: "ws"}}, 101
}

// send writes one packet and returns the next packet from the gateway (nil when the stream ends or nothing arrives within the deadline).
func (s *wsSess) send(p []byte, wait time.Duration) *tsgu.Pkt {
	s.c.Write(wsFrame(2, true, p))
	s.c.SetReadDeadline(time.Now().Add(wait))
	buf := make([]byte, 1<<16)
	for {
		s.tc.deframe()
		if pk := s.tc.NewPackets(); len(pk) > 0 {
			return &pk[0]
		}
		if s.tc.Closed {
			return nil
		}
		n, err := s.br.Read(buf)
		s.tc.rbuf = append(s.tc.rbuf, buf[:n]...)
		if err != nil {
			s.tc.deframe()
			if pk := s.tc.NewPackets(); len(pk) > 0 {
				return &pk[0]
			}
			return nil
		}
	}
}

func (s *wsSess) close() { s.c.Close() }

// status runs packets in order; returns the status of each answered packet (0xFFFFFFFF = not answered).
func (s *wsSess) statuses(pkts ...[]byte) []uint32 {
	var out []uint32
	for _, p := range pkts {
		pk := s.send(p, 5*time.Second)
		if pk == nil {
			out = append(out, 0xFFFFFFFF)
			return out
		}
		out = append(out, tsgu.ParseResp(*pk).Status)
	}
	return out
}

// bindLogin logs in from the given local address and returns the file, the token and the client.
func (b *bindGW) login(user string) (*gwClient, string, string, string) {
	c := newGwClient(b.g)
	file, why := c.login(b.idp, user)
	return c, file, rdpValue(file, "gatewayaccesstoken"), why
}

func tokenClaims(tok string) map[string]any {
	s := strings.Split(tok, ".")
	if len(s) != 3 {
		return nil
	}
	pb, _ := b64.DecodeString(s[1])
	var m map[string]any
	json.Unmarshal(pb, &m)
	return m
}

// bindCore: the authorization sequence, cookie, host and address binding on the real binary (C01..C04, C12).
func bindCore(rep *Report, prop string) {
	viol := func(kind, detail string) {
		rep.violate(prop+"/binary:"+kind, detail, map[string]any{"noreplay": true})
	}
	b := startBind(bindOpts{Hosts: []string{"127.0.0.2:PORT", "127.0.0.3:PORT"}})
	defer b.stop()
	rep.add("executions", 1)
	_, file, tok, why := b.login("alice")
	if why != "" {
		viol("openid-login-failed", why+" | "+tail(b.g.Log(), 300))
		return
	}
	cl := tokenClaims(tok)
	tgt := rdpValue(file, "full address")
	tip := strings.Split(tgt, ":")[0]
	other := "127.0.0.3"
	if tip == "127.0.0.3" {
		other = "127.0.0.2"
	}
	bp := uint16(b.bport)
	hs, ta := tsgu.Handshake(1, 0, 0, tsgu.ExtAuthPAA), tsgu.TunnelAuth("pc")
	tc := tsgu.TunnelCreate(tok, true)
	type probe struct {
		name   string
		from   string
		hdr    []string
		pkts   [][]byte
		want   []uint32 // expected statuses (0xFFFFFFFF not answered, 1 = any non-zero)
		dialTo string   // backend that must be reached ("" = none may be)
	}
	okSeq := [][]byte{hs, tc, ta, tsgu.ChannelCreate(tip, bp)}
	forged := jwsCompact(`{"alg":"HS256","typ":"JWT"}`, mustJSON(cl), "HS256", []byte("ffffffffffffffffffffffffffffffff"))
	underSigning := jwsCompact(`{"alg":"HS256","typ":"JWT"}`, mustJSON(cl), "HS256", []byte(c02Key))
	underEncKey := jwsCompact(`{"alg":"HS256","typ":"JWT"}`, mustJSON(cl), "HS256", []byte(bindEncKey))
	// the minted token: signed under the configured signing key, lives at most five minutes
	if prop != "C02" {
		// only C02 speaks about keys and lifetimes
	} else if sg := strings.Split(tok, "."); len(sg) == 3 {
		hb, _ := b64.DecodeString(sg[0])
		pb, _ := b64.DecodeString(sg[1])
		if jwsCompact(string(hb), string(pb), "HS256", []byte(c02Key)) != tok {
			viol("minted-token-not-signed-under-the-configured-signing-key", "HMAC-SHA256 of the minted token's signing input under Security.PAATokenSigningKey differs from its signature")
		}
	} else {
		viol("minted-token-is-not-a-compact-jws", fmt.Sprint(len(sg)))
	}
	if e, ok := cl["exp"].(float64); prop == "C02" && (!ok || time.Unix(int64(e), 0).After(time.Now().Add(301*time.Second))) {
		viol("minted-token-lives-longer-than-five-minutes", fmt.Sprintf("exp=%v, now=%d (the IdP's access token lives 3600 s)", cl["exp"], time.Now().Unix()))
	}
	probes := []probe{
		{"canonical", "", nil, okSeq, []uint32{0, 0, 0, 0}, tip},
		{"channel-create-before-tunnel-create", "", nil, [][]byte{hs, tsgu.ChannelCreate(tip, bp)}, []uint32{0, 1}, ""},
		{"channel-create-before-tunnel-auth", "", nil, [][]byte{hs, tc, tsgu.ChannelCreate(tip, bp)}, []uint32{0, 0, 1}, ""},
		{"channel-create-first", "", nil, [][]byte{tsgu.ChannelCreate(tip, bp)}, []uint32{1}, ""},
		{"no-cookie", "", nil, [][]byte{hs, tsgu.TunnelCreate("", false)}, []uint32{0, tsgu.ECookieAuthDenied}, ""},
		{"forged-cookie", "", nil, [][]byte{hs, tsgu.TunnelCreate(forged, true)}, []uint32{0, tsgu.ECookieAuthDenied}, ""},
		{"claims-signed-under-configured-signing-key", "", nil, [][]byte{hs, tsgu.TunnelCreate(underSigning, true)}, []uint32{0, 0}, ""},
		{"claims-signed-under-configured-encryption-key", "", nil, [][]byte{hs, tsgu.TunnelCreate(underEncKey, true)}, []uint32{0, tsgu.ECookieAuthDenied}, ""},
		{"handshake-without-paa", "", nil, [][]byte{tsgu.Handshake(1, 0, 0, 0)}, []uint32{tsgu.ECapabilityMismatch}, ""},
		{"other-listed-host-than-token", "", nil, [][]byte{hs, tc, ta, tsgu.ChannelCreate(other, bp)}, []uint32{0, 0, 0, tsgu.ERAPAccessDenied}, ""},
		{"unlisted-host", "", nil, [][]byte{hs, tc, ta, tsgu.ChannelCreate("127.0.0.1", bp)}, []uint32{0, 0, 0, tsgu.ERAPAccessDenied}, ""},
		{"token-host-other-port", "", nil, [][]byte{hs, tc, ta, tsgu.ChannelCreate(tip, bp+1)}, []uint32{0, 0, 0, tsgu.ERAPAccessDenied}, ""},
		{"from-another-address", "127.0.0.2", nil, okSeq, []uint32{0, 0, 0, tsgu.ERAPAccessDenied}, ""},
		{"forwarded-for-another-address", "", []string{"X-Forwarded-For: 10.9.9.9"}, okSeq, []uint32{0, 0, 0, tsgu.ERAPAccessDenied}, ""},
		{"forwarded-for-issuing-address-from-elsewhere", "127.0.0.2", []string{"X-Forwarded-For: 127.0.0.1, 10.1.1.1"}, okSeq, []uint32{0, 0, 0, 0}, tip},
	}
	for _, p := range probes {
		if strings.HasPrefix(p.name, "claims-signed-under-configured") && prop != "C02" {
			continue
		}
		rep.add("executions", 1)
		before := map[string]int{}
		for ip, h := range b.be {
			before[ip] = h.Hits()
		}
		s, code := b.openWS(p.from, p.hdr)
		if s == nil {
			viol("upgrade-refused/"+p.name, fmt.Sprint(code))
			continue
		}
		got := s.statuses(p.pkts...)
		if p.dialTo != "" {
			b.be[p.dialTo].waitHits(before[p.dialTo] + 1)
		} else {
			time.Sleep(30 * time.Millisecond)
		}
		s.close()
		match := len(got) == len(p.want)
		for i := range got {
			if i < len(p.want) && !(got[i] == p.want[i] || (p.want[i] == 1 && got[i] != 0)) {
				match = false
			}
		}
		rep.outcome(fmt.Sprintf("binary %s statuses=%x", p.name, got))
		if !match {
			viol("wrong-outcome/"+p.name, fmt.Sprintf("statuses %x, want %x (1 = any error or end)", got, p.want))
		}
		for ip, h := range b.be {
			d := h.Hits() - before[ip]
			if ip == p.dialTo && d != 1 {
				viol("backend-not-reached/"+p.name, fmt.Sprintf("%s saw %d connections", ip, d))
			}
			if ip != p.dialTo && d != 0 {
				viol("unexpected-backend-connection/"+p.name, fmt.Sprintf("%s saw %d connections", ip, d))
			}
		}
	}
	// revoked at the IdP
	b.idp.mu.Lock()
	b.idp.Revoked["at-alice"] = true
	b.idp.mu.Unlock()
	if s, _ := b.openWS("", nil); s != nil {
		got := s.statuses(hs, tc)
		s.close()
		if len(got) != 2 || got[1] != tsgu.ECookieAuthDenied {
			viol("revoked-access-token-accepted", fmt.Sprintf("statuses %x", got))
		}
	}
	b.idp.mu.Lock()
	delete(b.idp.Revoked, "at-alice")
	b.idp.mu.Unlock()
	// the file binds gateway, host, user, address
	if rdpValue(file, "gatewayhostname") != fmt.Sprintf("gw.example:%d", b.g.Port) {
		viol("file-names-another-gateway", rdpValue(file, "gatewayhostname"))
	}
	if cl["remoteServer"] != tgt || cl["sub"] != "alice" || cl["clientIp"] != "127.0.0.1" || cl["accessToken"] != "at-alice" || cl["iss"] != "rdpgw" {
		viol("token-claims", fmt.Sprint(cl))
	}
	if cr := b.g.Crashed(); cr != "" {
		viol("panic", cr)
	}
	rep.sample(map[string]any{"binding": "real rdpgw binary, openid + token auth, two loopback backends", "probes": len(probes) + 2, "target_in_file": tgt})
}

func mustJSON(v any) string { b, _ := json.Marshal(v); return string(b) }

// bindVerifyOff: with Security.VerifyClientIp false the address is ignored (C04), 'any' selection still honours the token host (C03).
func bindModes(rep *Report, prop string) {
	viol := func(kind, detail string) { rep.violate(prop+"/binary:"+kind, detail, map[string]any{"noreplay": true}) }
	hs, ta := tsgu.Handshake(1, 0, 0, tsgu.ExtAuthPAA), tsgu.TunnelAuth("pc")
	{
		b := startBind(bindOpts{Security: " VerifyClientIp: false\n", Hosts: []string{"127.0.0.2:PORT", "127.0.0.3:PORT"}})
		_, file, tok, why := b.login("alice")
		rep.add("executions", 3)
		if why == "" {
			tip := strings.Split(rdpValue(file, "full address"), ":")[0]
			other := "127.0.0.3"
			if tip == other {
				other = "127.0.0.2"
			}
			if s, _ := b.openWS("127.0.0.2", nil); s != nil {
				got := s.statuses(hs, tsgu.TunnelCreate(tok, true), ta, tsgu.ChannelCreate(tip, uint16(b.bport)))
				s.close()
				if len(got) != 4 || got[3] != 0 {
					viol("verification-off-still-binds-address", fmt.Sprintf("statuses %x", got))
				}
			}
			// the token still binds the host
			before := b.be[other].Hits()
			if s, _ := b.openWS("", nil); s != nil {
				got := s.statuses(hs, tsgu.TunnelCreate(tok, true), ta, tsgu.ChannelCreate(other, uint16(b.bport)))
				s.close()
				time.Sleep(20 * time.Millisecond)
				if (len(got) == 4 && got[3] == 0) || b.be[other].Hits() != before {
					viol("verification-off-drops-token-host-binding", fmt.Sprintf("token for %s, channel to %s: statuses %x, connections %d", tip, other, got, b.be[other].Hits()-before))
				}
			}
		} else {
			viol("openid-login-failed", why)
		}
		b.stop()
	}
	{
		b := startBind(bindOpts{Selection: "any"})
		c := newGwClient(b.g)
		// any: the requested host comes from the query
		c.login(b.idp, "alice")
		code, _, file := c.get("/connect?host=" + fmt.Sprintf("127.0.0.3:%d", b.bport))
		tok := rdpValue(file, "gatewayaccesstoken")
		rep.add("executions", 3)
		if code != 200 || tok == "" {
			viol("any-mode-download-failed", fmt.Sprint(code))
		} else {
			if s, _ := b.openWS("", nil); s != nil {
				got := s.statuses(hs, tsgu.TunnelCreate(tok, true), ta, tsgu.ChannelCreate("127.0.0.2", uint16(b.bport)))
				s.close()
				if len(got) == 4 && got[3] == 0 {
					viol("any-mode-ignores-token-host", fmt.Sprintf("token for 127.0.0.3, channel to 127.0.0.2 accepted: %x", got))
				}
			}
			if s, _ := b.openWS("", nil); s != nil {
				got := s.statuses(hs, tsgu.TunnelCreate(tok, true), ta, tsgu.ChannelCreate("127.0.0.3", uint16(b.bport)))
				s.close()
				if len(got) != 4 || got[3] != 0 {
					viol("any-mode-refuses-token-host", fmt.Sprintf("%x", got))
				}
			}
		}
		b.stop()
	}
	{
		// signed: nothing is reachable at the tunnel
		b := startBind(bindOpts{Selection: "signed", Security: " QueryTokenIssuer: issuer-1\n"})
		c := newGwClient(b.g)
		c.login(b.idp, "alice")
		qt := c12QueryToken(fmt.Sprintf("127.0.0.2:%d", b.bport), "issuer-1", []byte(c12QueryKey), time.Now().Add(4*time.Minute), "")
		code, _, file := c.get("/connect?host=" + qt)
		tok := rdpValue(file, "gatewayaccesstoken")
		rep.add("executions", 2)
		if code == 200 && tok != "" {
			if s, _ := b.openWS("", nil); s != nil {
				got := s.statuses(hs, tsgu.TunnelCreate(tok, true), ta, tsgu.ChannelCreate("127.0.0.2", uint16(b.bport)))
				s.close()
				if len(got) == 4 && got[3] == 0 {
					viol("signed-mode-allows-a-host-at-the-tunnel", fmt.Sprintf("%x", got))
				}
			}
		}
		code2, _, _ := c.get("/connect?host=" + c12QueryToken(fmt.Sprintf("127.0.0.2:%d", b.bport), "issuer-2", []byte(c12QueryKey), time.Now().Add(4*time.Minute), ""))
		if code2 == 200 {
			viol("signed-mode-accepts-wrong-issuer", "")
		}
		b.stop()
	}
}

// bindCaps: configuration -> wire mapping of redirect switches, idle timeout and capability settings (C16, C17).
func bindCaps(rep *Report, prop string, env *Env) {
	viol := func(kind, detail string) { rep.violate(prop+"/binary:"+kind, detail, map[string]any{"noreplay": true}) }
	combos := []int{0, 1, 2, 4, 8, 16, 31, 32, 64, 96, 127, 21}
	if env.thorough() {
		combos = nil
		for i := 0; i < 128; i++ {
			combos = append(combos, i)
		}
	}
	names := []string{"EnableClipboard", "EnablePort", "EnableDrive", "EnablePrinter", "EnablePnp", "DisableRedirect", "RedirectAll"}
	for ci, fi := range combos {
		if !env.mine(ci) {
			continue
		}
		f := flagsOf(fi)
		vals := []bool{f.Clipboard, f.Port, f.Drive, f.Printer, f.Pnp, f.DisableAll, f.EnableAll}
		caps := ""
		for i, n := range names {
			caps += fmt.Sprintf(" %s: %v\n", n, vals[i])
		}
		timeout := []int{0, 45, -3, 32767}[ci%4]
		sc := ci%3 == 0
		caps += fmt.Sprintf(" IdleTimeout: %d\n SmartCardAuth: %v\n", timeout, sc)
		b := startBind(bindOpts{Caps: caps})
		rep.add("executions", 1)
		_, _, tok, why := b.login("alice")
		if why != "" {
			viol("openid-login-failed", why)
			b.stop()
			continue
		}
		if s, _ := b.openWS("", nil); s != nil {
			pk := s.send(tsgu.Handshake(3, 7, 0, tsgu.ExtAuthPAA), 5*time.Second)
			want := tsgu.ExtAuthPAA
			if sc {
				want |= tsgu.ExtAuthSC
			}
			if pk == nil {
				viol("handshake-unanswered", "")
			} else if r := tsgu.ParseResp(*pk); r.Status != 0 || r.ExtAuth != want || r.Major != 3 || r.Minor != 7 {
				viol("advertised-capabilities-differ-from-configuration", fmt.Sprintf("SmartCardAuth=%v: status %#x ext %#x version %d.%d", sc, r.Status, r.ExtAuth, r.Major, r.Minor))
			}
			s.send(tsgu.TunnelCreate(tok, true), 5*time.Second)
			pk = s.send(tsgu.TunnelAuth("pc"), 5*time.Second)
			if pk == nil {
				viol("tunnel-auth-unanswered", "")
			} else {
				r := tsgu.ParseResp(*pk)
				wt := uint32(0)
				if timeout > 0 {
					wt = uint32(timeout)
				}
				if !r.WellFormed || r.Redir != refRedirect(f) || r.Timeout != wt {
					viol("policy-on-the-wire-differs-from-configuration", fmt.Sprintf("Caps{%s}: redirect word %#x (want %#x) timeout %d (want %d)", strings.ReplaceAll(caps, "\n", ""), r.Redir, refRedirect(f), r.Timeout, wt))
				}
			}
			s.close()
		}
		// whatever the capability settings, token auth still demands an accepted cookie
		if s, _ := b.openWS("", nil); s != nil {
			ext := tsgu.ExtAuthPAA
			if sc {
				ext |= tsgu.ExtAuthSC
			}
			got := s.statuses(tsgu.Handshake(1, 0, 0, ext), tsgu.TunnelCreate("", false))
			s.close()
			if len(got) != 2 || got[1] != tsgu.ECookieAuthDenied {
				viol("tunnel-created-without-cookie-under-token-auth", fmt.Sprintf("SmartCardAuth=%v: statuses %x", sc, got))
			}
			if s2, _ := b.openWS("", nil); s2 != nil {
				before := b.be["127.0.0.2"].Hits()
				got := s2.statuses(tsgu.Handshake(1, 0, 0, ext), tsgu.TunnelCreate("", false), tsgu.TunnelAuth("pc"), tsgu.ChannelCreate("127.0.0.2", uint16(b.bport)))
				s2.close()
				time.Sleep(20 * time.Millisecond)
				if b.be["127.0.0.2"].Hits() != before || (len(got) == 4 && got[3] == 0) {
					viol("backend-reached-without-cookie-under-token-auth", fmt.Sprintf("SmartCardAuth=%v: statuses %x", sc, got))
				}
			}
		}
		rep.outcome(fmt.Sprintf("binary caps flags=%d", fi))
		b.stop()
	}
	_ = protocol.RedirectFlags{}
	_ = http.StatusOK
}

// bindUserToken: user tokens on the real binary (C15): key wiring and cross-instance refusal.
func bindUserToken(rep *Report, prop string) {
	viol := func(kind, detail string) { rep.violate(prop+"/binary:"+kind, detail, map[string]any{"noreplay": true}) }
	for _, sign := range []bool{false, true} {
		sec := " EnableUserToken: true\n UserTokenEncryptionKey: " + c15Enc + "\n"
		if sign {
			sec += " UserTokenSigningKey: " + c15Sign + "\n"
		}
		b := startBind(bindOpts{Security: sec, Client: " UsernameTemplate: \"{{ username }}:{{ token }}\"\n"})
		rep.add("executions", 1)
		c, file, _, why := b.login("alice")
		if why != "" {
			viol("openid-login-failed", why)
			b.stop()
			continue
		}
		un := rdpValue(file, "username")
		i := strings.Index(un, ":")
		if i < 0 {
			viol("user-token-not-in-file", un)
			b.stop()
			continue
		}
		ut := un[i+1:]
		code, _, body := c.get("/tokeninfo?access_token=" + ut)
		var cl map[string]any
		json.Unmarshal([]byte(body), &cl)
		if code != 200 || cl["sub"] != "alice" {
			viol("minted-user-token-refused", fmt.Sprintf("%d %s", code, body))
		}
		// the independent reference agrees that it is made under the configured keys
		var sk []byte
		if sign {
			sk = []byte(c15Sign)
		}
		if v, why, _ := c15Classify(ut, []byte(c15Enc), sk, time.Now()); v != "accept" {
			viol("minted-user-token-not-under-configured-keys", why)
		}
		other := c15Craft([]byte("other-key-other-key-other-key-32"), sk, "A128CBC-HS256", "dir", map[string]any{"sub": "alice", "iss": "rdpgw", "exp": time.Now().Add(time.Minute).Unix()}, true)
		if code, _, _ := c.get("/tokeninfo?access_token=" + other); code != 403 {
			viol("foreign-user-token-not-403", fmt.Sprint(code))
		}
		if code, _, _ := c.get("/tokeninfo"); code != 400 {
			viol("missing-parameter-not-400", fmt.Sprint(code))
		}
		rep.outcome(fmt.Sprintf("binary usertoken sign=%v", sign))
		b.stop()
	}
}

func fdCount(pid int) int {
	d, err := os.ReadDir(fmt.Sprintf("/proc/%d/fd", pid))
	if err != nil {
		return -1
	}
	return len(d)
}

// bindLeaks: tunnels that end on the real binary give back every descriptor (C11).
func bindLeaks(rep *Report, prop string) {
	bindLeaksMode(rep, prop, false)
	bindLeaksMode(rep, prop, true)
}

func bindLeaksMode(rep *Report, prop string, hostLingers bool) {
	viol := func(kind, detail string) {
		if hostLingers {
			kind += "/host-does-not-hang-up"
		}
		rep.violate(prop+"/binary:"+kind, detail, map[string]any{"noreplay": true})
	}
	b := startBind(bindOpts{})
	defer b.stop()
	for _, h := range b.be {
		h.mu.Lock()
		h.linger = hostLingers
		h.mu.Unlock()
	}
	defer func() {
		for _, h := range b.be {
			h.mu.Lock()
			for _, c := range h.lingering {
				c.Close()
			}
			h.mu.Unlock()
		}
	}()
	rep.add("executions", 1)
	_, _, tok, why := b.login("alice")
	if why != "" {
		viol("openid-login-failed", why)
		return
	}
	pid := b.g.cmd.Process.Pid
	hs, ta := tsgu.Handshake(1, 0, 0, tsgu.ExtAuthPAA), tsgu.TunnelAuth("pc")
	tunnel := func(end string) {
		s, _ := b.openWS("", nil)
		if s == nil {
			return
		}
		s.statuses(hs, tsgu.TunnelCreate(tok, true), ta, tsgu.ChannelCreate("127.0.0.2", uint16(b.bport)))
		switch end {
		case "close":
			s.send(tsgu.Data([]byte("x")), 200*time.Millisecond)
			s.send(tsgu.CloseChannel(), 2*time.Second)
		case "error":
			s.send(tsgu.Handshake(1, 0, 0, tsgu.ExtAuthPAA), 2*time.Second)
		}
		s.close()
	}
	settle := func(target int) int {
		n := fdCount(pid)
		for i := 0; i < 100 && n > target; i++ {
			time.Sleep(50 * time.Millisecond)
			n = fdCount(pid)
		}
		return n
	}
	tunnel("close")
	tunnel("drop")
	time.Sleep(300 * time.Millisecond)
	base := fdCount(pid)
	for i := 0; i < 9; i++ {
		tunnel([]string{"close", "drop", "error"}[i%3])
		rep.add("executions", 1)
	}
	after := settle(base + 1)
	rep.outcome(fmt.Sprintf("binary descriptors base=%d after=%d", base, after))
	rep.sample(map[string]any{"binding": "descriptor count of the real rdpgw process around 9 tunnels (close / drop / protocol error)", "before": base, "after": after})
	if base > 0 && after > base+1 {
		viol("descriptors-not-released-after-tunnels-end", fmt.Sprintf("the gateway process held %d descriptors after two warm-up tunnels and %d after nine more tunnels had ended (waited 5 s)", base, after))
	}
	if cr := b.g.Crashed(); cr != "" {
		viol("panic", cr)
	}
}

// bindOIDC: the OpenID callback on the real binary (C13): main()'s provider discovery, ID-token verifier
// (audience, issuer, expiry, signature) and oauth2 configuration are not visible to the in-process checks,
// which build their own.
func bindOIDC(rep *Report, env *Env) int {
	viol := func(kind, detail string) { rep.violate("C13/binary:"+kind, detail, map[string]any{"noreplay": true}) }
	n := 0
	for si, store := range []string{"cookie", "file"} {
		if !env.mine(si) {
			continue
		}
		b := startBind(bindOpts{Server: " SessionStore: " + store + "\n"})
		b.idp.mu.Lock()
		c13Script(b.idp)
		b.idp.mu.Unlock()
		stateOf := func(c *gwClient) string {
			code, h, _ := c.get("/connect")
			if code != 302 {
				return ""
			}
			loc := h.Get("Location")
			i := strings.Index(loc, "state=")
			if i < 0 {
				return ""
			}
			st := loc[i+6:]
			if j := strings.IndexByte(st, '&'); j >= 0 {
				st = st[:j]
			}
			return st
		}
		run := func(stateKind, code string, age time.Duration) {
			n++
			rep.add("executions", 1)
			A, B := newGwClient(b.g), newGwClient(b.g)
			var st string
			switch stateKind {
			case "own":
				st = stateOf(A)
			case "other":
				stateOf(A)
				st = stateOf(B)
			case "never":
				stateOf(A)
				st = "00112233445566778899aabbccddeeff"
			}
			if st == "" {
				viol("unauthenticated-connect-not-redirected-to-idp", store+" "+stateKind)
				return
			}
			if age > 0 {
				time.Sleep(age)
			}
			cbCode, _, body := A.get("/callback?state=" + st + "&code=" + code)
			valid := stateKind != "never" && age == 0 && strings.HasPrefix(code, "ok:")
			c2, _, file := A.get("/connect")
			authed := c2 == 200 && strings.Contains(file, "gatewayaccesstoken:s:")
			what := fmt.Sprintf("store=%s state=%s code=%s age=%v: callback %d, then /connect %d", store, stateKind, code, age, cbCode, c2)
			rep.outcome(fmt.Sprintf("binary oidc store=%s state=%s code=%s authed=%v", store, stateKind, code, authed))
			switch {
			case cbCode == 0 || c2 == 0:
				viol("request-not-answered", what+" "+body)
			case authed && !valid:
				viol("authenticated-without-verified-login/"+stateKind+"/"+code, what+"; user in token: "+fmt.Sprint(tokenClaims(rdpValue(file, "gatewayaccesstoken"))["sub"]))
			case valid && !authed:
				viol("valid-login-not-completed", what+" "+tail(body, 200))
			case valid:
				want := "user-" + strings.TrimPrefix(code, "ok:")
				if got := tokenClaims(rdpValue(file, "gatewayaccesstoken"))["sub"]; got != want {
					viol("verified-login-wrong-user", fmt.Sprintf("%s: token for %v, ID token names %s", what, got, want))
				}
			}
			// the other browser never becomes authenticated
			if c3, _, f3 := B.get("/connect"); c3 == 200 && strings.Contains(f3, "gatewayaccesstoken") {
				viol("other-browser-became-authenticated", what)
			}
		}
		for _, sk := range []string{"own", "other", "never"} {
			for _, code := range c13Codes {
				run(sk, code, 0)
			}
		}
		if env.thorough() {
			run("own", "ok:preferred_username", 125*time.Second)
		}
		if cr := b.g.Crashed(); cr != "" {
			viol("panic", cr)
		}
		b.stop()
	}
	return n
}
