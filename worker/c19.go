package main

import (
	"bytes"
	"fmt"
	"net/http"
	"net/http/httptest"
	"net/url"
	"os"
	"path/filepath"
	"reflect"
	"strconv"
	"strings"
	"time"

	"github.com/bolkedebruin/rdpgw/cmd/rdpgw/identity"
	"github.com/bolkedebruin/rdpgw/cmd/rdpgw/rdp"
	rdpparser "github.com/bolkedebruin/rdpgw/cmd/rdpgw/rdp/koanf/parsers/rdp"
	"github.com/bolkedebruin/rdpgw/cmd/rdpgw/web"
)

// C19 — generated connection files are well-formed and round-trip through the parser.

func init() { props["C19"] = c19 }

type rdpLine struct{ Name, Type, Value string }

// refRdpLines: independent line grammar: CRLF-terminated name:type:value, no duplicate names.
func refRdpLines(s string) ([]rdpLine, string) {
	var out []rdpLine
	seen := map[string]bool{}
	for s != "" {
		i := strings.Index(s, "\r\n")
		if i < 0 {
			return nil, "last line is not CRLF-terminated"
		}
		line := s[:i]
		s = s[i+2:]
		if strings.ContainsAny(line, "\r\n") {
			return nil, "bare CR or LF inside a line"
		}
		p := strings.SplitN(line, ":", 3)
		if len(p) != 3 {
			return nil, fmt.Sprintf("line %q is not name:type:value", line)
		}
		if p[1] != "i" && p[1] != "s" {
			return nil, fmt.Sprintf("line %q has type %q", line, p[1])
		}
		if p[1] == "i" {
			if _, err := strconv.Atoi(p[2]); err != nil {
				return nil, fmt.Sprintf("line %q: integer value expected", line)
			}
		}
		if seen[p[0]] {
			return nil, "duplicate setting " + p[0]
		}
		seen[p[0]] = true
		out = append(out, rdpLine{p[0], p[1], p[2]})
	}
	return out, ""
}

// refParse: reference reading of a template / parser input.
func refParse(b string) (map[string]any, bool) {
	m := map[string]any{}
	for _, raw := range strings.Split(b, "\n") {
		line := strings.TrimSuffix(raw, "\r")
		line = strings.TrimSpace(line)
		if line == "" || line[0] == '#' {
			continue
		}
		p := strings.SplitN(line, ":", 3)
		if len(p) < 3 {
			return nil, false
		}
		k, t, v := strings.TrimSpace(p[0]), strings.TrimSpace(p[1]), strings.TrimSpace(p[2])
		switch t {
		case "i":
			n, err := strconv.Atoi(v)
			if err != nil {
				return nil, false
			}
			m[k] = n
		case "s", "b":
			m[k] = v
		default:
			return nil, false
		}
	}
	return m, true
}

func c19TmpDir() string {
	d := os.Getenv("VERIF_BUILD_DIR")
	if d == "" {
		d = "/verif/.build/misc"
	}
	d = filepath.Join(d, fmt.Sprintf("c19-%d", os.Getpid()))
	os.MkdirAll(d, 0o755)
	return d
}

var c19UnknownKinds = map[string]string{}

func tagOf(f reflect.StructField) string { return f.Tag.Get("rdp") }

func c19Values(f reflect.StructField) []any {
	switch f.Type.Kind() {
	case reflect.Bool:
		return []any{true, false}
	case reflect.Int:
		return []any{0, 1, -1, 2147483647, 3}
	case reflect.Int8, reflect.Int16, reflect.Int32, reflect.Int64, reflect.Uint, reflect.Uint8, reflect.Uint16, reflect.Uint32, reflect.Uint64:
		// whatever integer type a setting has (today all are int): small values converted to the field's type
		var out []any
		for _, v := range []int64{0, 1, 3, 100} {
			out = append(out, reflect.ValueOf(v).Convert(f.Type).Interface())
		}
		return out
	case reflect.Float32, reflect.Float64, reflect.Slice, reflect.Map, reflect.Ptr, reflect.Struct, reflect.Interface:
		// a setting of a kind this check has no value domain for: say so instead of silently covering nothing
		c19UnknownKinds[f.Name] = f.Type.Kind().String()
		return nil
	case reflect.String:
		return []any{"", "x", "a:b:c", "ünï-codé 漢字", "#x", "false", "i:1", strings.Repeat("p", 4000), "with space inside", "C:\\Program Files\\app.exe /arg:1",
			"%SystemRoot%\\explorer.exe", "100%sales %d %s %v %%", "$HOME ${x} $1 $$", "\"quoted\" 'single'", "{{ username }} {{ token }}", "tab\tinside"}
	}
	return nil
}

func c19(env *Env, rep *Report) {
	rep.Rule = "(1) builder: every single-field deviation and every pair of deviations of the ~60 settings from their defaults over per-type domains (bool: both; int: {0,1,-1,2^31-1,3}; string: {empty, x, a:b:c, non-ASCII, #x, false, i:1, 4000 chars, inner blank, a Windows command line, percent signs / format verbs, dollar forms, quotes, template placeholders, an inner tab}) (quick: pairs restricted to every 5th combination): String() must be CRLF-terminated name:type:value lines without duplicates (independent grammar), and NewBuilderFromFile(write(String())).Settings must equal the builder's settings; " +
		"(2) templates: each single-field deviation written as a template and served through the real web.Handler.HandleDownload under the four combinations of {suppress user name, split domain}: known template settings that differ from the defaults are kept unless gateway-controlled, forced settings carry the gateway's values, and the served file round-trips; " +
		"(3) parser: every string of length <= 5 (thorough: 6) over {a : i s b blank CR LF # 1 -} against a reference parser (accept/reject and resulting map), lines of 4095/4096/4097 bytes; (4) parse(marshal(m)) == m, and the output of the previous call is unchanged after the next one for maps of 1..3 settings of ints and strings. distinct_nontrivial = distinct cases evaluated."
	rep.Assumptions = append(rep.Assumptions, "string values free of CR/LF and of leading/trailing blanks, setting names free of ':' (the property's domain)", "temporary files live in the check's build directory")
	dir := c19TmpDir()
	defer os.RemoveAll(dir)
	tmp := filepath.Join(dir, "t.rdp")
	st := reflect.TypeOf(rdp.RdpSettings{})
	n, distinct := 0, 0
	roundTrip := func(b *rdp.Builder, what string) {
		s := b.String()
		if _, why := refRdpLines(s); why != "" {
			rep.violate("C19/builder-output-not-well-formed", what+": "+why, map[string]any{"noreplay": true})
			return
		}
		os.WriteFile(tmp, []byte(s), 0o644)
		b2, err := rdp.NewBuilderFromFile(tmp)
		if err != nil {
			rep.violate("C19/own-output-rejected-by-reader", what+": "+err.Error(), map[string]any{"noreplay": true})
			return
		}
		if !reflect.DeepEqual(b2.Settings, b.Settings) {
			a, c := reflect.ValueOf(b.Settings), reflect.ValueOf(b2.Settings)
			for i := 0; i < st.NumField(); i++ {
				if !reflect.DeepEqual(a.Field(i).Interface(), c.Field(i).Interface()) {
					rep.violate("C19/round-trip-changes-setting/"+st.Field(i).Type.Kind().String(), fmt.Sprintf("%s: field %s held %.60q, read back %.60q", what, st.Field(i).Name, fmt.Sprint(a.Field(i).Interface()), fmt.Sprint(c.Field(i).Interface())), map[string]any{"noreplay": true})
					return
				}
			}
		}
	}
	set := func(b *rdp.Builder, i int, v any) {
		reflect.ValueOf(&b.Settings).Elem().Field(i).Set(reflect.ValueOf(v))
	}
	// (1) single and pairs
	for i := 0; i < st.NumField(); i++ {
		for vi, v := range c19Values(st.Field(i)) {
			n++
			if env.mine(n) {
				distinct++
				rep.add("executions", 1)
				b := rdp.NewBuilder()
				set(b, i, v)
				roundTrip(b, fmt.Sprintf("single %s=%.40q", st.Field(i).Name, fmt.Sprint(v)))
				rep.outcome("builder-single " + st.Field(i).Type.Kind().String())
			}
			for j := i + 1; j < st.NumField(); j++ {
				for wi, w := range c19Values(st.Field(j)) {
					n++
					if !env.mine(n) {
						continue
					}
					if !env.thorough() && (i*7+j*3+vi+wi)%5 != 0 {
						continue
					}
					distinct++
					rep.add("executions", 1)
					b := rdp.NewBuilder()
					set(b, i, v)
					set(b, j, w)
					roundTrip(b, fmt.Sprintf("pair %s=%.30q %s=%.30q", st.Field(i).Name, fmt.Sprint(v), st.Field(j).Name, fmt.Sprint(w)))
				}
			}
		}
	}
	rep.outcome("builder-pairs")
	if len(c19UnknownKinds) > 0 {
		rep.capf("settings of kinds without a value domain are not covered: %v", c19UnknownKinds)
	}
	// (2) templates through HandleDownload
	gwURL, _ := url.Parse("https://gw.example:8443")
	forcedAll := map[string]bool{"GatewayHostname": true, "FullAddress": true, "GatewayCredentialsSource": true, "GatewayAccessToken": true, "GatewayCredentialMethod": true, "GatewayUsageMethod": true, "Username": true, "Domain": true}
	tpl := filepath.Join(dir, "template.rdp")
	type dlOpt struct{ noUser, split bool }
	for _, opt := range []dlOpt{{false, false}, {false, true}, {true, false}, {true, true}} {
		for i := 0; i < st.NumField(); i++ {
			for _, v := range c19Values(st.Field(i)) {
				n++
				if !env.mine(n) {
					continue
				}
				distinct++
				rep.add("executions", 1)
				tb := rdp.NewBuilder()
				set(tb, i, v)
				os.WriteFile(tpl, []byte(tb.String()), 0o644)
				hnd := (&web.Config{HostSelection: "roundrobin", Hosts: []string{"target.example:3389"}, GatewayAddress: gwURL, TemplateFile: tpl,
					RdpOpts: web.RdpOpts{NoUsername: opt.noUser, SplitUserDomain: opt.split}, PAATokenGenerator: c19Token}).NewHandler()
				id := identity.NewUser()
				id.SetUserName("alice@corp.example")
				id.SetAuthenticated(true)
				r := identity.AddToRequestCtx(id, httptest.NewRequest("GET", "https://gw.example/connect", nil))
				rec := httptest.NewRecorder()
				hnd.HandleDownload(rec, r)
				what := fmt.Sprintf("template %s=%.40q (suppress user name=%v, split domain=%v)", st.Field(i).Name, fmt.Sprint(v), opt.noUser, opt.split)
				forced := map[string]bool{}
				for k, b := range forcedAll {
					forced[k] = b
				}
				if opt.noUser {
					// user name and domain are the administrator's business then
					delete(forced, "Username")
					delete(forced, "Domain")
				}
				if rec.Code != http.StatusOK {
					rep.violate("C19/template-download-failed", fmt.Sprintf("%s: status %d %s", what, rec.Code, rec.Body.String()), map[string]any{"noreplay": true})
					continue
				}
				body := rec.Body.String()
				lines, why := refRdpLines(body)
				if why != "" {
					rep.violate("C19/served-file-not-well-formed", what+": "+why, map[string]any{"noreplay": true})
					continue
				}
				got := map[string]string{}
				for _, l := range lines {
					got[l.Name] = l.Value
				}
				want := map[string]string{"full address": "target.example:3389", "gatewayhostname": "gw.example:8443", "gatewaycredentialssource": "5", "gatewayaccesstoken": "TOKEN(alice@corp.example,target.example:3389)", "gatewayprofileusagemethod": "1", "gatewayusagemethod": "1"}
				if opt.split {
					// the token is minted for the name without its domain part (what the token must carry is C12's)
					want["gatewayaccesstoken"] = "TOKEN(alice,target.example:3389)"
				}
				switch {
				case opt.noUser:
					// nothing of the session's user name may be written; what the template says stays
					for _, k := range []string{"username", "domain"} {
						tv := ""
						if tagOf(st.Field(i)) == k {
							tv = fmt.Sprint(v)
						}
						if got[k] != tv {
							rep.violate("C19/user-name-or-domain-written-although-suppressed/"+k, fmt.Sprintf("%s: %s is %q, the template says %q", what, k, got[k], tv), map[string]any{"noreplay": true})
						}
					}
				case opt.split:
					want["username"], want["domain"] = "alice", "corp.example"
				default:
					want["username"] = "alice@corp.example"
				}
				for k, wv := range want {
					if got[k] != wv {
						rep.violate("C19/forced-setting-wrong/"+k, fmt.Sprintf("%s: %s is %q, want %q", what, k, got[k], wv), map[string]any{"noreplay": true})
					}
				}
				// the template's setting is kept when it is not gateway-controlled and differs from the default
				if !forced[st.Field(i).Name] {
					def := reflect.ValueOf(rdp.NewBuilder().Settings).Field(i).Interface()
					if !reflect.DeepEqual(def, v) {
						tag := st.Field(i).Tag.Get("rdp")
						wantV := fmt.Sprint(v)
						if bv, ok := v.(bool); ok {
							wantV = map[bool]string{true: "1", false: "0"}[bv]
						}
						if gv, ok := got[tag]; !ok || gv != wantV {
							rep.violate("C19/template-setting-lost/"+st.Field(i).Type.Kind().String(), fmt.Sprintf("%s: served file has %s=%.40q (present=%v), template had %.40q", what, tag, gv, ok, wantV), map[string]any{"noreplay": true})
						}
					}
				}
				os.WriteFile(tmp, []byte(body), 0o644)
				if _, err := rdp.NewBuilderFromFile(tmp); err != nil {
					rep.violate("C19/served-file-rejected-by-reader", what+": "+err.Error(), map[string]any{"noreplay": true})
				}
			}
		}
	}
	rep.outcome("templates")
	// (3) parser against the reference
	alpha := []byte{'a', ':', 'i', 's', 'b', ' ', '\r', '\n', '#', '1', '-'}
	maxLen := 5
	if env.thorough() {
		maxLen = 6
	}
	p := rdpparser.Parser()
	cmp := func(in string) {
		rep.add("executions", 1)
		got, err := p.Unmarshal([]byte(in))
		want, ok := refParse(in)
		if (err == nil) != ok {
			rep.violate("C19/parser-accepts-or-rejects-differently", fmt.Sprintf("input %q: parser err=%v, reference accepts=%v", in, err, ok), map[string]any{"noreplay": true})
			return
		}
		if ok && !reflect.DeepEqual(got, want) {
			rep.violate("C19/parser-yields-different-map", fmt.Sprintf("input %q: parser %v, reference %v", in, got, want), map[string]any{"noreplay": true})
		}
	}
	buf := make([]byte, maxLen)
	var rec func(l, depth int)
	rec = func(l, depth int) {
		if depth == l {
			n++
			if env.mine(n) {
				distinct++
				cmp(string(buf[:l]))
			}
			return
		}
		for _, c := range alpha {
			buf[depth] = c
			rec(l, depth+1)
		}
	}
	for l := 0; l <= maxLen; l++ {
		rec(l, 0)
	}
	for _, l := range []int{4095, 4096, 4097, 16384} {
		cmp("k:s:" + strings.Repeat("v", l-4) + "\r\nn:i:5\r\n")
		cmp("k:s:v\r\n" + strings.Repeat("x", l) + "\r\n")
	}
	rep.outcome("parser")
	// (4) parse(marshal(m)) == m, and the output of the previous call is unchanged after the next one
	keys := []string{"a", "full address", "k2", "screen mode id"}
	vals := []any{0, 1, -1, 2147483647, -2147483648, "", "x", "a:b:c", "ünï 漢", "#x", "1", "i:1", strings.Repeat("z", 4000)}
	// results handed out earlier stay what they were: the previous output is kept (with a private copy of its
	// bytes taken at once) and examined again after the next call
	var prevOut, prevCopy []byte
	var prevMap map[string]any
	check := func(m map[string]any) {
		rep.add("executions", 1)
		b, err := p.Marshal(m)
		if err != nil {
			rep.violate("C19/marshal-failed", fmt.Sprint(m), map[string]any{"noreplay": true})
			return
		}
		if prevOut != nil {
			if !bytes.Equal(prevOut, prevCopy) {
				rep.violate("C19/earlier-marshal-output-changed-by-a-later-call", fmt.Sprintf("output for %.100v read %.100q when it was returned and %.100q after marshalling %.100v", prevMap, prevCopy, prevOut, m), map[string]any{"noreplay": true})
			} else if back, err := p.Unmarshal(prevOut); err != nil || !reflect.DeepEqual(back, prevMap) {
				rep.violate("C19/earlier-marshal-output-changed-by-a-later-call", fmt.Sprintf("output for %.100v parses to %.100v (%v) after marshalling %.100v", prevMap, back, err, m), map[string]any{"noreplay": true})
			}
		}
		prevOut, prevCopy, prevMap = b, append([]byte{}, b...), m
		if _, why := refRdpLines(string(b)); why != "" {
			rep.violate("C19/marshal-output-not-well-formed", why, map[string]any{"noreplay": true})
		}
		back, err := p.Unmarshal(b)
		if err != nil || !reflect.DeepEqual(back, m) {
			rep.violate("C19/parse-marshal-not-identity", fmt.Sprintf("m=%.200v back=%.200v err=%v", m, back, err), map[string]any{"noreplay": true})
		}
	}
	for i, k1 := range keys {
		for _, v1 := range vals {
			n++
			if env.mine(n) {
				distinct++
				check(map[string]any{k1: v1})
			}
			for j := i + 1; j < len(keys); j++ {
				for _, v2 := range vals {
					n++
					if env.mine(n) {
						distinct++
						check(map[string]any{k1: v1, keys[j]: v2})
					}
					for l := j + 1; l < len(keys); l++ {
						for _, v3 := range vals {
							n++
							if env.mine(n) {
								distinct++
								check(map[string]any{k1: v1, keys[j]: v2, keys[l]: v3})
							}
						}
					}
				}
			}
		}
	}
	if env.Shard == 0 || env.NShards == 1 {
		distinct += c19TemplateReplaced(dir, gwURL, rep)
	}
	rep.outcome("marshal")
	rep.sample(map[string]any{"builder_default_output": rdp.NewBuilder().String(), "settings": st.NumField(), "parser_alphabet": string(alpha), "parser_max_len": maxLen})
	rep.add("distinct", int64(distinct))
	rep.add("states", int64(distinct))
}

// c19TemplateReplaced: ONE download handler while the administrator replaces the template: other settings, a
// malformed line, a good one again - written in place, with the modification time set back an hour (cp -p,
// rsync -t, a package install), with the modification time of the file it replaces, and a minute ahead. After
// every replacement the handler's file is what a fresh handler makes of the template as it is now.
func c19TemplateReplaced(dir string, gwURL *url.URL, rep *Report) int {
	tpl := filepath.Join(dir, "template-replaced.rdp")
	mk := func() *web.Handler {
		return (&web.Config{HostSelection: "roundrobin", Hosts: []string{"target.example:3389"}, GatewayAddress: gwURL, TemplateFile: tpl, PAATokenGenerator: c19Token}).NewHandler()
	}
	dl := func(h *web.Handler) (int, string) {
		id := identity.NewUser()
		id.SetUserName("alice")
		id.SetAuthenticated(true)
		r := identity.AddToRequestCtx(id, httptest.NewRequest("GET", "https://gw.example/connect", nil))
		rec := httptest.NewRecorder()
		h.HandleDownload(rec, r)
		if rec.Code != 200 {
			return rec.Code, ""
		}
		return rec.Code, rec.Body.String()
	}
	contents := []string{
		"audiomode:i:2\r\nkeyboardhook:i:1\r\n",
		"screen mode id:i:1\r\nsmart sizing:i:1\r\n",
		"audiomode:i:2\r\nkeyboardhook:i:\r\n", // malformed: an integer without a value
		"audiomode:i:1\r\n",
		"this line is not a setting\r\n",
		"keyboardhook:i:0\r\naudiomode:i:2\r\n",
	}
	n := 0
	for _, how := range []string{"in-place", "mtime-an-hour-back", "mtime-of-the-replaced-file", "mtime-a-minute-ahead"} {
		os.WriteFile(tpl, []byte(contents[0]), 0o644)
		h := mk()
		dl(h)
		for round := 1; round <= 2*len(contents); round++ {
			c := contents[round%len(contents)]
			old, _ := os.Stat(tpl)
			os.WriteFile(tpl, []byte(c), 0o644)
			switch how {
			case "mtime-an-hour-back":
				t := time.Now().Add(-time.Hour)
				os.Chtimes(tpl, t, t)
			case "mtime-of-the-replaced-file":
				if old != nil {
					os.Chtimes(tpl, old.ModTime(), old.ModTime())
				}
			case "mtime-a-minute-ahead":
				t := time.Now().Add(time.Minute)
				os.Chtimes(tpl, t, t)
			}
			n++
			rep.add("executions", 1)
			gc, gb := dl(h)
			wc, wb := dl(mk())
			rep.outcome(fmt.Sprintf("template-replaced %s status=%d fresh=%d same=%v", how, gc, wc, gb == wb))
			if gc != wc || gb != wb {
				rep.violate("C19/file-not-from-the-template-as-it-is/"+how, fmt.Sprintf("template replaced (%s) by %q: the serving handler answers %d %.120q, a fresh handler over the same file %d %.120q", how, c, gc, gb, wc, wb), map[string]any{"noreplay": true})
				break
			}
		}
	}
	return n
}
