package main

import (
	"bytes"
	"encoding/base64"
	"encoding/json"
	"fmt"
	"github.com/bolkedebruin/rdpgw/cmd/rdpgw/security"
	"hash/fnv"
	"os"
	"path/filepath"
	"strings"
	"time"
	"unicode/utf8"

	"verif/shim/vclock"
)

// C13 — a session becomes authenticated only through a verified OpenID login.

func init() { props["C13"] = c13 }

type c13Op struct {
	Kind  string // connectA | connectB | callback | clock
	State string // own | other | never | stale
	Code  string
}

func (o c13Op) String() string {
	if o.Kind == "clock61" {
		return "clock61"
	}
	if o.Kind == "callback" {
		return "callback(" + o.State + "," + o.Code + ")"
	}
	return o.Kind
}

var c13Codes = []string{"ok:preferred_username", "ok:unique_name", "ok:upn", "ok:username", "ok:multi", "refuse", "noidtoken", "badsig", "wrongiss", "wrongaud", "expired", "nouser", "idp500", "idpdown", "idpgarbage"}

func c13Alphabet() []c13Op {
	ops := []c13Op{{Kind: "connectA"}, {Kind: "connectB"}, {Kind: "clock"}}
	for _, s := range []string{"own", "other", "never", "stale"} {
		for _, c := range c13Codes {
			ops = append(ops, c13Op{Kind: "callback", State: s, Code: c})
		}
	}
	return ops
}

var c13IDTokens = map[string]string{}

// c13Script registers the code behaviours at the IdP (ID tokens are signed once per process).
func c13Script(idp *IdP) {
	now := time.Now()
	base := func() map[string]any {
		iss := idp.Issuer
		if iss == "" {
			iss = idpIssuer
		}
		return map[string]any{"iss": iss, "aud": "rdpgw", "sub": "subject-1", "exp": now.Add(time.Hour).Unix(), "iat": now.Add(-time.Minute).Unix()}
	}
	mk := func(name string, f func(m map[string]any), wrongKey bool) string {
		if t, ok := c13IDTokens[idp.Issuer+"|"+name]; ok {
			return t
		}
		m := base()
		f(m)
		t := idp.IDToken(m, wrongKey)
		c13IDTokens[idp.Issuer+"|"+name] = t
		return t
	}
	for _, k := range []string{"preferred_username", "unique_name", "upn", "username"} {
		k := k
		idp.Codes["ok:"+k] = CodeBehaviour{AccessToken: "at-user-" + k, IDToken: mk("ok:"+k, func(m map[string]any) { m[k] = "user-" + k }, false)}
	}
	// several candidate claims with different values: the documented order of preference decides, every time
	idp.Codes["ok:multi"] = CodeBehaviour{AccessToken: "at-user-multi", IDToken: mk("ok:multi", func(m map[string]any) {
		m["username"], m["upn"], m["unique_name"], m["preferred_username"] = "administrator", "upn-name", "unique-name", "user-multi"
	}, false)}
	idp.Codes["refuse"] = CodeBehaviour{Refuse: true}
	idp.Codes["idp500"] = CodeBehaviour{Fault: "500"}
	idp.Codes["idpdown"] = CodeBehaviour{Fault: "transport"}
	idp.Codes["idpgarbage"] = CodeBehaviour{Fault: "garbage"}
	idp.Codes["noidtoken"] = CodeBehaviour{NoIDToken: true, AccessToken: "at-x"}
	idp.Codes["badsig"] = CodeBehaviour{AccessToken: "at-x", IDToken: mk("badsig", func(m map[string]any) { m["preferred_username"] = "mallory" }, true)}
	idp.Codes["wrongiss"] = CodeBehaviour{AccessToken: "at-x", IDToken: mk("wrongiss", func(m map[string]any) { m["preferred_username"] = "mallory"; m["iss"] = "https://evil.example" }, false)}
	idp.Codes["wrongaud"] = CodeBehaviour{AccessToken: "at-x", IDToken: mk("wrongaud", func(m map[string]any) { m["preferred_username"] = "mallory"; m["aud"] = "another-client" }, false)}
	idp.Codes["expired"] = CodeBehaviour{AccessToken: "at-x", IDToken: mk("expired", func(m map[string]any) { m["preferred_username"] = "mallory"; m["exp"] = now.Add(-time.Hour).Unix() }, false)}
	// (no user-name claim: an e-mail address and claims whose names differ from the four user-name claims only in
	// letter case are not user-name claims)
	idp.Codes["nouser"] = CodeBehaviour{AccessToken: "at-x", IDToken: mk("nouser2", func(m map[string]any) {
		m["email"] = "mallory@example.com"
		m["Preferred_Username"], m["USERNAME"], m["Upn"], m["Unique_Name"] = "mallory", "mallory", "mallory", "mallory"
	}, false)}
}

type whoami struct {
	User          string `json:"user"`
	Authenticated bool   `json:"authenticated"`
	Session       string `json:"session"`
	AccessToken   string `json:"access_token"`
}

func c13Who(app *WebApp, b *Browser) (w whoami, code int) {
	rec := b.Do(app, "GET", "/whoami")
	code = rec.Code
	json.Unmarshal(rec.Body.Bytes(), &w)
	return
}

// c13Run executes one history and compares with the reference after every step.
func c13Run(store string, hist []c13Op, rep *Report) (viol, detail string, trace []string) {
	vclock.Reset()
	app := NewWebApp(WebCfg{Store: store, HostSelection: "roundrobin", Hosts: []string{"target.example:3389"}, VerifyClientIP: true})
	c13Script(app.IdP)
	A, B := NewBrowser("10.0.0.1:40000"), NewBrowser("10.0.0.2:40000")
	rep.add("executions", 1)
	type issued struct {
		state string
		at    time.Time
	}
	var ownA, ownB []issued
	refAuth, refUser := false, ""
	for i, op := range hist {
		rep.add("transitions", 1)
		switch op.Kind {
		case "connectA", "connectB":
			b, own := A, &ownA
			if op.Kind == "connectB" {
				b, own = B, &ownB
			}
			rec := b.Do(app, "GET", "/connect")
			isA := op.Kind == "connectA"
			if isA && refAuth {
				if rec.Code != 200 || !strings.Contains(rec.Body.String(), "gatewayaccesstoken:s:") {
					return "authenticated-session-not-served", fmt.Sprintf("step %d: /connect %d", i, rec.Code), trace
				}
			} else {
				if rec.Code == 599 {
					return "panic", rec.Body.String(), trace
				}
				if rec.Code != 302 || !strings.HasPrefix(rec.Header().Get("Location"), idpIssuer+"/auth") {
					return "unauthenticated-connect-not-redirected-to-idp", fmt.Sprintf("step %d %s: status %d location %q", i, op, rec.Code, rec.Header().Get("Location")), trace
				}
				if strings.Contains(rec.Body.String(), "gatewayaccesstoken") {
					return "token-served-to-unauthenticated-session", fmt.Sprintf("step %d", i), trace
				}
				*own = append(*own, issued{StateOf(rec), vclock.Now()})
			}
			trace = append(trace, fmt.Sprintf("%s -> %d", op, rec.Code))
		case "clock":
			vclock.Advance(121 * time.Second)
			trace = append(trace, "clock+121s")
		case "clock61":
			vclock.Advance(61 * time.Second)
			trace = append(trace, "clock+61s")
		case "callback":
			var st issued
			have := true
			pick := func(l []issued, fresh bool) (issued, bool) {
				for k := len(l) - 1; k >= 0; k-- {
					if (vclock.Now().Sub(l[k].at) <= 120*time.Second) == fresh {
						return l[k], true
					}
				}
				return issued{}, false
			}
			switch op.State {
			case "own":
				st, have = pick(ownA, true)
			case "other":
				st, have = pick(ownB, true)
			case "stale":
				st, have = pick(ownA, false)
			case "stale-other":
				st, have = pick(ownB, false)
			case "never":
				st = issued{state: "00112233445566778899aabbccddeeff"}
			}
			if !have {
				st = issued{state: "ffffffffffffffffffffffffffffffff"} // nothing suitable issued yet: use a never-issued value
			}
			valid := have && op.State != "never" && op.State != "stale" && op.State != "stale-other" && strings.HasPrefix(op.Code, "ok:")
			rec := A.Do(app, "GET", "/callback?state="+st.state+"&code="+op.Code)
			if rec.Code == 599 {
				return "panic", rec.Body.String(), trace
			}
			if valid {
				refAuth, refUser = true, "user-"+strings.TrimPrefix(op.Code, "ok:")
				if rec.Code != 302 {
					return "valid-login-not-completed", fmt.Sprintf("step %d %s: status %d %s", i, op, rec.Code, rec.Body.String()), trace
				}
			}
			trace = append(trace, fmt.Sprintf("%s -> %d", op, rec.Code))
		}
		// observe both jars
		wa, ca := c13Who(app, A)
		wb, cb := c13Who(app, B)
		if ca == 599 || cb == 599 {
			return "panic", "whoami", trace
		}
		if wb.Authenticated {
			return "other-browser-became-authenticated", fmt.Sprintf("after step %d %s: jar B is %q; history %v", i, op, wb.User, trace), trace
		}
		if wa.Authenticated && !refAuth {
			return "authenticated-without-verified-login", fmt.Sprintf("after step %d %s the session is authenticated as %q; history %v", i, op, wa.User, trace), trace
		}
		if refAuth && (!wa.Authenticated || wa.User != refUser) {
			return "verified-login-lost-or-wrong-user", fmt.Sprintf("after step %d %s: authenticated=%v user=%q, reference user %q (status %d); history %v", i, op, wa.Authenticated, wa.User, refUser, ca, trace), trace
		}
	}
	return "", "", trace
}

func c13(env *Env, rep *Report) {
	alpha := c13Alphabet()
	rep.Rule = fmt.Sprintf("(1) every browser history up to depth d over a %d-operation alphabet {GET /connect from browser A, from browser B, clock +121 s, GET /callback in browser A with state in {issued to A, issued to B, never issued, issued before the last clock jump} x code behaviour in {valid ID token carrying the user name under preferred_username / unique_name / upn / username / under all four with different values (the first in that order counts), IdP refuses the code, no id_token, signature by another key, wrong issuer, wrong audience, expired, no user-name claim, token endpoint answering 500 / dropping the connection / answering garbage}} against the real router pieces (EnrichContext, Authenticated, HandleCallback, HandleDownload) with a scripted IdP, for the cookie store (quick d=3) and the file store (quick d=2; thorough 4 and 3); after every step both browsers are observed and compared with the reference (authenticated iff some callback passed every check with a state issued <= 120 s ago; user == claim). "+
		"(5) the same callbacks against the real rdpgw binary (main()'s provider, verifier and oauth2 wiring) with a loopback IdP: {state issued to this browser, to another browser, never issued} x the 15 code behaviours, both session stores; thorough adds a state that is 125 s old in real time. (2) every single-character substitution and truncation of a valid authenticated session cookie, a cookie of an instance with other keys, and (file store) a valid cookie whose file was deleted never observe an authenticated session. (3) identity contents {user names incl. e-mail, non-ASCII, 300 characters} x X-Forwarded-For chains {none,1,3} x access tokens up to 3 KiB are restored field by field on the next request. (4) two browsers logging in concurrently, the session store wrapped so that entering Save is a scheduling point: every schedule up to preemption bound 2, both stores; each browser's session must restore its own identity. distinct_nontrivial = histories + cookies + identities + schedules evaluated.", len(alpha))
	rep.Assumptions = append(rep.Assumptions, "the state store's clock is the harness clock (go-cache copy); the session cookie's own 120 s lifetime is enforced by securecookie against real time and is not advanced",
		"a state value issued to another browser or used twice is not excluded by the property and is treated as issued")
	if env.Replay != nil && env.Replay["concurrent"] != nil {
		store, _ := env.Replay["store"].(string)
		var prefix []int
		if cs, ok := env.Replay["choices"].([]any); ok {
			for _, c := range cs {
				if f, ok := c.(float64); ok {
					prefix = append(prefix, int(f))
				}
			}
		}
		r := c13ConcRun(store, prefix)
		fmt.Println("outcome:", r.Outcome)
		for _, v := range r.Violations {
			rep.violate(v.Sig, v.Detail, env.Replay)
		}
		return
	}
	if env.Replay != nil {
		store, _ := env.Replay["store"].(string)
		var hist []c13Op
		hs, _ := env.Replay["history"].([]any)
		for _, h := range hs {
			for _, o := range alpha {
				if o.String() == h {
					hist = append(hist, o)
				}
			}
		}
		v, d, tr := c13Run(store, hist, rep)
		fmt.Println("trace:", tr, "\nverdict:", v, d)
		if v != "" {
			rep.violate("C13/"+v+"/"+store, d, env.Replay)
		}
		return
	}
	n, distinct := 0, 0
	enum := func(store string, depth int) {
		alpha := alpha
		if depth >= 3 {
			// at depth 3 and beyond the four single-claim logins count as one (they differ in the claim's name
			// only, which depths 1 and 2 cover): preferred_username and the multi-claim token stay
			var red []c13Op
			for _, o := range alpha {
				if o.Kind == "callback" && (o.Code == "ok:unique_name" || o.Code == "ok:upn" || o.Code == "ok:username") {
					continue
				}
				red = append(red, o)
			}
			alpha = red
		}
		idx := make([]int, depth)
		for {
			n++
			if env.mine(n) {
				distinct++
				hist := make([]c13Op, depth)
				names := make([]string, depth)
				for i, x := range idx {
					hist[i] = alpha[x]
					names[i] = alpha[x].String()
				}
				v, d, tr := c13Run(store, hist, rep)
				last := ""
				if len(tr) > 0 {
					last = tr[len(tr)-1]
				}
				rep.outcome(store + " " + last + " " + v)
				if v != "" {
					rep.violate("C13/"+v+"/"+store, d, map[string]any{"engine": "seqx", "store": store, "history": names})
				}
				if distinct%20000 == 1 {
					rep.sample(map[string]any{"store": store, "history": names, "trace": tr, "verdict": v})
				}
			}
			i := depth - 1
			for ; i >= 0; i-- {
				idx[i]++
				if idx[i] < len(alpha) {
					break
				}
				idx[i] = 0
			}
			if i < 0 {
				return
			}
			if env.expired() {
				rep.capf("deadline in history enumeration (%s, depth %d)", store, depth)
				return
			}
		}
	}
	dc, df := 3, 2
	if env.thorough() {
		dc, df = 4, 3
	}
	for d := 1; d <= dc; d++ {
		enum("cookie", d)
	}
	for d := 1; d <= df; d++ {
		enum("file", d)
	}
	// a callback replayed by ANOTHER browser, with an identity provider that exchanges a code once: browser A
	// completes a login; browser B (no session / an own pending login) presents the very same callback URL: the
	// provider does not exchange the code again, so B is not logged in; A stays logged in
	for _, store := range []string{"cookie", "file"} {
		for _, bHasSession := range []bool{false, true} {
			n++
			if !env.mine(n) {
				continue
			}
			distinct++
			rep.add("executions", 1)
			vclock.Reset()
			app := NewWebApp(WebCfg{Store: store, HostSelection: "roundrobin", Hosts: []string{"target.example:3389"}, VerifyClientIP: true})
			c13Script(app.IdP)
			app.IdP.OneTime = true
			A, B := NewBrowser("10.0.0.1:40000"), NewBrowser("10.0.0.2:40000")
			rec := A.Do(app, "GET", "/connect")
			url := "/callback?state=" + StateOf(rec) + "&code=ok:preferred_username"
			first := A.Do(app, "GET", url)
			if bHasSession {
				B.Do(app, "GET", "/connect")
			}
			second := B.Do(app, "GET", url)
			wa, _ := c13Who(app, A)
			wb, _ := c13Who(app, B)
			app.IdP.OneTime = false
			rep.outcome(fmt.Sprintf("%s replay-by-another-browser first=%d second=%d b-authenticated=%v", store, first.Code, second.Code, wb.Authenticated))
			what := fmt.Sprintf("store=%s, B had a session of its own: %v; A's callback answered %d, the same URL from B %d (token requests at the provider: %d); A authenticated=%v, B authenticated=%v as %q", store, bHasSession, first.Code, second.Code, app.IdP.TokenCalls, wa.Authenticated, wb.Authenticated, wb.User)
			if first.Code != 302 || !wa.Authenticated {
				rep.violate("C13/valid-login-not-completed/"+store+"/one-time-codes", what, map[string]any{"noreplay": true})
			}
			if wb.Authenticated {
				rep.violate("C13/other-browser-became-authenticated/"+store+"/replayed-callback-with-a-spent-code", what, map[string]any{"noreplay": true})
			}
		}
	}
	// directed histories of depth 5: a state is issued, a callback that fails in any way comes 61 s later, and
	// another 61 s later (the state is now 122 s old) a callback that would otherwise be valid: nothing that
	// happened in between may have given the state more time
	for _, store := range []string{"cookie", "file"} {
		for _, code := range c13Codes {
			if strings.HasPrefix(code, "ok:") {
				continue
			}
			for _, who := range []string{"own", "other"} {
				n++
				if !env.mine(n) {
					continue
				}
				distinct++
				first := "connectA"
				if who == "other" {
					first = "connectB"
				}
				hist := []c13Op{{Kind: first}, {Kind: "clock61"}, {Kind: "callback", State: who, Code: code}, {Kind: "clock61"}, {Kind: "callback", State: "stale", Code: "ok:preferred_username"}}
				if who == "other" {
					// the state was issued to browser B; browser A presents it
					hist[4] = c13Op{Kind: "callback", State: "stale-other", Code: "ok:preferred_username"}
				}
				names := make([]string, len(hist))
				for i, o := range hist {
					names[i] = o.String()
				}
				v, d, tr := c13Run(store, hist, rep)
				rep.outcome(store + " refresh-attempt " + v)
				if v != "" {
					rep.violate("C13/"+v+"/"+store+"/after-a-failed-callback", d, map[string]any{"noreplay": true, "history": names, "trace": tr})
				}
			}
		}
	}
	rep.Bounds = map[string]any{"alphabet": len(alpha), "depth_cookie_store": dc, "depth_file_store": df}
	distinct += c13Cookies(env, rep, &n)
	distinct += c13Identities(env, rep, &n)
	distinct += c13Conc(env, rep)
	if gwBin() != "" {
		distinct += bindOIDC(rep, env)
	}
	rep.add("distinct", int64(distinct))
	rep.add("states", int64(distinct))
}

func c13Login(app *WebApp, b *Browser, code string) bool {
	rec := b.Do(app, "GET", "/connect")
	st := StateOf(rec)
	rec = b.Do(app, "GET", "/callback?state="+st+"&code="+code)
	w, _ := c13Who(app, b)
	return rec.Code == 302 && w.Authenticated
}

// c13Cookies: altered / foreign / orphaned session cookies.
func c13Cookies(env *Env, rep *Report, n *int) int {
	distinct := 0
	if env.Shard == 0 {
		// session keys that are not configured are generated (config.Load uses security.GenerateRandomString): 200
		// of them must be 200 different 32-character strings (a generator whose values repeat within 200 draws
		// has at most a few thousand values: its cookies can be forged by trying them all)
		seen := map[string]bool{}
		for i := 0; i < 200; i++ {
			k, err := security.GenerateRandomString(32)
			if err != nil || len(k) != 32 {
				rep.violate("C13/generated-session-key-unusable", fmt.Sprintf("draw %d: %q %v", i, k, err), map[string]any{"noreplay": true})
				break
			}
			seen[k] = true
		}
		distinct++
		rep.add("executions", 200)
		rep.outcome(fmt.Sprintf("generated keys all different=%v", len(seen) == 200))
		if len(seen) < 200 {
			rep.violate("C13/generated-session-keys-repeat", fmt.Sprintf("200 generated 32-character keys have only %d different values: a cookie the gateway never produced can be made by trying the few possible keys", len(seen)), map[string]any{"noreplay": true})
		}
	}
	for _, store := range []string{"cookie", "file"} {
		vclock.Reset()
		app := NewWebApp(WebCfg{Store: store, HostSelection: "roundrobin", Hosts: []string{"target.example:3389"}})
		c13Script(app.IdP)
		b := NewBrowser("10.0.0.1:40000")
		if !c13Login(app, b, "ok:preferred_username") {
			rep.violate("C13/honest-login-failed/"+store, "cannot obtain an authenticated cookie", map[string]any{"noreplay": true})
			continue
		}
		good := b.Cookies["RDPGWSESSION"]
		sameDecoded := func(a, b string) bool {
			for _, enc := range []*base64.Encoding{base64.URLEncoding, base64.RawURLEncoding} {
				x, e1 := enc.DecodeString(a)
				y, e2 := enc.DecodeString(b)
				if e1 == nil && e2 == nil && bytes.Equal(x, y) {
					return true
				}
			}
			return false
		}
		try := func(what, val string) {
			if sameDecoded(val, good) {
				// another base64 spelling of the very same cookie bytes: the same cookie
				return
			}
			// every process logs in for itself and gets a cookie of its own (its length varies by a few
			// characters): the share of a process is decided by the case's name, not by a running count, so that
			// every case belongs to exactly one process
			*n++
			hh := fnv.New32a()
			hh.Write([]byte(store + "/" + what))
			if !env.mine(int(hh.Sum32() % 1000003)) {
				return
			}
			distinct++
			rep.add("executions", 1)
			m := NewBrowser("10.0.0.1:40000")
			m.Cookies["RDPGWSESSION"] = val
			w, code := c13Who(app, m)
			rc := m2connect(app, val)
			rep.outcome(fmt.Sprintf("%s cookie %s whoami=%d", store, strings.SplitN(what, "/", 2)[0], code))
			if code == 599 {
				rep.violate("C13/panic-on-altered-cookie/"+store, what, map[string]any{"noreplay": true})
			}
			if w.Authenticated || rc == 200 {
				rep.violate("C13/altered-or-foreign-cookie-yields-authenticated-session/"+store, fmt.Sprintf("%s: whoami authenticated=%v user=%q, /connect %d", what, w.Authenticated, w.User, rc), map[string]any{"noreplay": true})
			}
		}
		alphabet := "ABCDEFGHIJKLMNOPQRSTUVWXYZabcdefghijklmnopqrstuvwxyz0123456789-_=|. "
		for i := 0; i < len(good); i++ {
			for _, c := range alphabet {
				if byte(c) == good[i] {
					continue
				}
				if !env.thorough() && (i*7+int(c))%4 != 0 {
					continue
				}
				try(fmt.Sprintf("substitution/pos=%d/char=%q", i, c), good[:i]+string(c)+good[i+1:])
			}
		}
		for l := 0; l < len(good); l++ {
			try(fmt.Sprintf("truncation/len=%d", l), good[:l])
		}
		try("doubled", good+good)
		// foreign instance: same code, other keys
		app2 := NewWebApp(WebCfg{Store: store, HostSelection: "roundrobin", Hosts: []string{"target.example:3389"}, SessionKey: "another-instance-key-another-key", SessionEncKey: "another-instance-enc-another-enc-"})
		c13Script(app2.IdP)
		b2 := NewBrowser("10.0.0.1:40000")
		if c13Login(app2, b2, "ok:preferred_username") {
			foreign := b2.Cookies["RDPGWSESSION"]
			app = NewWebApp(WebCfg{Store: store, HostSelection: "roundrobin", Hosts: []string{"target.example:3389"}})
			c13Script(app.IdP)
			try("foreign-instance-cookie", foreign)
		}
		// ... and an instance that shares the encryption key but has another signing key (a cookie is accepted only
		// under both keys of this instance)
		app3 := NewWebApp(WebCfg{Store: store, HostSelection: "roundrobin", Hosts: []string{"target.example:3389"}, SessionKey: "another-instance-key-another-key"})
		c13Script(app3.IdP)
		b4 := NewBrowser("10.0.0.1:40000")
		if c13Login(app3, b4, "ok:preferred_username") {
			foreign := b4.Cookies["RDPGWSESSION"]
			app = NewWebApp(WebCfg{Store: store, HostSelection: "roundrobin", Hosts: []string{"target.example:3389"}})
			c13Script(app.IdP)
			try("cookie-of-an-instance-with-the-same-encryption-key-and-another-signing-key", foreign)
		}
		app4 := NewWebApp(WebCfg{Store: store, HostSelection: "roundrobin", Hosts: []string{"target.example:3389"}, SessionEncKey: "another-instance-enc-another-enc-"})
		c13Script(app4.IdP)
		b5 := NewBrowser("10.0.0.1:40000")
		if c13Login(app4, b5, "ok:preferred_username") {
			foreign := b5.Cookies["RDPGWSESSION"]
			app = NewWebApp(WebCfg{Store: store, HostSelection: "roundrobin", Hosts: []string{"target.example:3389"}})
			c13Script(app.IdP)
			try("cookie-of-an-instance-with-the-same-signing-key-and-another-encryption-key", foreign)
		}
		if store == "file" {
			// valid cookie whose session file was deleted
			app = NewWebApp(WebCfg{Store: store, HostSelection: "roundrobin", Hosts: []string{"target.example:3389"}})
			c13Script(app.IdP)
			b3 := NewBrowser("10.0.0.1:40000")
			if c13Login(app, b3, "ok:preferred_username") {
				files, _ := filepath.Glob(filepath.Join(os.TempDir(), "session_*"))
				for _, f := range files {
					os.Remove(f)
				}
				try("file-store-cookie-with-deleted-file", b3.Cookies["RDPGWSESSION"])
			}
		}
	}
	return distinct
}

func m2connect(app *WebApp, cookie string) int {
	m := NewBrowser("10.0.0.1:40000")
	m.Cookies["RDPGWSESSION"] = cookie
	return m.Do(app, "GET", "/connect").Code
}

// c13Identities: what the callback stored is what later requests see.
func c13Identities(env *Env, rep *Report, n *int) int {
	distinct := 0
	users := []string{"alice", "alice@example.com", "ünï-漢字", strings.Repeat("u", 300), "a b", ""}
	xffs := []string{"", "10.9.9.9", "10.9.9.9, 10.1.1.1, 10.2.2.2"}
	ats := []int{8, 1000, 3000}
	for _, store := range []string{"cookie", "file"} {
		for _, u := range users {
			for _, x := range xffs {
				for _, al := range ats {
					*n++
					if !env.mine(*n) {
						continue
					}
					distinct++
					rep.add("executions", 1)
					vclock.Reset()
					app := NewWebApp(WebCfg{Store: store, HostSelection: "roundrobin", Hosts: []string{"target.example:3389"}})
					at := "at-" + strings.Repeat("t", al)
					name := fmt.Sprintf("id:%s:%d", u, al)
					tokKey := "idtok:" + u
					if _, ok := c13IDTokens[tokKey]; !ok {
						now := time.Now()
						c13IDTokens[tokKey] = app.IdP.IDToken(map[string]any{"iss": idpIssuer, "aud": "rdpgw", "sub": "s", "exp": now.Add(time.Hour).Unix(), "iat": now.Unix(), "preferred_username": u}, false)
					}
					app.IdP.Codes[name] = CodeBehaviour{AccessToken: at, IDToken: c13IDTokens[tokKey]}
					b := NewBrowser("10.0.0.1:40000")
					b.XFF = x
					rec := b.Do(app, "GET", "/connect")
					rec = b.Do(app, "GET", "/callback?state="+StateOf(rec)+"&code="+urlq(name))
					w1, _ := c13Who(app, b)
					w2, c2 := c13Who(app, b)
					what := fmt.Sprintf("store=%s user=%.20q xff=%q access-token=%d bytes", store, u, x, al)
					rep.outcome(fmt.Sprintf("%s identity authenticated=%v", store, w1.Authenticated))
					if c2 == 599 || rec.Code == 599 {
						rep.violate("C13/panic-restoring-identity/"+store, what, map[string]any{"noreplay": true})
						continue
					}
					if u == "" {
						if w1.Authenticated {
							rep.violate("C13/authenticated-without-verified-login/"+store, what+": empty user-name claim", map[string]any{"noreplay": true})
						}
						continue
					}
					if !w1.Authenticated {
						// the session could not be stored (e.g. cookie too large): then it must stay unauthenticated, which it is
						continue
					}
					if w1.User != u || w1.AccessToken != at || w2.User != u || w2.AccessToken != at || w1.Session != w2.Session || !w2.Authenticated {
						rep.violate("C13/identity-not-restored-unchanged/"+store, fmt.Sprintf("%s: first request user=%.20q at=%d session=%s; second user=%.20q at=%d session=%s", what, w1.User, len(w1.AccessToken), w1.Session, w2.User, len(w2.AccessToken), w2.Session), map[string]any{"noreplay": true})
					}
				}
			}
		}
	}
	// every field: an identity whose fields all carry distinct values is stored and read back on the next request
	for _, store := range []string{"cookie", "file"} {
		for _, u := range []string{"alice", "bob@example.com", "J\xfcrgen"} {
			for _, auth := range []string{"1", "0"} {
				*n++
				if !env.mine(*n) {
					continue
				}
				distinct++
				rep.add("executions", 1)
				vclock.Reset()
				app := NewWebApp(WebCfg{Store: store, HostSelection: "roundrobin", Hosts: []string{"target.example:3389"}})
				b := NewBrowser("10.0.0.1:40000")
				if rec := b.Do(app, "GET", "/verif-set?user="+urlq(u)+"&auth="+auth); rec.Code != 200 {
					continue
				}
				rec := b.Do(app, "GET", "/verif-get")
				var got map[string]any
				json.Unmarshal(rec.Body.Bytes(), &got)
				want := map[string]any{"user": u, "display": "Display " + u, "domain": "dom-" + u, "email": u + "@mail.example", "authenticated": auth == "1",
					"auth_time": float64(1700000000), "expiry": float64(1700003600), "custom": "value-" + u, "access_token": "at-" + u,
					"list": fmt.Sprintf("%T|%x", []string{}, fmt.Sprint([]string{"10.1.1.1", "10.2.2.2"})), "num": fmt.Sprintf("%T|%x", int64(0), "7"), "raw": fmt.Sprintf("%T|%x", "", "J\xfcrgen"),
					"user_hex": fmt.Sprintf("%x", u)}
				for k, wv := range want {
					if !utf8.ValidString(u) && k != "user_hex" && k != "list" && k != "num" && k != "raw" && k != "authenticated" && k != "auth_time" && k != "expiry" {
						continue // text fields travel through JSON in this harness route: compared in hex only
					}
					if got[k] != wv {
						rep.violate("C13/identity-not-restored-unchanged/"+store+"/"+k, fmt.Sprintf("store=%s user=%q authenticated=%s: field %s stored as %v, restored as %v", store, u, auth, k, wv, got[k]), map[string]any{"noreplay": true})
					}
				}
			}
		}
	}
	return distinct
}

func urlq(s string) string {
	r := strings.NewReplacer("%", "%25", " ", "%20", "&", "%26", "+", "%2B", "#", "%23", "?", "%3F", "\"", "%22")
	return r.Replace(s)
}
