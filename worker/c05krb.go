package main

import (
	"bufio"
	"encoding/base64"
	"time"

	"github.com/bolkedebruin/gokrb5/v8/client"
	krbconfig "github.com/bolkedebruin/gokrb5/v8/config"
	"github.com/bolkedebruin/gokrb5/v8/iana/nametype"
	"github.com/bolkedebruin/gokrb5/v8/keytab"
	"github.com/bolkedebruin/gokrb5/v8/messages"
	"github.com/bolkedebruin/gokrb5/v8/spnego"
	"github.com/bolkedebruin/gokrb5/v8/types"
)

// Kerberos tickets are forged with the keytab the harness generated for the
// gateway (as gokrb5's own tests do): the gateway's verification path is real,
// the KDC is not.

func krbNegotiate(user string, kt *keytab.Keytab, start, end time.Time) (string, error) {
	cfg, err := krbconfig.NewFromString("[libdefaults]\n default_realm = EXAMPLE.COM\n dns_lookup_kdc = false\n[realms]\n EXAMPLE.COM = {\n  kdc = 127.0.0.1:88\n }\n")
	if err != nil {
		return "", err
	}
	cl := client.NewWithPassword(user, "EXAMPLE.COM", "irrelevant", cfg)
	sname := types.PrincipalName{NameType: nametype.KRB_NT_PRINCIPAL, NameString: []string{"HTTP", "gw.example"}}
	tkt, sk, err := messages.NewTicket(cl.Credentials.CName(), cl.Credentials.Domain(), sname, "EXAMPLE.COM", types.NewKrbFlags(), kt, 18, 1, start, start, end, end.Add(time.Hour))
	if err != nil {
		return "", err
	}
	nt, err := spnego.NewNegTokenInitKRB5(cl, tkt, sk)
	if err != nil {
		return "", err
	}
	st := spnego.SPNEGOToken{Init: true, NegTokenInit: nt}
	b, err := st.Marshal()
	if err != nil {
		return "", err
	}
	return "Authorization: Negotiate " + base64.StdEncoding.EncodeToString(b), nil
}

func gwKeytab() *keytab.Keytab {
	path, _ := c18Keytab()
	kt, err := keytab.Load(path)
	if err != nil {
		infra("keytab: %v", err)
	}
	return kt
}

func otherKeytab() *keytab.Keytab {
	k := keytab.New()
	k.AddEntry("HTTP/gw.example", "EXAMPLE.COM", "another-password", time.Now(), 1, 18)
	return k
}

// c05Kerberos: positive and negative SPNEGO cases against a kerberos-enabled configuration.
func (w *c05World) kerberos(viol func(kind, detail string), rep *Report) int {
	now := time.Now().UTC()
	type kc struct {
		name  string
		kt    *keytab.Keytab
		start time.Time
		end   time.Time
		want  bool
	}
	n := 0
	for _, c := range []kc{
		{"valid-ticket", gwKeytab(), now.Add(-time.Minute), now.Add(time.Hour), true},
		{"ticket-under-another-service-key", otherKeytab(), now.Add(-time.Minute), now.Add(time.Hour), false},
		{"expired-ticket", gwKeytab(), now.Add(-2 * time.Hour), now.Add(-time.Hour), false},
		{"not-yet-valid-ticket", gwKeytab(), now.Add(2 * time.Hour), now.Add(3 * time.Hour), false},
	} {
		n++
		rep.add("executions", 1)
		hdr, err := krbNegotiate(userA, c.kt, c.start, c.end)
		if err != nil {
			infra("forging a ticket: %v", err)
		}
		conn, err := w.gw.Dial()
		if err != nil {
			continue
		}
		conn.SetDeadline(time.Now().Add(15 * time.Second))
		raw, _ := methodRequest("ws", []string{hdr})
		conn.Write([]byte(raw))
		br := bufio.NewReader(conn)
		r := ReadResponse(br)
		reached := r.Status == 101
		rep.outcome("kerberos " + c.name + " reached=" + map[bool]string{true: "yes", false: "no"}[reached])
		switch {
		case !w.cfg.has("kerberos"):
			if reached && w.cfg.String() != "openid" {
				viol("disabled-scheme-reaches-handler/kerberos", c.name)
			}
		case c.want && !reached:
			viol("valid-kerberos-ticket-does-not-reach-handler", c.name+": status "+itoa(r.Status))
		case !c.want && reached:
			viol("handler-reached-with-unconfirmed-credentials/kerberos-"+c.name, "")
		case c.want && !w.cfg.has("openid"):
			if who := w.whoIs(conn, br); who != userA {
				viol("tunnel-does-not-carry-confirmed-user/kerberos", who)
			}
		}
		conn.Close()
	}
	return n
}

func itoa(i int) string { return fmtInt(i) }

func fmtInt(i int) string {
	if i == 0 {
		return "0"
	}
	neg := i < 0
	if neg {
		i = -i
	}
	var b []byte
	for i > 0 {
		b = append([]byte{byte('0' + i%10)}, b...)
		i /= 10
	}
	if neg {
		b = append([]byte{'-'}, b...)
	}
	return string(b)
}
