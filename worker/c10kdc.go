package main

import (
	"strings"
	"fmt"

	"verif/internal/der"
)

// C10 part (d): every KDC-proxy body shape against the real handler.

func c10KdcScenarios() []KdcScenario {
	var out []KdcScenario
	good := der.KdcProxyMessage(kdcMessage(20), "EXAMPLE.COM", true, 1, true)
	add := func(name string, body []byte, f func(*KdcScenario)) {
		s := KdcScenario{NKdc: 1, Realm: "default", Name: name, RawBody: body, UDP: []string{"reply"}, TCP: []string{"reply-close"}}
		if body == nil {
			s.RawBody = []byte{}
		}
		if f != nil {
			f(&s)
		}
		out = append(out, s)
	}
	for cut := 0; cut < len(good); cut++ {
		add(fmt.Sprintf("truncated/len=%d", cut), good[:cut], nil)
	}
	add("trailing/1", append(append([]byte{}, good...), 0), nil)
	add("trailing/dup", append(append([]byte{}, good...), good...), nil)
	// every length octet replaced by boundary values and long forms
	lenPos := []int{1, 3, 5}
	for _, p := range lenPos {
		for _, v := range [][]byte{{0}, {1}, {0x7f}, {0x80}, {0x81, 0}, {0x81, 0xff}, {0x82, 0xff, 0xff}, {0x84, 0xff, 0xff, 0xff, 0xff}, {0x88, 1, 2, 3, 4, 5, 6, 7, 8}, {0xff}} {
			b := append(append(append([]byte{}, good[:p]...), v...), good[p+1:]...)
			add(fmt.Sprintf("length-octet@%d=%x", p, v), b, nil)
		}
	}
	for _, t := range []byte{0x00, 0x31, 0x04, 0xA0, 0xFF} {
		b := append([]byte{}, good...)
		b[0] = t
		add(fmt.Sprintf("outer-tag=%#x", t), b, nil)
	}
	for _, t := range []byte{0xA1, 0x80, 0x04, 0x30} {
		b := append([]byte{}, good...)
		b[2] = t
		add(fmt.Sprintf("message-tag=%#x", t), b, nil)
	}
	for n := 0; n <= 5; n++ {
		add(fmt.Sprintf("kerberos-message-of-%d-bytes", n), der.KdcProxyMessage(make([]byte, n), "EXAMPLE.COM", true, 0, false), nil)
		add(fmt.Sprintf("kerberos-message-of-%d-bytes-no-realm", n), der.KdcProxyMessage(make([]byte, n), "", false, 0, false), nil)
	}
	// the 4-byte length prefix inside the Kerberos message announces fewer or more bytes than follow
	for _, d := range []int{-16, -5, -4, -3, -2, -1, 1, 2, 3, 4, 5, 8, 16, 1 << 20, -17} {
		m := kdcMessage(16)
		v := uint32(16 + d)
		if d == -17 {
			v = 0xFFFFFFFF
		}
		m[0], m[1], m[2], m[3] = byte(v>>24), byte(v>>16), byte(v>>8), byte(v)
		add(fmt.Sprintf("inner-length-prefix=%d-for-16-bytes", int32(v)), der.KdcProxyMessage(m, "EXAMPLE.COM", true, 0, false), nil)
	}
	// BER that is not DER: every length in the long form with 1 / 2 / 3 octets although a shorter form exists
	// (Kerberos messages of 20, 200, 300 and 1000 bytes: with 2 octets the lengths of the larger ones are partly
	// in their shortest form, the realm's never is)
	for _, n := range []int{1, 2, 3} {
		for _, sz := range []int{20, 200, 300, 1000} {
			add(fmt.Sprintf("lengths-in-long-form-%d-octets/message-of-%d", n, sz), der.KdcProxyMessageLong(kdcMessage(sz), "EXAMPLE.COM", n), nil)
		}
	}
	// ... and each of the three lengths around the Kerberos message on its own and together (realm in proper DER)
	for _, n := range []int{2, 3} {
		for mask := 1; mask < 8; mask++ {
			for _, sz := range []int{20, 100, 200, 300} {
				f := func(bit int) int {
					if mask&bit != 0 {
						return n
					}
					return 0
				}
				add(fmt.Sprintf("long-form-%d-octets/seq=%v,wrapper=%v,octet-string=%v/message-of-%d", n, mask&1 != 0, mask&2 != 0, mask&4 != 0, sz), der.KdcProxyMessageForms(kdcMessage(sz), "EXAMPLE.COM", f(1), f(2), f(4)), nil)
			}
		}
	}
	add("implicit-realm-tag", der.TLV(0x30, append(der.TLV(0xA0, der.TLV(0x04, kdcMessage(8))), der.TLV(0x81, []byte("EXAMPLE.COM"))...)), nil)
	add("realm-with-nul", der.KdcProxyMessage(kdcMessage(8), "EXAMPLE.COM\x00X", true, 0, false), nil)
	add("realm-empty", der.KdcProxyMessage(kdcMessage(8), "", true, 0, false), nil)
	add("realm-4k", der.KdcProxyMessage(kdcMessage(8), string(make([]byte, 4096)), true, 0, false), nil)
	for _, m := range []string{"GET", "PUT", "HEAD", "DELETE", "OPTIONS", "post"} {
		m := m
		add("method="+m, good, func(s *KdcScenario) { s.Method = m })
	}
	add("no-content-length", good, func(s *KdcScenario) { s.NoLength = true })
	add("declared-0", nil, nil)
	add("declared-128KiB-body-short", good, func(s *KdcScenario) { s.Declared = 128 * 1024 })
	add("declared-128KiB+1", good, func(s *KdcScenario) { s.Declared = 128*1024 + 1 })
	add("declared-huge", good, func(s *KdcScenario) { s.Declared = 1 << 40 })
	big := der.KdcProxyMessage(kdcMessage(128*1024-40), "EXAMPLE.COM", true, 0, false)
	add("body-just-under-128KiB", big, nil)
	add("body-over-128KiB", der.KdcProxyMessage(kdcMessage(128*1024+10), "EXAMPLE.COM", true, 0, false), nil)
	return out
}

func c10KdcOne(sc KdcScenario) (viol, detail string, code int) {
	res := RunKdc(sc, nil, false)
	defer res.X.Finish()
	for _, p := range res.X.Panics() {
		return "kdc-panic:" + shortFn(panicSite(p)), p.Value, 0
	}
	for _, b := range res.X.Blocked {
		if b.Name == "main" {
			return "kdc-request-never-answered", "handler blocked on " + b.Desc, 0
		}
		if !b.Daemon {
			return "kdc-goroutine-left", b.Name + " on " + b.Desc, 0
		}
	}
	code = res.Code
	want := 0
	switch {
	case sc.Method != "" && sc.Method != "POST":
		want = 405
	case sc.NoLength:
		want = 411
	case sc.Declared > 128*1024 || len(sc.RawBody) > 128*1024:
		want = 413
	}
	if want == 0 {
		// is it valid DER of the right shape without trailing bytes? (independent decoder)
		if _, err := der.ParseKdcProxyMessage(sc.RawBody); err != nil && sc.Declared == 0 && sc.Name != "implicit-realm-tag" {
			want = 400
		}
	}
	if want != 0 {
		if code != want {
			return "kdc-wrong-status-for-malformed-request", fmt.Sprintf("%s: status %d, want %d", sc.Name, code, want), code
		}
		if len(res.Dials) > 0 {
			return "kdc-contacted-for-rejected-request", fmt.Sprintf("%s: %v", sc.Name, res.Dials), code
		}
	}
	if code == 0 {
		return "kdc-request-never-answered", "no status", 0
	}
	return "", "", code
}

func c10Kdc(env *Env, rep *Report) int {
	scs := c10KdcScenarios()
	n := 0
	for i, sc := range scs {
		if !env.mine(i) {
			continue
		}
		n++
		rep.add("executions", 1)
		v, d, code := c10KdcOne(sc)
		cls := sc.Name
		for j, c := range cls {
			if c == '/' || c == '=' || c == '@' {
				cls = cls[:j]
				break
			}
		}
		rep.outcome(fmt.Sprintf("d kdc class=%s code=%d verdict=%s", cls, code, v))
		if v != "" {
			rep.violate("C10/"+v+"/"+sc.Name, d, map[string]any{"engine": "enum", "part": "kdc", "scenario": sc.Name})
		}
		if n%40 == 1 {
			rep.sample(map[string]any{"part": "d (KDC proxy body)", "input": sc.Name, "bytes": len(sc.RawBody), "status": code, "verdict": v})
		}
	}
	// well-formed requests whose relay runs into a fault: a message too large for one datagram (the UDP write
	// fails) or of boundary size, with the TCP side silent / closing / refusing / truncating / answering: the
	// request is always answered and nobody is left behind
	k := 0
	for _, size := range []int{65500, 65507, 65508, 65535, 128*1024 - 32} {
		for _, u := range []string{"reply", "silent", "refuse"} {
			for _, tcp := range []string{"silent", "close", "refuse", "half-close", "reply-close"} {
				k++
				if !env.mine(len(scs) + k) {
					continue
				}
				n++
				sc := KdcScenario{NKdc: 1, Realm: "default", Size: size, UDP: []string{u}, TCP: []string{tcp}}
				sc.Name = fmt.Sprintf("fault/size=%d/udp=%s/tcp=%s", size, u, tcp)
				res := RunKdc(sc, nil, false)
				_, vs := kdcCheck(sc, res)
				rep.add("executions", 1)
				rep.add("transitions", int64(res.X.Steps))
				res.X.Finish()
				rep.outcome(fmt.Sprintf("d kdc fault code=%d", res.Code))
				for _, v := range vs {
					if strings.Contains(v.Sig, "request-never-answered") || strings.Contains(v.Sig, "panic") || strings.Contains(v.Sig, "goroutine-left") {
						rep.violate("C10/kdc-"+strings.TrimPrefix(v.Sig, "C20/")+"/relay-fault", v.Detail, map[string]any{"noreplay": true})
					}
				}
			}
		}
	}
	rep.Notes = append(rep.Notes, fmt.Sprintf("part d: %d KDC-proxy request shapes + %d relay-fault scenarios", len(scs), k))
	return n
}

func c10KdcReplay(env *Env, rep *Report) {
	name, _ := env.Replay["scenario"].(string)
	for _, sc := range c10KdcScenarios() {
		if sc.Name == name {
			v, d, code := c10KdcOne(sc)
			fmt.Println("status:", code, "verdict:", v, d)
			if v != "" {
				cls := sc.Name
				for j, c := range cls {
					if c == '/' || c == '=' || c == '@' {
						cls = cls[:j]
						break
					}
				}
				rep.violate("C10/"+v+"/"+sc.Name, d, env.Replay)
			}
		}
	}
}
