package main

import (
	"bytes"
	"context"
	"crypto/x509"
	"encoding/json"
	"fmt"
	"net/http/httptest"
	"net/url"
	"os"
	"os/exec"
	"strconv"
	"strings"
	"time"

	"github.com/bolkedebruin/rdpgw/cmd/rdpgw/security"
	"github.com/bolkedebruin/rdpgw/cmd/rdpgw/web"

	"verif/shim/vclock"
	"verif/shim/vsched"
)

// Requests of the web side (login callback, download, token introspection) at the same time, with a
// scheduling point in front of every statement of web, security, identity and rdp (the overlay's "fine"
// rule): these paths contain almost no lock, I/O or channel operation, so only statement-level points let two
// requests interleave at all. One deviation: a request is interrupted at one statement, the other one runs
// to its end, the first one resumes.

type fineCase struct {
	Name string
	// Cold: every execution runs in a process of its own, so that state the code under test builds once per
	// process (lazily initialised package variables) is in its initial state in every explored schedule
	Cold bool
	// Run builds a fresh application, does the sequential prelude, runs the threads under the schedule and
	// judges the outcome.
	Run func(prefix []int) vsched.RunResult
}

var fineCases = map[string]func() []fineCase{}

// fineThreads runs the bodies as threads of one execution (statement-level points active).
func fineThreads(prefix []int, bodies ...func()) *vsched.Exec {
	vsched.Fine = true
	defer func() { vsched.Fine = false }()
	return vsched.Run(prefix, 80000, false, nil, func() {
		NewWorld()
		done := 0
		for i, b := range bodies {
			b := b
			vsched.Go("request-"+strconv.Itoa(i), func() { b(); done++ })
		}
		vsched.Point("join-requests", func() bool { return done == len(bodies) })
	})
}

func finePanics(prop, name string, x *vsched.Exec) []vsched.Violation {
	var v []vsched.Violation
	for _, p := range x.Panics() {
		v = append(v, vsched.Violation{Sig: prop + "/panic:" + shortFn(panicSite(p)) + "/" + name, Detail: p.Value})
	}
	for _, b := range x.Blocked {
		if !b.Daemon && b.Name != "main" {
			v = append(v, vsched.Violation{Sig: prop + "/request-never-answered/" + name, Detail: "thread " + b.Name + " blocked on " + b.Desc})
		}
	}
	return v
}

func exploreFine(env *Env, rep *Report, prop string) int {
	mk := fineCases[prop]
	if mk == nil {
		return 0
	}
	bound := 1
	n := 0
	var names []string
	for _, fc := range mk() {
		names = append(names, fc.Name)
	}
	rep.Rule += " Plus requests at the same time with statement-level scheduling points (web, security, identity, rdp), every schedule with one deviation from the default one (thorough: two deviations for cases with at most 400 decision points): " + strings.Join(names, ", ") + "."
	for i, fc := range mk() {
		if env.Part != "" && !strings.Contains(fc.Name, env.Part) {
			continue
		}
		_ = i
		curScenario = fc.Name
		if fc.Cold {
			fc.Run = coldRunner(prop, fc.Name)
		}
		a, b := fc.Run(nil), fc.Run(nil)
		if a.Outcome != b.Outcome || len(a.X.Decisions) != len(b.X.Decisions) {
			// see exploreConc: a broken oracle in one of two runs of the same schedule is the verdict
			if vs := append(append([]vsched.Violation{}, a.Violations...), b.Violations...); len(vs) > 0 {
				for _, v := range vs {
					rep.violate(v.Sig, "(the default schedule run twice gave two different observations: the outcome depends on state that survives the execution) "+v.Detail, map[string]any{"noreplay": true})
				}
				continue
			}
			infra("%s %s is not deterministic under replay: %q/%d vs %q/%d", prop, fc.Name, a.Outcome, len(a.X.Decisions), b.Outcome, len(b.X.Decisions))
		}
		db := bound
		if env.thorough() && !fc.Cold && len(a.X.Decisions) <= 400 {
			db = 2 // small cases: a second deviation is affordable (about half the square of the decision points)
		}
		ex := &vsched.Explorer{Bound: db, AllSwitchesCost: true, Shard: env.Shard, NShards: env.NShards, Deadline: env.Deadline, RunOne: fc.Run}
		if err := ex.Explore(); err != nil {
			infra("%s %s: %v", prop, fc.Name, err)
		}
		if ex.Capped != "" {
			rep.capf("%s: %s", fc.Name, ex.Capped)
		}
		rep.add("executions", int64(ex.Execs))
		rep.add("transitions", int64(ex.Steps))
		n += ex.Execs
		for o := range ex.Outcomes {
			rep.outcome(fc.Name + ": " + o)
		}
		for _, sig := range ex.FoundOrder {
			f := ex.Found[sig]
			rep.violate(f.Sig, f.Detail, map[string]any{"engine": "fine", "scenario": fc.Name, "choices": f.Choices})
		}
		if env.Shard == 0 {
			rep.sample(map[string]any{"scenario": fc.Name, "statement_level_decision_points_in_default_schedule": len(a.X.Decisions), "executions_this_shard": ex.Execs, "deviation_bound": db})
		}
	}
	return n
}

func replayFine(env *Env, rep *Report, prop string) bool {
	if e, _ := env.Replay["engine"].(string); e != "fine" {
		return false
	}
	name, _ := env.Replay["scenario"].(string)
	mk := fineCases[prop]
	if mk == nil {
		return false
	}
	for _, fc := range mk() {
		if fc.Name != name {
			continue
		}
		var prefix []int
		if cs, ok := env.Replay["choices"].([]any); ok {
			for _, c := range cs {
				if f, ok := c.(float64); ok {
					prefix = append(prefix, int(f))
				}
			}
		}
		if fc.Cold {
			fc.Run = coldRunner(prop, fc.Name)
		}
		r := fc.Run(prefix)
		fmt.Println("outcome:", r.Outcome)
		for _, v := range r.Violations {
			rep.violate(v.Sig, v.Detail, env.Replay)
		}
		return true
	}
	return false
}

// ---------------------------------------------------------------------------

// fineLogin logs a browser in (sequentially, outside the schedule).
func fineLogin(app *WebApp, user, peer string) *Browser {
	now := time.Now()
	key := "fine-" + user
	if _, ok := c13IDTokens[key]; !ok {
		c13IDTokens[key] = app.IdP.IDToken(map[string]any{"iss": idpIssuer, "aud": "rdpgw", "sub": user, "exp": now.Add(time.Hour).Unix(), "iat": now.Unix(), "preferred_username": user}, false)
	}
	app.IdP.Codes[key] = CodeBehaviour{AccessToken: "at-" + user, IDToken: c13IDTokens[key]}
	b := NewBrowser(peer)
	rec := b.Do(app, "GET", "/connect")
	b.Do(app, "GET", "/callback?state="+StateOf(rec)+"&code="+key)
	return b
}

func fileSummary(f string) string {
	var out []string
	for _, l := range strings.Split(f, "\r\n") {
		if strings.HasPrefix(l, "gatewayaccesstoken:s:") {
			cl := tokenClaims(strings.TrimPrefix(l, "gatewayaccesstoken:s:"))
			l = fmt.Sprintf("gatewayaccesstoken:s:<sub=%v remoteServer=%v clientIp=%v accessToken=%v>", cl["sub"], cl["remoteServer"], cl["clientIp"], cl["accessToken"])
		}
		out = append(out, l)
	}
	return strings.Join(out, "\n")
}

// fineDownloads: two logged-in browsers of different users, from different addresses, download at the same time.
func fineDownloads(prop string, template bool) fineCase {
	name := fmt.Sprintf("two-downloads-at-once/template=%v", template)
	return fineCase{Name: name, Run: func(prefix []int) vsched.RunResult {
		vclock.Reset()
		cfg := WebCfg{Store: "cookie", HostSelection: "roundrobin", Hosts: []string{"{{ preferred_username }}-pc.example:3389"}, VerifyClientIP: true}
		if template {
			cfg.TemplateFile = c09TemplateFile()
		}
		app := NewWebApp(cfg)
		users := []string{"alice", "bob"}
		var bs []*Browser
		var ref []string
		for i, u := range users {
			b := fineLogin(app, u, fmt.Sprintf("10.0.0.%d:40000", i+1))
			bs = append(bs, b)
			// what this browser gets when nobody else is around
			ref = append(ref, fileSummary(b.Do(app, "GET", "/connect").Body.String()))
		}
		files := make([]string, 2)
		get := func(i int) func() {
			return func() {
				r := bs[i].Do(app, "GET", "/connect")
				files[i] = r.Body.String()
				if r.Code != 200 {
					files[i] = fmt.Sprintf("status %d %s", r.Code, r.Body.String())
				}
			}
		}
		x := fineThreads(prefix, get(0), get(1))
		v := finePanics(prop, name, x)
		good := 0
		for i, u := range users {
			cl := tokenClaims(rdpValue(files[i], "gatewayaccesstoken"))
			switch prop {
			case "C04":
				if want := fmt.Sprintf("10.0.0.%d", i+1); cl["clientIp"] != want {
					v = append(v, vsched.Violation{Sig: "C04/token-records-another-clients-address/" + name, Detail: fmt.Sprintf("the file downloaded by %s from %s carries a token that records the address %v", u, want, cl["clientIp"])})
					continue
				}
			default:
				if got := fileSummary(files[i]); got != ref[i] {
					v = append(v, vsched.Violation{Sig: prop + "/file-differs-from-the-one-the-same-session-gets-alone/" + name, Detail: fmt.Sprintf("session of %s, alone:\n%s\nnext to the other download:\n%s", u, ref[i], got)})
					continue
				}
			}
			good++
		}
		x.Finish()
		return vsched.RunResult{X: x, Outcome: fmt.Sprintf("good=%d", good), Violations: v}
	}}
}

// fineTokenInfo: token introspection requests at the same time.
func fineTokenInfo(signMode bool, kind string) fineCase {
	name := fmt.Sprintf("token-introspection-at-once/%s/sign=%v", kind, signMode)
	return fineCase{Name: name, Run: func(prefix []int) vsched.RunResult {
		vclock.Reset()
		security.UserEncryptionKey = []byte(c15Enc)
		security.UserSigningKey = nil
		if signMode {
			security.UserSigningKey = []byte(c15Sign)
		}
		mint := func(u string) string {
			t, err := security.GenerateUserToken(context.Background(), u)
			if err != nil {
				infra("GenerateUserToken: %v", err)
			}
			return t
		}
		ask := func(tok string) (int, string) {
			r := httptest.NewRequest("GET", "https://gw.example/tokeninfo?access_token="+url.QueryEscape(tok), nil)
			rec := httptest.NewRecorder()
			web.TokenInfo(rec, r)
			var cl map[string]any
			json.Unmarshal(rec.Body.Bytes(), &cl)
			sub, _ := cl["sub"].(string)
			return rec.Code, sub
		}
		alice, bob := mint("alice"), mint("bob")
		var toks [2]string
		var want [2]string // "" = must be refused
		switch kind {
		case "two-valid-tokens":
			toks, want = [2]string{alice, bob}, [2]string{"alice", "bob"}
		case "valid-and-foreign-key":
			security.UserEncryptionKey = []byte("other-key-other-key-other-key-32")
			foreign := mint("mallory")
			security.UserEncryptionKey = []byte(c15Enc)
			toks, want = [2]string{alice, foreign}, [2]string{"alice", ""}
		case "same-foreign-key-token-twice-after-a-valid-one", "same-garbage-twice-after-a-valid-one":
			bad := "not.a.token.at.all"
			if strings.HasPrefix(kind, "same-foreign") {
				security.UserEncryptionKey = []byte("other-key-other-key-other-key-32")
				bad = mint("mallory")
				security.UserEncryptionKey = []byte(c15Enc)
			}
			// the last token verified before the two requests was a good one
			if code, sub := ask(alice); code != 200 || sub != "alice" {
				infra("C15 concurrent cases: the valid token is not accepted sequentially (%d %q)", code, sub)
			}
			toks = [2]string{bad, bad}
		}
		var code [2]int
		var sub [2]string
		x := fineThreads(prefix, func() { code[0], sub[0] = ask(toks[0]) }, func() { code[1], sub[1] = ask(toks[1]) })
		v := finePanics("C15", name, x)
		for i := 0; i < 2; i++ {
			switch {
			case want[i] == "" && code[i] == 200:
				v = append(v, vsched.Violation{Sig: "C15/must-refuse-token-accepted/" + name, Detail: fmt.Sprintf("request %d presented a token that does not verify under the configured keys and was answered 200 with subject %q", i, sub[i])})
			case want[i] != "" && (code[i] != 200 || sub[i] != want[i]):
				v = append(v, vsched.Violation{Sig: "C15/valid-token-answered-with-anothers-claims-or-refused/" + name, Detail: fmt.Sprintf("request %d presented the token of %s and was answered %d with subject %q", i, want[i], code[i], sub[i])})
			}
		}
		x.Finish()
		return vsched.RunResult{X: x, Outcome: fmt.Sprintf("%d/%s %d/%s", code[0], sub[0], code[1], sub[1]), Violations: v}
	}}
}

// fineLogins: two browsers complete their OpenID logins at the same time (callbacks overlap), then each
// downloads its connection file.
func fineLogins(prop string, store string) fineCase {
	name := "two-logins-at-once-then-downloads/store=" + store
	return fineCase{Name: name, Run: func(prefix []int) vsched.RunResult {
		vclock.Reset()
		app := NewWebApp(WebCfg{Store: store, HostSelection: "roundrobin", Hosts: []string{"{{ preferred_username }}-pc.example:3389"}, VerifyClientIP: true})
		now := time.Now()
		users := []string{"alice", "bobby"}
		var bs []*Browser
		var cb []string
		for i, u := range users {
			key := "fine-" + u
			if _, ok := c13IDTokens[key]; !ok {
				c13IDTokens[key] = app.IdP.IDToken(map[string]any{"iss": idpIssuer, "aud": "rdpgw", "sub": u, "exp": now.Add(time.Hour).Unix(), "iat": now.Unix(), "preferred_username": u}, false)
			}
			app.IdP.Codes[key] = CodeBehaviour{AccessToken: "at-" + u, IDToken: c13IDTokens[key]}
			b := NewBrowser(fmt.Sprintf("10.0.0.%d:40000", i+1))
			rec := b.Do(app, "GET", "/connect")
			bs = append(bs, b)
			cb = append(cb, "/callback?state="+StateOf(rec)+"&code="+key)
		}
		login := func(i int) func() { return func() { bs[i].Do(app, "GET", cb[i]) } }
		x := fineThreads(prefix, login(0), login(1))
		v := finePanics(prop, name, x)
		good := 0
		for i, u := range users {
			r := bs[i].Do(app, "GET", "/connect")
			f := r.Body.String()
			cl := tokenClaims(rdpValue(f, "gatewayaccesstoken"))
			wantHost := u + "-pc.example:3389"
			var bad []string
			if r.Code != 200 {
				bad = append(bad, fmt.Sprintf("status %d", r.Code))
			}
			if rdpValue(f, "username") != u {
				bad = append(bad, "username="+rdpValue(f, "username"))
			}
			if rdpValue(f, "full address") != wantHost {
				bad = append(bad, "full address="+rdpValue(f, "full address"))
			}
			if cl["sub"] != u || cl["remoteServer"] != wantHost || cl["clientIp"] != fmt.Sprintf("10.0.0.%d", i+1) || cl["accessToken"] != "at-"+u {
				bad = append(bad, fmt.Sprintf("token claims sub=%v remoteServer=%v clientIp=%v accessToken=%v", cl["sub"], cl["remoteServer"], cl["clientIp"], cl["accessToken"]))
			}
			if len(bad) == 0 {
				good++
			} else {
				v = append(v, vsched.Violation{Sig: prop + "/connection-file-of-one-session-carries-another-sessions-values/" + name, Detail: fmt.Sprintf("the browser that logged in as %s (10.0.0.%d) downloads: %s", u, i+1, strings.Join(bad, "; "))})
			}
		}
		x.Finish()
		return vsched.RunResult{X: x, Outcome: fmt.Sprintf("good=%d", good), Violations: v}
	}}
}

// fineCallbacks: two callbacks carrying the same state value at the same time: the browser the state was
// issued to presents a code the provider honours, another browser presents the same state with a code the
// provider refuses. The provider's answer is a scheduling point.
func fineCallbacks(store string, secondCode string) fineCase {
	name := fmt.Sprintf("two-callbacks-with-one-state/%s/store=%s", secondCode, store)
	return fineCase{Name: name, Run: func(prefix []int) vsched.RunResult {
		vclock.Reset()
		app := NewWebApp(WebCfg{Store: store, HostSelection: "roundrobin", Hosts: []string{"target.example:3389"}, VerifyClientIP: true})
		now := time.Now()
		if _, ok := c13IDTokens["fine-alice"]; !ok {
			c13IDTokens["fine-alice"] = app.IdP.IDToken(map[string]any{"iss": idpIssuer, "aud": "rdpgw", "sub": "alice", "exp": now.Add(time.Hour).Unix(), "iat": now.Unix(), "preferred_username": "alice"}, false)
		}
		app.IdP.Codes["fine-alice"] = CodeBehaviour{AccessToken: "at-alice", IDToken: c13IDTokens["fine-alice"]}
		app.IdP.Codes["refused"] = CodeBehaviour{Refuse: true}
		app.IdP.SchedPoint = true
		defer func() { app.IdP.SchedPoint = false }()
		A, B := NewBrowser("10.0.0.1:40000"), NewBrowser("10.0.0.2:40000")
		st := StateOf(A.Do(app, "GET", "/connect"))
		B.Do(app, "GET", "/connect") // B has a session of its own (and a state of its own, which it does not use)
		var codeA, codeB int
		x := fineThreads(prefix,
			func() { codeA = A.Do(app, "GET", "/callback?state="+st+"&code=fine-alice").Code },
			func() { codeB = B.Do(app, "GET", "/callback?state="+st+"&code="+secondCode).Code })
		v := finePanics("C13", name, x)
		app.IdP.SchedPoint = false
		wa, _ := c13Who(app, A)
		wb, _ := c13Who(app, B)
		if wb.Authenticated {
			v = append(v, vsched.Violation{Sig: "C13/session-authenticated-without-a-verified-login/" + name, Detail: fmt.Sprintf("browser B presented a code the provider refuses (callback answered %d) and its session is now authenticated as %q", codeB, wb.User)})
		}
		if wa.Authenticated && wa.User != "alice" {
			v = append(v, vsched.Violation{Sig: "C13/session-authenticated-as-another-user/" + name, Detail: fmt.Sprintf("browser A is %q", wa.User)})
		}
		x.Finish()
		return vsched.RunResult{X: x, Outcome: fmt.Sprintf("A=%d/%v B=%d/%v", codeA, wa.Authenticated, codeB, wb.Authenticated), Violations: v}
	}}
}

func init() {
	fineCases["C13"] = func() []fineCase {
		return []fineCase{fineCallbacks("cookie", "refused"), fineCallbacks("file", "refused"), fineCallbacks("cookie", "never-issued")}
	}
	fineCases["C12"] = func() []fineCase { return []fineCase{fineLogins("C12", "cookie"), fineLogins("C12", "file")} }
	fineCases["C04"] = func() []fineCase { return []fineCase{fineDownloads("C04", false)} }
	fineCases["C19"] = func() []fineCase {
		return []fineCase{fineDownloads("C19", false), fineDownloads("C19", true), fineFirstDownloads("C19")}
	}
	fineCases["C15"] = func() []fineCase {
		var out []fineCase
		for _, sm := range []bool{false, true} {
			for _, k := range []string{"two-valid-tokens", "valid-and-foreign-key", "same-foreign-key-token-twice-after-a-valid-one", "same-garbage-twice-after-a-valid-one"} {
				out = append(out, fineTokenInfo(sm, k))
			}
		}
		return out
	}
}

// ---------------------------------------------------------------------------
// cold-start executions: one process per execution

type coldResult struct {
	Outcome    string
	Violations []vsched.Violation
	Decisions  []vsched.Decision
	Steps      int
	Abort      string
}

var coldKeyFile string

func coldRunner(prop, name string) func(prefix []int) vsched.RunResult {
	if coldKeyFile == "" {
		coldKeyFile = fmt.Sprintf("%s/idp-key-%d.der", scratch(), os.Getpid())
		os.WriteFile(coldKeyFile, x509.MarshalPKCS1PrivateKey(InstallIdP().Key), 0o600)
	}
	return func(prefix []int) vsched.RunResult {
		pj, _ := json.Marshal(prefix)
		cmd := exec.Command(os.Args[0], "-coldrun", prop+"|"+name+"|"+string(pj))
		cmd.Env = append(os.Environ(), "VERIF_IDP_KEY="+coldKeyFile, "GOMAXPROCS=1")
		out, err := cmd.Output()
		var cr coldResult
		if i := bytes.LastIndex(out, []byte("COLDRESULT ")); i >= 0 {
			err = json.Unmarshal(out[i+len("COLDRESULT "):], &cr)
		} else if err == nil {
			err = fmt.Errorf("no result")
		}
		if err != nil {
			infra("cold-start execution of %s %s (prefix %v) failed: %v: %s", prop, name, prefix, err, tail(string(out), 300))
		}
		return vsched.RunResult{X: &vsched.Exec{Decisions: cr.Decisions, Steps: cr.Steps, Abort: cr.Abort}, Outcome: cr.Outcome, Violations: cr.Violations}
	}
}

// coldChild runs one execution and prints its record (child mode of the worker).
func coldChild(arg string) {
	f := strings.SplitN(arg, "|", 3)
	if len(f) != 3 {
		os.Exit(2)
	}
	var prefix []int
	json.Unmarshal([]byte(f[2]), &prefix)
	mk := fineCases[f[0]]
	if mk == nil {
		os.Exit(2)
	}
	for _, fc := range mk() {
		if fc.Name == f[1] {
			r := fc.Run(prefix)
			b, _ := json.Marshal(coldResult{r.Outcome, r.Violations, r.X.Decisions, r.X.Steps, r.X.Abort})
			fmt.Printf("COLDRESULT %s\n", b)
			os.Exit(0)
		}
	}
	os.Exit(2)
}

// fineFirstDownloads: the first two downloads a gateway process ever serves arrive at the same time.
func fineFirstDownloads(prop string) fineCase {
	name := "first-two-downloads-of-the-process-at-once"
	return fineCase{Name: name, Cold: true, Run: func(prefix []int) vsched.RunResult {
		vclock.Reset()
		app := NewWebApp(WebCfg{Store: "cookie", HostSelection: "roundrobin", Hosts: []string{"{{ preferred_username }}-pc.example:3389"}, VerifyClientIP: true})
		users := []string{"alice", "bob"}
		var bs []*Browser
		for i, u := range users {
			bs = append(bs, fineLogin(app, u, fmt.Sprintf("10.0.0.%d:40000", i+1)))
		}
		files := make([]string, 2)
		get := func(i int) func() {
			return func() {
				r := bs[i].Do(app, "GET", "/connect")
				files[i] = r.Body.String()
				if r.Code != 200 {
					files[i] = fmt.Sprintf("status %d %s", r.Code, r.Body.String())
				}
			}
		}
		x := fineThreads(prefix, get(0), get(1))
		v := finePanics(prop, name, x)
		good := 0
		for i, u := range users {
			// what the same session gets afterwards, alone
			ref := fileSummary(bs[i].Do(app, "GET", "/connect").Body.String())
			if got := fileSummary(files[i]); got != ref {
				v = append(v, vsched.Violation{Sig: prop + "/file-differs-from-the-one-the-same-session-gets-alone/" + name, Detail: fmt.Sprintf("session of %s, first download of the process (next to another first download):\n%s\nlater, alone:\n%s", u, got, ref)})
				continue
			}
			good++
		}
		x.Finish()
		return vsched.RunResult{X: x, Outcome: fmt.Sprintf("good=%d", good), Violations: v}
	}}
}
