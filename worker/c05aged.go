package main

import (
	"fmt"
	"github.com/bolkedebruin/rdpgw/cmd/rdpgw/identity"
	"reflect"
	"time"
	"unsafe"

	"github.com/gorilla/securecookie"
)

const (
	c05SessionKey = "c05-session-key-c05-session-key!"
	c05SessionEnc = "c05-session-enc-c05-session-enc!"
)

// agedSessionCookie is a session cookie of the gateway (an empty session) issued `age` ago under the configured
// keys: what a client presents that keeps cookies longer than their Max-Age (a cookie file, a replaying proxy, a
// clock that runs behind). The codec has no exported clock; the harness sets its private one.
func agedSessionCookie(age time.Duration) string {
	return sessionCookieUnder(c05SessionKey, c05SessionEnc, age)
}

func sessionCookieUnder(hashKey, encKey string, age time.Duration) string {
	return sessionCookieWith(hashKey, encKey, age, map[interface{}]interface{}{})
}

// sessionCookieOf: the cookie of a session that holds an identity (what the gateway's web side stores after a
// login), under the given keys.
func sessionCookieOf(hashKey, encKey string, id identity.Identity) string {
	b, err := id.Marshal()
	if err != nil {
		infra("identity does not marshal: %v", err)
	}
	return sessionCookieWith(hashKey, encKey, 0, map[interface{}]interface{}{"RDPGWID": b})
}

func sessionCookieWith(hashKey, encKey string, age time.Duration, values map[interface{}]interface{}) string {
	sc := securecookie.New([]byte(hashKey), []byte(encKey))
	f := reflect.ValueOf(sc).Elem().FieldByName("timeFunc")
	if !f.IsValid() {
		infra("securecookie has no timeFunc field any more")
	}
	reflect.NewAt(f.Type(), unsafe.Pointer(f.UnsafeAddr())).Elem().Set(reflect.ValueOf(func() int64 { return time.Now().Add(-age).Unix() }))
	v, err := sc.Encode("RDPGWSESSION", values)
	if err != nil {
		infra("cannot encode an aged session cookie: %v", err)
	}
	return v
}

// agedSessions: requests that carry a session cookie issued 0 s / 1 min / 3 min / 1 h ago (an empty session:
// it says nothing about who the client is) are requests without a session: no credentials => 401 with the
// challenges, confirmed credentials => the handler.
func (w *c05World) agedSessions(viol func(kind, detail string), rep *Report) int {
	if w.cfg.String() == "openid" {
		return 0
	}
	n := 0
	for _, age := range []time.Duration{0, time.Minute, 3 * time.Minute, time.Hour} {
		ck := "Cookie: RDPGWSESSION=" + agedSessionCookie(age)
		n++
		rep.add("executions", 1)
		r := w.request("ws", []string{ck})
		rep.outcome(fmt.Sprintf("%s aged-session=%v no-credentials status=%d", w.cfg, age, r.Status))
		if r.Reached {
			viol("handler-reached-without-credentials/aged-session-cookie", fmt.Sprintf("config=%s cookie issued %v ago: reached", w.cfg, age))
		} else if r.Status != 401 {
			viol("no-401-without-authorization/aged-session-cookie", fmt.Sprintf("config=%s, no Authorization header, an (empty) session cookie issued %v ago: status %d challenges=%v", w.cfg, age, r.Status, r.Challenges))
		}
		if w.cfg.has("local") {
			n++
			rep.add("executions", 1)
			r := w.request("ws", []string{ck, basicHdr(userA, passA)})
			rep.outcome(fmt.Sprintf("%s aged-session=%v basic-good reached=%v", w.cfg, age, r.Reached))
			if !r.Reached {
				viol("confirmed-basic-credentials-do-not-reach-handler/aged-session-cookie", fmt.Sprintf("config=%s, right Basic credentials and an (empty) session cookie issued %v ago: status %d", w.cfg, age, r.Status))
			}
		}
	}
	return n
}
