package main

import (
	"bytes"
	"context"
	"crypto/rand"
	"crypto/rsa"
	"crypto/x509"
	"encoding/base64"
	"encoding/json"
	"errors"
	"io"
	"math/big"
	"net/http"
	"net/url"
	"os"
	"strings"
	"sync"
	"time"
	"verif/shim/vclock"
	"verif/shim/vsched"

	"github.com/coreos/go-oidc/v3/oidc"
	"golang.org/x/oauth2"

	"github.com/bolkedebruin/rdpgw/cmd/rdpgw/security"
)

// Scripted identity provider: replaces http.DefaultTransport, no sockets.

const idpIssuer = "https://idp.example"

type IdP struct {
	SchedPoint bool // requests are scheduling points of the running exploration
	mu         sync.Mutex
	// Issuer is the provider URL (scripted transport: https://idp.example; loopback server: http://127.0.0.1:port)
	Issuer string
	// Mode decides how /userinfo answers: honour | unknown | error500 | transport
	Mode string
	// Revoked access tokens (401)
	Revoked map[string]bool
	// UserinfoCalls counts requests per access token
	UserinfoCalls map[string]int
	Key           *rsa.PrivateKey
	// Codes: authorization code -> behaviour of the token endpoint
	Codes      map[string]CodeBehaviour
	TokenCalls int
	Log        []string
	// OneTime: an authorization code is exchanged once (what real providers do); Used records the spent ones
	OneTime bool
	Used    map[string]bool
}

// CodeBehaviour scripts the token endpoint for one code.
type CodeBehaviour struct {
	Refuse      bool
	Fault       string // "500" | "transport" | "garbage": the token endpoint is in trouble for this code
	NoIDToken   bool
	IDToken     string
	AccessToken string
}

var theIdP *IdP

func (p *IdP) RoundTrip(r *http.Request) (*http.Response, error) {
	if r.URL.Host != "idp.example" {
		return nil, errors.New("scripted transport: unknown host " + r.URL.Host)
	}
	if p.SchedPoint && vsched.Active() {
		// the round trip to the identity provider takes time: other goroutines run meanwhile
		vsched.Point("idp "+r.URL.Path, func() bool { return true })
	}
	code, v, err := p.respond(r)
	if err != nil {
		return nil, err
	}
	b, _ := json.Marshal(v)
	return &http.Response{StatusCode: code, Status: http.StatusText(code), Header: http.Header{"Content-Type": {"application/json"}},
		Body: io.NopCloser(bytes.NewReader(b)), Request: r, Proto: "HTTP/1.1", ProtoMajor: 1, ProtoMinor: 1}, nil
}

// ServeHTTP serves the same scripted answers over a real (loopback) socket.
func (p *IdP) ServeHTTP(w http.ResponseWriter, r *http.Request) {
	code, v, err := p.respond(r)
	if err != nil {
		// transport error: drop the connection
		if hj, ok := w.(http.Hijacker); ok {
			if c, _, e := hj.Hijack(); e == nil {
				c.Close()
				return
			}
		}
		w.WriteHeader(502)
		return
	}
	w.Header().Set("Content-Type", "application/json")
	w.WriteHeader(code)
	json.NewEncoder(w).Encode(v)
}

func (p *IdP) respond(r *http.Request) (int, any, error) {
	p.mu.Lock()
	defer p.mu.Unlock()
	p.Log = append(p.Log, r.Method+" "+r.URL.String())
	idpIssuer := p.Issuer
	js := func(code int, v any) (int, any, error) { return code, v, nil }
	switch r.URL.Path {
	case "/.well-known/openid-configuration":
		return js(200, map[string]any{
			"issuer": idpIssuer, "authorization_endpoint": idpIssuer + "/auth", "token_endpoint": idpIssuer + "/token",
			"userinfo_endpoint": idpIssuer + "/userinfo", "jwks_uri": idpIssuer + "/jwks",
			"id_token_signing_alg_values_supported": []string{"RS256"},
		})
	case "/jwks":
		pub := p.Key.PublicKey
		return js(200, map[string]any{"keys": []any{map[string]any{
			"kty": "RSA", "alg": "RS256", "use": "sig", "kid": "k1",
			"n": base64.RawURLEncoding.EncodeToString(pub.N.Bytes()),
			"e": base64.RawURLEncoding.EncodeToString(big.NewInt(int64(pub.E)).Bytes()),
		}}})
	case "/userinfo":
		tok := strings.TrimPrefix(r.Header.Get("Authorization"), "Bearer ")
		p.UserinfoCalls[tok]++
		switch p.Mode {
		case "transport":
			return 0, nil, errors.New("scripted transport: connection refused")
		case "error500":
			return js(500, map[string]any{"error": "server_error"})
		case "unknown":
			return js(401, map[string]any{"error": "invalid_token"})
		case "slow-unknown":
			// the provider takes half an hour (of the harness clock) to say that it does not know the token:
			// every time-out the caller may have set fires before the answer comes
			vclock.Advance(30 * time.Minute)
			time.Sleep(150 * time.Millisecond)
			return js(401, map[string]any{"error": "invalid_token"})
		}
		if p.Revoked[tok] || !strings.HasPrefix(tok, "at-") {
			return js(401, map[string]any{"error": "invalid_token"})
		}
		// "at-<user>" and "at-<user>~<n>" are access tokens of <user> (a user may hold several)
		who := strings.SplitN(strings.TrimPrefix(tok, "at-"), "~", 2)[0]
		return js(200, map[string]any{"sub": who, "preferred_username": who})
	case "/token":
		p.TokenCalls++
		body, _ := io.ReadAll(r.Body)
		vals, _ := url.ParseQuery(string(body))
		cb, ok := p.Codes[vals.Get("code")]
		if !ok || cb.Refuse || p.OneTime && p.Used[vals.Get("code")] {
			return js(400, map[string]any{"error": "invalid_grant"})
		}
		if p.OneTime {
			if p.Used == nil {
				p.Used = map[string]bool{}
			}
			p.Used[vals.Get("code")] = true
		}
		switch cb.Fault {
		case "500":
			return js(500, map[string]any{"error": "server_error"})
		case "transport":
			return 0, nil, errors.New("scripted transport: connection reset by peer")
		case "garbage":
			return js(200, "this is not a token response")
		}
		out := map[string]any{"access_token": cb.AccessToken, "token_type": "Bearer", "expires_in": 3600}
		if !cb.NoIDToken {
			out["id_token"] = cb.IDToken
		}
		return js(200, out)
	}
	return js(404, map[string]any{"error": "not_found"})
}

// InstallIdP sets up the scripted provider and wires security.OIDCProvider /
// security.Oauth2Config the way initOIDC in main.go does.
func InstallIdP() *IdP {
	if theIdP != nil {
		theIdP.Mode = "honour"
		theIdP.SchedPoint = false
		theIdP.Revoked = map[string]bool{}
		theIdP.UserinfoCalls = map[string]int{}
		theIdP.OneTime, theIdP.Used = false, nil
		theIdP.Codes = map[string]CodeBehaviour{}
		return theIdP
	}
	key, err := idpKey()
	if err != nil {
		infra("rsa: %v", err)
	}
	p := &IdP{Issuer: idpIssuer, Mode: "honour", Revoked: map[string]bool{}, UserinfoCalls: map[string]int{}, Key: key, Codes: map[string]CodeBehaviour{}}
	http.DefaultTransport = p
	http.DefaultClient = &http.Client{Transport: p}
	provider, err := oidc.NewProvider(context.Background(), idpIssuer)
	if err != nil {
		infra("oidc provider: %v", err)
	}
	security.OIDCProvider = provider
	security.Oauth2Config = oauth2.Config{
		ClientID: "rdpgw", ClientSecret: "secret", RedirectURL: "https://gw.example/callback",
		Endpoint: provider.Endpoint(), Scopes: []string{oidc.ScopeOpenID, "profile", "email"},
	}
	theIdP = p
	return p
}

// idpKey: the scripted provider's signing key. Child processes of a cold-start exploration (one process per
// execution) take the key their parent wrote, instead of generating one each.
func idpKey() (*rsa.PrivateKey, error) {
	if f := os.Getenv("VERIF_IDP_KEY"); f != "" {
		if b, err := os.ReadFile(f); err == nil {
			if k, err := x509.ParsePKCS1PrivateKey(b); err == nil {
				return k, nil
			}
		}
	}
	return rsa.GenerateKey(rand.Reader, 2048)
}
