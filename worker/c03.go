package main

import (
	"fmt"
	"github.com/bolkedebruin/rdpgw/cmd/rdpgw/security"
	"net"
	"strconv"
	"strings"
	"unicode/utf16"
	"verif/shim/vclock"

	"verif/internal/tsgu"
	"verif/shim/vsched"
)

// C03 — the host dialled is exactly the host that was requested and authorized.

func init() { props["C03"] = c03 }

type c03Req struct {
	Name string // description
	Pkt  []byte
	WF   bool   // well-formed channel request
	Host string // decoded server name (reference decoder), when WF
	Port uint16
}

// refDecodeName: UTF-16LE with proper surrogate handling; one trailing NUL is the terminator.
func refDecodeName(b []byte) (string, bool) {
	if len(b)%2 != 0 {
		return "", false
	}
	u := make([]uint16, len(b)/2)
	for i := range u {
		u[i] = uint16(b[2*i]) | uint16(b[2*i+1])<<8
	}
	if len(u) > 0 && u[len(u)-1] == 0 {
		u = u[:len(u)-1]
	}
	return string(utf16.Decode(u)), true
}

func c03Requests(entry string, otherUserEntry string) []c03Req {
	var out []c03Req
	host, portS, err := net.SplitHostPort(entry)
	port := 3389
	if err != nil {
		host = entry
	} else {
		port, _ = strconv.Atoi(portS)
	}
	add := func(name string, nameBytes []byte, p int, nres, nalt byte, nameLen int, wf bool) {
		r := c03Req{Name: name, Pkt: tsgu.ChannelCreateRaw(nres, nalt, uint16(p), 3, nameLen, nameBytes), WF: wf, Port: uint16(p)}
		if wf {
			r.Host, _ = refDecodeName(nameBytes[:nameLen])
		}
		out = append(out, r)
	}
	std := func(name, h string, p int) {
		b := tsgu.UTF16Z(h)
		add(name, b, p, 1, 0, len(b), true)
	}
	std("exact", host, port)
	nz := tsgu.UTF16(host)
	add("exact-no-terminator", nz, port, 1, 0, len(nz), true)
	for _, p := range []int{port - 1, port + 1, 0, 65535, 3390} {
		if p >= 0 && p != port {
			std(fmt.Sprintf("port-%d", p), host, p)
		}
	}
	std("name-with-port", host+":"+strconv.Itoa(port), port)
	b2 := append(tsgu.UTF16(host), 0, 0, 0, 0)
	add("two-nuls", b2, port, 1, 0, len(b2), true)
	b3 := append(append(tsgu.UTF16(host), 0, 0), tsgu.UTF16Z("x")...)
	add("embedded-nul-suffix", b3, port, 1, 0, len(b3), true)
	b4 := append(append(tsgu.UTF16(host), 0, 0), tsgu.UTF16Z(".evil.example")...)
	add("embedded-nul-domain", b4, port, 1, 0, len(b4), true)
	for i := 1; i < len(host); i++ {
		std(fmt.Sprintf("prefix-%d", i), host[:i], port)
	}
	for _, c := range []string{"a", ".", "0", "-", ":", "x."} {
		std("extended+"+c, host+c, port)
		std("prepended+"+c, c+host, port)
	}
	for i := 1; i < len(host) && i < 6; i++ {
		std(fmt.Sprintf("suffix-%d", i), host[i:], port)
	}
	std("superstring", "x"+host+"y", port)
	std("upper", strings.ToUpper(host), port)
	if otherUserEntry != "" {
		oh, op, e := net.SplitHostPort(otherUserEntry)
		if e == nil {
			pp, _ := strconv.Atoi(op)
			std("other-users-entry", oh, pp)
		}
	}
	std("bracketed", "["+host+"]", port)
	std("ipv6-loopback", "::1", port)
	std("ipv6-bracketed", "[::1]", port)
	std("ipv6-zone", "::1%eth0", port)
	std("ipv6-long", "0:0:0:0:0:0:0:1", port)
	std("empty-name", "", port)
	// surrogates
	sp := append(tsgu.UTF16(host), tsgu.Units(0xD83D, 0xDE00, 0)...)
	add("surrogate-pair-appended", sp, port, 1, 0, len(sp), true)
	ls := append(tsgu.UTF16(host), tsgu.Units(0xD800, 0)...)
	add("lone-surrogate-appended", ls, port, 1, 0, len(ls), true)
	// malformed
	z := tsgu.UTF16Z(host)
	add("odd-length", append(append([]byte{}, z...), 0x41), port, 1, 0, len(z)+1, false)
	add("length-shorter", z, port, 1, 0, len(z)-4, false)
	add("length-longer", z, port, 1, 0, len(z)+6, false)
	add("length-ffff", z, port, 1, 0, 0xFFFF, false)
	add("length-zero", z, port, 1, 0, 0, false)
	add("resources-0", z, port, 0, 0, len(z), false)
	add("resources-2", append(append([]byte{}, z...), append([]byte{byte(len(z)), 0}, z...)...), port, 2, 0, len(z), false)
	add("alternates-1", z, port, 1, 1, len(z), false)
	// several names in one request: whatever the gateway does with the further ones, it never connects anywhere the
	// policy does not allow (the first name here is not allowed, a later one is)
	el := tsgu.UTF16Z("elsewhere.example")
	withLen := func(b []byte) []byte { return append([]byte{byte(len(b)), byte(len(b) >> 8)}, b...) }
	// (the request's server name is its first name: these requests are well-formed requests for that name, and
	// a refused host means no connection to it "or to any other address")
	add("alternate-allowed-after-unlisted", append(append([]byte{}, el...), withLen(z)...), port, 1, 1, len(el), true)
	add("second-resource-allowed-after-unlisted", append(append([]byte{}, el...), withLen(z)...), port, 2, 0, len(el), true)
	add("two-alternates-allowed-after-unlisted", append(append(append([]byte{}, el...), withLen(z)...), withLen(z)...), port, 1, 2, len(el), true)
	// ... and the other way round: the first name is the listed one, an unlisted one follows
	add("alternate-unlisted-after-allowed", append(append([]byte{}, z...), withLen(el)...), port, 1, 1, len(z), true)
	add("second-resource-unlisted-after-allowed", append(append([]byte{}, z...), withLen(el)...), port, 2, 0, len(z), true)
	// a byte order mark is a character like any other (U+FEFF): a name that starts with one is another name
	bomLE := append([]byte{0xFF, 0xFE}, z...)
	add("byte-order-mark-le-prefix", bomLE, port, 1, 0, len(bomLE), true)
	be := []byte{0xFE, 0xFF}
	for i := 0; i+1 < len(z); i += 2 {
		be = append(be, z[i+1], z[i])
	}
	add("byte-order-mark-be-then-big-endian-name", be, port, 1, 0, len(be), true)
	return out
}

// refAllowed is the policy of the property statement.
func refAllowed(mode string, token bool, tokenHost string, hosts []string, user string, addr string) bool {
	if token && addr != tokenHost {
		return false
	}
	switch mode {
	case "any":
		return true
	case "roundrobin", "unsigned":
		if user == "" {
			return false
		}
		for _, h := range hosts {
			if strings.Replace(h, "{{ preferred_username }}", user, 1) == addr {
				return true
			}
		}
	}
	return false
}

func c03(env *Env, rep *Report) {
	rep.Rule = "product of host-selection modes {any, signed, roundrobin, unsigned, \"\", bogus} x token auth {off, on with token host = each candidate} x 4 host lists (plain, with user placeholder, IPv6 literal, entry without port) x users {\"\", alice, bob, alice-host, bob$1, a$$b, ${x}y} x ~90 channel requests derived from every list entry " +
		"(exact, without terminator, ports +-1/0/65535, name carrying :port, one/two/embedded NULs, every proper prefix, one-character extensions and prefixes, suffixes, superstring, upper case, another user's substituted entry, bracketed / IPv6 / zone forms, surrogate pairs, lone surrogates, odd length, length field shorter/longer/0xFFFF/0, resource counts 0/2, alternates 1). " +
		"Plus two-user histories (user A then user B, 5 tunnels one after the other on the same gateway process, list and token modes): a user must still reach its own substituted entry and never another user's. Plus a legacy tunnel whose RDG_OUT_DATA and RDG_IN_DATA requests are authenticated as different users (the tunnel belongs to the one that created it). Plus schedules: two tunnels whose real tokens (for different hosts) are verified by the real security.CheckPAACookie at the same time, the userinfo round trip being a scheduling point, one of them asking for the other's host (deviation bound 2, thorough 3). Each case is one execution of the real Processor with the real security.CheckSession/CheckHost wired as main.go does, all dials observed by the network shim. Oracle: reference policy over an independent UTF-16 decoding; allowed well-formed request => exactly one dial to JoinHostPort(name,port) and status 0; refused => E_PROXY_RAP_ACCESSDENIED, zero dials to any address; malformed => dials only to allowed addresses. distinct_nontrivial = distinct cases."
	rep.Assumptions = append(rep.Assumptions,
		"host names are compared byte-exact; a letter-case variant of an allowed name is classified unspecified and not judged",
		"cookie acceptance is simulated by the table checker which sets token host / user exactly as security.CheckPAACookie does (C02 covers the JWT path)",
		"list entries are ASCII; a placeholder occurs at most once per entry")
	lists := [][]string{
		{"hosta.example:3389"},
		{"hosta.example:3389", "my-{{ preferred_username }}-host:3389"},
		{"[::1]:3389", "hostb.example:3390"},
		{"hostnoport", "hosta.example:3389"},
	}
	// "bob$1", "a$$b", "${x}y": user names are data, not templates (a '$' in a name must survive substitution)
	users := []string{"", "alice", "bob", "alice-host", "bob$1", "a$$b", "${x}y"}
	modes := []string{"any", "signed", "roundrobin", "unsigned", "", "bogus"}
	type cse struct {
		mode    string
		token   bool
		tokHost string
		hosts   []string
		user    string
		req     c03Req
	}
	exec := func(c cse) (verdict, detail, obs string) {
		g := GwCfg{TokenAuth: c.token, HostSelection: c.mode, Hosts: append([]string{}, c.hosts...), VerifyIP: true}
		if c.token {
			g.CookieCheck = TableCookie
		}
		cfg := SeqCfg{Gw: g, Kind: "proc", User: c.user, ClientIP: "10.0.0.1", RemoteAddr: "10.0.0.1:50000", Accept: func(string) bool { return true }}
		hs := tsgu.Handshake(1, 0, 0, 0)
		tc := tsgu.TunnelCreate("", false)
		if c.token {
			hs = tsgu.Handshake(1, 0, 0, tsgu.ExtAuthPAA)
			tc = tsgu.TunnelCreate("ok|"+c.tokHost+"|10.0.0.1|"+c.user, true)
		}
		res := RunSeq(cfg, []Seg{{Bytes: hs}, {Bytes: tc}, {Bytes: tsgu.TunnelAuth("pc")}, {Bytes: c.req.Pkt}})
		rep.add("executions", 1)
		rep.add("transitions", int64(res.StepsRun))
		if res.Abort != "" {
			infra("C03: aborted: %s", res.Abort)
		}
		if len(res.Panics) > 0 {
			return "panic:" + shortFn(panicSite(res.Panics[0])), res.Panics[0].Value, ""
		}
		if len(res.Steps) != 4 {
			return "setup-failed", "", ""
		}
		for i := 0; i < 3; i++ {
			if len(res.Steps[i].Dials) > 0 {
				return "dial-before-channel-create", res.Steps[i].String(), ""
			}
			if len(res.Steps[i].Resps) != 1 || tsgu.ParseResp(res.Steps[i].Resps[0]).Status != 0 {
				return "setup-failed", res.Steps[i].String(), ""
			}
		}
		o := res.Steps[3]
		obs = o.String()
		var st uint32 = 0xFFFFFFFF
		if len(o.Resps) == 1 {
			st = tsgu.ParseResp(o.Resps[0]).Status
		}
		if c.req.WF {
			addr := net.JoinHostPort(c.req.Host, strconv.Itoa(int(c.req.Port)))
			if c.req.Name == "upper" {
				// names the same DNS endpoint in another spelling: unspecified, but never a dial elsewhere
				for _, d := range o.Dials {
					if !strings.EqualFold(d.Address, addr) {
						return "dial-to-unrequested-address", obs, obs
					}
				}
				return "", "", obs
			}
			if refAllowed(c.mode, c.token, c.tokHost, c.hosts, c.user, addr) {
				if len(o.Dials) != 1 || o.Dials[0].Address != addr {
					return "allowed-host-not-dialled-exactly", fmt.Sprintf("want dial %q: %s", addr, obs), obs
				}
				if st != 0 {
					return "allowed-host-refused", obs, obs
				}
				return "", "", obs
			}
			if len(o.Dials) > 0 {
				return "dial-for-refused-host", fmt.Sprintf("requested %q: %s", addr, obs), obs
			}
			if st != tsgu.ERAPAccessDenied {
				return "refusal-without-rap-access-denied-status", fmt.Sprintf("status %#x: %s", st, obs), obs
			}
			return "", "", obs
		}
		// malformed: whatever is dialled must be allowed by policy
		for _, d := range o.Dials {
			if !refAllowed(c.mode, c.token, c.tokHost, c.hosts, c.user, d.Address) {
				return "malformed-request-dials-unauthorized-address", obs, obs
			}
		}
		if st == 0 && len(o.Dials) == 0 {
			return "success-without-connection", obs, obs
		}
		return "", "", obs
	}
	if env.Replay != nil && env.Replay["scenario"] != nil {
		sc := c03ConcScenario()
		replayConc(rep, sc, env.Replay, nil, c03ConcCheck(sc))
		return
	}
	if env.Replay != nil {
		rp := env.Replay
		g := func(k string) string { s, _ := rp[k].(string); return s }
		b, _ := rp["token"].(bool)
		var hosts []string
		hl, _ := rp["hosts"].([]any)
		for _, h := range hl {
			hosts = append(hosts, fmt.Sprint(h))
		}
		var reqs []c03Req
		for _, e := range hosts {
			reqs = append(reqs, c03Requests(strings.Replace(e, "{{ preferred_username }}", g("entry_user"), 1), "")...)
		}
		for _, e := range hosts {
			reqs = append(reqs, c03Requests(e, "")...)
		}
		for _, r := range reqs {
			if r.Name == g("request") && fmt.Sprintf("%x", r.Pkt) == g("packet") {
				v, d, obs := exec(cse{g("mode"), b, g("token_host"), hosts, g("user"), r})
				fmt.Println("observed:", obs, "verdict:", v, d)
				if v != "" {
					rep.violate("C03/"+v+"/"+g("mode")+"/"+r.Name, d, rp)
				}
				return
			}
		}
		fmt.Println("replay: request not found")
		return
	}
	n, distinct := 0, 0
	for _, mode := range modes {
		for _, hosts := range lists {
			for _, user := range users {
				// candidate entries (substituted for this user and for another user)
				var entries []string
				other := ""
				for _, h := range hosts {
					entries = append(entries, strings.Replace(h, "{{ preferred_username }}", user, 1))
					if strings.Contains(h, "{{") {
						other = strings.Replace(h, "{{ preferred_username }}", "mallory", 1)
						entries = append(entries, h) // the literal entry text
					}
				}
				for ei, e := range entries {
					reqs := c03Requests(e, other)
					tokenHosts := []string{""}
					for _, th := range entries {
						tokenHosts = append(tokenHosts, th)
					}
					tokenHosts = append(tokenHosts, "elsewhere.example:3389")
					for ti, th := range tokenHosts {
						token := ti > 0
						for _, r := range reqs {
							n++
							if !env.mine(n) {
								continue
							}
							distinct++
							c := cse{mode, token, th, hosts, user, r}
							v, d, obs := exec(c)
							rep.outcome(fmt.Sprintf("mode=%s token=%v req=%s verdict=%s dial=%v", mode, token, r.Name, v, strings.Contains(obs, "dial(")))
							if v != "" {
								rep.violate("C03/"+v+"/"+mode+"/"+r.Name,
									fmt.Sprintf("mode=%q token=%v tokenHost=%q hosts=%v user=%q request=%s (entry %q): %s", mode, token, th, hosts, user, r.Name, e, d),
									map[string]any{"engine": "enum", "mode": mode, "token": token, "token_host": th, "hosts": hosts, "user": user, "entry_user": user, "request": r.Name, "packet": fmt.Sprintf("%x", r.Pkt), "entry": ei})
							}
							if distinct%4000 == 1 {
								rep.sample(map[string]any{"mode": mode, "token_auth": token, "token_host": th, "hosts": hosts, "user": user, "request": r.Name, "observation": obs})
							}
						}
					}
				}
			}
		}
	}
	// histories: two users one after the other on the same gateway process and
	// configuration (nothing is re-initialised in between): what the first user did
	// must not change what the second may reach
	for _, mode := range []string{"roundrobin", "unsigned"} {
		for _, token := range []bool{false, true} {
			// (long account names that differ only behind their 32nd / 64th / 128th byte are different users)
			long := func(k int) string { return strings.Repeat("v", k) }
			for _, u1 := range []string{"alice", "bob", long(32), long(64), long(128)} {
				for _, u2 := range []string{"alice", "bob", "carol", long(32) + "0", long(64) + "0", long(128) + "0"} {
					if len(u1) > 8 && u2 != u1+"0" || len(u1) <= 8 && len(u2) > 8 {
						continue
					}
					n++
					if !env.mine(n) {
						continue
					}
					distinct++
					v, d := c03TwoUsers(mode, token, u1, u2, rep)
					rep.outcome(fmt.Sprintf("two-users mode=%s token=%v verdict=%s", mode, token, v))
					if v != "" {
						rep.violate("C03/"+v+"/"+mode+"/two-users", fmt.Sprintf("mode=%s token=%v first user %s then user %s: %s", mode, token, u1, u2, d), map[string]any{"noreplay": true})
					}
				}
			}
		}
	}
	// a legacy tunnel whose two requests carry different users (each request is authenticated on its own): the
	// tunnel belongs to the user of the request that created it (RDG_OUT_DATA); what the other request's user may
	// reach does not matter
	if env.Shard == 0 || env.NShards == 1 {
		for _, mode := range []string{"roundrobin", "unsigned"} {
			for _, ask := range []string{"alice", "bob"} {
				distinct++
				var st uint32 = 0xFFFFFFFF
				var dials []string
				x := vsched.Run(nil, 40000, false, nil, func() {
					w := NewWorld()
					w.Accept = func(string) bool { return true }
					gw := NewGateway(GwCfg{TokenAuth: false, HostSelection: mode, Hosts: []string{"my-{{ preferred_username }}-host:3389"}, VerifyIP: true})
					h := handlerOf(gw)
					w.InIdentity = NewIdentity("bob", "10.0.0.1", "10.0.0.1:50001")
					c, ok := w.OpenTunnel("legacy", h, gw, "conn-1", "10.0.0.1:50000", NewIdentity("alice", "10.0.0.1", "10.0.0.1:50000"), nil)
					if !ok {
						return
					}
					for _, p := range [][]byte{tsgu.Handshake(1, 0, 0, 0), tsgu.TunnelCreate("", false), tsgu.TunnelAuth("pc"), tsgu.ChannelCreate("my-"+ask+"-host", 3389)} {
						c.SendSegment(p)
						vsched.WaitIdle()
					}
					c.Absorb()
					if pk := c.NewPackets(); len(pk) > 0 {
						st = tsgu.ParseResp(pk[len(pk)-1]).Status
					}
					for _, d := range w.Net.Dials {
						dials = append(dials, d.Address)
					}
					c.CloseClient()
				})
				rep.add("executions", 1)
				rep.add("transitions", int64(x.Steps))
				x.Finish()
				rep.outcome(fmt.Sprintf("legacy-two-users mode=%s ask=%s status=%#x dials=%d", mode, ask, st, len(dials)))
				what := fmt.Sprintf("mode=%s: legacy tunnel opened by alice (RDG_OUT_DATA), RDG_IN_DATA request authenticated as bob, channel to my-%s-host: status %#x, dials %v", mode, ask, st, dials)
				if ask == "bob" && (st == 0 || len(dials) > 0) {
					rep.violate("C03/dial-for-refused-host/"+mode+"/legacy-requests-of-two-users", what, map[string]any{"noreplay": true})
				}
				if ask == "alice" && (st != 0 || len(dials) != 1 || dials[0] != "my-alice-host:3389") {
					rep.violate("C03/allowed-host-not-dialled-exactly/"+mode+"/legacy-requests-of-two-users", what, map[string]any{"noreplay": true})
				}
			}
		}
	}
	// schedules: two tunnels verified at the same time by the real security.CheckPAACookie (the userinfo round
	// trip to the identity provider is a scheduling point): A's token is for host ha and A asks for B's host hb
	if env.Replay == nil {
		sc := c03ConcScenario()
		b := 2
		if env.thorough() {
			b = 3
		}
		exploreConc(env, rep, sc, b, nil, c03ConcCheck(sc))
	}
	// the host of a token is reachable only through an ACCEPTED token: a client that connected and shook hands
	// while its token was good and sends it 7 / 30 minutes later (lifetime five minutes) gets no connection to
	// the token's host, whatever it then asks for; 3 minutes later it does
	if env.Replay == nil && env.Shard == 0 {
		for _, kind := range []string{"ws", "legacy"} {
			for _, wait := range []string{"clock+3m", "clock+7m", "clock+30m"} {
				vclock.Reset()
				idp := InstallIdP()
				idp.Mode = "honour"
				security.SigningKey = []byte(c02Key)
				ctx, _ := c02Ctx()
				tok, _ := security.GeneratePAAToken(ctx, "alice", hostA+":3389")
				g := GwCfg{TokenAuth: true, HostSelection: "roundrobin", Hosts: []string{hostA + ":3389"}, VerifyIP: true}
				cfg := SeqCfg{Gw: g, Kind: kind, User: "", ClientIP: "10.0.0.1", RemoteAddr: "10.0.0.1:50000", Accept: func(string) bool { return true }}
				segs := []Seg{{Bytes: tsgu.Handshake(1, 0, 0, tsgu.ExtAuthPAA)}, {Action: wait}, {Bytes: tsgu.TunnelCreate(tok, true)}, {Bytes: tsgu.TunnelAuth("pc")}, {Bytes: tsgu.ChannelCreate(hostA, 3389)}}
				res := RunSeq(cfg, segs)
				vclock.Reset()
				distinct++
				rep.add("executions", 1)
				rep.add("transitions", int64(res.StepsRun))
				dials := 0
				for _, st := range res.Steps {
					dials += len(st.Dials)
				}
				rep.outcome(fmt.Sprintf("token presented %s after the handshake, %s: dials=%d", wait[6:], kind, dials))
				if wait == "clock+3m" && dials != 1 && len(res.Panics) == 0 {
					rep.violate("C03/allowed-host-not-dialled/token-presented-within-its-lifetime", fmt.Sprintf("transport %s, token presented 3 minutes after the handshake: %d dials", kind, dials), map[string]any{"noreplay": true})
				}
				if wait != "clock+3m" && dials != 0 {
					rep.violate("C03/host-of-a-token-that-was-not-accepted-dialled", fmt.Sprintf("transport %s: connected while the token was good, token presented %s later (lifetime 5 minutes, leeway 1): the token's host was dialled", kind, wait[6:]), map[string]any{"noreplay": true})
				}
			}
		}
	}
	if gwBin() != "" && env.Shard == 0 {
		bindCore(rep, "C03")
		bindModes(rep, "C03")
		// configurations without token auth: the host policy must be wired for every scheme
		for _, cfg := range []c05Config{{Auth: []string{"ntlm"}}, {Auth: []string{"kerberos"}}, {Auth: []string{"local"}, TLS: true}} {
			w := c05Start(cfg, false)
			w.otherHost(func(kind, detail string) {
				rep.violate("C03/binary:"+kind+"/"+cfg.String(), detail, map[string]any{"noreplay": true})
			}, rep)
			w.stop()
		}
	}
	rep.add("distinct", int64(distinct))
	rep.add("states", int64(distinct))
}

func c03ConcScenario() ConcScenario {
	return ConcScenario{Name: "two-real-tokens-cross-request", Deviation: true, RoundRobin: true, RealCookie: true,
		Gw: GwCfg{TokenAuth: true, HostSelection: "roundrobin", Hosts: []string{"ha.example:3389", "hb.example:3389"}, VerifyIP: true},
		Plans: []TunnelPlan{
			{Kind: "ws", ConnID: "A", User: "alice", IP: "10.0.0.1", Host: "hb.example:3389", TokenHost: "ha.example:3389", Script: []string{"drop"}},
			{Kind: "ws", ConnID: "B", User: "bob", IP: "10.0.0.1", Host: "hb.example:3389", Script: []string{"data:x", "drop"}},
		}}
}

func c03ConcCheck(sc ConcScenario) func(res *ConcResult, races []RaceReport) (string, []vsched.Violation) {
	return func(res *ConcResult, races []RaceReport) (string, []vsched.Violation) {
		var v []vsched.Violation
		add := func(k, d string) { v = append(v, vsched.Violation{Sig: "C03/" + k + "/" + sc.Name, Detail: d}) }
		for _, p := range res.X.Panics() {
			add("panic:"+shortFn(panicSite(p)), p.Value)
		}
		a, b := res.Tunnels[0], res.Tunnels[1]
		dials := 0
		for _, d := range res.World.Net.Dials {
			if d.Address != "hb.example:3389" {
				add("dial-to-unrequested-address", d.Address)
			}
			dials++
		}
		// A holds a token for ha: its request for hb is refused with the policy status and never dialled
		want := "got-9-status-" + fmt.Sprintf("%x", tsgu.ERAPAccessDenied) + "-waiting-for-9"
		if a.SetupFailed != want {
			add("host-outside-the-token-not-refused", fmt.Sprintf("tunnel A (token for ha.example, asks hb.example): %q, want %q", a.SetupFailed, want))
		}
		if b.SetupFailed != "" {
			add("allowed-host-refused", "tunnel B (token for hb.example, asks hb.example): "+b.SetupFailed)
		}
		if dials > 1 {
			add("dial-for-refused-host", fmt.Sprintf("%d connections to hb.example, only tunnel B may have one", dials))
		}
		return fmt.Sprintf("A=%q B=%q dials=%d", a.SetupFailed, b.SetupFailed, dials), v
	}
}

// c03TwoUsers: user u1 opens a channel to its own placeholder entry; then, on the
// same gateway, user u2 asks for u1's entry (must be refused unless u2 == u1)
// and for its own entry (must be allowed).
func c03TwoUsers(mode string, token bool, u1, u2 string, rep *Report) (string, string) {
	hosts := []string{"plain.example:3389", "my-{{ preferred_username }}-host:3389"}
	entry := func(u string) string { return "my-" + u + "-host" }
	var verdict, detail string
	x := vsched.Run(nil, 40000, false, nil, func() {
		w := NewWorld()
		w.Accept = func(string) bool { return true }
		g := GwCfg{TokenAuth: token, HostSelection: mode, Hosts: append([]string{}, hosts...), VerifyIP: true}
		if token {
			g.CookieCheck = TableCookie
		}
		gw := NewGateway(g)
		type ask struct {
			user, host string
			allowed    bool
		}
		asks := []ask{{u1, entry(u1), true}, {u2, entry(u1), u1 == u2}, {u2, entry(u2), true}, {u1, entry(u2), u1 == u2}, {u1, entry(u1), true}}
		for i, a := range asks {
			id := NewIdentity(a.user, "10.0.0.1", "10.0.0.1:50000")
			pr := StartProcessor(gw, id, "10.0.0.1:50000")
			c := &TunnelClient{Kind: "proc", Conn: pr.Client}
			hs, tc := tsgu.Handshake(1, 0, 0, 0), tsgu.TunnelCreate("", false)
			if token {
				hs, tc = tsgu.Handshake(1, 0, 0, tsgu.ExtAuthPAA), tsgu.TunnelCreate("ok|"+a.host+":3389|10.0.0.1|"+a.user, true)
			}
			before := len(w.Net.Dials)
			var st uint32 = 0xFFFFFFFF
			for _, p := range [][]byte{hs, tc, tsgu.TunnelAuth("pc"), tsgu.ChannelCreate(a.host, 3389)} {
				c.SendSegment(p)
				vsched.WaitIdle()
				c.Absorb()
				for _, pk := range c.NewPackets() {
					if pk.Type == tsgu.TypeChannelResp {
						st = tsgu.ParseResp(pk).Status
					}
				}
			}
			dialled := len(w.Net.Dials) - before
			c.CloseClient()
			vsched.WaitIdle()
			if a.allowed && (st != 0 || dialled != 1) && verdict == "" {
				verdict, detail = "allowed-host-refused-after-another-user", fmt.Sprintf("request %d: user %s asked for its own entry %s: status %#x dials %d", i, a.user, a.host, st, dialled)
			}
			if !a.allowed && (st == 0 || dialled != 0) && verdict == "" {
				verdict, detail = "other-users-host-reachable-after-another-user", fmt.Sprintf("request %d: user %s asked for %s: status %#x dials %d", i, a.user, a.host, st, dialled)
			}
		}
	})
	rep.add("executions", 1)
	rep.add("transitions", int64(x.Steps))
	for _, p := range x.Panics() {
		verdict, detail = "panic:"+shortFn(panicSite(p)), p.Value
	}
	x.Finish()
	return verdict, detail
}
