package main

import (
	"crypto/rand"
	"crypto/rsa"
)

var otherRSA *rsa.PrivateKey

func mustRSA() *rsa.PrivateKey {
	k, err := rsa.GenerateKey(rand.Reader, 2048)
	if err != nil {
		infra("rsa: %v", err)
	}
	return k
}
