package main

import (
	"fmt"
	"net"
	"net/http"
	"net/http/httptest"
	"strings"

	"github.com/bolkedebruin/rdpgw/cmd/rdpgw/identity"
	"github.com/bolkedebruin/rdpgw/cmd/rdpgw/protocol"
	"github.com/bolkedebruin/rdpgw/cmd/rdpgw/security"
	"github.com/bolkedebruin/rdpgw/cmd/rdpgw/web"

	"verif/internal/tsgu"
	"verif/shim/vsched"
)

// C04 — tokens are bound to the client address they were issued to.

func init() { props["C04"] = c04 }

type addrForm struct {
	Name string
	Peer string      // TCP peer (host:port)
	XFF  []string    // header lines (nil = header absent)
	Hdr  [][2]string // other request headers (the property names X-Forwarded-For and the TCP peer: nothing else counts)
}

// refClientIP: first X-Forwarded-For element (trimmed) when the first header line is non-empty, else the peer's host part.
func refClientIP(f addrForm) string {
	if len(f.XFF) > 0 && f.XFF[0] != "" {
		return strings.TrimSpace(strings.Split(f.XFF[0], ",")[0])
	}
	h, _, err := net.SplitHostPort(f.Peer)
	if err != nil {
		return ""
	}
	return h
}

func c04Forms() []addrForm {
	addrs := []string{"10.0.0.1", "10.0.0.2", "::1", "0:0:0:0:0:0:0:1", "[::1]", "010.0.0.1"}
	var out []addrForm
	peerOf := func(a string) string {
		if strings.Contains(a, ":") && !strings.HasPrefix(a, "[") {
			return "[" + a + "]:50000"
		}
		return a + ":50000"
	}
	for _, a := range addrs {
		if a != "010.0.0.1" && a != "0:0:0:0:0:0:0:1" {
			out = append(out, addrForm{Name: "peer=" + a, Peer: peerOf(a)})
		}
		// behind a proxy whose own address is 192.0.2.1
		out = append(out, addrForm{Name: "xff1=" + a, Peer: "192.0.2.1:443", XFF: []string{a}})
		out = append(out, addrForm{Name: "xff2=" + a + ",proxy", Peer: "192.0.2.1:443", XFF: []string{a + ", 192.0.2.7"}})
	}
	out = append(out,
		addrForm{Name: "xff3-blanks", Peer: "192.0.2.1:443", XFF: []string{"  10.0.0.1 ,10.0.0.2,  10.0.0.3"}},
		addrForm{Name: "xff5", Peer: "192.0.2.1:443", XFF: []string{"10.0.0.2,10.0.0.1,10.0.0.1,10.0.0.1,10.0.0.1"}},
		addrForm{Name: "xff-last-is-client", Peer: "192.0.2.1:443", XFF: []string{"10.0.0.9, 10.0.0.1"}},
		addrForm{Name: "xff-empty-header", Peer: "10.0.0.1:50000", XFF: []string{""}},
		addrForm{Name: "xff-two-lines", Peer: "192.0.2.1:443", XFF: []string{"10.0.0.1", "10.0.0.2"}},
		addrForm{Name: "xff-two-lines-rev", Peer: "192.0.2.1:443", XFF: []string{"10.0.0.2", "10.0.0.1"}},
		addrForm{Name: "xff-equals-proxy-peer", Peer: "10.0.0.1:443", XFF: []string{"10.0.0.2"}},
		addrForm{Name: "peer-other-port", Peer: "10.0.0.1:1"},
		// other headers that proxies use for the client address do not count: the client is the TCP peer
		addrForm{Name: "x-real-ip=10.0.0.1,peer=10.0.0.3", Peer: "10.0.0.3:50000", Hdr: [][2]string{{"X-Real-IP", "10.0.0.1"}}},
		addrForm{Name: "x-real-ip=10.0.0.1,peer=10.0.0.4", Peer: "10.0.0.4:50000", Hdr: [][2]string{{"X-Real-Ip", "10.0.0.1"}}},
		addrForm{Name: "forwarded-for=10.0.0.1,peer=10.0.0.3", Peer: "10.0.0.3:50000", Hdr: [][2]string{{"Forwarded", "for=10.0.0.1;proto=https"}}},
		addrForm{Name: "client-ip-headers=10.0.0.1,peer=10.0.0.4", Peer: "10.0.0.4:50000", Hdr: [][2]string{{"X-Client-Ip", "10.0.0.1"}, {"True-Client-Ip", "10.0.0.1"}, {"Cf-Connecting-Ip", "10.0.0.1"}, {"X-Forwarded", "10.0.0.1"}, {"X-Cluster-Client-Ip", "10.0.0.1"}}},
		// long proxy chains: the client is the first element however many follow
		addrForm{Name: "xff12=10.0.0.1,11-proxies", Peer: "192.0.2.1:443", XFF: []string{"10.0.0.1, 192.0.2.11, 192.0.2.12, 192.0.2.13, 192.0.2.14, 192.0.2.15, 192.0.2.16, 192.0.2.17, 192.0.2.18, 192.0.2.19, 192.0.2.20, 192.0.2.21"}},
		addrForm{Name: "xff12=10.0.0.2,11-proxies", Peer: "192.0.2.1:443", XFF: []string{"10.0.0.2, 192.0.2.11, 192.0.2.12, 192.0.2.13, 192.0.2.14, 192.0.2.15, 192.0.2.16, 192.0.2.17, 192.0.2.18, 192.0.2.19, 192.0.2.20, 192.0.2.21"}},
		addrForm{Name: "xff40=10.0.0.2,39-proxies", Peer: "192.0.2.1:443", XFF: []string{"10.0.0.2" + strings.Repeat(", 192.0.2.30", 39)}},
		// what a proxy may put first when it does not know the client (the gateway takes the element verbatim)
		addrForm{Name: "xff-unknown", Peer: "192.0.2.1:443", XFF: []string{"unknown"}},
		addrForm{Name: "xff-ip-port", Peer: "192.0.2.1:443", XFF: []string{"10.0.0.1:51234"}},
		addrForm{Name: "xff-hostname,ip", Peer: "192.0.2.1:443", XFF: []string{"client.example, 10.0.0.1"}},
	)
	return out
}

func c04Header(f addrForm) http.Header {
	h := http.Header{}
	for _, l := range f.XFF {
		h["X-Forwarded-For"] = append(h["X-Forwarded-For"], l)
	}
	for _, kv := range f.Hdr {
		h[kv[0]] = append(h[kv[0]], kv[1])
	}
	return h
}

var c04StoreInit bool

func c04Init() {
	if !c04StoreInit {
		web.InitStore([]byte("sessionkey-sessionkey-sessionkey"), []byte("encrypt-encrypt-encrypt-encrypt-"), "cookie", 0)
		c04StoreInit = true
	}
	security.SigningKey = []byte(c02Key)
	InstallIdP()
}

// c04Issue mints a token the way /connect does: EnrichContext, then GeneratePAAToken with the request context.
func c04Issue(f addrForm, host string) (tok string, seenIP string) {
	tok, seenIP, _ = c04IssueCookie(f, host)
	return
}

// c04IssueCookie also persists the identity in the session, as the login callback does, and returns the session cookie.
func c04IssueCookie(f addrForm, host string) (tok string, seenIP string, cookie string) {
	r := httptest.NewRequest("GET", "https://gw.example/connect", nil)
	r.RemoteAddr = f.Peer
	for k, v := range c04Header(f) {
		r.Header[k] = v
	}
	h := web.EnrichContext(http.HandlerFunc(func(w http.ResponseWriter, r *http.Request) {
		id := identity.FromRequestCtx(r)
		id.SetUserName("alice")
		id.SetAttribute(identity.AttrAccessToken, "at-alice")
		seenIP, _ = id.GetAttribute(identity.AttrClientIp).(string)
		tok, _ = security.GeneratePAAToken(r.Context(), "alice", host)
		id.SetAuthenticated(true)
		web.SaveSessionIdentity(r, w, id)
	}))
	rec := httptest.NewRecorder()
	func() {
		// a panic in the issuing path means: nothing was issued (net/http would recover it; robustness is C10's)
		defer func() {
			if recover() != nil {
				tok, seenIP = "", ""
			}
		}()
		h.ServeHTTP(rec, r)
	}()
	for _, c := range rec.Result().Cookies() {
		if c.Name == "RDPGWSESSION" {
			cookie = c.Value
		}
	}
	return
}

type c04Obs struct {
	ccStatus   uint32
	ccAnswered bool
	dials      int
	panics     []string
	setup      string
}

func c04Use(kind string, tok string, f addrForm, verify bool, rep *Report) c04Obs {
	return c04UseCookie(kind, tok, f, verify, "", rep)
}

func c04UseCookie(kind string, tok string, f addrForm, verify bool, cookie string, rep *Report) c04Obs {
	var o c04Obs
	x := vsched.Run(nil, 20000, false, nil, func() {
		w := NewWorld()
		w.Accept = func(string) bool { return true }
		gw := NewGateway(GwCfg{TokenAuth: true, HostSelection: "roundrobin", Hosts: []string{hostA + ":3389"}, VerifyIP: verify})
		h := web.EnrichContext(http.HandlerFunc(gw.HandleGatewayProtocol))
		var c *TunnelClient
		ok := false
		if kind == "ws" {
			hd := c04Header(f)
			if cookie != "" {
				hd.Set("Cookie", "RDPGWSESSION="+cookie)
			}
			c, ok = w.OpenTunnel("ws", h, gw, "conn-1", f.Peer, nil, hd)
		} else {
			// legacy: OUT comes from a third address, IN from the presenting one
			c, ok = c04OpenLegacy(w, h, f)
		}
		if !ok {
			o.setup = "transport"
			return
		}
		steps := [][]byte{tsgu.Handshake(1, 0, 0, tsgu.ExtAuthPAA), tsgu.TunnelCreate(tok, true), tsgu.TunnelAuth("pc"), tsgu.ChannelCreate(hostA, 3389)}
		for i, s := range steps {
			c.SendSegment(s)
			vsched.WaitIdle()
			c.Absorb()
			pk := c.NewPackets()
			if i < 3 {
				if len(pk) != 1 || tsgu.ParseResp(pk[0]).Status != 0 {
					o.setup = fmt.Sprintf("step %d not accepted", i)
					return
				}
				continue
			}
			if len(pk) == 1 {
				o.ccAnswered = true
				o.ccStatus = tsgu.ParseResp(pk[0]).Status
			}
		}
		o.dials = len(w.Net.Dials)
		c.CloseClient()
	})
	rep.add("executions", 1)
	rep.add("transitions", int64(x.Steps))
	for _, p := range x.Panics() {
		o.panics = append(o.panics, shortFn(panicSite(p))+": "+p.Value)
	}
	x.Finish()
	return o
}

func c04OpenLegacy(w *World, h http.Handler, f addrForm) (*TunnelClient, bool) {
	hd := http.Header{}
	hd.Set("Rdg-Connection-Id", "conn-1")
	out := w.Serve("out-conn-1", h, "RDG_OUT_DATA", hd, "203.0.113.77:40000", nil)
	c := &TunnelClient{Kind: "legacy", Conn: out.Client}
	if !c.ReadHTTPHead() || !strings.HasPrefix(c.HTTPHead, "HTTP/1.1 200") {
		return c, false
	}
	for len(c.rbuf) < 10 {
		if !c.readMore() {
			return c, false
		}
	}
	c.rbuf = c.rbuf[10:]
	hin := c04Header(f)
	hin.Set("Rdg-Connection-Id", "conn-1")
	in := w.Serve("in-conn-1", h, "RDG_IN_DATA", hin, f.Peer, nil)
	c.In = in.Client
	ic := &TunnelClient{Kind: "legacy", Conn: in.Client}
	if !ic.ReadHTTPHead() || !strings.HasPrefix(ic.HTTPHead, "HTTP/1.1 200") {
		return c, false
	}
	c.In.Write([]byte("preamble"))
	vsched.WaitIdle()
	return c, true
}

func parseLoose(s string) net.IP {
	return net.ParseIP(strings.TrimSuffix(strings.TrimPrefix(s, "["), "]"))
}

func c04(env *Env, rep *Report) {
	c04Init()
	forms := c04Forms()
	rep.Rule = fmt.Sprintf("all %d x %d pairs of issuing and presenting client address forms (TCP peer only; X-Forwarded-For with 1, 2, 3, 5 elements, blanks, empty header, two header lines in both orders, element equal to / different from the proxy's peer; IPv4, IPv6 and textual variants) x verification switch {on, off} x transport {websocket, legacy with the OUT request from a third address}; the websocket cases are repeated with the login's session cookie on the tunnel request (the restored identity must not override the presenting address). "+
		"Issuance runs the real web.EnrichContext + security.GeneratePAAToken; use runs web.EnrichContext + HandleGatewayProtocol with the real CheckPAACookie / CheckSession(CheckHost) as main.go wires them. Oracle: reference client address = first X-Forwarded-For element of the first header line (trimmed) if non-empty else the peer's host; the token's clientIp claim and the address the handler saw must equal it; switch on: equal => channel created and host dialled, different IP => access-denied status and zero dials; switch off: always created; two spellings of one IP or an empty address: unspecified. distinct_nontrivial = distinct cases.", len(forms), len(forms))
	rep.Assumptions = append(rep.Assumptions, "identity provider honours the access token; host policy allows the requested host (C03 covers it)")
	type cse struct {
		i, p   int
		verify bool
		kind   string
		cookie bool // the presenting request carries the session cookie of the login
	}
	run := func(c cse) (string, string) {
		fi, fp := forms[c.i], forms[c.p]
		tok, seen, ck := c04IssueCookie(fi, hostA+":3389")
		if !c.cookie {
			ck = ""
		}
		if tok == "" {
			return "issuance-failed", fi.Name
		}
		if want := refClientIP(fi); seen != want {
			return "client-address-at-issuance-differs-from-reference", fmt.Sprintf("%s: handler saw %q, reference %q", fi.Name, seen, want)
		}
		o := c04UseCookie(c.kind, tok, fp, c.verify, ck, rep)
		if len(o.panics) > 0 {
			return "panic", o.panics[0]
		}
		if o.setup != "" {
			return "setup-failed", o.setup
		}
		a, b := refClientIP(fi), refClientIP(fp)
		created := o.ccAnswered && o.ccStatus == 0
		switch {
		case !c.verify || (a == b && a != ""):
			if !created || o.dials != 1 {
				return "channel-refused-for-matching-address", fmt.Sprintf("issued to %q (%s), presented from %q (%s), verify=%v: answered=%v status=%#x dials=%d", a, fi.Name, b, fp.Name, c.verify, o.ccAnswered, o.ccStatus, o.dials)
			}
		case a == "" || b == "":
			// unspecified
		default:
			ia, ib := parseLoose(a), parseLoose(b)
			if ia != nil && ib != nil && ia.Equal(ib) {
				break // two spellings of one address: unspecified
			}
			if created || o.dials > 0 {
				return "channel-created-from-another-address", fmt.Sprintf("issued to %q (%s), presented from %q (%s): status=%#x dials=%d", a, fi.Name, b, fp.Name, o.ccStatus, o.dials)
			}
			if !o.ccAnswered || (o.ccStatus != tsgu.ERAPAccessDenied && o.ccStatus != tsgu.ErrorAccessDenied) {
				return "refusal-without-access-denied-status", fmt.Sprintf("answered=%v status=%#x", o.ccAnswered, o.ccStatus)
			}
		}
		return "", ""
	}
	if env.Replay != nil {
		g := func(k string) int { f, _ := env.Replay[k].(float64); return int(f) }
		vb, _ := env.Replay["verify"].(bool)
		kind, _ := env.Replay["kind"].(string)
		ckb, _ := env.Replay["cookie"].(bool)
		v, d := run(cse{g("issue"), g("present"), vb, kind, ckb})
		fmt.Println("verdict:", v, d)
		if v != "" {
			sig := "C04/" + v + "/" + kind
			if ckb {
				sig += "/with-session-cookie"
			}
			rep.violate(sig, d, env.Replay)
		}
		return
	}
	n, distinct := 0, 0
	for _, kind := range []string{"ws", "legacy"} {
		for _, verify := range []bool{true, false} {
			for i := range forms {
				for p := range forms {
					n++
					if !env.mine(n) {
						continue
					}
					distinct++
					v, d := run(cse{i, p, verify, kind, false})
					rep.outcome(fmt.Sprintf("%s verify=%v same=%v verdict=%s", kind, verify, refClientIP(forms[i]) == refClientIP(forms[p]), v))
					if v != "" {
						rep.violate("C04/"+v+"/"+kind, d, map[string]any{"engine": "enum", "issue": i, "present": p, "verify": verify, "kind": kind})
					}
					if kind == "ws" && verify {
						// the same pair with the login's session cookie on the tunnel request
						n++
						distinct++
						v, d := run(cse{i, p, verify, kind, true})
						rep.outcome(fmt.Sprintf("%s with-session-cookie same=%v verdict=%s", kind, refClientIP(forms[i]) == refClientIP(forms[p]), v))
						if v != "" {
							rep.violate("C04/"+v+"/"+kind+"/with-session-cookie", d, map[string]any{"engine": "enum", "issue": i, "present": p, "verify": verify, "kind": kind, "cookie": true})
						}
					}
					if distinct%500 == 1 {
						rep.sample(map[string]any{"issued_to": forms[i].Name, "presented_from": forms[p].Name, "verify": verify, "transport": kind, "verdict": v})
					}
				}
			}
		}
	}
	if gwBin() != "" && env.Shard == 0 {
		bindCore(rep, "C04")
		bindModes(rep, "C04")
	}
	rep.add("distinct", int64(distinct))
	rep.add("states", int64(distinct))
	_ = protocol.CtxTunnel
}
