package main

import (
	"bufio"
	"encoding/base64"
	"encoding/hex"
	"fmt"
	"os"
	"path/filepath"
	"strconv"
	"strings"
	"time"

	"github.com/bolkedebruin/gokrb5/v8/asn1tools"
	"github.com/bolkedebruin/gokrb5/v8/client"
	krbconfig "github.com/bolkedebruin/gokrb5/v8/config"
	"github.com/bolkedebruin/gokrb5/v8/crypto"
	"github.com/bolkedebruin/gokrb5/v8/iana"
	"github.com/bolkedebruin/gokrb5/v8/iana/asnAppTag"
	"github.com/bolkedebruin/gokrb5/v8/iana/keyusage"
	"github.com/bolkedebruin/gokrb5/v8/iana/nametype"
	"github.com/bolkedebruin/gokrb5/v8/keytab"
	"github.com/bolkedebruin/gokrb5/v8/messages"
	"github.com/bolkedebruin/gokrb5/v8/spnego"
	"github.com/bolkedebruin/gokrb5/v8/test/testdata"
	"github.com/bolkedebruin/gokrb5/v8/types"
	"github.com/jcmturner/gofork/encoding/asn1"

	"verif/internal/tsgu"
)

// Kerberos tickets that carry an Active Directory PAC (gokrb5's own test vectors: keytab of sysHTTP@TEST.GOKRB5,
// PAC of testuser1 whose directory full name is "Test1 User1"). With a PAC the Kerberos library reports an account
// name and, separately, a free-text display name; the tunnel's user must be the account Kerberos confirmed.
func c05PACTicket(kt *keytab.Keytab, ad types.AuthorizationData) (string, error) {
	const etypeID, kvno = 18, 2
	etype, err := crypto.GetEtype(etypeID)
	if err != nil {
		return "", err
	}
	sessionKey, err := types.GenerateEncryptionKey(etype)
	if err != nil {
		return "", err
	}
	now := time.Now().UTC()
	etp := messages.EncTicketPart{Flags: types.NewKrbFlags(), Key: sessionKey, CRealm: "TEST.GOKRB5", CName: types.NewPrincipalName(nametype.KRB_NT_PRINCIPAL, "testuser1"),
		Transited: messages.TransitedEncoding{}, AuthTime: now, StartTime: now.Add(-time.Minute), EndTime: now.Add(time.Hour), RenewTill: now.Add(2 * time.Hour), AuthorizationData: ad}
	b, err := asn1.Marshal(etp)
	if err != nil {
		return "", err
	}
	b = asn1tools.AddASNAppTag(b, asnAppTag.EncTicketPart)
	sname := types.NewPrincipalName(nametype.KRB_NT_PRINCIPAL, "sysHTTP")
	skey, _, err := kt.GetEncryptionKey(sname, "TEST.GOKRB5", kvno, etypeID)
	if err != nil {
		return "", err
	}
	ed, err := crypto.GetEncryptedData(b, skey, keyusage.KDC_REP_TICKET, kvno)
	if err != nil {
		return "", err
	}
	tkt := messages.Ticket{TktVNO: iana.PVNO, Realm: "TEST.GOKRB5", SName: sname, EncPart: ed}
	cl := client.NewWithPassword("testuser1", "TEST.GOKRB5", "irrelevant", krbconfig.New())
	nInit, err := spnego.NewNegTokenInitKRB5(cl, tkt, sessionKey)
	if err != nil {
		return "", err
	}
	st := spnego.SPNEGOToken{Init: true, NegTokenInit: nInit}
	mb, err := st.Marshal()
	if err != nil {
		return "", err
	}
	return "Authorization: Negotiate " + base64.StdEncoding.EncodeToString(mb), nil
}

func c05KerberosPAC(rep *Report) int {
	if gwBin() == "" {
		return 0
	}
	viol := func(kind, detail string) { rep.violate("C05/"+kind+"/kerberos-pac", detail, map[string]any{"noreplay": true}) }
	kb, _ := hex.DecodeString(testdata.KEYTAB_SYSHTTP_TEST_GOKRB5)
	kt := keytab.New()
	if err := kt.Unmarshal(kb); err != nil {
		infra("test-vector keytab: %v", err)
	}
	var pacAD types.AuthorizationData
	pb, _ := hex.DecodeString(testdata.MarshaledPAC_AuthorizationData_GOKRB5)
	if err := pacAD.Unmarshal(pb); err != nil {
		infra("test-vector PAC: %v", err)
	}
	ktFile := filepath.Join(scratch(), "syshttp.keytab")
	os.WriteFile(ktFile, kb, 0o600)
	_, kc := c18Keytab()
	port, bport := freePort(), freePort()
	yaml := fmt.Sprintf("Server:\n Port: %d\n GatewayAddress: gw.example:%d\n Tls: disable\n HostSelection: roundrobin\n Hosts:\n  - \"{{ preferred_username }}:%d\"\n Authentication:\n  - kerberos\nCaps:\n TokenAuth: false\nKerberos:\n Keytab: %s\n Krb5Conf: %s\n", port, port, bport, ktFile, kc)
	g := StartGateway(yaml, nil, port, false)
	if !g.Alive() {
		infra("C05 PAC: gateway did not start: %s", tail(g.Log(), 400))
	}
	defer g.Stop()
	n := 0
	for _, c := range []struct {
		name string
		ad   types.AuthorizationData
	}{{"ticket-without-pac", nil}, {"ticket-with-active-directory-pac", pacAD}} {
		n++
		rep.add("executions", 1)
		hdr, err := c05PACTicket(kt, c.ad)
		if err != nil {
			infra("forging a ticket: %v", err)
		}
		conn, err := g.Dial()
		if err != nil {
			continue
		}
		conn.SetDeadline(time.Now().Add(15 * time.Second))
		raw, _ := methodRequest("ws", []string{hdr})
		conn.Write([]byte(raw))
		br := bufio.NewReader(conn)
		r := ReadResponse(br)
		if r.Status != 101 {
			viol("valid-kerberos-ticket-does-not-reach-handler", fmt.Sprintf("%s: status %d | %s", c.name, r.Status, tail(g.Log(), 300)))
			conn.Close()
			continue
		}
		// whose tunnel is it? The host list allows "<account>:port" only; a refusal by policy means another name
		tc := &TunnelClient{Kind: "ws"}
		buf := make([]byte, 1<<16)
		send := func(p []byte) (uint32, bool) {
			conn.Write(wsFrame(2, true, p))
			for {
				tc.deframe()
				if pk := tc.NewPackets(); len(pk) > 0 {
					return tsgu.ParseResp(pk[0]).Status, true
				}
				nn, err := br.Read(buf)
				tc.rbuf = append(tc.rbuf, buf[:nn]...)
				if err != nil {
					return 0, false
				}
			}
		}
		ok := true
		for _, p := range [][]byte{tsgu.Handshake(1, 0, 0, 0), tsgu.TunnelCreate("", false), tsgu.TunnelAuth("pc")} {
			if st, answered := send(p); !answered || st != 0 {
				ok = false
			}
		}
		if ok {
			st, _ := send(tsgu.ChannelCreate("testuser1", uint16(bport)))
			rep.outcome(fmt.Sprintf("kerberos %s channel-status=%#x", c.name, st))
			if st == tsgu.ERAPAccessDenied {
				viol("tunnel-does-not-carry-confirmed-user", fmt.Sprintf("%s: Kerberos confirmed the account testuser1, but the tunnel is refused that account's host entry (status %#x): it runs under another name | %s", c.name, st, lastLines(g.Log(), "host", 2)))
			}
		}
		conn.Close()
	}
	if cr := g.Crashed(); cr != "" {
		viol("panic", cr)
	}
	_ = strconv.Itoa
	return n
}

func lastLines(log, containing string, n int) string {
	var out []string
	ls := strings.Split(log, "\n")
	for i := len(ls) - 1; i >= 0 && len(out) < n; i-- {
		if strings.Contains(strings.ToLower(ls[i]), containing) {
			out = append(out, ls[i])
		}
	}
	return strings.Join(out, " | ")
}
