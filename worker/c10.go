package main

import (
	"fmt"
	"runtime"
	"strings"

	"verif/internal/tsgu"
	"verif/shim/vsched"
)

// C10 — no client input can panic, crash or wedge the gateway.
// Part (a): packets x phases on the real Processor / handlers.
// Part (c): NTLM messages against the real verifier (c10ntlm.go).
// Part (d): KDC-proxy bodies against the real handler (c10kdc.go).
// Part (b): HTTP level against the real binaries (gwproc.go).

func init() { props["C10"] = c10 }

type c10Input struct {
	Name  string
	Class string
	Segs  [][]byte
}

func c10Canonical() [][]byte {
	return [][]byte{
		tsgu.Handshake(1, 0, 0, tsgu.ExtAuthPAA),
		tsgu.TunnelCreate("ok|"+hostA+":3389|10.0.0.1|alice", true),
		tsgu.TunnelAuth("client1"),
		tsgu.ChannelCreate(hostA, 3389),
		tsgu.Data([]byte("hello")),
	}
}

func c10Inputs() []c10Input {
	var out []c10Input
	add := func(class, name string, segs ...[]byte) { out = append(out, c10Input{name, class, segs}) }
	types := []uint16{}
	for t := 0; t <= 0x12; t++ {
		types = append(types, uint16(t))
	}
	types = append(types, 0xFF, 0x100, 0xFFFF)
	body := []byte{1, 0, 0, 0, 2, 0, 0, 0, 4, 0, 0x41, 0, 0x42, 0, 0, 0}
	trueLen := uint32(8 + len(body))
	lens := []uint32{}
	for l := uint32(0); l <= 16; l++ {
		lens = append(lens, l)
	}
	lens = append(lens, trueLen-1, trueLen, trueLen+1, 4096, 0xFFFF, 1<<31-1, 1<<31, 1<<32-1)
	for _, t := range types {
		for _, l := range lens {
			add("header-length", fmt.Sprintf("type=%#x/len=%d", t, l), tsgu.RawPacket(t, 0, l, body), tsgu.Keepalive())
		}
		full := tsgu.Packet(t, body)
		for cut := 0; cut < 8; cut++ {
			add("header-truncated", fmt.Sprintf("type=%#x/cut=%d", t, cut), full[:cut])
		}
		add("reserved-nonzero", fmt.Sprintf("type=%#x", t), tsgu.RawPacket(t, 0xFFFF, trueLen, body))
		add("empty-body", fmt.Sprintf("type=%#x", t), tsgu.Packet(t, nil))
	}
	// bodies: every truncation of each well-formed request, and inner length fields
	reqs := map[string][]byte{
		"HS":    tsgu.Handshake(1, 0, 0, tsgu.ExtAuthPAA),
		"TC":    tsgu.TunnelCreate("ok|"+hostA+":3389|10.0.0.1|alice", true),
		"TA":    tsgu.TunnelAuth("client1"),
		"CC":    tsgu.ChannelCreate(hostA, 3389),
		"DATA":  tsgu.Data([]byte("hello world")),
		"CLOSE": tsgu.CloseChannel(),
	}
	for _, k := range []string{"HS", "TC", "TA", "CC", "DATA", "CLOSE"} {
		p := reqs[k]
		typ := uint16(p[0]) | uint16(p[1])<<8
		b := p[8:]
		for cut := 0; cut < len(b); cut++ {
			add("body-truncated", fmt.Sprintf("%s/cut=%d", k, cut), tsgu.Packet(typ, b[:cut]))
		}
	}
	inner := func(tl int) []int { return []int{0, 1, tl - 1, tl, tl + 1, 0x7FFF, 0xFFFF} }
	ck := tsgu.UTF16Z("ok|" + hostA + ":3389|10.0.0.1|alice")
	for _, l := range inner(len(ck)) {
		if l >= 0 {
			add("inner-length", fmt.Sprintf("TC/cookie-len=%d", l), tsgu.TunnelCreateRaw(0x3f, 1, l, ck, true))
		}
	}
	for _, f := range []uint16{0, 2, 3, 0xFFFF} {
		add("inner-length", fmt.Sprintf("TC/fields=%#x", f), tsgu.TunnelCreateRaw(0x3f, f, len(ck), ck, true))
	}
	nm := tsgu.UTF16Z("client1")
	for _, l := range inner(len(nm)) {
		if l >= 0 {
			bb := append([]byte{byte(l), byte(l >> 8)}, nm...)
			add("inner-length", fmt.Sprintf("TA/name-len=%d", l), tsgu.Packet(tsgu.TypeTunnelAuth, bb))
		}
	}
	hn := tsgu.UTF16Z(hostA)
	for _, l := range inner(len(hn)) {
		if l >= 0 {
			add("inner-length", fmt.Sprintf("CC/name-len=%d", l), tsgu.ChannelCreateRaw(1, 0, 3389, 3, l, hn))
		}
	}
	for _, nres := range []byte{0, 2, 255} {
		add("inner-length", fmt.Sprintf("CC/resources=%d", nres), tsgu.ChannelCreateRaw(nres, 255, 3389, 3, len(hn), hn))
	}
	pay := []byte("hello world")
	for _, l := range inner(len(pay)) {
		if l >= 0 {
			add("inner-length", fmt.Sprintf("DATA/len=%d", l), tsgu.DataRaw(uint16(l), pay))
		}
	}
	// invalid UTF-16 in names
	add("utf16", "CC/lone-surrogates", tsgu.ChannelCreateRaw(1, 0, 3389, 3, 6, tsgu.Units(0xD800, 0xDC00, 0xDFFF)))
	add("utf16", "CC/odd", tsgu.ChannelCreateRaw(1, 0, 3389, 3, 5, []byte{0x41, 0, 0x42, 0, 0x43}))
	add("utf16", "TC/odd-cookie", tsgu.TunnelCreateRaw(0x3f, 1, 3, []byte{0x41, 0, 0x42}, true))
	return out
}

// c10Exec: canonical prefix of k packets, then the hostile segments, then a
// liveness probe: a fresh tunnel must still complete a handshake.
func c10Exec(kind string, k int, in c10Input, rep *Report) (viol, detail string) {
	cfg := c01Cfg(true, false, kind)
	probeOK := false
	var probeWhy string
	canon := c10Canonical()
	res := &SeqResult{}
	if announcesHuge(in.Segs) {
		if hugeFound() {
			return "", ""
		}
		defer hugeLock()()
		if hugeFound() {
			return "", ""
		}
	}
	var m0, m1 runtime.MemStats
	runtime.ReadMemStats(&m0)
	x := vsched.Run(nil, 20000, false, nil, func() {
		w := NewWorld()
		res.World = w
		w.Accept = func(a string) bool { return true }
		gw := NewGateway(cfg.Gw)
		h := handlerOf(gw)
		id := NewIdentity("alice", "10.0.0.1", "10.0.0.1:50000")
		c, ok := w.OpenTunnel(kind, h, gw, "conn-1", "10.0.0.1:50000", id, nil)
		if !ok {
			probeWhy = "first tunnel not opened"
			return
		}
		for _, p := range canon[:k] {
			c.SendSegment(p)
			vsched.WaitIdle()
		}
		for _, s := range in.Segs {
			c.SendSegment(s)
			vsched.WaitIdle()
		}
		// liveness: another client is still served
		id2 := NewIdentity("bob", "10.0.0.2", "10.0.0.2:50000")
		c2, ok := w.OpenTunnel(kind, h, gw, "conn-2", "10.0.0.2:50000", id2, nil)
		if !ok {
			probeWhy = "second tunnel not opened"
			return
		}
		c2.SendSegment(canon[0])
		vsched.WaitIdle()
		c2.Absorb()
		pk := c2.NewPackets()
		if len(pk) == 1 && pk[0].Type == tsgu.TypeHandshakeResp && tsgu.ParseResp(pk[0]).Status == 0 {
			probeOK = true
		} else {
			probeWhy = fmt.Sprintf("probe handshake got %d packets", len(pk))
		}
		c2.CloseClient()
		c.CloseClient()
	})
	runtime.ReadMemStats(&m1)
	rep.add("executions", 1)
	rep.add("transitions", int64(x.Steps))
	defer x.Finish()
	if x.Abort != "" {
		return "step-cap-exceeded (livelock?)", x.Abort
	}
	// memory: what the gateway allocates follows what the client SENT, not what a length field announces; a
	// few bytes that make it reserve hundreds of MiB per connection end the process under any memory limit
	sent := 0
	for _, sg := range in.Segs {
		sent += len(sg)
	}
	if grown := m1.TotalAlloc - m0.TotalAlloc; grown > 256<<20+64*uint64(sent) {
		hugeSetFound()
		return "memory-reserved-by-announced-length", fmt.Sprintf("%d bytes of client input made the gateway allocate %d MiB", sent, grown>>20)
	}
	for _, p := range x.Panics() {
		return "panic:" + shortFn(panicSite(p)), fmt.Sprintf("thread %s: %s", p.Name, p.Value)
	}
	if !probeOK {
		return "other-clients-no-longer-served", probeWhy
	}
	// at quiescence (after both clients dropped) no gateway thread may be left
	for _, b := range x.Blocked {
		if !b.Daemon && b.Name != "main" {
			return "gateway-thread-wedged:" + strings.SplitN(b.Name, "-", 2)[0], fmt.Sprintf("%s blocked on %s after all clients left", b.Name, b.Desc)
		}
	}
	return "", ""
}

// c10Stalled: part (h). The first client's tunnel has an open channel to a host that keeps writing while the
// client has stopped reading (the gateway's writes to it block: send window of 32 bytes); then that client
// misbehaves in one of several ways or just goes away. Another client must still be served, and once everybody
// left no gateway goroutine may remain.
func c10Stalled(kind, end string, rep *Report) (viol, detail string) {
	cfg := c01Cfg(true, false, kind)
	probeOK := false
	var probeWhy string
	canon := c10Canonical()
	x := vsched.Run(nil, 40000, false, nil, func() {
		w := NewWorld()
		w.ClientWindow = 32
		w.Accept = func(a string) bool { return true }
		var be *Backend
		w.OnBackend = func(b *Backend) { be = b }
		gw := NewGateway(cfg.Gw)
		h := handlerOf(gw)
		id := NewIdentity("alice", "10.0.0.1", "10.0.0.1:50000")
		c, ok := w.OpenTunnel(kind, h, gw, "conn-1", "10.0.0.1:50000", id, nil)
		if !ok {
			probeWhy = "first tunnel not opened"
			return
		}
		for _, p := range canon[:4] {
			c.SendSegment(p)
			c.RecvPacket() // the client still reads its setup responses
		}
		vsched.WaitIdle()
		if be == nil {
			probeWhy = "no backend connection"
			return
		}
		stalled := false
		for i := 0; i < 4; i++ {
			// the host writes again and again; the client reads nothing: after the first packet filled the
			// window the relay goroutine blocks in its write to the client
			be.Conn.Write([]byte("host-keeps-writing-host-keeps-writing-"))
			vsched.WaitIdle()
		}
		for _, b := range vsched.Cur().BlockedNow() {
			if strings.HasPrefix(b.Desc, "write ") {
				stalled = true
			}
		}
		if !stalled {
			probeWhy = "harness: the relay goroutine did not stall on the client"
			return
		}
		switch end {
		case "bad-header":
			c.SendSegment([]byte{0xA, 0, 0, 0, 4, 0, 0, 0})
		case "out-of-order":
			c.SendSegment(canon[0])
		case "close-channel":
			c.SendSegment(tsgu.Data([]byte("x")))
			c.SendSegment(tsgu.CloseChannel())
		case "keeps-connection":
			// nothing: the client just sits there
		}
		vsched.WaitIdle()
		id2 := NewIdentity("bob", "10.0.0.2", "10.0.0.2:50000")
		w.ClientWindow = 0
		c2, ok := w.OpenTunnel(kind, h, gw, "conn-2", "10.0.0.2:50000", id2, nil)
		if !ok {
			probeWhy = "second tunnel not opened"
			return
		}
		c2.SendSegment(canon[0])
		vsched.WaitIdle()
		c2.Absorb()
		pk := c2.NewPackets()
		if len(pk) == 1 && pk[0].Type == tsgu.TypeHandshakeResp && tsgu.ParseResp(pk[0]).Status == 0 {
			probeOK = true
		} else {
			probeWhy = fmt.Sprintf("probe handshake got %d packets", len(pk))
		}
		c2.CloseClient()
		c.CloseClient()
	})
	rep.add("executions", 1)
	rep.add("transitions", int64(x.Steps))
	defer x.Finish()
	if x.Abort != "" {
		return "step-cap-exceeded (livelock?)", x.Abort
	}
	for _, p := range x.Panics() {
		return "panic:" + shortFn(panicSite(p)), fmt.Sprintf("thread %s: %s", p.Name, p.Value)
	}
	if !probeOK {
		why := probeWhy
		for _, b := range x.Blocked {
			if !b.Daemon && b.Name != "main" {
				why += fmt.Sprintf("; %s blocked on %s", b.Name, b.Desc)
			}
		}
		return "other-clients-no-longer-served", why
	}
	for _, b := range x.Blocked {
		if !b.Daemon && b.Name != "main" {
			return "gateway-thread-wedged:" + strings.SplitN(b.Name, "-", 2)[0], fmt.Sprintf("%s blocked on %s after all clients left", b.Name, b.Desc)
		}
	}
	return "", ""
}

func c10(env *Env, rep *Report) {
	ins := c10Inputs()
	rep.Rule = fmt.Sprintf("(a) %d hostile packet inputs (every type in {0..0x12,0xFF,0x100,0xFFFF} x header length fields {0..16,true-1,true,true+1,4096,0xFFFF,2^31-1,2^31,2^32-1}; headers truncated at 0..7 bytes; every body truncation of each request; inner length fields {0,1,true-1,true,true+1,0x7FFF,0xFFFF}; field masks; invalid UTF-16) x 6 protocol phases (after 0..5 packets of the canonical session) x transports {processor, websocket, legacy}; "+
		"(c) NTLM messages against the real verifier; (d) KDC-proxy bodies against the real handler; (e) every sequence of up to 3 requests from {RDG_IN_DATA, RDG_OUT_DATA, websocket upgrade, GET, unknown method} x connection ids {X, Y, none} against the real handler; (b) HTTP-level inputs against the real rdpgw binary (see the part reports); (i) every end-of-tunnel fault scenario of C11 under the default schedule, each also against a gateway configured with an idle timeout, plus clients that keep the connection and fall silent after each stage (virtual time: every timer the gateway arms fires, its function in a thread of its own), judged for panics; (j) a packet kept incomplete over 10 / 200 / 2000 fragments (empty websocket messages; one byte at a time of a packet announced as nearly 4 GiB): the depth of the reader's call stack must not grow with the fragments; (h) a client that stopped reading while its host keeps writing (gateway writes block), then a bad header / out-of-order packet / channel close / nothing: another client is still served and nothing is left behind; (g) a tour of the real binary under 6 authentication configurations: login, download, token introspection, every registered route, and a complete session over each transport with the callbacks as main() wires them. Oracle for (a): no panic in any thread, no execution allocates more than 256 MiB + 64 x the bytes the client sent (a length field must not reserve memory: under any memory limit that ends the process), a second client still completes a handshake afterwards, and after all clients left no gateway goroutine remains. distinct_nontrivial = distinct (input, phase, transport) cases.", len(ins))
	rep.Assumptions = append(rep.Assumptions, "each hostile input is one transport read (segmentations are C08's); table cookie checker")
	if env.Replay != nil {
		rp := env.Replay
		part, _ := rp["part"].(string)
		switch part {
		case "ntlm":
			c10NtlmReplay(env, rep)
		case "kdc":
			c10KdcReplay(env, rep)
		case "http":
			c10HTTPReplay(env, rep)
		default:
			name, _ := rp["input"].(string)
			kind, _ := rp["kind"].(string)
			kf, _ := rp["phase"].(float64)
			for _, in := range ins {
				if in.Class+"/"+in.Name == name {
					v, d := c10Exec(kind, int(kf), in, rep)
					fmt.Println("verdict:", v, d)
					if v != "" {
						rep.violate("C10/"+v+"/"+in.Class, d, rp)
					}
				}
			}
		}
		return
	}
	n, distinct := 0, 0
	if env.Part == "" || env.Part == "a" {
		for _, kind := range []string{"proc", "ws", "legacy"} {
			for k := 0; k <= 5; k++ {
				for _, in := range ins {
					n++
					if !env.mine(n) {
						continue
					}
					distinct++
					v, d := c10Exec(kind, k, in, rep)
					rep.outcome(fmt.Sprintf("a %s phase=%d class=%s verdict=%s", kind, k, in.Class, v))
					if v != "" {
						rep.violate("C10/"+v+"/"+in.Class, fmt.Sprintf("transport=%s after %d canonical packets, input %s/%s: %s", kind, k, in.Class, in.Name, d),
							map[string]any{"engine": "enum", "part": "a", "kind": kind, "phase": k, "input": in.Class + "/" + in.Name})
					}
					if distinct%700 == 1 {
						rep.sample(map[string]any{"part": "a", "transport": kind, "canonical_packets_before": k, "input": in.Class + "/" + in.Name, "verdict": v})
					}
				}
			}
		}
	}
	if env.Part == "" || env.Part == "c" {
		distinct += c10Ntlm(env, rep)
	}
	if env.Part == "" || env.Part == "d" {
		distinct += c10Kdc(env, rep)
	}
	if env.Part == "" || env.Part == "e" {
		distinct += c10Order(env, rep)
	}
	if env.Part == "" || env.Part == "b" {
		distinct += c10HTTP(env, rep)
	}
	if env.Part == "" || env.Part == "g" {
		distinct += c10Tour(env, rep)
	}
	if env.Part == "" || env.Part == "i" {
		// (i) fault points: every end-of-tunnel scenario of C11 (client gone at each stage, one of the two legacy
		// connections lost and the client continuing on the other, mid-packet drops, stalled clients) under the
		// default schedule, judged for panics only (release of resources is C11's)
		scs := c11Scenarios()
		// ... and clients that keep their connection but say nothing more after each stage, against a gateway
		// configured with an idle timeout: whatever timers the gateway arms fire (virtual time), each in a
		// thread of its own as the runtime would run it
		for _, kind := range []string{"ws", "legacy"} {
			for _, stage := range []string{"open", "hs", "tc", "ta", ""} {
				for _, script := range [][]string{{"idle"}, {"ka", "idle"}, {"idle", "ka", "idle"}} {
					nm := stage
					if nm == "" {
						nm = "cc"
					}
					scs = append(scs, ConcScenario{Name: fmt.Sprintf("%s/silent-after-%s/%s/idle-timeout-configured", kind, nm, strings.Join(script, "+")), IdleTimeout: 1,
						Plans: []TunnelPlan{{Kind: kind, ConnID: "A", User: "ua", IP: "10.0.0.1", Host: "ha.example:3389", StopAt: stage, Script: script, Chunks: [][]byte{[]byte("host-bytes")}}}})
				}
			}
		}
		for _, sc0 := range scs {
			if sc0.IdleTimeout == 0 && !strings.HasPrefix(sc0.Name, "many/") {
				with := sc0
				with.Name += "/idle-timeout-configured"
				with.IdleTimeout = 1
				scs = append(scs, with)
			}
		}
		for i, sc := range scs {
			n++
			if !env.mine(n) {
				continue
			}
			_ = i
			distinct++
			res := RunConc(sc, nil, false)
			rep.add("executions", 1)
			rep.add("transitions", int64(res.X.Steps))
			for _, p := range res.X.Panics() {
				rep.violate("C10/panic:"+shortFn(panicSite(p))+"/fault-point/"+strings.SplitN(sc.Name, "/", 2)[0], fmt.Sprintf("scenario %s, thread %s: %s", sc.Name, p.Name, p.Value), map[string]any{"noreplay": true})
			}
			res.X.Finish()
			rep.outcome("i fault-point panics=" + fmt.Sprint(len(res.X.Panics()) > 0))
		}
	}
	if (env.Part == "" || env.Part == "j") && env.Shard == 1%env.NShards {
		distinct += c10Fragments(rep)
	}
	if (env.Part == "" || env.Part == "h") && env.Shard == 0 {
		for _, kind := range []string{"ws", "legacy"} {
			for _, end := range []string{"bad-header", "out-of-order", "close-channel", "keeps-connection"} {
				distinct++
				v, d := c10Stalled(kind, end, rep)
				rep.outcome(fmt.Sprintf("h %s %s verdict=%s", kind, end, v))
				if v != "" {
					rep.violate("C10/"+v+"/stalled-client/"+kind+"/"+end, d, map[string]any{"noreplay": true})
				}
			}
		}
	}
	rep.add("distinct", int64(distinct))
	rep.add("states", int64(distinct))
}
