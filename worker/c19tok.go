package main

import "context"

func c19Token(ctx context.Context, user, host string) (string, error) {
	return "TOKEN(" + user + "," + host + ")", nil
}
