package main

import (
	"crypto/tls"
	"encoding/json"
	"fmt"
	"io"
	"net"
	"net/http"
	"os"
	"os/exec"
	"path/filepath"
	"strconv"
	"strings"
	"time"

	"github.com/bolkedebruin/gokrb5/v8/keytab"

	"github.com/bolkedebruin/rdpgw/cmd/rdpgw/config"

	"verif/internal/tsgu"
)

// C18 — unsafe or inconsistent configurations are refused at startup.

func init() { props["C18"] = c18 }

// confLoadChild: the real config.Load in a process of its own (it ends the process on refusal).
func confLoadChild(path string) {
	c := config.Load(path)
	b, _ := json.Marshal(c)
	os.Stdout.Write(b)
}

type c18Cfg struct {
	AuthAbsent bool // Server.Authentication not given at all: the documented default (openid) applies
	Auth       []string
	TLS        string // disable | enable
	TLSRaw     string // non-empty: the literal value of Server.Tls (certificate files are given too)
	SelRaw     string // non-empty: the literal value of Server.HostSelection
	Selection  string
	QueryKey   bool
	Keytab     bool
	TokenAuth  bool
	Hosts      int
	Keys       map[string]string // config key -> value ("" = absent)
	UserToken  bool
}

var c18KeyNames = []string{"Security.PAATokenSigningKey", "Security.PAATokenEncryptionKey", "Security.UserTokenEncryptionKey", "Server.SessionKey", "Server.SessionEncryptionKey"}

// refStartable is the property's list of refusals.
func refStartable(c c18Cfg) (bool, string) {
	has := func(a string) bool {
		for _, x := range c.Auth {
			if x == a || (a == "local" && x == "basic") {
				return true
			}
		}
		return false
	}
	switch {
	case has("openid") && !c.TokenAuth:
		return false, "openid without cookie authentication"
	case has("local") && c.TLS == "disable":
		return false, "local authentication with TLS disabled"
	case has("ntlm") && has("kerberos"):
		return false, "ntlm and kerberos together"
	case has("kerberos") && !c.Keytab:
		return false, "kerberos without keytab"
	case c.Selection == "signed" && !c.QueryKey:
		return false, "signed host selection without query-token key"
	case c.Hosts == 0:
		return false, "no hosts"
	}
	return true, ""
}

func c18Keytab() (string, string) {
	kt := filepath.Join(scratch(), "gw.keytab")
	kc := filepath.Join(scratch(), "krb5.conf")
	if _, err := os.Stat(kt); err != nil {
		k := keytab.New()
		k.AddEntry("HTTP/gw.example", "EXAMPLE.COM", "keytab-password", time.Now(), 1, 18)
		b, _ := k.Marshal()
		os.WriteFile(kt, b, 0o600)
		os.WriteFile(kc, []byte("[libdefaults]\n default_realm = EXAMPLE.COM\n dns_lookup_kdc = false\n[realms]\n EXAMPLE.COM = {\n  kdc = 127.0.0.1:88\n }\n"), 0o644)
	}
	return kt, kc
}

// c18Settings renders the configuration as (key, value) pairs in koanf's dotted names.
func c18Settings(c c18Cfg, port int, idpURL string) [][2]string {
	var s [][2]string
	add := func(k, v string) { s = append(s, [2]string{k, v}) }
	add("Server.Port", strconv.Itoa(port))
	add("Server.GatewayAddress", "gw.example:"+strconv.Itoa(port))
	if !c.AuthAbsent {
		add("Server.Authentication", strings.Join(c.Auth, " "))
	}
	if c.TLSRaw != "" {
		cf, kf := TLSFiles()
		add("Server.Tls", c.TLSRaw)
		add("Server.CertFile", cf)
		add("Server.KeyFile", kf)
	} else if c.TLS == "disable" {
		add("Server.Tls", "disable")
	} else {
		cf, kf := TLSFiles()
		add("Server.Tls", "enable")
		add("Server.CertFile", cf)
		add("Server.KeyFile", kf)
	}
	if c.SelRaw != "" {
		add("Server.HostSelection", c.SelRaw)
	} else {
		add("Server.HostSelection", c.Selection)
	}
	if c.Hosts > 0 {
		add("Server.Hosts", "127.0.0.1:3389")
	}
	add("Server.AuthSocket", "/tmp/verif-no-such-auth.sock")
	if c.QueryKey {
		add("Security.QueryTokenSigningKey", "query-key-query-key-query-key-32")
	}
	add("Caps.TokenAuth", strconv.FormatBool(c.TokenAuth))
	if c.Keytab {
		kt, kc := c18Keytab()
		add("Kerberos.Keytab", kt)
		add("Kerberos.Krb5Conf", kc)
	}
	add("OpenId.ProviderUrl", idpURL)
	add("OpenId.ClientId", "rdpgw")
	add("OpenId.ClientSecret", "secret")
	if c.UserToken {
		add("Security.EnableUserToken", "true")
	}
	for k, v := range c.Keys {
		if v != "" {
			add(k, v)
		}
	}
	return s
}

// c18Render: file text and environment for a source mode (file | env | both).
// In "both" the file carries a deliberately different (startable or not) value
// for the discriminating settings and the environment carries the real ones:
// the environment is loaded last and wins.
func c18Render(settings [][2]string, source string) (yaml string, env []string) {
	groups := map[string][][2]string{}
	var order []string
	for _, kv := range settings {
		p := strings.SplitN(kv[0], ".", 2)
		if _, ok := groups[p[0]]; !ok {
			order = append(order, p[0])
		}
		groups[p[0]] = append(groups[p[0]], [2]string{p[1], kv[1]})
	}
	toEnv := func(k string) string {
		// Server.HostSelection -> RDPGW_SERVER__HOST_SELECTION (ToCamel turns _x into X)
		p := strings.SplitN(k, ".", 2)
		var sb strings.Builder
		for i, r := range p[1] {
			if i > 0 && r >= 'A' && r <= 'Z' {
				sb.WriteByte('_')
			}
			sb.WriteRune(r)
		}
		return "RDPGW_" + strings.ToUpper(p[0]) + "__" + strings.ToUpper(sb.String())
	}
	writeYaml := func(flip bool) string {
		var sb strings.Builder
		for _, g := range order {
			sb.WriteString(g + ":\n")
			for _, kv := range groups[g] {
				v := kv[1]
				if flip {
					switch g + "." + kv[0] {
					case "Server.Authentication":
						v = "openid"
					case "Server.Tls":
						continue
					case "Caps.TokenAuth":
						v = "true"
					case "Server.HostSelection":
						v = "roundrobin"
					case "Kerberos.Keytab", "Security.QueryTokenSigningKey":
						continue
					}
				}
				if g+"."+kv[0] == "Server.Authentication" || g+"."+kv[0] == "Server.Hosts" {
					sb.WriteString(" " + kv[0] + ":\n")
					for _, x := range strings.Fields(v) {
						sb.WriteString("  - " + x + "\n")
					}
					continue
				}
				fmt.Fprintf(&sb, " %s: %q\n", kv[0], v)
			}
		}
		return sb.String()
	}
	switch source {
	case "file":
		return writeYaml(false), nil
	case "env":
		for _, kv := range settings {
			v := kv[1]
			if kv[0] == "Server.Hosts" {
				v = v + " " + v // a list needs a blank to be split; two equal entries
			}
			env = append(env, toEnv(kv[0])+"="+v)
		}
		return "", env
	default:
		for _, kv := range settings {
			v := kv[1]
			if kv[0] == "Server.Hosts" {
				v = v + " " + v
			}
			env = append(env, toEnv(kv[0])+"="+v)
		}
		return writeYaml(true), env
	}
}

// c18Load runs config.Load in a child process.
func c18Load(yaml string, env []string) (conf *config.Configuration, refused bool, log string) {
	dir, _ := os.MkdirTemp(scratch(), "cl")
	defer os.RemoveAll(dir)
	path := filepath.Join(dir, "rdpgw.yaml")
	if yaml != "" {
		os.WriteFile(path, []byte(yaml), 0o644)
	}
	exe, _ := os.Executable()
	cmd := exec.Command(exe, "-confload", path)
	cmd.Env = append([]string{"PATH=" + os.Getenv("PATH")}, env...)
	var errb strings.Builder
	cmd.Stderr = &errb
	out, err := cmd.Output()
	if err != nil {
		return nil, true, errb.String()
	}
	var c config.Configuration
	if json.Unmarshal(out, &c) != nil {
		infra("confload child printed no JSON: %q %s", out, errb.String())
	}
	return &c, false, errb.String()
}

func c18(env *Env, rep *Report) {
	rep.Rule = "(L1) the real config.Load in a child process for the full product 16 authentication subsets (those with local also spelled with its alias basic; plus authentication not configured at all, where the documented default openid applies) x TLS {disable, enabled} x host selection {roundrobin, signed, unsigned, any} x query-token key {absent, present} x keytab {absent, present} x cookie auth {on, off} x source {file, RDPGW_ environment, both with the file saying something else}: refusal exactly for the reference's refusal list (except the no-hosts rule, which main() enforces), and the effective settings equal the given ones; plus every combination of 5 key settings x {absent, 1, 31, 32 characters} (quick: each key alone and all pairs; thorough: the full 4^5 block) loaded twice: a 32-character key is kept, an absent or shorter one is replaced by a 32-character value that differs between the two loads; the user-token signing key likewise. " +
		"(L2) the real rdpgw binary started for authentication subsets x TLS x hosts {0,1} x {signed without key, signed with key, roundrobin} x cookie auth (quick: 96 starts, thorough: 384 + keytab dimension): refused => non-zero exit before listening, startable => listening socket. (L2b) mode names in other spellings (Disable, DISABLE, blanks; Signed, SIGNED, blanks; file and environment): whatever the gateway makes of them, local authentication is never served over plain HTTP and downloads are never handled as signed host selection without a key. (L3) two real instances started with absent keys: a session cookie and an access token obtained from instance 1 through a real OpenID login are not accepted by instance 2 (and are accepted by instance 1). distinct_nontrivial = distinct configurations."
	rep.Assumptions = append(rep.Assumptions, "documented capitalisation of configuration keys; environment names derived by the documented RDPGW_SECTION__KEY_NAME rule", "keys of 33 and more characters are outside the property",
		"startup is observed within 20 s (exit status or accepting socket); ACME/auto TLS without certificate files is not started")
	if env.Replay != nil {
		fmt.Println("C18 violations are re-derived by running the check; no single-case replay")
		return
	}
	distinct, n := 0, 0
	auths := []string{"openid", "kerberos", "local", "ntlm"}
	idp := LoopbackIdP()
	// ---------------- L1: refusal lattice
	for mask := 0; mask < 16; mask++ {
		var al []string
		for i, a := range auths {
			if mask&(1<<i) != 0 {
				al = append(al, a)
			}
		}
		if len(al) == 0 {
			continue
		}
		spellings := [][]string{al}
		if mask&4 != 0 {
			// "basic" is a documented alias of "local"
			alt := append([]string{}, al...)
			for i := range alt {
				if alt[i] == "local" {
					alt[i] = "basic"
				}
			}
			spellings = append(spellings, alt)
		}
		for _, al := range spellings {
			for _, tlsm := range []string{"disable", "enable"} {
				for _, sel := range []string{"roundrobin", "signed", "unsigned", "any"} {
					for _, qk := range []bool{false, true} {
						for _, kt := range []bool{false, true} {
							for _, ta := range []bool{true, false} {
								for _, src := range []string{"file", "env", "both"} {
									n++
									if !env.mine(n) {
										continue
									}
									distinct++
									c := c18Cfg{Auth: al, TLS: tlsm, Selection: sel, QueryKey: qk, Keytab: kt, TokenAuth: ta, Hosts: 1}
									yaml, ev := c18Render(c18Settings(c, 8443, idp.Issuer), src)
									conf, refused, log := c18Load(yaml, ev)
									rep.add("executions", 1)
									want, why := refStartable(c)
									what := fmt.Sprintf("auth=%v tls=%s selection=%s querykey=%v keytab=%v tokenauth=%v source=%s", al, tlsm, sel, qk, kt, ta, src)
									rep.outcome(fmt.Sprintf("L1 startable=%v refused=%v", want, refused))
									switch {
									case !want && !refused:
										rep.violate("C18/unsafe-configuration-accepted-by-config-load/"+strings.ReplaceAll(why, " ", "-")+"/"+src, what+": "+why, map[string]any{"noreplay": true})
									case want && refused:
										rep.violate("C18/safe-configuration-refused/"+src, what+": "+tail(log, 200), map[string]any{"noreplay": true})
									case want && conf != nil:
										if strings.Join(conf.Server.Authentication, " ") != strings.Join(al, " ") || conf.Server.HostSelection != sel || conf.Caps.TokenAuth != ta || (conf.Server.Tls == "disable") != (tlsm == "disable") {
											rep.violate("C18/effective-settings-differ-from-given/"+src, fmt.Sprintf("%s: effective auth=%v selection=%s tokenauth=%v tls=%s", what, conf.Server.Authentication, conf.Server.HostSelection, conf.Caps.TokenAuth, conf.Server.Tls), map[string]any{"noreplay": true})
										}
									}
									if distinct%400 == 1 {
										rep.sample(map[string]any{"level": "L1 config.Load", "config": what, "reference_startable": want, "refused": refused})
									}
								}
							}
						}
					}
				}
			}
		}
	}
	// ---------------- L1: authentication not configured (default openid) x cookie auth x TLS x source
	for _, ta := range []bool{true, false} {
		for _, tlsm := range []string{"disable", "enable"} {
			for _, src := range []string{"file", "env"} {
				n++
				if !env.mine(n) {
					continue
				}
				distinct++
				c := c18Cfg{AuthAbsent: true, Auth: []string{"openid"}, TLS: tlsm, Selection: "roundrobin", TokenAuth: ta, Hosts: 1}
				yaml, ev := c18Render(c18Settings(c, 8443, idp.Issuer), src)
				conf, refused, _ := c18Load(yaml, ev)
				rep.add("executions", 1)
				want, why := refStartable(c)
				what := fmt.Sprintf("authentication not configured (default openid) tls=%s tokenauth=%v source=%s", tlsm, ta, src)
				rep.outcome(fmt.Sprintf("L1 default-auth startable=%v refused=%v", want, refused))
				if !want && !refused {
					rep.violate("C18/unsafe-configuration-accepted-by-config-load/"+strings.ReplaceAll(why, " ", "-")+"/default-authentication", what+": "+why, map[string]any{"noreplay": true})
				}
				if want && refused {
					rep.violate("C18/safe-configuration-refused/default-authentication", what, map[string]any{"noreplay": true})
				}
				if want && conf != nil && strings.Join(conf.Server.Authentication, " ") != "openid" {
					rep.violate("C18/default-authentication-is-not-openid", fmt.Sprint(conf.Server.Authentication), map[string]any{"noreplay": true})
				}
			}
		}
	}
	// ---------------- L1: keys
	lens := []int{0, 1, 31, 32}
	mkKey := func(name string, l int) string { return strings.Repeat(string(rune('a'+len(name)%20)), l) }
	type keyCase map[string]int
	var kcases []keyCase
	if env.thorough() {
		for i := 0; i < 1024; i++ {
			kc := keyCase{}
			v := i
			for _, k := range c18KeyNames {
				kc[k] = lens[v%4]
				v /= 4
			}
			kcases = append(kcases, kc)
		}
	} else {
		for a := 0; a < len(c18KeyNames); a++ {
			for b := a; b < len(c18KeyNames); b++ {
				for _, la := range lens {
					for _, lb := range lens {
						kc := keyCase{}
						for _, k := range c18KeyNames {
							kc[k] = 32
						}
						kc[c18KeyNames[a]] = la
						kc[c18KeyNames[b]] = lb
						kcases = append(kcases, kc)
					}
				}
			}
		}
	}
	getKey := func(c *config.Configuration, k string) string {
		switch k {
		case "Security.PAATokenSigningKey":
			return c.Security.PAATokenSigningKey
		case "Security.PAATokenEncryptionKey":
			return c.Security.PAATokenEncryptionKey
		case "Security.UserTokenEncryptionKey":
			return c.Security.UserTokenEncryptionKey
		case "Security.UserTokenSigningKey":
			return c.Security.UserTokenSigningKey
		case "Server.SessionKey":
			return c.Server.SessionKey
		}
		return c.Server.SessionEncryptionKey
	}
	for ki, kc := range kcases {
		for _, src := range []string{"file", "env"} {
			n++
			if !env.mine(n) {
				continue
			}
			distinct++
			c := c18Cfg{Auth: []string{"openid"}, TLS: "disable", Selection: "roundrobin", TokenAuth: true, Hosts: 1, UserToken: true, Keys: map[string]string{}}
			for k, l := range kc {
				c.Keys[k] = mkKey(k, l)
			}
			// the user-token signing key rides along: its length follows the first key's
			c.Keys["Security.UserTokenSigningKey"] = mkKey("sig", kc[c18KeyNames[ki%len(c18KeyNames)]])
			yaml, ev := c18Render(c18Settings(c, 8443, idp.Issuer), src)
			c1, r1, _ := c18Load(yaml, ev)
			c2, r2, _ := c18Load(yaml, ev)
			rep.add("executions", 2)
			if r1 || r2 {
				rep.violate("C18/safe-configuration-refused/keys", fmt.Sprint(kc), map[string]any{"noreplay": true})
				continue
			}
			for _, k := range append(append([]string{}, c18KeyNames...), "Security.UserTokenSigningKey") {
				given := c.Keys[k]
				e1, e2 := getKey(c1, k), getKey(c2, k)
				rep.outcome(fmt.Sprintf("L1 key %s given=%d effective=%d same=%v", k, len(given), len(e1), e1 == e2))
				switch {
				case len(given) == 32:
					if e1 != given || e2 != given {
						rep.violate("C18/configured-32-character-key-not-used/"+k, fmt.Sprintf("source=%s", src), map[string]any{"noreplay": true})
					}
				case k == "Security.UserTokenSigningKey" && given == "":
					// absent: encrypt-only mode, by design
				default:
					if len(e1) < 32 || len(e2) < 32 {
						rep.violate("C18/runs-with-short-or-empty-key/"+k, fmt.Sprintf("source=%s: given %d characters, effective key has %d characters", src, len(given), len(e1)), map[string]any{"noreplay": true})
					} else if e1 == e2 {
						rep.violate("C18/substituted-key-not-random/"+k, fmt.Sprintf("source=%s: two loads produced the same key", src), map[string]any{"noreplay": true})
					}
				}
			}
		}
	}
	// ---------------- L2: the real binary
	if gwBin() != "" {
		type l2 struct {
			c   c18Cfg
			why string
		}
		var starts []c18Cfg
		for mask := 1; mask < 16; mask++ {
			var al []string
			for i, a := range auths {
				if mask&(1<<i) != 0 {
					al = append(al, a)
				}
			}
			for _, tlsm := range []string{"disable", "enable"} {
				for _, hosts := range []int{0, 1} {
					for _, sel := range [][2]any{{"signed", false}, {"signed", true}, {"roundrobin", false}} {
						for _, ta := range []bool{true, false} {
							for _, kt := range []bool{true, false} {
								if !env.thorough() && (!kt && !strings.Contains(strings.Join(al, " "), "kerberos") || (mask+hosts+len(sel[0].(string)))%2 == 0 && !ta) {
									continue
								}
								starts = append(starts, c18Cfg{Auth: al, TLS: tlsm, Selection: sel[0].(string), QueryKey: sel[1].(bool), Keytab: kt, TokenAuth: ta, Hosts: hosts})
							}
						}
					}
				}
			}
		}
		for _, ta := range []bool{true, false} {
			starts = append(starts, c18Cfg{AuthAbsent: true, Auth: []string{"openid"}, TLS: "disable", Selection: "roundrobin", TokenAuth: ta, Hosts: 1})
		}
		for _, c := range starts {
			n++
			if !env.mine(n) {
				continue
			}
			distinct++
			port := freePort()
			yaml, _ := c18Render(c18Settings(c, port, idp.Issuer), "file")
			g := StartGateway(yaml, nil, port, c.TLS != "disable")
			for retry := 0; retry < 3 && !g.Alive() && strings.Contains(g.Log(), "address already in use"); retry++ {
				// somebody else holds the port: not a verdict about the configuration
				g.Stop()
				port = freePort()
				yaml, _ = c18Render(c18Settings(c, port, idp.Issuer), "file")
				g = StartGateway(yaml, nil, port, c.TLS != "disable")
			}
			rep.add("executions", 1)
			want, why := refStartable(c)
			what := fmt.Sprintf("auth=%v (absent=%v) tls=%s selection=%s querykey=%v keytab=%v tokenauth=%v hosts=%d", c.Auth, c.AuthAbsent, c.TLS, c.Selection, c.QueryKey, c.Keytab, c.TokenAuth, c.Hosts)
			listening := g.Alive()
			rep.outcome(fmt.Sprintf("L2 startable=%v listening=%v", want, listening))
			switch {
			case !want && listening:
				rep.violate("C18/unsafe-configuration-started/"+strings.ReplaceAll(why, " ", "-"), what+": the gateway listens although "+why, map[string]any{"noreplay": true})
			case !want && g.Exit == 0:
				rep.violate("C18/refusal-with-exit-status-0/"+strings.ReplaceAll(why, " ", "-"), what, map[string]any{"noreplay": true})
			case want && !listening:
				rep.violate("C18/safe-configuration-did-not-start", what+": exit "+strconv.Itoa(g.Exit)+" "+tail(g.Log(), 300), map[string]any{"noreplay": true})
			}
			if distinct%100 == 1 {
				rep.sample(map[string]any{"level": "L2 real binary", "config": what, "reference_startable": want, "listening": listening, "exit": g.Exit})
			}
			g.Stop()
		}
		// spellings: a mode name written in another case or with blanks is either treated as the mode it resembles
		// (then the start-up rules for that mode apply) or as something else (then the gateway must not behave
		// like that mode either): local authentication is never served without TLS, and the gateway never runs
		// signed host selection without a query-token key
		for _, sp := range []string{"Disable", "DISABLE", " disable", "disable ", "dIsAbLe"} {
			for _, src := range []string{"file", "env"} {
				n++
				if !env.mine(n) {
					continue
				}
				distinct++
				c := c18Cfg{Auth: []string{"local"}, TLS: "enable", TLSRaw: sp, Selection: "roundrobin", TokenAuth: false, Hosts: 1}
				port := freePort()
				yaml, ev := c18Render(c18Settings(c, port, idp.Issuer), src)
				// L1: what Load returns
				conf, refused, _ := c18Load(yaml, ev)
				rep.add("executions", 2)
				if !refused && conf != nil && conf.Server.Tls == "disable" {
					rep.violate("C18/unsafe-configuration-accepted-by-config-load/local-authentication-with-TLS-disabled/spelling", fmt.Sprintf("Server.Tls given as %q (%s) with local authentication: accepted, and the effective TLS mode is %q", sp, src, conf.Server.Tls), map[string]any{"noreplay": true})
				}
				// L2: what the binary does
				g := StartGateway(yaml, ev, port, false)
				if g.Alive() {
					if cn, err := net.DialTimeout("tcp", "127.0.0.1:"+strconv.Itoa(port), 3*time.Second); err == nil {
						r := RawRequest(cn, BuildRequest("RDG_OUT_DATA", "/remoteDesktopGateway/", []string{"Connection: Upgrade", "Upgrade: websocket"}))
						cn.Close()
						rep.outcome(fmt.Sprintf("L2 tls-spelling plain-status=%d", r.Status))
						if r.Status == 401 || r.Status == 101 || r.Status == 200 {
							rep.violate("C18/unsafe-configuration-started/local-authentication-with-TLS-disabled/spelling", fmt.Sprintf("Server.Tls given as %q (%s) with local authentication: the gateway answers plain HTTP on its port with status %d (Basic challenge without TLS)", sp, src, r.Status), map[string]any{"noreplay": true})
						}
					}
				}
				g.Stop()
			}
		}
		for _, sp := range []string{"Signed", "SIGNED", "signed ", " signed"} {
			for _, src := range []string{"file", "env"} {
				n++
				if !env.mine(n) {
					continue
				}
				distinct++
				c := c18Cfg{Auth: []string{"openid"}, TLS: "disable", Selection: "roundrobin", SelRaw: sp, TokenAuth: true, Hosts: 1}
				port := freePort()
				yaml, ev := c18Render(c18Settings(c, port, idp.Issuer), src)
				g := StartGateway(yaml, ev, port, false)
				rep.add("executions", 1)
				if g.Alive() {
					cl := newGwClient(g)
					cl.login(idp, "alice")
					code, _, body := cl.get("/connect")
					code2, _, body2 := cl.get("/connect?host=" + c12QueryToken("127.0.0.1:3389", "", []byte("whatever-whatever-whatever-what-"), time.Now().Add(time.Minute), ""))
					rep.outcome(fmt.Sprintf("L2 selection-spelling connect=%d", code))
					signedLike := (code == 400 && strings.Contains(body, "invalid query parameter")) || strings.Contains(body2, "cannot verify") || strings.Contains(body2, "signature")
					_ = code2
					if signedLike {
						rep.violate("C18/unsafe-configuration-started/signed-host-selection-without-query-token-key/spelling", fmt.Sprintf("Server.HostSelection given as %q (%s) without a query-token key: the gateway started and treats downloads as signed host selection (%d %q / %q)", sp, src, code, strings.TrimSpace(body), strings.TrimSpace(body2)), map[string]any{"noreplay": true})
					}
				}
				g.Stop()
			}
		}
		if env.Shard == 0 {
			distinct++
			c18CrossInstance(rep, idp)
		}
	}
	rep.add("distinct", int64(distinct))
	rep.add("states", int64(distinct))
}

// gwClient is a small HTTP client bound to one gateway process, with a cookie jar.
type gwClient struct {
	g       *GwProc
	cookies map[string]string
	hc      *http.Client
}

func newGwClient(g *GwProc) *gwClient {
	tr := &http.Transport{TLSClientConfig: &tls.Config{InsecureSkipVerify: true}, DisableKeepAlives: true,
		Dial: func(network, addr string) (net.Conn, error) {
			return net.DialTimeout("tcp", "127.0.0.1:"+strconv.Itoa(g.Port), 5*time.Second)
		}}
	return &gwClient{g: g, cookies: map[string]string{}, hc: &http.Client{Transport: tr, Timeout: 20 * time.Second,
		CheckRedirect: func(*http.Request, []*http.Request) error { return http.ErrUseLastResponse }}}
}

func (c *gwClient) get(path string) (int, http.Header, string) {
	scheme := "http"
	if c.g.TLS {
		scheme = "https"
	}
	r, _ := http.NewRequest("GET", scheme+"://gw.example"+path, nil)
	for k, v := range c.cookies {
		r.AddCookie(&http.Cookie{Name: k, Value: v})
	}
	resp, err := c.hc.Do(r)
	if err != nil {
		return 0, nil, err.Error()
	}
	defer resp.Body.Close()
	for _, ck := range resp.Cookies() {
		c.cookies[ck.Name] = ck.Value
	}
	b, _ := io.ReadAll(io.LimitReader(resp.Body, 1<<20))
	return resp.StatusCode, resp.Header, string(b)
}

// login performs the OpenID login against the real binary; returns the connection file.
func (c *gwClient) login(idp *IdP, user string) (string, string) {
	now := time.Now()
	idp.mu.Lock()
	idp.Codes["login-"+user] = CodeBehaviour{AccessToken: "at-" + user, IDToken: idp.IDToken(map[string]any{"iss": idp.Issuer, "aud": "rdpgw", "sub": user, "exp": now.Add(time.Hour).Unix(), "iat": now.Unix(), "preferred_username": user}, false)}
	idp.mu.Unlock()
	code, h, _ := c.get("/connect")
	if code != 302 {
		return "", fmt.Sprintf("GET /connect: %d", code)
	}
	loc := h.Get("Location")
	i := strings.Index(loc, "state=")
	if i < 0 {
		return "", "no state in " + loc
	}
	state := loc[i+6:]
	if j := strings.IndexByte(state, '&'); j >= 0 {
		state = state[:j]
	}
	code, _, body := c.get("/callback?state=" + state + "&code=login-" + user)
	if code != 302 {
		return "", fmt.Sprintf("GET /callback: %d %s", code, body)
	}
	code, _, body = c.get("/connect")
	if code != 200 {
		return "", fmt.Sprintf("GET /connect after login: %d %s", code, body)
	}
	return body, ""
}

func rdpValue(file, key string) string {
	for _, l := range strings.Split(file, "\r\n") {
		if strings.HasPrefix(l, key+":s:") {
			return strings.TrimPrefix(l, key+":s:")
		}
	}
	return ""
}

// wsTunnel opens a websocket tunnel on the binary and runs HS, TC(cookie), TA, CC; returns the statuses.
func wsTunnel(g *GwProc, headers []string, cookie, host string, port uint16) (statuses []uint32, why string) {
	c, err := g.Dial()
	if err != nil {
		return nil, err.Error()
	}
	defer c.Close()
	hs := append([]string{"Connection: Upgrade", "Upgrade: websocket", "Sec-WebSocket-Version: 13", "Sec-WebSocket-Key: dGhlIHNhbXBsZSBub25jZQ==", "Rdg-Connection-Id: {11111111-2222-3333-4444-555555555555}"}, headers...)
	resp := RawRequest(c, BuildRequest("RDG_OUT_DATA", "/remoteDesktopGateway/", hs))
	if resp.Status != 101 {
		return nil, fmt.Sprintf("upgrade answered %d", resp.Status)
	}
	tc := &TunnelClient{Kind: "ws"}
	c.SetDeadline(time.Now().Add(15 * time.Second))
	buf := make([]byte, 1<<16)
	for _, p := range [][]byte{tsgu.Handshake(1, 0, 0, tsgu.ExtAuthPAA), tsgu.TunnelCreate(cookie, true), tsgu.TunnelAuth("pc"), tsgu.ChannelCreate(host, port)} {
		if _, err := c.Write(wsFrame(2, true, p)); err != nil {
			return statuses, "write: " + err.Error()
		}
		for {
			tc.deframe()
			if pk := tc.NewPackets(); len(pk) > 0 {
				statuses = append(statuses, tsgu.ParseResp(pk[0]).Status)
				break
			}
			if tc.Closed {
				return statuses, "closed"
			}
			n, err := c.Read(buf)
			tc.rbuf = append(tc.rbuf, buf[:n]...)
			if err != nil {
				tc.deframe()
				if pk := tc.NewPackets(); len(pk) > 0 {
					statuses = append(statuses, tsgu.ParseResp(pk[0]).Status)
				}
				return statuses, "eof"
			}
		}
		if statuses[len(statuses)-1] != 0 {
			return statuses, "refused"
		}
	}
	return statuses, ""
}

func c18CrossInstance(rep *Report, idp *IdP) {
	// a backend the channel can reach
	bl, _ := net.Listen("tcp", "127.0.0.1:0")
	defer bl.Close()
	go func() {
		for {
			c, err := bl.Accept()
			if err != nil {
				return
			}
			c.Close()
		}
	}()
	bport := bl.Addr().(*net.TCPAddr).Port
	start := func() *GwProc {
		port := freePort()
		yaml := fmt.Sprintf("Server:\n Port: %d\n GatewayAddress: gw.example:%d\n Tls: disable\n Authentication:\n  - openid\n Hosts:\n  - 127.0.0.1:%d\nOpenId:\n ProviderUrl: %q\n ClientId: rdpgw\n ClientSecret: secret\nCaps:\n TokenAuth: true\nSecurity:\n PAATokenSigningKey: short\n", port, port, bport, idp.Issuer)
		return StartGateway(yaml, nil, port, false)
	}
	g1, g2 := start(), start()
	defer g1.Stop()
	defer g2.Stop()
	rep.add("executions", 2)
	if !g1.Alive() || !g2.Alive() {
		rep.violate("C18/safe-configuration-did-not-start", "openid instance with short keys: "+tail(g1.Log(), 300), map[string]any{"noreplay": true})
		return
	}
	c1 := newGwClient(g1)
	file, why := c1.login(idp, "alice")
	if why != "" {
		rep.violate("C18/openid-login-on-real-binary-failed", why+" | "+tail(g1.Log(), 300), map[string]any{"noreplay": true})
		return
	}
	tok := rdpValue(file, "gatewayaccesstoken")
	// own instance accepts its token and session
	st, w := wsTunnel(g1, nil, tok, "127.0.0.1", uint16(bport))
	if w != "" || len(st) != 4 {
		rep.violate("C18/own-token-refused", fmt.Sprintf("statuses %x %s", st, w), map[string]any{"noreplay": true})
	}
	// the other instance must refuse both
	st2, _ := wsTunnel(g2, nil, tok, "127.0.0.1", uint16(bport))
	if len(st2) >= 2 && st2[1] == 0 {
		rep.violate("C18/token-of-another-instance-accepted", fmt.Sprintf("statuses %x", st2), map[string]any{"noreplay": true})
	}
	c2 := newGwClient(g2)
	for k, v := range c1.cookies {
		c2.cookies[k] = v
	}
	code, _, body := c2.get("/connect")
	if code == 200 || strings.Contains(body, "gatewayaccesstoken") {
		rep.violate("C18/session-cookie-of-another-instance-accepted", fmt.Sprintf("status %d", code), map[string]any{"noreplay": true})
	}
	rep.outcome(fmt.Sprintf("L3 own=%x other=%x other-connect=%d", st, st2, code))
	rep.sample(map[string]any{"level": "L3 two real instances with a short signing key", "own_instance_statuses": fmt.Sprintf("%x", st), "other_instance_statuses": fmt.Sprintf("%x", st2), "other_instance_connect_status": code})
	if cr := g1.Crashed() + g2.Crashed(); cr != "" {
		rep.violate("C18/panic-in-binary", cr, map[string]any{"noreplay": true})
	}
}
