package main

import (
	"bytes"
	"encoding/binary"
	"fmt"
	"io"
	"net"
	"net/http/httptest"
	"os"
	"path/filepath"
	"strings"
	"time"
	"verif/shim/vclock"

	"github.com/bolkedebruin/rdpgw/cmd/rdpgw/kdcproxy"

	"verif/internal/der"
	"verif/shim/vnet"
	"verif/shim/vsched"
)

// C20 — KDC proxy relays Kerberos messages faithfully and always answers.

func init() { props["C20"] = c20 }

var kdcProxies = map[int]kdcproxy.KerberosProxy{}

func kdcProxyFor(n int) kdcproxy.KerberosProxy {
	if p, ok := kdcProxies[n]; ok {
		return p
	}
	dir := os.Getenv("VERIF_BUILD_DIR")
	if dir == "" {
		dir = "/verif/.build/misc"
	}
	os.MkdirAll(dir, 0o755)
	path := filepath.Join(dir, fmt.Sprintf("krb5-%d-%d.conf", n, os.Getpid()))
	var sb strings.Builder
	sb.WriteString("[libdefaults]\n default_realm = EXAMPLE.COM\n dns_lookup_kdc = false\n dns_lookup_realm = false\n\n[realms]\n EXAMPLE.COM = {\n")
	for i := 1; i <= n; i++ {
		fmt.Fprintf(&sb, "  kdc = kdc%d.example.com:88\n", i)
	}
	sb.WriteString(" }\n SECOND.ORG = {\n  kdc = kdc.second.org:88\n }\n")
	// a child realm with its own KDC, and the customary mapping of DNS names to realms (which is about host
	// names, not about realm names: a realm name that is configured, or not, stays what it is)
	sb.WriteString(" EMEA.EXAMPLE.COM = {\n  kdc = kdc.emea.example.com:88\n }\n\n[domain_realm]\n .example.com = EXAMPLE.COM\n example.com = EXAMPLE.COM\n .second.org = SECOND.ORG\n")
	os.WriteFile(path, []byte(sb.String()), 0o644)
	p := kdcproxy.InitKdcProxy(path)
	os.Remove(path)
	kdcProxies[n] = p
	return p
}

// KdcScenario is one request against scripted KDCs.
type KdcScenario struct {
	NKdc  int
	Realm string // absent | default | second | unknown
	Size  int    // Kerberos payload size (without the 4-byte prefix)
	// ReplySize > 0: the KDC's reply has that many bytes (a datagram over UDP; after the 4-byte prefix over TCP)
	ReplySize int
	UDP       []string
	TCP       []string
	Name      string
	RawBody   []byte // malformed-request scenarios
	Method    string
	NoLength  bool
	Declared  int64 // declared content length (-2: actual)
	// FirstRealm != "": an earlier well-formed request with that realm form is served in the same execution
	// before the observed one (every KDC refuses it): the observed request starts from a non-initial state
	FirstRealm string
	// SlowBody > 0: the request body arrives in two parts, the harness clock moves on by that much in between
	// (a slow client link); the time the upload takes is not the KDCs' time
	SlowBody time.Duration
}

// slowBody hands out the first half of the body, moves the harness clock, then hands out the rest.
type slowBody struct {
	data  []byte
	off   int
	pause time.Duration
	done  bool
}

func (b *slowBody) Read(p []byte) (int, error) {
	if b.off >= len(b.data) {
		return 0, io.EOF
	}
	end := len(b.data)
	if !b.done && b.off == 0 && len(b.data) > 1 {
		end = len(b.data) / 2
	} else if !b.done {
		b.done = true
		vclock.Advance(b.pause)
	}
	n := copy(p, b.data[b.off:end])
	b.off += n
	return n, nil
}

type kdcConn struct {
	Proto, Addr, Behaviour string
	Got                    []byte
	Reached                bool // a read of the KDC returned (also for an empty datagram)
	Reply                  []byte
	pc                     *vnet.PipeConn
}

type KdcResult struct {
	X       *vsched.Exec
	Code    int
	Body    []byte
	Conns   []*kdcConn
	Dials   []vnet.DialRec
	Request []byte // the kerb-message sent
}

func kdcMessage(size int) []byte {
	b := make([]byte, 4+size)
	binary.BigEndian.PutUint32(b, uint32(size))
	for i := 0; i < size; i++ {
		b[4+i] = byte(i*5 + 1)
	}
	return b
}

func kdcReply(idx int, proto string) []byte {
	body := []byte(fmt.Sprintf("KRB-REPLY-from-connection-%d-%s", idx, proto))
	if proto == "udp" {
		return body
	}
	b := make([]byte, 4)
	binary.BigEndian.PutUint32(b, uint32(len(body)))
	return append(b, body...)
}

// kdcBigReply: a reply of n bytes whose content depends on the position (a cut or a shift shows).
func kdcBigReply(idx int, proto string, n int) []byte {
	body := make([]byte, n)
	for i := range body {
		body[i] = byte(i*7 + idx + i/251)
	}
	if proto == "udp" {
		return body
	}
	b := make([]byte, 4)
	binary.BigEndian.PutUint32(b, uint32(n))
	return append(b, body...)
}

func kdcBody(msg []byte, realm string) []byte {
	switch realm {
	case "absent":
		return der.KdcProxyMessage(msg, "", false, 0, false)
	case "default":
		return der.KdcProxyMessage(msg, "EXAMPLE.COM", true, 0, false)
	case "second":
		return der.KdcProxyMessage(msg, "SECOND.ORG", true, 1, true)
	case "default+hint0":
		// the optional dclocator-hint is present and zero
		return der.KdcProxyMessage(msg, "EXAMPLE.COM", true, 0, true)
	case "empty-realm+hint0":
		// both optional elements present with their zero values: an empty target-domain means the default realm
		return der.KdcProxyMessage(msg, "", true, 0, true)
	case "default+hint-large":
		return der.TLV(0x30, append(append(der.TLV(0xA0, der.TLV(0x04, msg)), der.TLV(0xA1, der.TLV(0x1B, []byte("EXAMPLE.COM")))...), der.TLV(0xA2, der.TLV(0x02, []byte{0x40, 0, 0, 0}))...))
	case "child":
		return der.KdcProxyMessage(msg, "EMEA.EXAMPLE.COM", true, 0, false)
	case "unknown-sub":
		return der.KdcProxyMessage(msg, "LAB.EXAMPLE.COM", true, 0, false)
	}
	return der.KdcProxyMessage(msg, "NOWHERE.INVALID", true, 0, false)
}

func RunKdc(sc KdcScenario, prefix []int, logOn bool) *KdcResult {
	res := &KdcResult{}
	if sc.SlowBody > 0 {
		vclock.Reset()
		defer vclock.Reset()
	}
	proxy := kdcProxyFor(sc.NKdc)
	body := sc.RawBody
	if body == nil {
		res.Request = kdcMessage(sc.Size)
		body = kdcBody(res.Request, sc.Realm)
	}
	nUDP, nTCP := 0, 0
	x := vsched.Run(prefix, 20000, logOn, nil, func() {
		n := &vnet.Net{}
		res2 := res
		n.OnDial = func(network, address string) (net.Conn, error) {
			var beh string
			if network == "udp" {
				if nUDP < len(sc.UDP) {
					beh = sc.UDP[nUDP]
				} else {
					beh = "silent"
				}
				nUDP++
			} else {
				if nTCP < len(sc.TCP) {
					beh = sc.TCP[nTCP]
				} else {
					beh = "silent"
				}
				nTCP++
			}
			idx := len(res2.Conns)
			kc := &kdcConn{Proto: network, Addr: address, Behaviour: beh}
			res2.Conns = append(res2.Conns, kc)
			if beh == "refuse" {
				return nil, nil
			}
			gwEnd, kdcEnd := vnet.NewPipe(fmt.Sprintf("gw>kdc%d", idx), fmt.Sprintf("kdc%d", idx), network != "udp")
			gwEnd.ClockDeadlines = true // kdcproxy takes its time from the harness clock
			if network == "udp" {
				gwEnd.NoEOF, kdcEnd.NoEOF = true, true
				gwEnd.MaxDatagram, kdcEnd.MaxDatagram = 65507, 65507
			}
			kc.pc = gwEnd
			kc.Reply = kdcReply(idx, network)
			if sc.ReplySize > 0 {
				kc.Reply = kdcBigReply(idx, network, sc.ReplySize)
			}
			vsched.GoDaemon(fmt.Sprintf("kdc%d-%s", idx, network), func() { kdcPlay(kc, kdcEnd, network, beh) })
			return gwEnd, nil
		}
		if sc.FirstRealm != "" {
			n0 := &vnet.Net{}
			n0.OnDial = func(network, address string) (net.Conn, error) { return nil, nil }
			vnet.Install(n0)
			r0 := httptest.NewRequest("POST", "http://gw.example/KdcProxy", bytes.NewReader(kdcBody(kdcMessage(33), sc.FirstRealm)))
			proxy.Handler(httptest.NewRecorder(), r0)
		}
		vnet.Install(n)
		method := sc.Method
		if method == "" {
			method = "POST"
		}
		r := httptest.NewRequest(method, "http://gw.example/KdcProxy", bytes.NewReader(body))
		if sc.SlowBody > 0 {
			r = httptest.NewRequest(method, "http://gw.example/KdcProxy", &slowBody{data: body, pause: sc.SlowBody})
			r.ContentLength = int64(len(body))
		}
		if sc.NoLength {
			r.ContentLength = -1
		} else if sc.Declared != 0 {
			r.ContentLength = sc.Declared
		}
		rec := httptest.NewRecorder()
		proxy.Handler(rec, r)
		res.Code = rec.Code
		res.Body = rec.Body.Bytes()
		res.Dials = n.Dials
	})
	res.X = x
	return res
}

// kdcPlay is the scripted KDC on one connection.
func kdcPlay(kc *kdcConn, kdcEnd *vnet.PipeConn, network, beh string) {
	buf := make([]byte, 1<<18)
	readReq := func() bool {
		// read until the whole request arrived (TCP: prefix says how much)
		for {
			nn, err := kdcEnd.Read(buf)
			kc.Got = append(kc.Got, buf[:nn]...)
			if err != nil {
				return false
			}
			kc.Reached = true
			if network == "udp" || (len(kc.Got) >= 4 && len(kc.Got) >= 4+int(binary.BigEndian.Uint32(kc.Got))) {
				return true
			}
		}
	}
	switch beh {
	case "close":
		kdcEnd.Close()
	case "silent":
		for {
			nn, err := kdcEnd.Read(buf)
			kc.Got = append(kc.Got, buf[:nn]...)
			if err != nil {
				return
			}
		}
	case "reply", "reply-close":
		if readReq() {
			kdcEnd.Write(kc.Reply)
		}
		if beh == "reply-close" {
			kdcEnd.Close()
		} else {
			for {
				if _, err := kdcEnd.Read(buf); err != nil {
					return
				}
			}
		}
	case "reply-keepopen":
		if readReq() {
			kdcEnd.Write(kc.Reply)
		}
		for {
			if _, err := kdcEnd.Read(buf); err != nil {
				return
			}
		}
	case "reply-two-writes":
		if readReq() {
			kdcEnd.Write(kc.Reply[:6])
			kdcEnd.Write(kc.Reply[6:])
		}
		for {
			if _, err := kdcEnd.Read(buf); err != nil {
				return
			}
		}
	case "half-close":
		if readReq() {
			kdcEnd.Write(kc.Reply[:len(kc.Reply)/2])
		}
		kdcEnd.Close()
	}
}

var goodTCP = map[string]bool{"reply-close": true, "reply-keepopen": true, "reply-two-writes": true}

// kdcCheck judges one execution.
func kdcCheck(sc KdcScenario, res *KdcResult) (outcome string, v []vsched.Violation) {
	add := func(k, d string) { v = append(v, vsched.Violation{Sig: "C20/" + k, Detail: sc.Name + ": " + d}) }
	for _, p := range res.X.Panics() {
		add("panic:"+shortFn(panicSite(p)), p.Value)
	}
	mainBlocked := false
	for _, b := range res.X.Blocked {
		if b.Name == "main" {
			mainBlocked = true
			add("request-never-answered", "handler still blocked on "+b.Desc+" after every deadline fired")
		} else if !b.Daemon {
			add("goroutine-left:"+b.Name, "blocked on "+b.Desc)
		}
	}
	if len(res.X.Panics()) > 0 || mainBlocked {
		return "no-response", v
	}
	if res.Code == 0 {
		add("request-never-answered", "handler returned without a status")
	}
	configured := sc.Realm != "unknown" && sc.Realm != "unknown-sub"
	// who could have answered
	var good []*kdcConn
	for _, c := range res.Conns {
		// a KDC can only have answered a request that reached it (a datagram too large for UDP never does)
		if !c.Reached {
			continue
		}
		if (c.Proto == "udp" && c.Behaviour == "reply") || (c.Proto == "tcp" && goodTCP[c.Behaviour]) {
			good = append(good, c)
		}
	}
	// a well-formed request for a configured realm is relayed: the gateway contacts a KDC of that realm
	if configured && sc.RawBody == nil && sc.Size >= 100 && sc.Size <= 65535 && (sc.Method == "" || sc.Method == "POST") && !sc.NoLength && sc.Declared == 0 && len(res.Dials) == 0 {
		add("well-formed-request-not-relayed/"+sc.Realm, fmt.Sprintf("realm %s, %d-byte message: status %d and no KDC was contacted", sc.Realm, sc.Size, res.Code))
	}
	// ... and contacting means sending: when a connection that can carry the message was established, some KDC
	// connection has received bytes (a gateway that opens connections and sends nothing has not relayed)
	if configured && sc.RawBody == nil && sc.Size >= 100 && sc.Size <= 65535 && (sc.Method == "" || sc.Method == "POST") && !sc.NoLength && sc.Declared == 0 {
		established, received := 0, 0
		for _, c := range res.Conns {
			if c.Behaviour != "refuse" && c.Behaviour != "close" && (c.Proto == "tcp" || sc.Size+4 <= 65507) {
				established++
			}
			received += len(c.Got)
			if c.pc != nil {
				received += len(c.pc.Written)
			}
		}
		if established > 0 && received == 0 {
			add("well-formed-request-not-relayed/nothing-sent/"+sc.Realm, fmt.Sprintf("realm %s, %d-byte message: status %d; %d KDC connections that stay open were established and the gateway wrote nothing to any", sc.Realm, sc.Size, res.Code, established))
		}
	}
	// the dial plan tells which behaviours were actually reached
	wantRealmHosts := map[string]bool{}
	switch sc.Realm {
	case "absent", "default", "default+hint0", "empty-realm+hint0", "default+hint-large":
		for i := 1; i <= sc.NKdc; i++ {
			wantRealmHosts[fmt.Sprintf("kdc%d.example.com:88", i)] = true
		}
	case "second":
		wantRealmHosts["kdc.second.org:88"] = true
	case "child":
		wantRealmHosts["kdc.emea.example.com:88"] = true
	}
	for _, d := range res.Dials {
		if !wantRealmHosts[d.Address] {
			add("dial-outside-realm", fmt.Sprintf("dialled %s %s for realm %s", d.Network, d.Address, sc.Realm))
		}
	}
	for _, c := range res.Conns {
		if c.pc == nil || len(c.Got) == 0 {
			continue
		}
		want := res.Request
		if c.Proto == "udp" {
			want = res.Request[4:]
		}
		if !bytes.Equal(c.Got, want) {
			add("kdc-received-altered-message/"+c.Proto, fmt.Sprintf("%s KDC %s received %d bytes (%x…), embedded message is %d bytes (%x…)", c.Proto, c.Addr, len(c.Got), head(c.Got, 12), len(want), head(want, 12)))
		}
	}
	if !configured {
		if res.Code == 200 {
			add("answer-for-unknown-realm", "200")
		}
		if len(res.Dials) > 0 {
			add("dial-for-unknown-realm", fmt.Sprint(res.Dials))
		}
		return fmt.Sprintf("unknown-realm code=%d", res.Code), v
	}
	if len(good) > 0 {
		if res.Code != 200 {
			add("reachable-kdc-but-no-answer", fmt.Sprintf("status %d although %d KDC connection(s) delivered a complete reply (behaviours udp=%v tcp=%v)", res.Code, len(good), sc.UDP, sc.TCP))
			return fmt.Sprintf("code=%d good=%d", res.Code, len(good)), v
		}
		msg, err := der.ParseKdcProxyMessage(res.Body)
		if err != nil {
			add("response-not-a-kdc-proxy-message", err.Error())
			return "bad-body", v
		}
		ok := false
		for _, c := range good {
			want := c.Reply
			if c.Proto == "udp" {
				l := len(c.Reply)
				want = append([]byte{byte(l >> 24), byte(l >> 16), byte(l >> 8), byte(l)}, c.Reply...)
			}
			if bytes.Equal(msg, want) {
				ok = true
			}
		}
		if !ok {
			add("reply-altered", fmt.Sprintf("response carries %q which is not the (length-prefixed) reply of any KDC connection", msg))
		}
		return "200", v
	}
	if res.Code == 200 {
		add("answer-invented", fmt.Sprintf("200 although no KDC connection delivered a complete reply: %x", head(res.Body, 40)))
	}
	return fmt.Sprintf("code=%d", res.Code), v
}

func c20Scenarios(thorough bool) []KdcScenario {
	var out []KdcScenario
	udpB := []string{"reply", "silent", "refuse"}
	tcpB := []string{"reply-close", "reply-keepopen", "reply-two-writes", "half-close", "close", "silent", "refuse"}
	name := func(s *KdcScenario) {
		s.Name = fmt.Sprintf("kdcs=%d/realm=%s/size=%d/udp=%s/tcp=%s", s.NKdc, s.Realm, s.Size, strings.Join(s.UDP, ","), strings.Join(s.TCP, ","))
	}
	// 1 KDC: full product of behaviours x realms x sizes
	sizes := []int{0, 1, 3, 4, 5, 100, 1500, 65535, 128*1024 - 32}
	for _, realm := range []string{"default", "absent", "second", "unknown", "child", "unknown-sub", "default+hint0", "empty-realm+hint0", "default+hint-large"} {
		for _, size := range sizes {
			if (realm == "child" || realm == "unknown-sub" || strings.Contains(realm, "hint")) && size != 100 && size != 65535 {
				continue
			}
			for _, u := range udpB {
				for _, t := range tcpB {
					s := KdcScenario{NKdc: 1, Realm: realm, Size: size, UDP: []string{u}, TCP: []string{t}}
					name(&s)
					out = append(out, s)
				}
			}
		}
	}
	// replies of the sizes KDCs are configured to send over UDP (1465, 4096) and beyond, and large ones over TCP
	for _, rs := range []int{1465, 4096, 4097, 9000, 60000, 65507} {
		s := KdcScenario{NKdc: 1, Realm: "default", Size: 100, UDP: []string{"reply"}, TCP: []string{"silent"}, ReplySize: rs}
		s.Name = fmt.Sprintf("kdcs=1/realm=default/size=100/udp=reply/tcp=silent/reply-size=%d", rs)
		out = append(out, s)
	}
	for _, rs := range []int{4097, 65536, 100000} {
		s := KdcScenario{NKdc: 1, Realm: "default", Size: 100, UDP: []string{"silent"}, TCP: []string{"reply-close"}, ReplySize: rs}
		s.Name = fmt.Sprintf("kdcs=1/realm=default/size=100/udp=silent/tcp=reply-close/reply-size=%d", rs)
		out = append(out, s)
	}
	// a client whose upload takes longer than the KDC time-out (body in two parts, 6 s / 30 s / 3 min apart on the
	// gateway's clock): the request is relayed and answered like any other
	for _, pause := range []time.Duration{6 * time.Second, 30 * time.Second, 3 * time.Minute} {
		for _, tr := range [][2]string{{"reply", "silent"}, {"silent", "reply-close"}, {"refuse", "reply-two-writes"}} {
			s := KdcScenario{NKdc: 1, Realm: "default", Size: 1500, UDP: []string{tr[0]}, TCP: []string{tr[1]}, SlowBody: pause}
			s.Name = fmt.Sprintf("kdcs=1/realm=default/size=1500/udp=%s/tcp=%s/upload-takes-%s", tr[0], tr[1], pause)
			out = append(out, s)
		}
	}
	// 2 and 3 KDCs: all behaviour combinations, default realm, one size
	for _, n := range []int{2, 3} {
		var rec func(i int, u, t []string)
		rec = func(i int, u, t []string) {
			if i == n {
				s := KdcScenario{NKdc: n, Realm: "default", Size: 100, UDP: append([]string{}, u...), TCP: append([]string{}, t...)}
				name(&s)
				out = append(out, s)
				return
			}
			for _, ub := range udpB {
				for _, tb := range tcpB {
					if n == 3 && !thorough && (tb == "reply-two-writes" || tb == "close") {
						continue
					}
					rec(i+1, append(u, ub), append(t, tb))
				}
			}
		}
		rec(0, nil, nil)
	}
	return out
}

func c20(env *Env, rep *Report) {
	scs := c20Scenarios(env.thorough())
	rep.Rule = fmt.Sprintf("%d request scenarios against the real kdcproxy handler with scripted KDC connections: 1 KDC: realms {default, absent, second, unknown; for two sizes also a child realm with its own KDC, an unconfigured realm below a [domain_realm] suffix of the parent realm, and requests whose optional elements are present with zero / large values (dclocator-hint 0, empty target-domain, hint 0x40000000)} x Kerberos payload sizes {0,1,3,4,5,100,1500,65535,128KiB-32} x UDP behaviour {reply, silent, refuse} x TCP behaviour {reply then close, reply and keep open, reply in two writes, half a reply then close, close at once, silent, refuse}; 2 and 3 KDCs: every combination of those behaviours (quick: 3 KDCs without two-writes/close-at-once); request bodies that arrive in two parts 6 s / 30 s / 3 min apart on the gateway's clock (deadlines set in the past of that clock expire at once); KDC replies of 1465 / 4096 / 4097 / 9000 / 60000 / 65507 bytes over UDP and 4097 / 65536 / 100000 bytes over TCP. "+
		"Each runs under the default schedule with deadlines firing at quiescence; selected scenarios additionally under every schedule of handler, reply readers and KDC threads up to the preemption bound. Oracle: KDCs of the right realm receive exactly the embedded message (TCP with, UDP without the 4-byte prefix); if any connection delivers a complete reply the response is 200 and its kerb-message is exactly one KDC's reply (length-prefixed); otherwise an error status; always an HTTP response and no goroutine left. Histories: 32 ordered pairs of requests in one process (first: each realm form, answered or not; second: each realm form), the second judged like a first request. Two requests at the same time (same realm, two realms, parent and child realm; KDCs that reply, stay silent, refuse, reply half) under every schedule up to the deviation bound: each is answered as if alone, by the reply of a connection that received its own message, without waiting for the other's deadline, and every KDC connection is closed. Requests that are to be rejected (the bodies of C10 (d): other methods, no length, over 128 KiB, truncated / trailing / wrong tags / lying lengths) get 405 / 411 / 413 / 400 and nothing is sent to a KDC. Binding: the real rdpgw binary with a kerberos configuration and scripted KDCs on loopback TCP/UDP sockets (realms whose KDC replies over TCP, over UDP, stays silent, refuses TCP, truncates its reply; unknown realm; other methods; malformed bodies): every request gets an HTTP response with the status and bytes above. distinct_nontrivial = distinct scenarios.", len(scs))
	rep.Assumptions = append(rep.Assumptions,
		"a UDP write of more than 65507 bytes fails with EMSGSIZE, as on a real socket",
		"KDC order is randomised by gokrb5 (math/rand) and by map iteration: behaviours are assigned to connections in dial order, so the execution structure does not depend on it",
		"a deadline fires only at quiescence, earliest first", "UDP peers going away are not observable (no EOF on datagram sockets)",
		"requests are DER with explicit tags as MS-KKDCP prescribes")
	bound := 1
	if env.thorough() {
		bound = 2
	}
	rep.Bounds = map[string]any{"preemption_bound_for_explored_1kdc_scenarios": bound, "deviation_bound_for_explored_2kdc_scenarios": bound}
	if env.Replay != nil {
		if c20PairReplay(env, rep) {
			return
		}
		name, _ := env.Replay["scenario"].(string)
		for _, sc := range c20Scenarios(true) {
			if sc.Name == name {
				var prefix []int
				if cs, ok := env.Replay["choices"].([]any); ok {
					for _, c := range cs {
						if f, ok := c.(float64); ok {
							prefix = append(prefix, int(f))
						}
					}
				}
				res := RunKdc(sc, prefix, true)
				o, v := kdcCheck(sc, res)
				res.X.Finish()
				for _, l := range res.X.Log {
					fmt.Println(l)
				}
				fmt.Println("outcome:", o, "code:", res.Code)
				for _, x := range v {
					fmt.Println("violation:", x.Sig, x.Detail)
					rep.violate(x.Sig, x.Detail, env.Replay)
				}
			}
		}
		return
	}
	distinct := bindKdc(rep, env)
	distinct += c20PairExplore(env, rep, bound)
	// requests that are to be rejected (not POST, no length, over 128 KiB, not valid DER, trailing bytes, lying
	// inner length prefix): the status the property names and nothing sent to any KDC (the same bodies are
	// part of C10 (d), judged there for panics and hangs)
	for i, sc := range c10KdcScenarios() {
		if !env.mine(i) {
			continue
		}
		distinct++
		rep.add("executions", 1)
		v, d, code := c10KdcOne(sc)
		rep.outcome(fmt.Sprintf("rejected-request verdict=%s code=%d", v, code))
		if v != "" {
			rep.violate("C20/request-to-be-rejected/"+v+"/"+sc.Name, d, map[string]any{"engine": "enum", "part": "kdc", "scenario": sc.Name, "noreplay": true})
		}
	}
	maxEx := 40000
	if env.thorough() {
		maxEx = 400000
	}
	for i, sc := range scs {
		if !env.mine(i) {
			continue
		}
		distinct++
		res := RunKdc(sc, nil, false)
		o, v := kdcCheck(sc, res)
		rep.add("executions", 1)
		rep.add("transitions", int64(res.X.Steps))
		if res.X.Abort != "" {
			infra("C20: %s aborted: %s", sc.Name, res.X.Abort)
		}
		res.X.Finish()
		rep.outcome(fmt.Sprintf("realm=%s %s", sc.Realm, o))
		for _, x := range v {
			rep.violate(x.Sig, x.Detail, map[string]any{"engine": "vsched", "scenario": sc.Name, "choices": []int{}})
		}
		if distinct%300 == 1 {
			rep.sample(map[string]any{"scenario": sc.Name, "status": res.Code, "dials": fmt.Sprint(res.Dials), "outcome": o})
		}
		// schedule exploration for the 1- and 2-KDC scenarios with small payloads
		if sc.NKdc <= 2 && sc.Size == 100 && ((sc.NKdc == 1 && sc.Realm == "default") || i%11 == 0 || env.thorough()) {
			sc := sc
			runOne := func(prefix []int) vsched.RunResult {
				r := RunKdc(sc, prefix, false)
				o, v := kdcCheck(sc, r)
				r.X.Finish()
				return vsched.RunResult{X: r.X, Outcome: o, Violations: v}
			}
			ex := &vsched.Explorer{Bound: bound, AllSwitchesCost: sc.NKdc >= 2, Deadline: env.Deadline, RunOne: runOne, MaxExecs: maxEx}
			if err := ex.Explore(); err != nil {
				infra("%s: %v", sc.Name, err)
			}
			rep.add("executions", int64(ex.Execs))
			rep.add("transitions", int64(ex.Steps))
			if ex.Capped != "" {
				rep.capf("%s: %s", sc.Name, ex.Capped)
			}
			for _, sig := range ex.FoundOrder {
				f := ex.Found[sig]
				rep.violate(f.Sig, f.Detail, map[string]any{"engine": "vsched", "scenario": sc.Name, "choices": f.Choices})
			}
		}
	}
	// histories: two requests one after the other in the same execution; whatever the first one was (realm
	// named or not), the second is judged exactly like a first request
	if env.Shard == 0 || env.NShards == 1 {
		realms := []string{"default", "absent", "second", "unknown", "child", "unknown-sub"}
		for _, r1 := range realms {
			for _, r2 := range realms {
				for _, tcp := range []string{"reply-close", "silent"} {
					second := KdcScenario{NKdc: 1, Realm: r2, Size: 100, UDP: []string{"silent"}, TCP: []string{tcp}, FirstRealm: r1}
					second.Name = fmt.Sprintf("history/first-realm=%s/then-realm=%s/tcp=%s", r1, r2, tcp)
					distinct++
					res := RunKdc(second, nil, false)
					o, v := kdcCheck(second, res)
					rep.add("executions", 1)
					rep.add("transitions", int64(res.X.Steps))
					res.X.Finish()
					rep.outcome("history realm=" + r2 + " " + o)
					for _, x := range v {
						rep.violate(x.Sig+"/after-an-earlier-request", x.Detail, map[string]any{"noreplay": true})
					}
				}
			}
		}
	}
	rep.add("distinct", int64(distinct))
	rep.add("states", int64(distinct))
}
