package main

import (
	"encoding/json"
	"fmt"
	"sort"
	"strings"

	"verif/internal/tsgu"
)

// C01 — no backend connection or relay before the full authorization sequence.

func init() { props["C01"] = c01 }

const (
	hostA = "hosta.example" // allowed (list and token of cookie "ok")
	hostB = "hostb.example" // allowed in list; token host of cookie "other"
	hostU = "hostu.example" // allowed in list, refuses connections
	hostZ = "hostz.example" // not allowed
)

type sym struct {
	Name  string
	Class string // HS TC TA CC DATA KA CLOSE OTHER
	Bytes []byte
	Ext   uint16 // HS
	Ck    string // TC: none ok bad other trunc
	Host  string // CC ("" = malformed)
	Pay   []byte // DATA
}

func c01Alphabet() []sym {
	cookie := func(host string) string { return "ok|" + host + ":3389|10.0.0.1|alice" }
	trunc := tsgu.TunnelCreateRaw(0x3f, 1, 200, tsgu.UTF16Z("ok|x"), true)
	ccTrunc := tsgu.Packet(tsgu.TypeChannelCreate, []byte{1, 0, 0x3d})
	taTrunc := tsgu.Packet(tsgu.TypeTunnelAuth, []byte{40, 0, 'a', 0})
	a := []sym{
		{Name: "HS0", Class: "HS", Bytes: tsgu.Handshake(1, 0, 0, 0), Ext: 0},
		{Name: "HSpaa", Class: "HS", Bytes: tsgu.Handshake(1, 0, 0, tsgu.ExtAuthPAA), Ext: tsgu.ExtAuthPAA},
		{Name: "HSsc", Class: "HS", Bytes: tsgu.Handshake(1, 0, 0, tsgu.ExtAuthSC), Ext: tsgu.ExtAuthSC},
		{Name: "HSntlm", Class: "HS", Bytes: tsgu.Handshake(1, 0, 0, tsgu.ExtAuthNTLM), Ext: tsgu.ExtAuthNTLM},
		{Name: "TCnone", Class: "TC", Bytes: tsgu.TunnelCreate("", false), Ck: "none"},
		{Name: "TCok", Class: "TC", Bytes: tsgu.TunnelCreate(cookie(hostA), true), Ck: "ok"},
		{Name: "TCbad", Class: "TC", Bytes: tsgu.TunnelCreate("bad", true), Ck: "bad"},
		{Name: "TCother", Class: "TC", Bytes: tsgu.TunnelCreate(cookie(hostB), true), Ck: "other"},
		{Name: "TCtrunc", Class: "TC", Bytes: trunc, Ck: "trunc"},
		// announces a cookie exactly as long as the accepted one and carries no cookie bytes at all
		{Name: "TChollow", Class: "TC", Bytes: tsgu.TunnelCreateRaw(0x3f, 1, len(tsgu.UTF16Z(cookie(hostA))), nil, true), Ck: "trunc"},
		{Name: "TAname", Class: "TA", Bytes: tsgu.TunnelAuth("client1")},
		{Name: "TAempty", Class: "TA", Bytes: tsgu.TunnelAuth("")},
		{Name: "TAtrunc", Class: "TA", Bytes: taTrunc},
		{Name: "CCa", Class: "CC", Bytes: tsgu.ChannelCreate(hostA, 3389), Host: hostA + ":3389"},
		{Name: "CCz", Class: "CC", Bytes: tsgu.ChannelCreate(hostZ, 3389), Host: hostZ + ":3389"},
		{Name: "CCb", Class: "CC", Bytes: tsgu.ChannelCreate(hostB, 3389), Host: hostB + ":3389"},
		{Name: "CCu", Class: "CC", Bytes: tsgu.ChannelCreate(hostU, 3389), Host: hostU + ":3389"},
		{Name: "CCtrunc", Class: "CC", Bytes: ccTrunc, Host: ""},
		{Name: "DATA", Class: "DATA", Bytes: tsgu.Data([]byte{0x5a}), Pay: []byte{0x5a}},
		{Name: "KA", Class: "KA", Bytes: tsgu.Keepalive()},
		{Name: "CLOSE", Class: "CLOSE", Bytes: tsgu.CloseChannel()},
	}
	for _, t := range []uint16{0x2, 0x5, 0x7, 0x9, 0x11, 0x3, 0xB, 0xC, 0x0, 0xFF, 0xFFFF} {
		a = append(a, sym{Name: fmt.Sprintf("T%#x", t), Class: "OTHER", Bytes: tsgu.Packet(t, []byte{0, 0, 0, 0, 0, 0, 0, 0})})
	}
	// unknown 16-bit types whose low byte is a request type, with that request's well-formed body: they are as
	// unknown as 0xFFFF (the type field is 16 bits wide)
	hi := func(p []byte) []byte { q := append([]byte{}, p...); q[1] |= 0x01; return q }
	a = append(a,
		sym{Name: "T0x101=HS", Class: "OTHER", Bytes: hi(tsgu.Handshake(1, 0, 0, tsgu.ExtAuthPAA))},
		sym{Name: "T0x104=TC", Class: "OTHER", Bytes: hi(tsgu.TunnelCreate(cookie(hostA), true))},
		sym{Name: "T0x106=TA", Class: "OTHER", Bytes: hi(tsgu.TunnelAuth("client1"))},
		sym{Name: "T0x108=CC", Class: "OTHER", Bytes: hi(tsgu.ChannelCreate(hostA, 3389))},
		sym{Name: "T0x10a=DATA", Class: "OTHER", Bytes: hi(tsgu.Data([]byte{0x5a}))},
		sym{Name: "T0x110=CLOSE", Class: "OTHER", Bytes: hi(tsgu.CloseChannel())},
	)
	return a
}

// c01Monitor is the property's own notion of progress. It is written from the
// property text and MS-TSGU, not from process.go.
type c01Monitor struct {
	Token, SC bool
	Phase     string // INIT HS TC TA CC OPEN END
	Dials     int
	TokHost   string
	AfterEnd  int
}

var reqOfResp = map[uint16]string{tsgu.TypeHandshakeResp: "HS", tsgu.TypeTunnelResp: "TC", tsgu.TypeTunnelAuthResp: "TA", tsgu.TypeChannelResp: "CC", tsgu.TypeCloseResp: "CLOSE"}
var nextClass = map[string]string{"INIT": "HS", "HS": "TC", "TC": "TA", "TA": "CC"}
var nextPhase = map[string]string{"INIT": "HS", "HS": "TC", "TC": "TA", "TA": "CC"}

// decide is the reference decision for packet s in the current phase: is it
// the next step, must it be accepted, which address must be dialled, and if it
// is refused, why (capability | cookie | host-policy | unreachable | out-of-order).
func (m *c01Monitor) decide(s sym) (inOrder, accept bool, expectDial, reason string) {
	inOrder = nextClass[m.Phase] == s.Class
	if !inOrder {
		return inOrder, false, "", "out-of-order"
	}
	switch s.Class {
	case "HS":
		var srv uint16
		if m.SC {
			srv |= tsgu.ExtAuthSC
		}
		if m.Token {
			srv |= tsgu.ExtAuthPAA
		}
		accept = (srv == 0 && s.Ext == 0) || srv&s.Ext != 0
		reason = "capability"
	case "TC":
		accept = !m.Token || s.Ck == "ok" || s.Ck == "other"
		if accept && m.Token {
			m.TokHost = map[string]string{"ok": hostA + ":3389", "other": hostB + ":3389"}[s.Ck]
		}
		reason = "cookie"
	case "TA":
		accept = true
	case "CC":
		allowed := s.Host != "" && s.Host != hostZ+":3389"
		if m.Token {
			allowed = allowed && s.Host == m.TokHost
		}
		reason = "host-policy"
		if allowed {
			expectDial = s.Host
			accept = s.Host != hostU+":3389"
			reason = "unreachable"
		}
	}
	if accept {
		reason = ""
	}
	return
}

// step checks one observation; returns violation kinds.
func (m *c01Monitor) step(s sym, o StepObs) (viol []string) {
	bad := func(f string, a ...any) { viol = append(viol, fmt.Sprintf(f, a...)) }
	if m.Phase == "END" {
		m.AfterEnd++
		if len(o.Resps) > 0 {
			bad("answer-after-end")
		}
		if len(o.Dials) > 0 {
			bad("dial-after-end")
		}
		if len(o.BackendNew) > 0 {
			bad("relay-after-end")
		}
		return
	}
	phase := m.Phase
	// generic facts about the responses of this step
	ok0, errResp, dataResp := 0, 0, 0
	var okType uint16
	for _, p := range o.Resps {
		r := tsgu.ParseResp(p)
		switch {
		case p.Type == tsgu.TypeData || p.Type == tsgu.TypeKeepalive:
			dataResp++
		case r.HasStatus && r.Status == 0:
			ok0++
			okType = p.Type
		case r.HasStatus:
			errResp++
		default:
			bad("undecodable-response@%s/%s", phase, s.Class)
		}
	}
	if dataResp > 0 {
		bad("data-from-silent-backend@%s/%s", phase, s.Class)
	}
	m.Dials += len(o.Dials)
	if m.Dials > 1 {
		bad("second-dial@%s/%s", phase, s.Class)
	}
	inOrder, accept, expectDial, _ := m.decide(s)
	// dials
	if expectDial == "" && len(o.Dials) > 0 {
		bad("dial-without-authorization@%s/%s", phase, s.Name)
	}
	if expectDial != "" {
		if len(o.Dials) != 1 || o.Dials[0].Address != expectDial {
			bad("dial-mismatch@%s/%s", phase, s.Name)
		}
	}
	switch {
	case inOrder && accept:
		if ok0 != 1 || errResp != 0 || reqOfResp[okType] != s.Class || o.Ended {
			bad("accepted-step-not-confirmed@%s/%s", phase, s.Name)
			m.Phase = "END"
			return
		}
		m.Phase = nextPhase[phase]
	case inOrder && !accept, !inOrder && (s.Class == "HS" || s.Class == "TC" || s.Class == "TA" || s.Class == "CC"):
		// refused or out of order: error status or end of tunnel, never success
		if ok0 > 0 {
			bad("success-for-refused-or-out-of-order@%s/%s", phase, s.Name)
		}
		if errResp == 0 && !o.Ended {
			bad("no-error-and-no-end@%s/%s", phase, s.Name)
		}
		m.Phase = "END"
	case s.Class == "DATA":
		if phase == "CC" || phase == "OPEN" {
			if string(o.BackendNew) != string(s.Pay) {
				bad("relay-mismatch@%s", phase)
			}
			if ok0+errResp > 0 {
				bad("response-to-data@%s", phase)
			}
			if o.Ended {
				m.Phase = "END"
			} else {
				m.Phase = "OPEN"
			}
			return
		}
		if ok0 > 0 {
			bad("success-for-refused-or-out-of-order@%s/%s", phase, s.Name)
		}
		if errResp == 0 && !o.Ended {
			bad("no-error-and-no-end@%s/%s", phase, s.Name)
		}
		m.Phase = "END"
	case s.Class == "CLOSE":
		if phase == "CC" || phase == "OPEN" {
			// honoured (close response, status 0) or treated as out of order
			if ok0 == 1 && okType == tsgu.TypeCloseResp && errResp == 0 {
				m.Phase = "END"
				break
			}
			if ok0 > 0 {
				bad("success-for-refused-or-out-of-order@%s/%s", phase, s.Name)
			}
			if errResp == 0 && !o.Ended {
				bad("no-error-and-no-end@%s/%s", phase, s.Name)
			}
			m.Phase = "END"
			break
		}
		if ok0 > 0 {
			bad("success-for-refused-or-out-of-order@%s/%s", phase, s.Name)
		}
		if errResp > 0 || o.Ended {
			m.Phase = "END"
		}
	default: // KA, OTHER: may be ignored, refused or end the tunnel
		if ok0 > 0 {
			bad("success-for-refused-or-out-of-order@%s/%s", phase, s.Name)
		}
		if errResp > 0 || o.Ended {
			m.Phase = "END"
		}
	}
	if s.Class != "DATA" && len(o.BackendNew) > 0 {
		bad("relay-without-data@%s/%s", phase, s.Name)
	}
	return
}

func c01Cfg(token, sc bool, kind string) SeqCfg {
	g := GwCfg{TokenAuth: token, SmartCard: sc, HostSelection: "roundrobin", VerifyIP: true,
		Hosts: []string{hostA + ":3389", hostB + ":3389", hostU + ":3389"}}
	if token {
		g.CookieCheck = TableCookie
	}
	return SeqCfg{Gw: g, Kind: kind, User: "alice", ClientIP: "10.0.0.1", RemoteAddr: "10.0.0.1:50000",
		Accept: func(a string) bool { return !strings.HasPrefix(a, hostU) }}
}

type c01Run struct {
	key   []string // canonical key after each step
	obs   []string
	viols []string
}

func c01Exec(alpha []sym, token, sc bool, kind string, hist []int, rep *Report) c01Run {
	segs := make([]Seg, len(hist))
	for i, h := range hist {
		segs[i] = Seg{Name: alpha[h].Name, Bytes: alpha[h].Bytes}
	}
	res := RunSeq(c01Cfg(token, sc, kind), segs)
	rep.add("executions", 1)
	rep.add("transitions", int64(res.StepsRun))
	var out c01Run
	if res.Abort != "" {
		infra("C01: execution aborted: %s", res.Abort)
	}
	if !res.Opened {
		out.viols = append(out.viols, "transport-not-opened")
		return out
	}
	m := &c01Monitor{Token: token, SC: sc, Phase: "INIT"}
	for i, o := range res.Steps {
		for _, v := range m.step(alpha[hist[i]], o) {
			out.viols = append(out.viols, v)
		}
		k := fmt.Sprintf("st=%d tgt=%q ra=%q u=%q be=%v | ph=%s d=%d tok=%q ae=%d ended=%v", o.State, o.Snap.TargetServer, o.Snap.RemoteAddr, o.Snap.UserName, o.Snap.HasBackend,
			m.Phase, m.Dials, m.TokHost, m.AfterEnd, o.Ended)
		out.key = append(out.key, k)
		out.obs = append(out.obs, o.String())
	}
	for _, p := range res.Panics {
		out.viols = append(out.viols, "panic:"+p.Site("rdpgw"))
	}
	if res.FrameErr != "" {
		out.viols = append(out.viols, "client-frame-error")
	}
	return out
}

var c01KeyWarned bool

func c01(env *Env, rep *Report) {
	alpha := c01Alphabet()
	names := make([]string, len(alpha))
	for i, s := range alpha {
		names[i] = s.Name
	}
	rep.Rule = "histories over a " + fmt.Sprint(len(alpha)) + "-symbol packet alphabet (" + strings.Join(names, " ") + "), x {token auth} x {smart card}: " +
		"(1) BFS to a fixpoint on the canonical key (processor state, tunnel snapshot, monitor state, ended, steps after end<=2) — all histories modulo the key; " +
		"(2) unmerged enumeration of every history up to depth d, which also cross-checks the key (equal keys must give equal observations for every one-symbol extension); " +
		"(3) the depth-<=d' histories again over the real websocket and legacy handlers; (4) a second legacy RDG_IN_DATA request with the same connection id at three points of the first one's life and after the first one ended (channel closed, protocol error, dropped); (4b) non-initial gateway state: after a legacy tunnel went through the whole sequence and one data packet and was left open / closed in order / dropped, a websocket or legacy connection presenting the same connection id, or another one: every history up to depth 2 (thorough 3) plus the canonical history with one extra symbol at every position, judged by a fresh reference monitor (the new connection has to complete the sequence itself); (4c) pipelining: the canonical history with one extra symbol at every position, and every pair of symbols after each canonical prefix, sent without waiting for the answers, on all three transports: same responses, connections and relayed bytes as when every answer is awaited; (5) the authorization sequence, cookie and capability wiring against the real binary. distinct_nontrivial = distinct canonical states reached."
	rep.Assumptions = append(rep.Assumptions,
		"processor level uses a table cookie checker that sets the tunnel fields exactly as security.CheckPAACookie does (the JWT path is C02's); host policy is the real security.CheckSession/CheckHost",
		"one packet per transport read (segmentation is C08's)",
		"backend is silent; unreachable host = connection refused")
	if env.Replay != nil {
		c01Replay(env, rep, alpha)
		return
	}
	dUnmerged, dHandler := 3, 2
	if env.thorough() {
		dUnmerged, dHandler = 4, 3
	}
	rep.Bounds = map[string]any{"unmerged_depth": dUnmerged, "handler_depth": dHandler, "after_end_steps": 2}
	states := map[string]bool{}
	report := func(token, sc bool, kind string, hist []int, r c01Run) {
		for _, v := range r.viols {
			hn := make([]string, len(hist))
			for i, h := range hist {
				hn[i] = alpha[h].Name
			}
			sig := "C01/" + v
			if kind != "proc" {
				sig += "/" + kind
			}
			rep.violate(sig, fmt.Sprintf("token=%v smartcard=%v transport=%s history=%v obs=%v", token, sc, kind, hn, r.obs),
				map[string]any{"property": "C01", "engine": "seqx", "token": token, "sc": sc, "kind": kind, "history": hn})
		}
	}
	cfgIdx := 0
	for _, token := range []bool{true, false} {
		for _, sc := range []bool{false, true} {
			cfgIdx++
			// (1) merged BFS (shard 0 only: it is small)
			if env.Shard == 0 {
				seen := map[string]bool{}
				frontier := [][]int{{}}
				for len(frontier) > 0 {
					var next [][]int
					for _, h := range frontier {
						for si := range alpha {
							hh := append(append([]int{}, h...), si)
							r := c01Exec(alpha, token, sc, "proc", hh, rep)
							report(token, sc, "proc", hh, r)
							if len(r.key) == 0 {
								continue
							}
							k := r.key[len(r.key)-1]
							rep.outcome(r.obs[len(r.obs)-1])
							if !seen[k] {
								seen[k] = true
								states[fmt.Sprintf("%v/%v/", token, sc)+k] = true
								if !strings.Contains(k, "ae=2") {
									next = append(next, hh)
								}
								if len(hh) >= 3 {
									rep.sample(map[string]any{"token": token, "history": histNames(alpha, hh), "state": k, "last_observation": r.obs[len(r.obs)-1]})
								}
							}
						}
					}
					frontier = next
				}
				rep.add("bfs_states", int64(len(seen)))
			}
			// (2) unmerged enumeration with key cross-check
			ext := map[string]map[int]string{}
			n := len(alpha)
			total := 1
			for i := 0; i < dUnmerged; i++ {
				total *= n
			}
			for idx := 0; idx < total; idx++ {
				if !env.mine(idx / n) {
					continue
				}
				if env.expired() {
					rep.capf("deadline during unmerged enumeration")
					break
				}
				h := make([]int, dUnmerged)
				v := idx
				for i := dUnmerged - 1; i >= 0; i-- {
					h[i] = v % n
					v /= n
				}
				r := c01Exec(alpha, token, sc, "proc", h, rep)
				report(token, sc, "proc", h, r)
				for i := 1; i < len(r.key); i++ {
					k := r.key[i-1]
					if ext[k] == nil {
						ext[k] = map[int]string{}
					}
					o := r.obs[i] + " -> " + r.key[i]
					if prev, ok := ext[k][h[i]]; ok && prev != o {
						// the implementation has state that the canonical key does not see (two histories with the
						// same key behave differently): the merged search of part (1) is then not a fixpoint of
						// the real state space. Not a verdict by itself; the unmerged enumeration and the monitor
						// still judge every history up to their depth.
						if !c01KeyWarned {
							c01KeyWarned = true
							rep.capf("canonical state key unsound (hidden state in the implementation): state %q + %s gives both %q and %q; part (1) is not exhaustive", k, alpha[h[i]].Name, prev, o)
						}
					}
					ext[k][h[i]] = o
				}
			}
			// (3) handler level
			for _, kind := range []string{"ws", "legacy"} {
				tot := 1
				for d := 1; d <= dHandler; d++ {
					tot *= n
				}
				for idx := 0; idx < tot; idx++ {
					if !env.mine(idx) {
						continue
					}
					h := make([]int, dHandler)
					v := idx
					for i := dHandler - 1; i >= 0; i-- {
						h[i] = v % n
						v /= n
					}
					r := c01Exec(alpha, token, sc, kind, h, rep)
					report(token, sc, kind, h, r)
				}
				// the canonical full history and each one-step deviation from it
				good := c01Good(alpha, token)
				for pos := 0; pos <= len(good); pos++ {
					for si := -1; si < n; si++ {
						if si == -1 && pos > 0 {
							continue
						}
						if !env.mine(pos*n + si + 1) {
							continue
						}
						h := append([]int{}, good[:pos]...)
						if si >= 0 {
							h = append(h, si)
							h = append(h, good[pos:]...)
						}
						r := c01Exec(alpha, token, sc, kind, h, rep)
						report(token, sc, kind, h, r)
						if si == -1 {
							rep.sample(map[string]any{"transport": kind, "token": token, "history": histNames(alpha, h), "observations": r.obs})
						}
					}
				}
			}
		}
	}
	if env.Shard == 0 {
		c01DoubleIn(rep)
	}
	rd := 2
	if env.thorough() {
		rd = 3
	}
	rep.add("reuse_cases", int64(c01Reuse(env, rep, alpha, rd)))
	rep.add("pipelined_cases", int64(c01Burst(env, rep, alpha)))
	if gwBin() != "" && env.Shard == 0 {
		bindCore(rep, "C01")
	}
	if gwBin() != "" {
		bindCaps(rep, "C01", env)
	}
	rep.add("states", int64(len(states)))
}

func histNames(alpha []sym, h []int) []string {
	out := make([]string, len(h))
	for i, x := range h {
		out[i] = alpha[x].Name
	}
	return out
}

func c01Good(alpha []sym, token bool) []int {
	want := []string{"HSpaa", "TCok", "TAname", "CCa", "DATA", "DATA", "CLOSE"}
	if !token {
		want = []string{"HS0", "TCnone", "TAname", "CCa", "DATA", "DATA", "CLOSE"}
	}
	var out []int
	for _, w := range want {
		for i, s := range alpha {
			if s.Name == w {
				out = append(out, i)
			}
		}
	}
	return out
}

func c01Replay(env *Env, rep *Report, alpha []sym) {
	rp := env.Replay
	var hist []int
	hs, _ := rp["history"].([]any)
	for _, x := range hs {
		for i, s := range alpha {
			if s.Name == x {
				hist = append(hist, i)
			}
		}
	}
	token, _ := rp["token"].(bool)
	sc, _ := rp["sc"].(bool)
	kind, _ := rp["kind"].(string)
	r := c01Exec(alpha, token, sc, kind, hist, rep)
	b, _ := json.MarshalIndent(map[string]any{"history": histNames(alpha, hist), "observations": r.obs, "keys": r.key, "violations": r.viols}, "", " ")
	fmt.Println(string(b))
	sort.Strings(r.viols)
	for _, v := range r.viols {
		sig := "C01/" + v
		if kind != "proc" {
			sig += "/" + kind
		}
		rep.violate(sig, "replay", rp)
	}
}
