package main

import (
	"fmt"
	"context"
	"crypto/rand"
	"encoding/json"
	"net/http"
	"net/http/httptest"
	"net/url"
	"os"
	"strings"
	"time"

	"github.com/coreos/go-oidc/v3/oidc"
	jose "github.com/go-jose/go-jose/v4"
	"github.com/gorilla/mux"

	"github.com/bolkedebruin/rdpgw/cmd/rdpgw/identity"
	"github.com/bolkedebruin/rdpgw/cmd/rdpgw/security"
	"github.com/bolkedebruin/rdpgw/cmd/rdpgw/web"
)

// WebApp is the OpenID part of the router of cmd/rdpgw/main.go, built from the
// same exported pieces in the same order: EnrichContext on every route,
// /connect behind Authenticated, /callback, /tokeninfo, plus /whoami, a harness
// route that dumps the identity EnrichContext restored.
type WebApp struct {
	Router *mux.Router
	OIDC   *web.OIDC
	IdP    *IdP
}

// WebCfg is the slice of the configuration that reaches the web handlers.
type WebCfg struct {
	Store          string // cookie | file
	HostSelection  string
	Hosts          []string
	QueryIssuer    string
	SplitUser      bool
	UserTemplate   string
	NoUsername     bool
	EnableUserTok  bool
	SessionKey     string
	SessionEncKey  string
	VerifyClientIP bool
	TemplateFile   string // Client.Defaults: an .rdp template the downloads start from
}

func init() {
	// the file session store writes to os.TempDir(): keep it inside the build directory
	if d := os.Getenv("VERIF_BUILD_DIR"); d != "" {
		// one directory per worker process: C13's orphaned-session case deletes session files,
		// which must never be those of another shard
		t := fmt.Sprintf("%s/tmp/p%d", d, os.Getpid())
		os.MkdirAll(t, 0o755)
		os.Setenv("TMPDIR", t)
	}
}

func NewWebApp(c WebCfg) *WebApp {
	idp := InstallIdP()
	if c.SessionKey == "" {
		c.SessionKey = "sessionkey-sessionkey-sessionkey"
	}
	if c.SessionEncKey == "" {
		c.SessionEncKey = "encrypt-encrypt-encrypt-encrypt-"
	}
	web.InitStore([]byte(c.SessionKey), []byte(c.SessionEncKey), c.Store, 0)
	security.SigningKey = []byte(c02Key)
	security.QuerySigningKey = []byte("query-key-query-key-query-key-32")
	security.UserEncryptionKey = []byte(c15Enc)
	security.UserSigningKey = nil
	security.HostSelection = c.HostSelection
	security.Hosts = c.Hosts
	security.VerifyClientIP = c.VerifyClientIP
	gwURL, _ := url.Parse("//gw.example:443")
	gwURL.Scheme = "https"
	gwURL.Path = "callback"
	w := &web.Config{
		QueryInfo:        security.QueryInfo,
		QueryTokenIssuer: c.QueryIssuer,
		EnableUserToken:  c.EnableUserTok,
		Hosts:            c.Hosts,
		HostSelection:    c.HostSelection,
		RdpOpts:          web.RdpOpts{UsernameTemplate: c.UserTemplate, SplitUserDomain: c.SplitUser, NoUsername: c.NoUsername},
		GatewayAddress:   gwURL,
		TemplateFile:     c.TemplateFile,
	}
	w.PAATokenGenerator = security.GeneratePAAToken
	if c.EnableUserTok {
		w.UserTokenGenerator = security.GenerateUserToken
	}
	h := w.NewHandler()
	verifier := security.OIDCProvider.Verifier(&oidc.Config{ClientID: "rdpgw"})
	oc := security.Oauth2Config
	o := (&web.OIDCConfig{OAuth2Config: &oc, OIDCTokenVerifier: verifier}).New()
	r := mux.NewRouter()
	r.Use(web.EnrichContext)
	r.HandleFunc("/tokeninfo", web.TokenInfo)
	r.Handle("/connect", o.Authenticated(http.HandlerFunc(h.HandleDownload)))
	r.HandleFunc("/callback", o.HandleCallback)
	r.HandleFunc("/whoami", func(w http.ResponseWriter, r *http.Request) {
		id := identity.FromRequestCtx(r)
		at, _ := id.GetAttribute(identity.AttrAccessToken).(string)
		json.NewEncoder(w).Encode(map[string]any{"user": id.UserName(), "authenticated": id.Authenticated(), "session": id.SessionId(),
			"access_token": at, "auth_time": id.AuthTime().UnixNano(), "domain": id.Domain(), "email": id.Email(), "display": id.DisplayName()})
	})
	// harness routes: store an identity whose every field carries a distinct value / report every field of the
	// identity the middleware restored
	r.HandleFunc("/verif-set", func(w http.ResponseWriter, r *http.Request) {
		id := identity.FromRequestCtx(r)
		q := r.URL.Query()
		id.SetUserName(q.Get("user"))
		id.SetDisplayName("Display " + q.Get("user"))
		id.SetDomain("dom-" + q.Get("user"))
		id.SetEmail(q.Get("user") + "@mail.example")
		id.SetAuthenticated(q.Get("auth") == "1")
		id.SetAuthTime(time.Unix(1700000000, 0).UTC())
		id.SetExpiry(time.Unix(1700003600, 0).UTC())
		id.SetAttribute("custom", "value-"+q.Get("user"))
		id.SetAttribute("list", []string{"10.1.1.1", "10.2.2.2"})
		id.SetAttribute("num", int64(7))
		id.SetAttribute("raw", "J\xfcrgen") // not valid UTF-8: bytes, not text
		id.SetAttribute(identity.AttrAccessToken, "at-"+q.Get("user"))
		if err := web.SaveSessionIdentity(r, w, id); err != nil {
			w.WriteHeader(500)
		}
	})
	r.HandleFunc("/verif-get", func(w http.ResponseWriter, r *http.Request) {
		id := identity.FromRequestCtx(r)
		custom, _ := id.GetAttribute("custom").(string)
		at, _ := id.GetAttribute(identity.AttrAccessToken).(string)
		typed := func(k string) string { return fmt.Sprintf("%T|%x", id.GetAttribute(k), fmt.Sprint(id.GetAttribute(k))) }
		json.NewEncoder(w).Encode(map[string]any{"list": typed("list"), "num": typed("num"), "raw": typed("raw"), "user_hex": fmt.Sprintf("%x", id.UserName()), "user": id.UserName(), "display": id.DisplayName(), "domain": id.Domain(), "email": id.Email(), "authenticated": id.Authenticated(),
			"auth_time": id.AuthTime().Unix(), "expiry": id.Expiry().Unix(), "custom": custom, "access_token": at, "session": id.SessionId()})
	})
	return &WebApp{Router: r, OIDC: o, IdP: idp}
}

// Browser is a cookie jar plus the address it connects from.
type Browser struct {
	Cookies map[string]string
	Peer    string
	XFF     string
}

func NewBrowser(peer string) *Browser { return &Browser{Cookies: map[string]string{}, Peer: peer} }

// Do performs one request through the router and applies Set-Cookie.
func (b *Browser) Do(app *WebApp, method, target string) *httptest.ResponseRecorder {
	r := httptest.NewRequest(method, "https://gw.example"+target, nil)
	r.RemoteAddr = b.Peer
	r.RequestURI = target
	if b.XFF != "" {
		r.Header.Set("X-Forwarded-For", b.XFF)
	}
	for k, v := range b.Cookies {
		r.AddCookie(&http.Cookie{Name: k, Value: v})
	}
	rec := httptest.NewRecorder()
	func() {
		defer func() {
			if x := recover(); x != nil {
				rec.Code = 599
				rec.Body.WriteString("PANIC: ")
				rec.Body.WriteString(strings.ReplaceAll(strings.TrimSpace(sprint(x)), "\n", " "))
			}
		}()
		app.Router.ServeHTTP(rec, r)
	}()
	for _, c := range rec.Result().Cookies() {
		if c.MaxAge < 0 {
			delete(b.Cookies, c.Name)
		} else {
			b.Cookies[c.Name] = c.Value
		}
	}
	return rec
}

func sprint(x any) string {
	if e, ok := x.(error); ok {
		return e.Error()
	}
	if s, ok := x.(string); ok {
		return s
	}
	b, _ := json.Marshal(x)
	return string(b)
}

// IDToken signs an ID token with the IdP key (or another key).
func (p *IdP) IDToken(claims map[string]any, wrongKey bool) string {
	key := p.Key
	if wrongKey {
		if otherRSA == nil {
			otherRSA = mustRSA()
		}
		key = otherRSA
	}
	sg, err := jose.NewSigner(jose.SigningKey{Algorithm: jose.RS256, Key: jose.JSONWebKey{Key: key, KeyID: "k1", Algorithm: "RS256"}}, nil)
	if err != nil {
		infra("signer: %v", err)
	}
	b, _ := json.Marshal(claims)
	o, err := sg.Sign(b)
	if err != nil {
		infra("sign: %v", err)
	}
	s, _ := o.CompactSerialize()
	return s
}

// StateOf extracts the state parameter of a redirect to the IdP.
func StateOf(rec *httptest.ResponseRecorder) string {
	loc := rec.Header().Get("Location")
	u, err := url.Parse(loc)
	if err != nil {
		return ""
	}
	return u.Query().Get("state")
}

var _ = context.Background
var _ = rand.Reader
var _ = time.Now
