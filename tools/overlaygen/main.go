// overlaygen reads the current working tree of the repository and writes, for
// the packages whose goroutines / dials / locks are explored, a mechanically
// rewritten copy of every non-test Go file plus an overlay.json for
// `go build -overlay`. The repository itself is never modified.
//
// Rewrites (text patches at AST positions, each kept on its original line so
// that line numbers in stacks and race reports match the real source):
//
//	import "net"   -> net  "verif/shim/vnet"   (Dial/DialTimeout consult the harness; all else aliases net)
//	import "sync"  -> sync "verif/shim/vsync"  (locks are scheduling points)
//	import "math/rand" -> rand "verif/shim/vrand" in cmd/rdpgw/web (round-robin pick becomes a harness input)
//	import "time"  -> time "verif/shim/vtime" in cmd/rdpgw/security (token expiry follows the harness clock)
//	go f(a, b)     -> { vF, v0, v1 := f, a, b; vsched.Go("f", func() { vF(v0, v1) }) }
//	ch <- v        -> vsched.ChanSend(ch, v)
//	<-ch           -> vsched.ChanRecv(ch)
//	stmt           -> vsched.Yield("file.go:line"); stmt   in web, security, identity, rdp ("fine" rule: a
//	                  statement-level scheduling point, active only in scenarios that set vsched.Fine)
//
//	v, ok := <-ch  -> vsched.ChanRecv2(ch);  close(ch) -> vsched.ChanClose(ch)
//	select { ... } -> a block that registers one case object per communication clause, asks the scheduler
//	                  which clause proceeds (vsched.Select) and switches on the answer
//	for v := range ch { -> for { v, ok := vsched.ChanRecv2(ch); if !ok { break }; ...  (the repository's packages
//	                  are type-checked against the export data of their dependencies to find the loops over channels)
package main

import (
	"encoding/json"
	"flag"
	"fmt"
	"go/ast"
	"go/importer"
	"go/parser"
	"go/token"
	"go/types"
	"io"
	"os"
	"os/exec"
	"path/filepath"
	"sort"
	"strings"
)

type rules struct{ net, sync, gostmt, chans, rand, time, fine, hook bool }

var pkgs = map[string]rules{
	"cmd/rdpgw/protocol":  {net: true, sync: true, gostmt: true, chans: true, time: true},
	"cmd/rdpgw/kdcproxy":  {net: true, sync: true, gostmt: true, chans: true, time: true},
	"cmd/rdpgw/transport": {sync: true, gostmt: true, chans: true, time: true},
	"cmd/rdpgw/web":       {rand: true, fine: true, sync: true, gostmt: true, chans: true},
	"cmd/rdpgw/security":  {time: true, fine: true, sync: true, gostmt: true, chans: true},
	"cmd/rdpgw/identity":  {fine: true, sync: true, gostmt: true, chans: true},
	"cmd/rdpgw/rdp":       {fine: true, sync: true, gostmt: true, chans: true},
	"cmd/auth/ntlm":       {fine: true, sync: true, gostmt: true, chans: true, time: true},
}

func die(format string, a ...any) {
	fmt.Fprintf(os.Stderr, "overlaygen: "+format+"\n", a...)
	os.Exit(2)
}

type edit struct {
	start, end int
	text       string
}

func main() {
	repo := flag.String("repo", "/repo", "repository root")
	out := flag.String("out", "/verif/.build/overlay", "output directory")
	flag.Parse()
	if err := os.MkdirAll(*out, 0o755); err != nil {
		die("%v", err)
	}
	replace := map[string]string{}
	var dirs []string
	for d := range pkgs {
		dirs = append(dirs, d)
	}
	sort.Strings(dirs)
	for _, d := range dirs {
		r := pkgs[d]
		ents, err := os.ReadDir(filepath.Join(*repo, d))
		if err != nil {
			die("package directory %s: %v", d, err)
		}
		if r.chans {
			chanRanges = chanRangeLoops(*repo, d)
		} else {
			chanRanges = nil
		}
		for _, e := range ents {
			n := e.Name()
			if e.IsDir() || !strings.HasSuffix(n, ".go") || strings.HasSuffix(n, "_test.go") {
				continue
			}
			src := filepath.Join(*repo, d, n)
			b, err := os.ReadFile(src)
			if err != nil {
				die("%v", err)
			}
			nb, changed := rewrite(src, b, r)
			if !changed {
				continue
			}
			dst := filepath.Join(*out, strings.ReplaceAll(d, "/", "_")+"_"+n)
			if err := os.WriteFile(dst, nb, 0o644); err != nil {
				die("%v", err)
			}
			replace[src] = dst
		}
	}
	// gorilla/websocket guards its writes with a one-slot channel used as a mutex; a goroutine waiting for it
	// blocks in the Go runtime, outside the controlled scheduler. Its three uses become scheduling points.
	gorillaMutex(*repo, *out, replace)
	// helper packages of golang.org/x/sync block in sync primitives of their own: inside a controlled execution
	// they have to block as threads of the execution
	syncHookPackage(*out, replace, "golang.org/x/sync", "singleflight")
	j, _ := json.MarshalIndent(map[string]any{"Replace": replace}, "", " ")
	if err := os.WriteFile(filepath.Join(*out, "overlay.json"), j, 0o644); err != nil {
		die("%v", err)
	}
	fmt.Printf("overlaygen: %d files rewritten\n", len(replace))
}

// chanRanges: per file, the offsets of the `for` keyword of range loops over channels (from the type check).
var chanRanges map[string]map[int]bool

// chanRangeLoops type-checks one package of the repository (against the export data of its dependencies, as
// `go list -export` provides it) and returns the range loops whose operand is a channel.
func chanRangeLoops(repo, dir string) map[string]map[int]bool {
	out := map[string]map[int]bool{}
	run := func(args ...string) string {
		cmd := exec.Command("go", args...)
		cmd.Dir = repo
		b, err := cmd.Output()
		if err != nil {
			return ""
		}
		return string(b)
	}
	files := strings.Fields(run("list", "-tags", "verif", "-f", `{{join .GoFiles " "}}`, "./"+dir))
	if len(files) == 0 {
		return out
	}
	// only packages that have a range statement at all need the type check
	fset := token.NewFileSet()
	var parsed []*ast.File
	any := false
	for _, f := range files {
		pf, err := parser.ParseFile(fset, filepath.Join(repo, dir, f), nil, parser.SkipObjectResolution)
		if err != nil {
			return out
		}
		parsed = append(parsed, pf)
		ast.Inspect(pf, func(n ast.Node) bool {
			if _, ok := n.(*ast.RangeStmt); ok {
				any = true
			}
			return true
		})
	}
	if !any {
		return out
	}
	exports := map[string]string{}
	for _, l := range strings.Split(run("list", "-tags", "verif", "-export", "-deps", "-f", "{{.ImportPath}}={{.Export}}", "./"+dir), "\n") {
		if i := strings.IndexByte(l, '='); i > 0 && l[i+1:] != "" {
			exports[l[:i]] = l[i+1:]
		}
	}
	imp := importer.ForCompiler(fset, "gc", func(path string) (io.ReadCloser, error) {
		f, ok := exports[path]
		if !ok {
			return nil, fmt.Errorf("no export data for %s", path)
		}
		return os.Open(f)
	})
	info := &types.Info{Types: map[ast.Expr]types.TypeAndValue{}}
	conf := types.Config{Importer: imp, Error: func(error) {}}
	conf.Check(dir, fset, parsed, info)
	for _, pf := range parsed {
		ast.Inspect(pf, func(n ast.Node) bool {
			rs, ok := n.(*ast.RangeStmt)
			if !ok {
				return true
			}
			if tv, ok := info.Types[rs.X]; ok && tv.Type != nil {
				if _, isChan := tv.Type.Underlying().(*types.Chan); isChan {
					pos := fset.Position(rs.For)
					if out[pos.Filename] == nil {
						out[pos.Filename] = map[int]bool{}
					}
					out[pos.Filename][pos.Offset] = true
				}
			}
			return true
		})
	}
	return out
}

// rangeLoops rewrites the loops over channels: the header `for v := range ch {` becomes
// `for { v, vsOk := vsched.ChanRecv2(ch); if !vsOk { break }; ` (same line).
func rangeLoops(name string, src []byte, at map[int]bool) []byte {
	fset := token.NewFileSet()
	f, err := parser.ParseFile(fset, name, src, parser.ParseComments|parser.SkipObjectResolution)
	if err != nil {
		die("parse %s: %v", name, err)
	}
	off := func(p token.Pos) int { return fset.Position(p).Offset }
	text := func(n ast.Node) string { return string(src[off(n.Pos()):off(n.End())]) }
	var eds []edit
	ast.Inspect(f, func(n ast.Node) bool {
		rs, ok := n.(*ast.RangeStmt)
		if !ok || !at[off(rs.For)] {
			return true
		}
		recv := fmt.Sprintf("vsched.ChanRecv2(%s)", text(rs.X))
		var hd string
		switch {
		case rs.Key == nil:
			hd = fmt.Sprintf("for { _, vsOk := %s; if !vsOk { break }; ", recv)
		case rs.Tok == token.DEFINE:
			hd = fmt.Sprintf("for { %s, vsOk := %s; if !vsOk { break }; _ = %s; ", text(rs.Key), recv, text(rs.Key))
		default:
			hd = fmt.Sprintf("for { vsV, vsOk := %s; if !vsOk { break }; %s = vsV; ", recv, text(rs.Key))
		}
		eds = append(eds, edit{off(rs.For), off(rs.Body.Lbrace) + 1, hd})
		return true
	})
	sort.Slice(eds, func(a, b int) bool { return eds[a].start > eds[b].start })
	out := append([]byte{}, src...)
	for _, e := range eds {
		out = append(append(append([]byte{}, out[:e.start]...), []byte(e.text)...), out[e.end:]...)
	}
	return out
}

// syncHookPackage rewrites one package of a dependency so that its mutexes, wait groups and go statements go
// through function variables the harness sets (a dependency cannot import the scheduler: it belongs to another
// module). The version is the one in the worker's build list.
func syncHookPackage(out string, replace map[string]string, module, sub string) {
	cmd := exec.Command("go", "list", "-m", "-f", "{{.Dir}}", module)
	cmd.Dir = "/verif"
	b, err := cmd.Output()
	dir := strings.TrimSpace(string(b))
	if err != nil || dir == "" {
		return
	}
	dir = filepath.Join(dir, sub)
	ents, err := os.ReadDir(dir)
	if err != nil {
		return
	}
	shimDone := false
	for _, e := range ents {
		n := e.Name()
		if e.IsDir() || !strings.HasSuffix(n, ".go") || strings.HasSuffix(n, "_test.go") {
			continue
		}
		src := filepath.Join(dir, n)
		b, err := os.ReadFile(src)
		if err != nil {
			die("%v", err)
		}
		t := string(b)
		if !strings.Contains(t, "sync.Mutex") && !strings.Contains(t, "sync.WaitGroup") && !strings.Contains(t, "\tgo ") {
			continue
		}
		t = strings.ReplaceAll(t, "sync.Mutex", "verifMutex")
		t = strings.ReplaceAll(t, "sync.WaitGroup", "verifWaitGroup")
		nb, _ := rewrite(src, []byte(t), rules{gostmt: true, hook: true})
		nb = append(nb, []byte("\nvar _ sync.Locker\n")...)
		if !shimDone {
			// (a file added to a module-cache package through the overlay is not seen by the go command: the
			// shim goes to the end of a file that exists)
			nb = append(nb, []byte(syncShim)...)
			shimDone = true
		}
		dst := filepath.Join(out, strings.NewReplacer("/", "_", ".", "_").Replace(module+"_"+sub)+"_"+n)
		if err := os.WriteFile(dst, nb, 0o644); err != nil {
			die("%v", err)
		}
		replace[src] = dst
	}
}

const syncShim = `
// VerifSync: set by the verification harness; nil functions mean the real primitives.
var VerifSync struct {
	Lock, Unlock func(key any)
	WgAdd        func(key any, d int)
	WgWait       func(key any)
	Go           func(name string, f func())
}

type verifMutex struct{ real sync.Mutex }

func (m *verifMutex) Lock() {
	if VerifSync.Lock != nil {
		VerifSync.Lock(m)
		return
	}
	m.real.Lock()
}

func (m *verifMutex) Unlock() {
	if VerifSync.Unlock != nil {
		VerifSync.Unlock(m)
		return
	}
	m.real.Unlock()
}

type verifWaitGroup struct{ real sync.WaitGroup }

func (w *verifWaitGroup) Add(d int) {
	if VerifSync.WgAdd != nil {
		VerifSync.WgAdd(w, d)
		return
	}
	w.real.Add(d)
}

func (w *verifWaitGroup) Done() { w.Add(-1) }

func (w *verifWaitGroup) Wait() {
	if VerifSync.WgWait != nil {
		VerifSync.WgWait(w)
		return
	}
	w.real.Wait()
}

func verifGo(name string, f func()) {
	if VerifSync.Go != nil {
		VerifSync.Go(name, f)
		return
	}
	go f()
}
`

func modCache() string {
	cache := os.Getenv("GOMODCACHE")
	if cache == "" {
		gp := os.Getenv("GOPATH")
		if gp == "" {
			home, _ := os.UserHomeDir()
			gp = filepath.Join(home, "go")
		}
		cache = filepath.Join(gp, "pkg", "mod")
	}
	return cache
}

// modulePackages rewrites packages of a dependency (when the repository's go.mod names the module).
func modulePackages(repo, out string, replace map[string]string, module string, subdirs []string, r rules) {
	gm, err := os.ReadFile(filepath.Join(repo, "go.mod"))
	if err != nil {
		die("%v", err)
	}
	ver := ""
	for _, l := range strings.Split(string(gm), "\n") {
		f := strings.Fields(l)
		if len(f) >= 2 && f[0] == module {
			ver = f[1]
		}
		if len(f) >= 3 && f[0] == "require" && f[1] == module {
			ver = f[2]
		}
	}
	if ver == "" {
		return
	}
	for _, sd := range subdirs {
		dir := filepath.Join(modCache(), module+"@"+ver, sd)
		ents, err := os.ReadDir(dir)
		if err != nil {
			continue
		}
		for _, e := range ents {
			n := e.Name()
			if e.IsDir() || !strings.HasSuffix(n, ".go") || strings.HasSuffix(n, "_test.go") {
				continue
			}
			src := filepath.Join(dir, n)
			b, err := os.ReadFile(src)
			if err != nil {
				die("%v", err)
			}
			nb, changed := rewrite(src, b, r)
			if !changed {
				continue
			}
			dst := filepath.Join(out, strings.NewReplacer("/", "_", ".", "_").Replace(module+"_"+sd)+"_"+n)
			if err := os.WriteFile(dst, nb, 0o644); err != nil {
				die("%v", err)
			}
			replace[src] = dst
		}
	}
}

func gorillaMutex(repo, out string, replace map[string]string) {
	gm, err := os.ReadFile(filepath.Join(repo, "go.mod"))
	if err != nil {
		die("%v", err)
	}
	ver := ""
	for _, l := range strings.Split(string(gm), "\n") {
		f := strings.Fields(l)
		if len(f) >= 2 && f[0] == "github.com/gorilla/websocket" {
			ver = f[1]
		}
	}
	if ver == "" {
		die("github.com/gorilla/websocket not found in go.mod")
	}
	cache := os.Getenv("GOMODCACHE")
	if cache == "" {
		gp := os.Getenv("GOPATH")
		if gp == "" {
			home, _ := os.UserHomeDir()
			gp = filepath.Join(home, "go")
		}
		cache = filepath.Join(gp, "pkg", "mod")
	}
	src := filepath.Join(cache, "github.com", "gorilla", "websocket@"+ver, "conn.go")
	b, err := os.ReadFile(src)
	if err != nil {
		die("gorilla/websocket source: %v", err)
	}
	t := string(b)
	subst := [][2]string{
		{"\t<-c.mu\n\tdefer func() { c.mu <- struct{}{} }()\n\n\tc.writeErrMu.Lock()", "\tVerifMuLock(c.mu)\n\tdefer func() { VerifMuUnlock(c.mu) }()\n\n\tc.writeErrMu.Lock()"},
		{"\tselect {\n\tcase <-c.mu:\n\t\ttimer.Stop()\n\tcase <-timer.C:\n\t\treturn errWriteTimeout\n\t}\n\tdefer func() { c.mu <- struct{}{} }()", "\tVerifMuLock(c.mu); timer.Stop()\n\tdefer func() { VerifMuUnlock(c.mu) }()"},
	}
	for _, sb := range subst {
		if strings.Count(t, sb[0]) != 1 {
			die("gorilla/websocket %s conn.go does not have the expected write-mutex code (%q): adapt tools/overlaygen", ver, sb[0][:20])
		}
		t = strings.Replace(t, sb[0], sb[1], 1)
	}
	if strings.Contains(t, "<-c.mu") || strings.Contains(t, "c.mu <-") {
		die("gorilla/websocket %s conn.go has further uses of its write mutex: adapt tools/overlaygen", ver)
	}
	// the package cannot import the scheduler (another module): the harness installs the two functions
	t += "\n// VerifMuLock / VerifMuUnlock take and give back the write mutex (set by the verification harness).\nvar VerifMuLock = func(mu chan struct{}) { <-mu }\nvar VerifMuUnlock = func(mu chan struct{}) { mu <- struct{}{} }\n"
	dst := filepath.Join(out, "gorilla_websocket_conn.go")
	if err := os.WriteFile(dst, []byte(t), 0o644); err != nil {
		die("%v", err)
	}
	replace[src] = dst
}

var builtins = map[string]bool{"close": true, "panic": true, "print": true, "println": true, "delete": true, "copy": true, "append": true, "recover": true, "clear": true}

// rewrite applies one innermost edit at a time until nothing is left.
func rewrite(name string, src []byte, r rules) ([]byte, bool) {
	changed := false
	needSched := false
	fineDone := false
	if r.chans && len(chanRanges[name]) > 0 {
		src = rangeLoops(name, src, chanRanges[name])
		changed, needSched = true, true
	}
	for pass := 0; pass < 1000; pass++ {
		fset := token.NewFileSet()
		f, err := parser.ParseFile(fset, name, src, parser.ParseComments|parser.SkipObjectResolution)
		if err != nil {
			die("parse %s: %v", name, err)
		}
		off := func(p token.Pos) int { return fset.Position(p).Offset }
		text := func(n ast.Node) string { return string(src[off(n.Pos()):off(n.End())]) }
		var ed *edit
		// imports first
		for _, is := range f.Imports {
			switch is.Path.Value {
			case `"net"`:
				if r.net {
					alias := "net"
					if is.Name != nil {
						alias = is.Name.Name
					}
					ed = &edit{off(is.Pos()), off(is.End()), alias + ` "verif/shim/vnet"`}
				}
			case `"time"`:
				if r.time {
					alias := "time"
					if is.Name != nil {
						alias = is.Name.Name
					}
					ed = &edit{off(is.Pos()), off(is.End()), alias + ` "verif/shim/vtime"`}
				}
			case `"math/rand"`:
				if r.rand {
					alias := "rand"
					if is.Name != nil {
						alias = is.Name.Name
					}
					ed = &edit{off(is.Pos()), off(is.End()), alias + ` "verif/shim/vrand"`}
				}
			case `"sync"`:
				if r.sync {
					alias := "sync"
					if is.Name != nil {
						alias = is.Name.Name
					}
					ed = &edit{off(is.Pos()), off(is.End()), alias + ` "verif/shim/vsync"`}
				}
			}
			if ed != nil {
				break
			}
		}
		if ed == nil {
			// innermost rewritable node: the last one found in a pre-order walk
			// that contains no other candidate is found by preferring later,
			// smaller spans.
			var best ast.Node
			// receives in `v, ok := <-ch` form, and the communication statements of select clauses (rewritten
			// together with their select statement)
			commaOk := map[ast.Node]bool{}
			inComm := func(n ast.Node) bool { return false }
			var comms []ast.Node
			ast.Inspect(f, func(n ast.Node) bool {
				switch v := n.(type) {
				case *ast.AssignStmt:
					if len(v.Lhs) == 2 && len(v.Rhs) == 1 {
						if u, ok := unparen(v.Rhs[0]).(*ast.UnaryExpr); ok && u.Op == token.ARROW {
							commaOk[u] = true
						}
					}
				case *ast.ValueSpec:
					if len(v.Names) == 2 && len(v.Values) == 1 {
						if u, ok := unparen(v.Values[0]).(*ast.UnaryExpr); ok && u.Op == token.ARROW {
							commaOk[u] = true
						}
					}
				case *ast.CommClause:
					if v.Comm != nil {
						comms = append(comms, v.Comm)
					}
				}
				return true
			})
			inComm = func(n ast.Node) bool {
				for _, c := range comms {
					if contains(c, n) {
						return true
					}
				}
				return false
			}
			ast.Inspect(f, func(n ast.Node) bool {
				switch v := n.(type) {
				case *ast.SelectStmt:
					if r.chans {
						if best == nil || contains(best, v) {
							best = v
						}
					}
				case *ast.CallExpr:
					if id, ok := v.Fun.(*ast.Ident); ok && id.Name == "close" && len(v.Args) == 1 && r.chans {
						if best == nil || contains(best, v) {
							best = v
						}
					}
				case *ast.GoStmt:
					if r.gostmt {
						if best == nil || contains(best, v) {
							best = v
						}
					}
				case *ast.SendStmt:
					if r.chans && !inComm(v) {
						if best == nil || contains(best, v) {
							best = v
						}
					}
				case *ast.UnaryExpr:
					if r.chans && v.Op == token.ARROW && !inComm(v) {
						if best == nil || contains(best, v) {
							best = v
						}
					}
				}
				return true
			})
			if best != nil {
				switch v := best.(type) {
				case *ast.GoStmt:
					c := v.Call
					if id, ok := c.Fun.(*ast.Ident); ok && builtins[id.Name] {
						// go panic(e) and the like: the arguments are evaluated now, the builtin runs in the new thread
						var lhs, rhs, args []string
						for i, a := range c.Args {
							lhs = append(lhs, fmt.Sprintf("vsA%d", i))
							rhs = append(rhs, oneLine(text(a)))
							args = append(args, fmt.Sprintf("vsA%d", i))
						}
						pre := ""
						if len(lhs) > 0 {
							pre = strings.Join(lhs, ", ") + " := " + strings.Join(rhs, ", ") + "; "
						}
						ed = &edit{off(v.Pos()), off(v.End()), fmt.Sprintf("{ %s%s(%q, func() { %s(%s) }) }", pre, goFn(r), id.Name, id.Name, strings.Join(args, ", "))}
						needSched = !r.hook
						break
					}
					label := strings.Map(func(r rune) rune {
						if r == '\n' || r == '"' || r == '\\' || r == '\t' {
							return ' '
						}
						return r
					}, text(c.Fun))
					if len(label) > 24 {
						label = label[:24]
					}
					var lhs, rhs, args []string
					lhs = append(lhs, "vsF")
					rhs = append(rhs, oneLine(text(c.Fun)))
					for i, a := range c.Args {
						v := fmt.Sprintf("vsA%d", i)
						lhs = append(lhs, v)
						rhs = append(rhs, oneLine(text(a)))
						if i == len(c.Args)-1 && c.Ellipsis.IsValid() {
							v += "..."
						}
						args = append(args, v)
					}
					ed = &edit{off(v.Pos()), off(v.End()), fmt.Sprintf("{ %s := %s; %s(%q, func() { vsF(%s) }) }",
						strings.Join(lhs, ", "), strings.Join(rhs, ", "), goFn(r), label, strings.Join(args, ", "))}
					needSched = !r.hook
				case *ast.SendStmt:
					ed = &edit{off(v.Pos()), off(v.End()), fmt.Sprintf("vsched.ChanSend(%s, %s)", text(v.Chan), text(v.Value))}
					needSched = true
				case *ast.UnaryExpr:
					fn := "ChanRecv"
					if commaOk[v] {
						fn = "ChanRecv2"
					}
					ed = &edit{off(v.Pos()), off(v.End()), fmt.Sprintf("vsched.%s(%s)", fn, text(v.X))}
					needSched = true
				case *ast.CallExpr:
					ed = &edit{off(v.Pos()), off(v.End()), fmt.Sprintf("vsched.ChanClose(%s)", text(v.Args[0]))}
					needSched = true
				case *ast.SelectStmt:
					ed = &edit{off(v.Pos()), off(v.End()), selectText(name, fset, src, v)}
					needSched = true
				}
			}
		}
		if ed == nil && r.fine && !fineDone {
			fineDone = true
			if nsrc, n := insertYields(name, src); n > 0 {
				src = nsrc
				changed = true
				needSched = true
			}
			continue
		}
		if ed == nil {
			if needSched {
				// add the import on the package-clause line
				end := off(f.Name.End())
				src = append(append(append([]byte{}, src[:end]...), []byte(`; import vsched "verif/shim/vsched"`)...), src[end:]...)
			}
			return src, changed
		}
		src = append(append(append([]byte{}, src[:ed.start]...), []byte(ed.text)...), src[ed.end:]...)
		changed = true
	}
	die("%s: too many rewrite passes", name)
	return nil, false
}

// insertYields puts a statement-level scheduling point in front of every statement of every statement list
// inside function bodies (same line, so line numbers are preserved).
func insertYields(name string, src []byte) ([]byte, int) {
	fset := token.NewFileSet()
	f, err := parser.ParseFile(fset, name, src, parser.ParseComments|parser.SkipObjectResolution)
	if err != nil {
		die("parse %s: %v", name, err)
	}
	base := filepath.Base(name)
	var offs []int
	var lines []int
	add := func(list []ast.Stmt) {
		for _, st := range list {
			switch st.(type) {
			case *ast.LabeledStmt, *ast.CaseClause, *ast.CommClause:
				continue
			}
			p := fset.Position(st.Pos())
			offs = append(offs, p.Offset)
			lines = append(lines, p.Line)
		}
	}
	for _, d := range f.Decls {
		fd, ok := d.(*ast.FuncDecl)
		if !ok || fd.Body == nil || fd.Name.Name == "init" {
			continue
		}
		ast.Inspect(fd.Body, func(n ast.Node) bool {
			switch v := n.(type) {
			case *ast.BlockStmt:
				add(v.List)
			case *ast.CaseClause:
				add(v.Body)
			case *ast.CommClause:
				add(v.Body)
			}
			return true
		})
	}
	if len(offs) == 0 {
		return src, 0
	}
	// apply from the end so that earlier offsets stay valid
	idx := make([]int, len(offs))
	for i := range idx {
		idx[i] = i
	}
	sort.Slice(idx, func(a, b int) bool { return offs[idx[a]] > offs[idx[b]] })
	out := append([]byte{}, src...)
	for _, i := range idx {
		ins := []byte(fmt.Sprintf("vsched.Yield(\"%s:%d\"); ", base, lines[i]))
		out = append(out[:offs[i]], append(ins, out[offs[i]:]...)...)
	}
	return out, len(offs)
}

func goFn(r rules) string {
	if r.hook {
		return "verifGo"
	}
	return "vsched.Go"
}

func unparen(e ast.Expr) ast.Expr {
	for {
		p, ok := e.(*ast.ParenExpr)
		if !ok {
			return e
		}
		e = p.X
	}
}

// selectText turns a select statement into a block that registers one case object per communication clause,
// asks the scheduler which clause proceeds, and switches on the answer. Clause bodies are kept as they are.
func selectText(name string, fset *token.FileSet, src []byte, s *ast.SelectStmt) string {
	off := func(p token.Pos) int { return fset.Position(p).Offset }
	text := func(n ast.Node) string { return string(src[off(n.Pos()):off(n.End())]) }
	var decls, args, clauses []string
	hasDefault := false
	k := 0
	for _, c := range s.Body.List {
		cc := c.(*ast.CommClause)
		body := string(src[off(cc.Colon)+1 : off(cc.End())])
		if cc.Comm == nil {
			hasDefault = true
			clauses = append(clauses, "default:"+body)
			continue
		}
		v := fmt.Sprintf("vsC%d", k)
		bind := ""
		switch st := cc.Comm.(type) {
		case *ast.SendStmt:
			decls = append(decls, fmt.Sprintf("%s := vsched.SendCase(%s, %s)", v, text(st.Chan), text(st.Value)))
		case *ast.ExprStmt:
			u, ok := unparen(st.X).(*ast.UnaryExpr)
			if !ok || u.Op != token.ARROW {
				die("%s:%d: select clause not understood", name, fset.Position(cc.Pos()).Line)
			}
			decls = append(decls, fmt.Sprintf("%s := vsched.RecvCase(%s)", v, text(u.X)))
		case *ast.AssignStmt:
			u, ok := unparen(st.Rhs[0]).(*ast.UnaryExpr)
			if !ok || u.Op != token.ARROW || len(st.Rhs) != 1 {
				die("%s:%d: select clause not understood", name, fset.Position(cc.Pos()).Line)
			}
			decls = append(decls, fmt.Sprintf("%s := vsched.RecvCase(%s)", v, text(u.X)))
			var lhs []string
			for _, l := range st.Lhs {
				lhs = append(lhs, text(l))
			}
			rhs := v + ".Val"
			if len(lhs) == 2 {
				rhs += ", " + v + ".Ok"
			}
			bind = fmt.Sprintf(" %s %s %s;", strings.Join(lhs, ", "), st.Tok.String(), rhs)
		default:
			die("%s:%d: select clause not understood", name, fset.Position(cc.Pos()).Line)
		}
		args = append(args, v)
		clauses = append(clauses, fmt.Sprintf("case %d:%s%s", k, bind, body))
		k++
	}
	tail := ""
	if len(s.Body.List) > 0 {
		tail = string(src[off(s.Body.List[len(s.Body.List)-1].End()):off(s.Body.Rbrace)])
	}
	hd := "{ "
	for _, d := range decls {
		hd += d + "; "
	}
	if !hasDefault {
		// keeps the statement terminating where the select statement was (a select without default never falls through)
		clauses = append(clauses, "default: panic(\"select without a default clause fell through\")")
	}
	return hd + fmt.Sprintf("switch vsched.Select(%v%s) { ", hasDefault, strings.Join(append([]string{""}, args...), ", ")) + strings.Join(clauses, "\n") + tail + "} }"
}

func contains(outer, inner ast.Node) bool {
	return outer.Pos() <= inner.Pos() && inner.End() <= outer.End()
}

// oneLine is the identity unless the text spans lines, in which case the edit
// still compiles but later line numbers shift; func literals in go statements
// are the usual case and are left as they are.
func oneLine(s string) string { return s }
