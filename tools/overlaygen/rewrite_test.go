package main

import (
	"strings"
	"testing"
)

func TestSelectRewrite(t *testing.T) {
	src := `package p

import "sync"

var mu sync.Mutex

func f(a chan int, b chan<- string, done <-chan struct{}) int {
	go g(a)
	select {
	case v := <-a:
		return v
	case b <- "x":
		close(b)
	case _, ok := <-done:
		if !ok {
			break
		}
	default:
		return -1
	}
	v, ok := <-a
	if ok {
		a <- v
	}
	for {
		select {
		case <-done:
			return 0
		}
	}
}
`
	out, changed := rewrite("x.go", []byte(src), rules{chans: true, gostmt: true, sync: true})
	if !changed {
		t.Fatal("unchanged")
	}
	s := string(out)
	t.Log("\n" + s)
	for _, want := range []string{"vsched.Select(true, vsC0, vsC1, vsC2)", "vsched.ChanRecv2(a)", "vsched.ChanSend(a, v)", "vsched.ChanClose(b)", "vsched.Select(false, vsC0)", "v := vsC0.Val;", "_, ok := vsC2.Val, vsC2.Ok;"} {
		if !strings.Contains(s, want) {
			t.Errorf("missing %q", want)
		}
	}
}
