#!/usr/bin/env python3
"""Regenerates /verif/MANIFEST.json from the table below (hand-maintained)."""
import json, subprocess

HOOKS = []
for h in ["ec13311","79a2761"]:
    try:
        HOOKS.append(subprocess.check_output(["git","-C","/repo","rev-parse",h]).decode().strip())
    except Exception:
        HOOKS.append(h)

P = {}
def chk(pid, engine, technique, text, note, ref=None):
    P[pid] = dict(engine=engine, technique=technique, text=text, note=note, ref=ref or "DESIGN.md section 4 "+pid)

chk("C01","seqx",
 "explicit-state BFS over packet histories on the real Processor/handlers under a controlled scheduler; reference-monitor oracle",
 "Every packet history over a 31-symbol alphabet is explored on the real Processor to a fixpoint of a canonical state key (all histories modulo the key), cross-checked by an unmerged enumeration to depth 3 (quick) / 4 (thorough), and repeated over the real websocket and legacy handlers (depth 2/3 plus every one-step deviation from the canonical session); a reference monitor written from the property judges every step.",
 "Finite packet alphabet; table cookie checker at processor level (JWT path is C02's); one packet per transport read (segmentation is C08's); silent backend.")
chk("C08","seqx",
 "exhaustive enumeration of transport segmentations of fixed packet sessions against the real handlers; differential oracle",
 "Four packet sessions are delivered to the real websocket and legacy handlers under every one-cut, every (selected / all) two-cut segmentation, every coalescing of adjacent packets and coalescing plus one cut, paced and in bursts, plus unframeable streams; each run must behave exactly like the one-packet-per-read run.",
 "Segment = websocket message or HTTP chunk; legacy preamble awaited; finite set of sessions.")
chk("C09","vsched (race build)",
 "stateless DFS over thread schedules (iterative context bounding, preemption bound 2; deviation bound 2-3 for two-tunnel drivers) of the real handlers under a race-detector-invisible cooperative scheduler; race runtime + stream decoder + panic monitor per schedule",
 "All schedules up to the bound of 6 driver families (two tunnels registering/removing, traffic with close, traffic with protocol error, client drop while the host sends, legacy IN/OUT concurrently, negative idle timeout) on both transports run the real handlers in a -race build whose scheduler hand-off is invisible to the race runtime, so unsynchronised conflicting accesses are reported for every enumerated schedule.",
 "Bounded preemptions/deviations; 1-2 tunnels; the race runtime reports each racy stack pair once per process and keeps bounded shadow state; scheduling points are blocking operations, connection writes/closes, locks, spawns.")
chk("C11","vsched",
 "stateless DFS over thread schedules (preemption bound 1 quick / 3 thorough) of 92 end-of-tunnel scenarios on the real handlers; quiescent-state oracle",
 "For 8 end points x 4-6 causes x 2 transports every schedule up to the bound is run on the real handlers; at quiescence (no thread can step) the backend connection and every hijacked client connection must have been closed by the gateway, no gateway goroutine may be left, the registry must be empty and the gauges restored.",
 "'Bounded time' is judged at quiescence of the closed system; connections are unbounded in-memory pipes; known finding: legacy client dropping only the OUT connection.")

chk("C02","enum + seqx",
 "exhaustive enumeration of a constructed finite cookie alphabet (all single-character and single-bit mutations, truncations, re-signings, claim matrices, serialisations x IdP behaviours) against the real checker and Processor; three-valued reference oracle computed with crypto/hmac",
 "About 17 k cookie strings derived from a token minted by the real GeneratePAAToken are each presented to security.CheckPAACookie and (all non-mutation classes, every 7th mutation; thorough: all) through a TUNNEL_CREATE packet to the real Processor wired as main.go does, under five identity-provider behaviours; must-refuse strings must be refused with the cookie-denied status and end the tunnel, the minted token must be accepted.",
 "Finite alphabet derived from one specimen per run; IdP is a scripted RoundTripper behind the real go-oidc provider; expiry cases keep 10 s from the leeway boundary.")
chk("C03","enum",
 "exhaustive enumeration of the product host-selection mode x token auth x host list x user x ~90 derived channel requests on the real Processor with the real policy callbacks; reference policy oracle with an independent UTF-16 decoder; all dials observed by the network shim",
 "48 k cases: every combination of 6 modes, token auth off/on with each candidate token host, 4 host lists, 4 users and the requests derived from every list entry (exact, port and NUL variants, every prefix, extensions, other user's entry, IPv6 forms, surrogates, malformed length fields) is one execution of the real Processor; allowed requests must dial exactly the requested address, refused ones must get E_PROXY_RAP_ACCESSDENIED and no dial at all.",
 "Cookie acceptance simulated by a table checker that sets the tunnel fields as CheckPAACookie does; ASCII list entries; case variants unspecified.")
chk("C04","enum (handler level)",
 "exhaustive enumeration of all pairs of issuing/presenting client-address forms x verification switch x transport through the real EnrichContext, GeneratePAAToken, CheckPAACookie and CheckSession; reference client-address function",
 "All 31 x 31 pairs of address presentations (peer only, X-Forwarded-For chains, blanks, repeated header lines, IPv4/IPv6 spellings) x switch on/off x websocket/legacy: issuance through the real EnrichContext + GeneratePAAToken, use through EnrichContext + HandleGatewayProtocol; equal addresses must create the channel, a different IP must be denied without any dial.",
 "IdP honours the token; host policy allows the host; spellings of the same IP are unspecified.")
chk("C06","seqx + vsched",
 "exhaustive enumeration of payload-size / packet-split / lying-length-field cases on the real handlers (sequential) plus stateless DFS over schedules of both relay directions (preemption bound 2 quick / 4 thorough); byte-exact stream oracle",
 "Client data packets of 9 boundary sizes alone, in all ordered pairs (paced, burst, cut at 6 offsets) and triples, data packets whose length field lies, host writes of 5 sizes alone and in pairs, on both transports; plus every schedule (bound 2 quick, 4 thorough) of a tunnel carrying traffic in both directions at once. The host must receive exactly the declared payloads in order, the client exactly the host's bytes, every data packet well-formed.",
 "Streams bounded to 3 x 65535 bytes per direction; position-dependent byte patterns.")
chk("C07","vsched",
 "stateless DFS over schedules (deviation bound 2 quick / 3 thorough) of two or three concurrent tunnels on the real handlers; differential non-interference oracle against each tunnel run alone",
 "Two tunnels (thorough: also three) with distinct ids, users, token hosts, addresses and backends on ws+ws, ws+legacy, legacy+legacy, ending by close or drop: in every schedule up to the bound each tunnel's responses, client bytes, host bytes and dials must equal those of that tunnel run alone, and no tagged byte may cross; a legacy IN with a foreign id must not attach to an existing OUT.",
 "2-3 tunnels; deviation bounding; same-id reuse is outside the property's quantifier.")
chk("C10","enum/seqx + vsched",
 "exhaustive enumeration of constructed hostile-input alphabets (packets x phases x transports; NTLM messages; KDC-proxy bodies; HTTP requests against the real binary) with panic / liveness / wedge oracle",
 "(a) 2.9 k hostile packet inputs x 6 phases x 3 transports on the real Processor/handlers, each followed by a liveness probe from a second client; (c) ~1.9 k NTLM message shapes against the real verifier with and without a session; (d) ~120 KDC-proxy request shapes against the real handler; (b) HTTP-level inputs against the real rdpgw binary. No panic in any thread, other clients still served, no goroutine left, stated status codes for malformed KDC requests.",
 "Each hostile input is one transport read; finite alphabets of boundary values; PAM stubbed.")
chk("C14","seqx",
 "exhaustive enumeration of all operation histories up to depth 3-4 over two NTLM sessions against the real verifier, messages built by an independent NTLMv2 implementation; three-valued reference oracle, no state merging",
 "Every history up to depth 3 over a 39-operation alphabet and depth 2 over the full 255-operation alphabet (thorough: full alphabet depth 3, reduced depth 4) of negotiate / authenticate(claimed user, keying user+password, challenge) / garbage / clock operations on two sessions is run against a fresh real verifier; authentication without proof of the claimed user's configured password over the session's latest challenge is a violation, as is refusing the honest exchange.",
 "User database of four users; independent NTLMv2 client; histories are not merged because the verifier's hidden state is the subject.")
chk("C16","enum",
 "exhaustive enumeration of redirect-switch combinations x idle timeouts and of request outcomes (canonical prefix + any alphabet symbol) on the real Processor and handlers; independent decoder and reference policy/outcome oracle",
 "All 128 redirect-switch combinations x 19 boundary timeouts (+ every int16 for 2/8 combinations, + ws/legacy subset) and, for the 4 capability settings on 3 transports, every history 'canonical prefix of k packets + any of 31 symbols': every packet sent must be well-formed, typed as the response of the request it answers, carry status 0 iff the reference accepts, the MS-TSGU codes for capability / cookie / host denial, and the configured redirect word and timeout.",
 "Idle timeouts within int32; table cookie checker.")
chk("C17","enum",
 "exhaustive enumeration of all 65536 client capability values x 4 server settings (and all 65536 version pairs) on the real Processor; reference negotiation oracle",
 "For each of the 4 server settings every one of the 65536 client extended-auth values (thorough: x 3 version pairs) and all 65536 version byte pairs (thorough: for 6 client values) is one execution HANDSHAKE + TUNNEL_CREATE of the real Processor; success iff both empty or intersecting, advertised bits == enabled mechanisms, version echoed; failure => capability-mismatch status, tunnel ended, next packet unanswered.",
 "Processor level, one packet per read; a sample repeated over websocket and legacy.")
chk("C20","vsched",
 "exhaustive enumeration of KDC behaviour combinations (1-3 KDCs, UDP and TCP) x realms x payload sizes on the real handler with deadlines firing at quiescence, plus stateless DFS over schedules of handler, reply readers and KDC threads for the 1-2 KDC scenarios",
 "4.5 k scenarios: 1 KDC: 4 realms x 9 payload sizes x 3 UDP x 7 TCP behaviours; 2 and 3 KDCs: all behaviour combinations; each under the default schedule, the small ones under every schedule up to the bound. KDCs of the right realm receive exactly the embedded message, a complete reply from any connection yields 200 with exactly that reply wrapped, otherwise an error status; always an HTTP response, no goroutine left.",
 "Behaviours are assigned in dial order because gokrb5 randomises KDC order; deadlines fire only at quiescence; explicit DER tags.")

chk("C05","gwproc",
 "exhaustive enumeration of (authentication subset x method x Authorization shape) and NTLM message histories against the real rdpgw binary with a scripted authentication service; reference routing oracle",
 "The real binary is started once per startable authentication subset (11 configurations) behind a scripted auth service (password table for PAM, the real NTLM verifier); 6 methods x ~40 Authorization shapes plus NTLM type-1/type-3 histories on one and two connections are sent over real sockets: 401 with exactly one challenge per enabled scheme without Authorization, the handler reached iff credentials of an enabled scheme were confirmed, the tunnel carries the confirmed user (observed via which loopback backend the channel reaches), no panic in the log.",
 "PAM replaced by a table; Kerberos only negative (no forged ticket); real sockets with 10 s read deadlines; wrong-case scheme words and doubled Authorization lines unspecified.")
chk("C12","enum + seqx",
 "exhaustive enumeration of the product selection mode x host list x host parameter x user x IdP subject x splitting x template x session state x address form (round-robin pick enumerated through a controlled random source) through the real router pieces, followed by the tunnel round trip on the real handler; reference selection / claims oracle",
 "8.4 k cases (quick; thorough: the full product) through the real EnrichContext, Authenticated, HandleCallback and HandleDownload with a scripted IdP: no login => redirect and no token; login => well-formed file naming the configured gateway and a policy-conformant host, token MAC valid and claims exactly {host, session user, client address, IdP access token, issuer, exp<=5min}; then host and token are presented unmodified to the real tunnel path and must open the channel.",
 "Cookie session store; round-robin randomness replaced by an enumerated pick via the build overlay; known finding: placeholder host entries with an IdP subject different from the user-name claim.")
chk("C13","seqx + vsched",
 "exhaustive enumeration of browser histories (depth 3 cookie store / 2 file store; thorough 4 / 3) over a 47-operation alphabet against the real router pieces with a scripted IdP and a harness clock, all single-character mutations and truncations of a session cookie, identity contents, and every schedule (preemption bound 2) of two concurrent logins; reference session oracle",
 "Every history of /connect, /callback (state issued to this / the other browser / never / stale x 11 code behaviours) and clock jumps is run on the real EnrichContext, Authenticated, HandleCallback for both session stores and both browsers are observed after every step; altered, foreign and orphaned cookies never yield an authenticated session; stored identities are restored field by field; two concurrent logins keep their own identities in every schedule.",
 "State-store clock is the harness clock; securecookie's own lifetime uses real time; base64 spellings that decode to the same cookie bytes are the same cookie.")
chk("C15","enum",
 "exhaustive enumeration of a constructed token alphabet (all single-character mutations of the five JWE segments, truncations, segment counts, other keys / algorithms / issuers / expiries, plain JWTs, clock history) x key modes x user names against the real UserInfo / TokenInfo handler; three-valued oracle from an independent AES-CBC-HMAC and HS256 implementation",
 "About 35 k tokens per run in both key modes: 200 with sub == user only for must-accept tokens, 403 without any claim for must-refuse ones, 400 / 405 as stated, user name not readable from the token text, cross-mode tokens refused, expiry judged against the (harness-controlled) current time.",
 "The security package's time.Now follows the harness clock through the build overlay; expiry cases keep 10 s from the leeway boundary; non-canonical base64 of the same header bytes is unspecified.")
chk("C18","enum (child processes) + gwproc",
 "exhaustive enumeration of the configuration lattice through the real config.Load in child processes (3 k configurations x file / environment / both, key-length matrix loaded twice) and of start-up of the real binary (96-384 configurations), plus a two-instance cross-acceptance scenario with a real OpenID login",
 "Every combination of authentication subset (incl. the basic alias), TLS, host selection, query key, keytab, cookie auth and source is loaded by the real config.Load: refused exactly per the reference list, effective settings equal the given ones; keys absent or shorter than 32 characters are replaced by values that differ between two loads; the real binary exits non-zero before listening for refused configurations and listens otherwise; a session cookie and access token of one real instance with short keys are refused by a second one.",
 "Documented key capitalisation and RDPGW_SECTION__KEY environment names; keys longer than 32 characters outside the property; start-up observed for 20 s.")
chk("C19","enum",
 "exhaustive enumeration of single and pairwise setting deviations through the real builder/reader and download handler, of all strings of length <= 5 (thorough 6) over an 11-symbol alphabet against a reference parser, and of small setting maps through marshal/parse",
 "About 200 k cases: every single-field and (every 5th / all) two-field deviation of the ~60 settings is written by the real builder, checked against an independent line grammar and read back; every single-field template is served through the real HandleDownload and must keep non-default template settings except the gateway-controlled ones; the real parser must agree with a reference parser on every short string; parse(marshal(m)) == m for maps of 1-3 settings.",
 "String values without CR/LF and without leading/trailing blanks; lines up to 16 KiB; temporary files in the build directory.")

# what the seed rounds added to each check (DESIGN.md section 13); appended to the level text
EXTRA = {
 "C15": " Two introspection requests at once (two valid tokens; a valid and a foreign-key one; the same refused token twice after a valid one), statement-level points, one deviation, both key modes.",
 "C12": " Two logins at once then downloads, one file used by two tunnels and two files of one login at once.",
 "C08": " An outbound channel re-opened inside a packet (4 cut positions) and a client leaving right after its last packets, every schedule up to the bound incl. the choice among ready select clauses.",
 "C04": " A token of another address next to an own one, two tunnels at once; two downloads at once from different addresses (statement-level points).",
 "C01": " Also from non-initial gateway states: after an earlier legacy tunnel (same or another connection id; left open, closed, dropped) every history up to depth 2/3 on a websocket and a legacy connection, judged by a fresh monitor; a second RDG_IN_DATA with the same id at three points; and the sequence / cookie / capability wiring on the real rdpgw binary. Pipelining: the canonical history with one extra symbol at every position and every pair after each prefix, sent without waiting for the answers, must give the same answers, connections and relayed bytes. Two websockets presenting one connection identifier: what the second sends unauthorised reaches nobody's host.",
 "C02": " Minted lifetime for identities with every expiry; on the real binary the minted token must verify under the configured signing key, claims re-signed under that key are accepted and under the other configured secret refused. Two tunnels with real tokens at once (deviation bound 1/2, statement-level points in the security package, the provider's answer a scheduling point): a revoked second token of the same user / of another user next to an honoured one. Cookie expiry judged at the time of the tunnel request also when the client connected earlier (clock +3 / +7 / +30 min between handshake and tunnel request).",
 "C03": " Plus two-user histories on one gateway process, every schedule (deviation bound 2/3) of two tunnels whose real tokens are verified by the real CheckPAACookie at the same time (identity-provider round trip = scheduling point), and the host policy on the real binary per authentication scheme. Per-user host lists and two websockets with one connection identifier, two tunnels at once with real tokens (statement-level points in security).",
 "C05": " Two Basic requests in flight at once on the real binary: the authentication backend is gated by the harness, all six orders of {request i reaches the backend, backend answers i} for three pairs of principals; Kerberos positive and negative cases with tickets forged under the gateway's keytab. The same account twice at once (right / wrong password) with the gated backend; a second client while a tunnel of each scheme is open; client-announced user headers; the input list again with the session cookie of a completed OpenID login. A configuration with no mechanism the gateway knows: 401 without a challenge. After one NTLM type 1 message every sequence of two (thorough: three) authenticate messages over that challenge from {A right, B right, wrong password, unknown account, names A with B's proof, names B with A's proof}.",
 "C06": " Also: the client closing the channel while the host streams, and two tunnels whose hosts stream at once (two goroutines building packets). On the real binary over real sockets: 6 MiB client to host in 32 KiB data packets, then an orderly close, to a host that starts reading late. Data packets too short to hold their own length field.",
 "C07": " Also with real tokens and the real security callbacks, with connections that deliver one write per read, and with a scheduling point between a read's return and the reader's next step (5 kB packets read straight into the reader's buffer). 17 and 64 tunnels in lockstep with a barrier (one schedule each), a configured idle timeout, a silent accepted legacy client next to a full session. On the real binary with socket buffer sizes configured: tunnel A relays 12 MiB while tunnel B is set up; each side receives only its own bytes. Two users across the web side and the tunnel side of one process wired like main.go: every sequence of two (thorough: three) operations from {download, tunnel to the own host, tunnel asking for the other user's host, refused download} has the outcomes of a fresh process.",
 "C09": " Further drivers: connection-file download concurrent with channel creation (D7), two legacy tunnels back to back (D8), two tunnels with real tokens (D9), two browsers downloading from a gateway with an .rdp template (D10); sync.Pool is modelled.",
 "C10": " (g) a tour of the real binary under six authentication configurations: login, download, token introspection, every registered route, and a complete session over websocket and over the legacy transport with the callbacks as main() wires them; (e) every sequence of up to 3 requests x connection ids. Two writers on one client connection (relay and packet loop) with one/two preemptions, judged for panics; clients falling silent under a configured idle timeout with every timer of the gateway firing (virtual time); headers with bytes that are not UTF-8. (j) a packet kept incomplete over 10 / 200 / 2000 fragments: the reader's call-stack depth must not grow; panics leaving the NTLM verifier are recorded as the end of the authentication service.",
 "C11": " Also compound endings (outbound connection lost while the host keeps writing, then each ordinary ending on the inbound one), the client going away in the middle of a packet at 6 offsets, descriptor count of the real process around nine tunnels, and a watchdog that reports a goroutine spinning without reaching a scheduling point. Two tunnels ending together (9 scenarios, deviation bound 1/2); a tunnel ending while 16 / 64 others stay open, observed while they live.",
 "C13": " The same callbacks against the real binary (main()'s provider, verifier and oauth2 wiring) with a loopback IdP: state issued to this / another browser / never x the 11 code behaviours x both session stores. Two callbacks carrying one state at once (the provider's answer a scheduling point; singleflight modelled).",
 "C14": " Challenges include a zero-length one (what is left of a cleared challenge). Two sessions served at once: 12 scenarios (both negotiated, one negotiated, fresh service) with statement-level points in cmd/auth/ntlm and at the user database, one deviation. Clients that name a domain.",
 "C16": " Also 38 client capability words in TUNNEL_CREATE, every schedule of a host that talks at once and of a client that closes while the host streams, and the configuration -> wire mapping on the real binary.",
 "C17": " After a mismatch every connection of the tunnel must be closed by the gateway; capability settings on the real binary. Two handshakes at once with different versions and offers (8 scenarios, deviation bound 1/2).",
 "C18": " Includes Server.Authentication not configured at all (documented default).",
 "C19": " The output of the previous marshal call must be unchanged after the next one (aliasing). Two downloads at once (statement-level points, with and without template), and the first two downloads of a process at once (one process per execution).",
 "C20": " Binding: the real binary with a kerberos configuration and scripted KDCs on loopback TCP/UDP sockets (reply over TCP / UDP, silent, refusing, truncating; unknown realm; other methods; malformed bodies). Two requests at once (same realm, two realms, parent and child; replying, silent, refusing, half-replying KDCs), every schedule up to the deviation bound: each answered as if alone, a healthy answer never waits for a deadline. Child realm and unconfigured realm below a [domain_realm] suffix. The requests that are to be rejected (other methods, no length, over 128 KiB, invalid DER, trailing bytes, lying inner length): the status the property names and nothing sent to a KDC.",
}
for k, v in EXTRA.items():
    P[k]["text"] += v

def build():
    checks=[]
    for pid in sorted(P):
        p=P[pid]
        checks.append({"property_id":pid,"quick_cmd":"./check %s quick"%pid,"thorough_cmd":"./check %s thorough"%pid,
          "evidence_file":"/verif/evidence/%s.json"%pid,"replay_cmd_template":"./bin/verif replay {path}","engine":p["engine"],
          "level_claimed":{"category":"model_checking","text":p["text"],"design_ref":p["ref"]},"level_note":p["note"],"technique":p["technique"]})
    allp=["C%02d"%i for i in range(1,21)]
    na=[{"property_id":q,"reason":"check not built yet in this revision (planned bounded exhaustive formulation in DESIGN.md section 4)"} for q in allp if q not in P]
    m={"version":1,"setup_cmd":"./setup.sh",
     "hooks":{"guard":"verif (Go build tag)","enable":"go build -tags verif -overlay <overlay.json generated from /repo's working tree> (done by ./check)","baseline_off_cmd":"/verif/baseline_off.sh","source_commits":HOOKS,"add_only":True},
     "engines":[
       {"name":"vsched","path":"shim/vsched","serves_properties":sorted(P),"kind_free_text":"hand-written controlled scheduler (one thread at a time, hand-off invisible to the race detector) + stateless DFS with preemption / deviation bound, sharded over 16 processes"},
       {"name":"vnet/vsync","path":"shim","serves_properties":sorted(P),"kind_free_text":"in-memory connections, dial table, lock shims whose blocking operations are scheduling points"},
       {"name":"overlaygen","path":"tools/overlaygen","serves_properties":sorted(P),"kind_free_text":"regenerates a go build overlay from /repo's working tree on every check (net->vnet, sync->vsync, time->vtime, go statements -> vsched.Go, channel operations incl. close / range / select -> modelled channels, statement-level points)"},
       {"name":"worker","path":"worker","serves_properties":sorted(P),"kind_free_text":"per-property scenario drivers, reference oracles, independent MS-TSGU codec (internal/tsgu)"},
       {"name":"driver","path":"cmd/verif","serves_properties":sorted(P),"kind_free_text":"rebuilds, shards, merges, matches known_findings.json, replays violations 5x, writes evidence"}],
     "checks":checks,"not_applicable":na,
     "notes":"Every check rebuilds the worker from /repo's working tree through a generated build overlay with -tags verif. Known findings: /verif/known_findings.json. See DESIGN.md."}
    json.dump(m,open('/verif/MANIFEST.json','w'),indent=1)

if __name__=="__main__":
    build()
