#!/usr/bin/env python3
"""Regenerates /verif/MANIFEST.json from the table below (hand-maintained)."""
import json, subprocess

HOOKS = ["ec13311"]
try:
    HOOKS = [subprocess.check_output(["git","-C","/repo","rev-parse","ec13311"]).decode().strip()]
except Exception:
    pass

P = {}
def chk(pid, engine, technique, text, note, ref=None):
    P[pid] = dict(engine=engine, technique=technique, text=text, note=note, ref=ref or "DESIGN.md section 4 "+pid)

chk("C01","seqx",
 "explicit-state BFS over packet histories on the real Processor/handlers under a controlled scheduler; reference-monitor oracle",
 "Every packet history over a 31-symbol alphabet is explored on the real Processor to a fixpoint of a canonical state key (all histories modulo the key), cross-checked by an unmerged enumeration to depth 3 (quick) / 4 (thorough), and repeated over the real websocket and legacy handlers (depth 2/3 plus every one-step deviation from the canonical session); a reference monitor written from the property judges every step.",
 "Finite packet alphabet; table cookie checker at processor level (JWT path is C02's); one packet per transport read (segmentation is C08's); silent backend.")
chk("C08","seqx",
 "exhaustive enumeration of transport segmentations of fixed packet sessions against the real handlers; differential oracle",
 "Four packet sessions are delivered to the real websocket and legacy handlers under every one-cut, every (selected / all) two-cut segmentation, every coalescing of adjacent packets and coalescing plus one cut, paced and in bursts, plus unframeable streams; each run must behave exactly like the one-packet-per-read run.",
 "Segment = websocket message or HTTP chunk; legacy preamble awaited; finite set of sessions.")
chk("C09","vsched (race build)",
 "stateless DFS over thread schedules (iterative context bounding, preemption bound 2; deviation bound 2-3 for two-tunnel drivers) of the real handlers under a race-detector-invisible cooperative scheduler; race runtime + stream decoder + panic monitor per schedule",
 "All schedules up to the bound of 6 driver families (two tunnels registering/removing, traffic with close, traffic with protocol error, client drop while the host sends, legacy IN/OUT concurrently, negative idle timeout) on both transports run the real handlers in a -race build whose scheduler hand-off is invisible to the race runtime, so unsynchronised conflicting accesses are reported for every enumerated schedule.",
 "Bounded preemptions/deviations; 1-2 tunnels; the race runtime reports each racy stack pair once per process and keeps bounded shadow state; scheduling points are blocking operations, connection writes/closes, locks, spawns.")
chk("C11","vsched",
 "stateless DFS over thread schedules (preemption bound 1 quick / 2 thorough) of 80 end-of-tunnel scenarios on the real handlers; quiescent-state oracle",
 "For 8 end points x 4-6 causes x 2 transports every schedule up to the bound is run on the real handlers; at quiescence (no thread can step) the backend connection and every hijacked client connection must have been closed by the gateway, no gateway goroutine may be left, the registry must be empty and the gauges restored.",
 "'Bounded time' is judged at quiescence of the closed system; connections are unbounded in-memory pipes; known finding: legacy client dropping only the OUT connection.")

def build():
    checks=[]
    for pid in sorted(P):
        p=P[pid]
        checks.append({"property_id":pid,"quick_cmd":"./check %s quick"%pid,"thorough_cmd":"./check %s thorough"%pid,
          "evidence_file":"/verif/evidence/%s.json"%pid,"replay_cmd_template":"./bin/verif replay {path}","engine":p["engine"],
          "level_claimed":{"category":"model_checking","text":p["text"],"design_ref":p["ref"]},"level_note":p["note"],"technique":p["technique"]})
    allp=["C%02d"%i for i in range(1,21)]
    na=[{"property_id":q,"reason":"check not built yet in this revision (planned bounded exhaustive formulation in DESIGN.md section 4)"} for q in allp if q not in P]
    m={"version":1,"setup_cmd":"./setup.sh",
     "hooks":{"guard":"verif (Go build tag)","enable":"go build -tags verif -overlay <overlay.json generated from /repo's working tree> (done by ./check)","baseline_off_cmd":"/verif/baseline_off.sh","source_commits":HOOKS,"add_only":True},
     "engines":[
       {"name":"vsched","path":"shim/vsched","serves_properties":sorted(P),"kind_free_text":"hand-written controlled scheduler (one thread at a time, hand-off invisible to the race detector) + stateless DFS with preemption / deviation bound, sharded over 16 processes"},
       {"name":"vnet/vsync","path":"shim","serves_properties":sorted(P),"kind_free_text":"in-memory connections, dial table, lock shims whose blocking operations are scheduling points"},
       {"name":"overlaygen","path":"tools/overlaygen","serves_properties":sorted(P),"kind_free_text":"regenerates a go build overlay from /repo's working tree on every check (net->vnet, sync->vsync, go statements -> vsched.Go, channel ops)"},
       {"name":"worker","path":"worker","serves_properties":sorted(P),"kind_free_text":"per-property scenario drivers, reference oracles, independent MS-TSGU codec (internal/tsgu)"},
       {"name":"driver","path":"cmd/verif","serves_properties":sorted(P),"kind_free_text":"rebuilds, shards, merges, matches known_findings.json, replays violations 5x, writes evidence"}],
     "checks":checks,"not_applicable":na,
     "notes":"Every check rebuilds the worker from /repo's working tree through a generated build overlay with -tags verif. Known findings: /verif/known_findings.json. See DESIGN.md."}
    json.dump(m,open('/verif/MANIFEST.json','w'),indent=1)

if __name__=="__main__":
    build()
