#!/bin/bash
# usage: tools/seedcheck.sh <property> <seed dir with patch.diff + demo tests> <seed id> [extra checks...]
# 1. confirms in a scratch worktree that the change compiles, the existing tests pass, and the demo fails with / passes without it
# 2. applies it to /repo, runs the property's check (quick), reverts
# 3. stores everything under /verif/seeded/<seed id>/
set -u
P=$1; SRC=$2; ID=$3; shift 3
export GOFLAGS=-mod=mod GOPROXY=off GOSUMDB=off GOTOOLCHAIN=local
OUT=/verif/seeded/$ID; mkdir -p $OUT
WT=/tmp/wtv-$ID
git -C /repo worktree remove --force $WT >/dev/null 2>&1
git -C /repo worktree add -q --detach $WT HEAD || exit 2
pkgdir() { # map a test file to its package directory
  local pk=$(grep -m1 '^package ' "$1" | awk '{print $2}' | sed 's/_test$//')
  case $pk in
    protocol) echo cmd/rdpgw/protocol;; security) echo cmd/rdpgw/security;; web) echo cmd/rdpgw/web;; transport) echo cmd/rdpgw/transport;;
    kdcproxy) echo cmd/rdpgw/kdcproxy;; ntlm) echo cmd/auth/ntlm;; database) echo cmd/auth/database;; config) echo cmd/rdpgw/config;; identity) echo cmd/rdpgw/identity;; main) echo cmd/rdpgw;;
    rdp) if grep -q 'NewBuilder' "$1"; then echo cmd/rdpgw/rdp; elif grep -q 'Unmarshal\|Parser()' "$1"; then echo cmd/rdpgw/rdp/koanf/parsers/rdp; else echo cmd/rdpgw/rdp; fi;;
    *) echo "";;
  esac
}
run_demo() { # copies all demo test files, runs their tests per package, prints PASS/FAIL
  local res=PASS dirs="" copied=""
  for t in $SRC/*_test.go; do
    [ -f "$t" ] || continue
    local d=$(pkgdir "$t"); [ -n "$d" ] || { echo "UNKNOWNPKG"; return; }
    cp "$t" $WT/$d/; copied="$copied $WT/$d/$(basename $t)"
    case " $dirs " in *" $d "*) ;; *) dirs="$dirs $d";; esac
  done
  local flags=""; [ -z "${DEMO_NORACE:-}" ] && grep -q -i '"-race\|go test -race\| -race ' $SRC/meta.json 2>/dev/null && flags="-race"
  for d in $dirs; do
    local names=$(cat $SRC/*_test.go | grep -o '^func Test[A-Za-z0-9_]*' | sed 's/func //' | paste -sd'|')
    (cd $WT && timeout 900 go test $flags -vet=off -count=${DEMO_COUNT:-1} -run "^($names)\$" ./$d/ >>/tmp/demo-$ID.log 2>&1) || res=FAIL
  done
  rm -f $copied
  echo $res
}
cd $WT
WITHOUT=$(run_demo)
git apply $SRC/patch.diff || { echo "patch does not apply"; APPLY=no; }
BUILD=ok; go build ./cmd/rdpgw/... ./cmd/auth/ntlm/... >/tmp/build-$ID.log 2>&1 || BUILD=fail
TESTS=pass; go test -vet=off -count=1 ./cmd/rdpgw/... ./cmd/auth/ntlm/... ./cmd/auth/database/... ./shared/... >/tmp/tests-$ID.log 2>&1 || TESTS=fail
WITH=$(run_demo)
cd /verif
git -C /repo worktree remove --force $WT
# detection by the checks
DET=""
git -C /repo apply $SRC/patch.diff
for c in $P "$@"; do
  ./check $c quick > /tmp/det-$ID-$c.log 2>&1; rc=$?
  nv=$(grep -c '^VIOLATION' /tmp/det-$ID-$c.log)
  DET="$DET $c:exit=$rc:violations=$nv"
  grep '^VIOLATION' /tmp/det-$ID-$c.log | head -3 | cut -c1-400 > $OUT/detected-by-$c.txt
done
git -C /repo checkout -- .
git -C /repo status --short | grep -v '^??' | head -3
cp $SRC/patch.diff $OUT/; cp $SRC/*_test.go $OUT/ 2>/dev/null; cp $SRC/meta.json $OUT/agent-meta.json 2>/dev/null
python3 - <<PY
import json
try: am=json.load(open('$OUT/agent-meta.json'))
except Exception: am={}
json.dump({"property":"$P","breaks":am.get("summary",""),"needs":am.get("needs",""),
 "confirmed_by_me":{"builds":"$BUILD","existing_tests":"$TESTS","demo_without_change":"$WITHOUT","demo_with_change":"$WITH",
   "how":"scratch worktree of /repo HEAD: demo tests run before and after git apply patch.diff; go build ./cmd/rdpgw/... ./cmd/auth/ntlm/...; go test ./cmd/rdpgw/... ./cmd/auth/ntlm/... ./cmd/auth/database/... ./shared/..."},
 "checks_run":"$DET".split()},open('$OUT/meta.json','w'),indent=1)
PY
echo "$ID: build=$BUILD tests=$TESTS demo(without)=$WITHOUT demo(with)=$WITH detection:$DET"
